(* Properties/C09.v - Concurrent use is safe and responses are never mixed up (PARTIAL: the
   pool bookkeeping and the stream demultiplexing are proved for ALL interleavings of the
   model's lock regions; absence of data races and the agreement of the model's atomic steps
   with the Go code are OBSERVED by the harness under the race detector, not proved).
   Only statements, `exact`, Print Assumptions.  Models: Model/Pool.v (HTTP/1.1 pool),
   Model/Demux.v, Model/H2Pool.v (HTTP/2 connection cache + stream table), Model/H3Cache.v
   (HTTP/3 connection cache). *)
From Coq Require Import List ZArith.
From ReqV Require Import Lib.Bytes Model.Pool Model.Demux Model.H2Pool Model.H3Cache Model.Carried
  Proofs.PoolProofs Proofs.DemuxProofs Proofs.H2PoolProofs Proofs.H3CacheProofs
  Gen.C09Sync Proofs.C09SyncProofs Proofs.CarriedProofs.
Import ListNotations.

(* an HTTP/1.1 connection is handed to at most one request at a time, and is never in the idle
   pool while a request has it (delivered or in use) - after EVERY event sequence *)
Theorem C09_exclusive_ownership : forall cfg evs, let s := run cfg evs in
  (forall w1 w2 c b1 b2, wres s w1 = Some (c, b1) -> wres s w2 = Some (c, b2) -> w1 = w2) /\
  (forall w1 w2 c, wheld s w1 = Some c -> wheld s w2 = Some c -> w1 = w2) /\
  (forall w1 w2 c b, wres s w1 = Some (c, b) -> wheld s w2 <> Some c) /\
  (forall w c k, wheld s w = Some c \/ (exists b, wres s w = Some (c, b)) -> ~ In c (idle s k)).
Proof. exact exclusive_ownership. Qed.
Print Assumptions C09_exclusive_ownership.

Theorem C09_no_duplicate_idle : forall cfg evs, let s := run cfg evs in
  (forall k, NoDup (idle s k)) /\
  (forall k1 k2 c, In c (idle s k1) -> In c (idle s k2) -> k1 = k2) /\
  NoDup (lru s) /\ (forall k c, In c (idle s k) -> In c (lru s)).
Proof. exact no_duplicate_idle. Qed.
Print Assumptions C09_no_duplicate_idle.

(* it returns to the pool only after the previous response was fully consumed *)
Theorem C09_idle_only_after_full_read : forall cfg evs w r c, let s := run cfg evs in
  wheld s w = Some c ->
  let s' := step cfg s (EFinish w r) in
  ((exists k, In c (idle s' k)) \/ (exists w' b, wres s' w' = Some (c, b))) ->
  recycle_ok r = true /\ (r_has_body r = true -> r_body_eof r = true) /\ closed s c = false.
Proof. exact idle_only_after_full_read. Qed.
Print Assumptions C09_idle_only_after_full_read.

(* configured limits: idle per host <= MaxIdleConnsPerHost (default 2), idle in total (over any
   set of distinct hosts) <= MaxIdleConns *)
Theorem C09_idle_limits : forall cfg evs, let s := run cfg evs in
  (forall k, length (idle s k) <= idle_cap cfg) /\
  (forall ks, NoDup ks -> length (concat (map (idle s) ks)) <= length (lru s)) /\
  ((0 < max_idle cfg)%Z -> forall ks, NoDup ks ->
     (Z.of_nat (length (concat (map (idle s) ks))) <= max_idle cfg)%Z).
Proof. exact idle_limits. Qed.
Print Assumptions C09_idle_limits.

(* connsPerHost[k] <= MaxConnsPerHost, it equals dial goroutines holding a slot + live
   connections, and a getConn waits for a slot only while the host is at its limit *)
Theorem C09_per_host_limit : forall cfg evs, host_limited cfg = true -> let s := run cfg evs in
  forall k, (Z.of_nat (per_host s k) <= max_host cfg)%Z /\
            per_host s k = dialing_count s k + live_count s k /\
            (dial_wait s k <> [] -> Z.of_nat (per_host s k) = max_host cfg).
Proof. exact per_host_limit. Qed.
Print Assumptions C09_per_host_limit.

Theorem C09_per_host_unlimited : forall cfg evs, host_limited cfg = false -> let s := run cfg evs in
  forall k, per_host s k = 0 /\ dial_wait s k = [].
Proof. exact per_host_unlimited. Qed.
Print Assumptions C09_per_host_unlimited.

(* the "connCount underflow" panic, the "dup idle pconn" fatal and the "already in LRU" panic
   are unreachable *)
Theorem C09_count_never_underflows : forall cfg evs, panicked (run cfg evs) = false.
Proof. exact count_never_underflows. Qed.
Print Assumptions C09_count_never_underflows.

Theorem C09_delivered_conn_is_used_or_returned : forall cfg evs w c b, let s := run cfg evs in
  wres s w = Some (c, b) ->
  (let s1 := step cfg s (ERecv w) in wheld s1 w = Some c /\ wres s1 w = None /\ cloc s1 c = LHeld w) /\
  (let s2 := step cfg s (ECancel w) in wres s2 w = None /\ cloc s2 c = LLoose /\
     let s3 := step cfg s2 (EPutLoose c) in
     cloc s3 c = LIdle \/ (exists w', cloc s3 c = LChan w') \/ cloc s3 c = LDead).
Proof. exact delivered_conn_is_used_or_returned. Qed.
Print Assumptions C09_delivered_conn_is_used_or_returned.

(* soundness of the snapshot check run on the real pool by Model/C09Run.v *)
Theorem C09_reachable_snapshot_ok : forall cfg evs ks, NoDup ks ->
  snap_ok cfg (snapshot_of (run cfg evs) ks) = true.
Proof. exact reachable_snapshot_ok. Qed.
Print Assumptions C09_reachable_snapshot_ok.

(* multiplexed connections: for EVERY interleaving of the per-stream frame sequences on the
   wire, dispatch by stream id gives every open stream exactly its own sequence *)
Theorem C09_demux_any_interleaving : forall open f wire, Interleave f wire ->
  forall i, demux open wire i = if existsb (Nat.eqb i) open then f i else [].
Proof. exact demux_any_interleaving. Qed.
Print Assumptions C09_demux_any_interleaving.

Theorem C09_demux_independent : forall open wire i,
  demux open wire i = demux open (filter (fun fr => Nat.eqb (fst fr) i) wire) i.
Proof. exact demux_independent. Qed.
Print Assumptions C09_demux_independent.

(* ---------- HTTP/2: connection cache and stream table (Model/H2Pool.v) ---------- *)

(* stream ids of a connection are pairwise distinct, odd and below nextStreamID - after EVERY
   event sequence *)
Theorem C09_h2_stream_ids : forall evs c, let s := h2_run evs in
  NoDup (map fst (c_streams s c)) /\
  (forall sid r, In (sid, r) (c_streams s c) -> Nat.odd sid = true /\ sid < c_next s c) /\
  Nat.odd (c_next s c) = true /\ NoDup (c_hist s c).
Proof. exact h2_stream_ids. Qed.
Print Assumptions C09_h2_stream_ids.

(* a request owns stream sid of connection c iff cc.streams maps sid to it; no two requests own
   the same (connection, stream id) *)
Theorem C09_h2_stream_owner : forall evs, let s := h2_run evs in
  (forall r c sid, r_phase s r = ROpen c sid <-> In (sid, r) (c_streams s c)) /\
  (forall r1 r2 c sid, r_phase s r1 = ROpen c sid -> r_phase s r2 = ROpen c sid -> r1 = r2) /\
  (forall r c sid, r_phase s r = ROpen c sid -> stream_owner (c_streams s c) sid = Some r).
Proof. exact h2_stream_owner. Qed.
Print Assumptions C09_h2_stream_owner.

(* responses are never mixed up on a multiplexed connection: in every reachable state a DATA
   frame for (c, sid) reaches the request that owns that stream, and changes no other request *)
Theorem C09_h2_frame_to_owner_only : forall evs c sid p r, let s := h2_run evs in
  let s' := h2_step s (H2Frame c sid p) in
  (r_phase s r = ROpen c sid -> r_recv s' r = r_recv s r ++ [p]) /\
  (r_phase s r <> ROpen c sid -> r_recv s' r = r_recv s r).
Proof. exact h2_frame_to_owner_only. Qed.
Print Assumptions C09_h2_frame_to_owner_only.

Theorem C09_h2_recv_only_by_frames : forall s e r,
  (forall c sid p, e <> H2Frame c sid p) -> r < n_rid s -> r_recv (h2_step s e) r = r_recv s r.
Proof. exact h2_recv_only_by_frames. Qed.
Print Assumptions C09_h2_recv_only_by_frames.

(* a stream id is never used twice on a connection (so a late frame of a finished request can
   never be taken for a frame of a later one) *)
Theorem C09_h2_stream_id_fresh : forall evs r retry c sid, let s := h2_run evs in
  let s' := h2_step s (H2Open r retry) in
  r_phase s' r = ROpen c sid -> r_phase s r <> ROpen c sid ->
  sid = c_next s c /\ ~ In sid (c_hist s c) /\ (forall old, In old (c_hist s c) -> old < sid) /\
  In sid (c_hist s' c).
Proof. exact h2_stream_id_fresh. Qed.
Print Assumptions C09_h2_stream_id_fresh.

(* idle-connection closing running concurrently: closeIfIdle never closes a connection on
   which a request holds a reservation or an open stream *)
Theorem C09_h2_close_idle_safe : forall evs c, let s := h2_run evs in
  let s' := h2_step s H2CloseIdle in
  c_closed s c = false -> c_closed s' c = true ->
  forall r, r_phase s r <> RReserved c /\ (forall sid, r_phase s r <> ROpen c sid).
Proof. exact h2_close_idle_safe. Qed.
Print Assumptions C09_h2_close_idle_safe.

(* at most one dial in flight per authority *)
Theorem C09_h2_one_dial_per_key : forall evs cl1 cl2, let s := h2_run evs in
  cl1 < n_call s -> cl2 < n_call s -> call_res s cl1 = None -> call_res s cl2 = None ->
  call_key s cl1 = call_key s cl2 -> cl1 = cl2.
Proof. exact h2_one_dial_per_key. Qed.
Print Assumptions C09_h2_one_dial_per_key.

(* p.conns lists a connection at most once, under its own key, and never after MarkDead *)
Theorem C09_h2_pool_wellformed : forall evs k, let s := h2_run evs in
  NoDup (p_conns s k) /\
  (forall c, In c (p_conns s k) -> c_key s c = k /\ c_dead s c = false /\ c < n_cid s) /\
  (forall c, c_dead s c = true -> ~ In c (p_conns s k)).
Proof. exact h2_pool_wellformed. Qed.
Print Assumptions C09_h2_pool_wellformed.

(* streamsReserved counts exactly the requests between ReserveNewRequest and the start of
   their RoundTrip *)
Theorem C09_h2_reservations_accounted : forall evs c, let s := h2_run evs in
  c_reserved s c = length (c_resv s c) /\ NoDup (c_resv s c) /\
  (forall r, In r (c_resv s c) <-> r_phase s r = RReserved c).
Proof. exact h2_reservations_accounted. Qed.
Print Assumptions C09_h2_reservations_accounted.

(* open + reserved streams stay within the peer's MAX_CONCURRENT_STREAMS as long as the peer
   never lowered it (non-strict mode) *)
Theorem C09_h2_concurrency_limit : forall evs c, let s := h2_run evs in
  c_lowered s c = false -> length (c_streams s c) + c_reserved s c <= c_max s c.
Proof. exact h2_concurrency_limit. Qed.
Print Assumptions C09_h2_concurrency_limit.

(* forgetStreamID's panic "forgetting unknown stream id" is unreachable *)
Theorem C09_h2_never_panics : forall evs, h2_panicked (h2_run evs) = false.
Proof. exact h2_never_panics. Qed.
Print Assumptions C09_h2_never_panics.

(* soundness of the snapshot check run on the real HTTP/2 pool by Model/C09Run.v *)
Theorem C09_h2_reachable_snapshot_ok : forall evs ks, let s := h2_run evs in
  (forall c, c_lowered s c = false) -> h2snap_ok (h2snap_of s ks) = true.
Proof. exact h2_reachable_snapshot_ok. Qed.
Print Assumptions C09_h2_reachable_snapshot_ok.

(* ---------- HTTP/3: connection cache (Model/H3Cache.v) ---------- *)

(* useCount = number of requests holding the cached connection (never negative) *)
Theorem C09_h3_usecount : forall evs cl, let s := h3_run evs in
  cl_use s cl = Z.of_nat (length (cl_users s cl)) /\
  NoDup (cl_users s cl) /\
  (forall q, In q (cl_users s cl) <-> (q_phase s q = Q3Wait cl \/ q_phase s q = Q3Run cl)).
Proof. exact h3_usecount. Qed.
Print Assumptions C09_h3_usecount.

(* CloseIdleConnections closes a cached QUIC connection only when no request holds it *)
Theorem C09_h3_close_idle_safe : forall evs cl, let s := h3_run evs in
  let s' := h3_step s E3CloseIdle in
  cl_closed s cl = false -> cl_closed s' cl = true ->
  forall q, q_phase s q <> Q3Wait cl /\ q_phase s q <> Q3Run cl.
Proof. exact h3_close_idle_safe. Qed.
Print Assumptions C09_h3_close_idle_safe.

Theorem C09_h3_one_client_per_host : forall evs h1 h2 cl, let s := h3_run evs in
  clients s h1 = Some cl -> clients s h2 = Some cl -> h1 = h2.
Proof. exact h3_one_client_per_host. Qed.
Print Assumptions C09_h3_one_client_per_host.

Theorem C09_h3_reachable_snapshot_ok : forall evs hs n, let s := h3_run evs in
  (forall cl, length (cl_users s cl) <= n) ->
  h3snap_ok n (map (fun h => match clients s h with Some cl => cl_use s cl | None => 0%Z end) hs) = true.
Proof. exact h3_reachable_snapshot_ok. Qed.
Print Assumptions C09_h3_reachable_snapshot_ok.

(* ---------- tie to the source text (coq/Gen/C09Sync.v, regenerated by gosync on every run) ---------- *)

(* every critical section the models treat as one atomic step takes its mutex with an exclusive
   Lock in the Go source as it is now *)
Theorem C09_lock_regions_present : forall r, In r required_lock_sites -> In r go_lock_sites.
Proof. exact lock_regions_present. Qed.
Print Assumptions C09_lock_regions_present.

(* ... and the guards the models' transitions mirror (closeIfIdle's "no stream and no
   reservation", idleStateLocked, forgetStreamID's close-on-idle, the HTTP/3 useCount test, the
   HTTP/1.1 limits) are, as source text, the ones the models were written from *)
Theorem C09_guards_present : forall g, In g required_guards -> In g go_guards.
Proof. exact guards_present. Qed.
Print Assumptions C09_guards_present.

(* the interleaving "connection picked (GotConn) - CloseIdleConnections by another goroutine -
   writeRequest": the reservation keeps the connection open and the request opens its stream on it *)
Theorem C09_h2_reserved_survives_close_idle : forall evs r c retry, let s := h2_run evs in
  r_phase s r = RReserved c -> can_take (unreserve s c r) c = true ->
  let s' := h2_step (h2_step s H2CloseIdle) (H2Open r retry) in
  c_closed (h2_step s H2CloseIdle) c = c_closed s c /\
  r_phase s' r = ROpen c (c_next s c) /\ c_closed s' c = false.
Proof. exact h2_reserved_survives_close_idle. Qed.
Print Assumptions C09_h2_reserved_survives_close_idle.

(* the models' constants are the source's: initialMaxConcurrentStreams, default idle conns per
   host, first stream id and the id increment of addStreamLocked *)
Theorem C09_model_constants_agree :
  initial_max_concurrent = go_initialMaxConcurrentStreams /\
  default_max_idle_per_host = go_DefaultMaxIdleConnsPerHost /\
  c_next h2_init 0 = go_firstStreamID /\
  (forall s c, c_next (new_h2conn s c 0) c = go_firstStreamID) /\
  go_streamIDStep = 2.
Proof. exact model_constants_agree. Qed.
Print Assumptions C09_model_constants_agree.

(* ---------- state carried across exchanges / goroutines (Model/Carried.v) ---------- *)

(* an HTTP/1.1 connection that goes back to the pool after an "Expect: 100-continue" exchange
   carried the whole announced request body (so the origin, framing by Content-Length, is
   aligned for the next request) *)
Theorem C09_expect_recycle_complete : forall got100 rc qc other n r,
  r_alive r = alive_of rc qc other -> recycle_ok r = true ->
  body_written (expect_signal got100 rc qc) n = n.
Proof. exact expect_recycle_complete. Qed.
Print Assumptions C09_expect_recycle_complete.

Theorem C09_expect_always_skip_refuted :
  let sig := SigSkip in
  exists r n, r_alive r = alive_of false false true /\ recycle_ok r = true /\ body_written sig n <> n.
Proof. exact expect_always_skip_refuted. Qed.
Print Assumptions C09_expect_always_skip_refuted.

(* every request on a kept-alive connection is seen by the origin with its own body, for every
   sequence of requests that wrote as many body bytes as they announced *)
Theorem C09_request_framing_aligned : forall reqs : list wreq,
  (forall tag n b, In (tag, n, b) reqs -> length b = n) ->
  srv_parse (length reqs) (flat_map emit_req reqs) =
  map (fun r : wreq => let '(tag, n, b) := r in (tag, map WByte b)) reqs.
Proof. exact srv_parse_aligned. Qed.
Print Assumptions C09_request_framing_aligned.

(* HTTP/2: for every sequence of response header blocks on a connection (any fragmenting, any
   sizes around MaxHeaderListSize), whatever is delivered to a caller is what the sender
   encoded for that response - the HPACK dynamic table never falls behind while the connection
   is in use - and after a skipped (undecoded) fragment nothing is delivered any more *)
Theorem C09_h2_delivered_fields_are_the_senders : forall limit bs,
  outcomes_ok [] bs (hconn_run (hconn_step limit) hconn_init bs).
Proof. exact h2_delivered_fields_are_the_senders. Qed.
Print Assumptions C09_h2_delivered_fields_are_the_senders.

Theorem C09_h2_nothing_delivered_after_conn_error : forall limit bs s, hdead s = true ->
  Forall (fun o => o = HConnErr) (hconn_run (hconn_step limit) s bs).
Proof. exact h2_nothing_delivered_after_conn_error. Qed.
Print Assumptions C09_h2_nothing_delivered_after_conn_error.

Theorem C09_h2_skipping_refuted :
  let bs := [[(5, [HIns (7, 5)])]; [(100, [HIns (8, 5)])]; [(3, [HRef 0])]] in
  hconn_run (hconn_step_skipping 10) hconn_init bs = [HDelivered [(7, 5)]; HStreamErr; HDelivered [(7, 5)]] /\
  ~ outcomes_ok [] bs (hconn_run (hconn_step_skipping 10) hconn_init bs) /\
  hconn_run (hconn_step 10) hconn_init bs = [HDelivered [(7, 5)]; HConnErr; HConnErr].
Proof. exact h2_skipping_refuted. Qed.
Print Assumptions C09_h2_skipping_refuted.

(* asynchronous dump: for every interleaving of buffer reuse, DumpTo calls and dumper progress
   the output is what was handed over at the moment of each call *)
Theorem C09_async_dump_is_snapshot : forall evs, q_final evs = q_handed (fun _ => []) evs.
Proof. exact async_dump_is_snapshot. Qed.
Print Assumptions C09_async_dump_is_snapshot.

Theorem C09_async_dump_stream_intact : forall chunks,
  concat (q_final (async_dump_events chunks)) = concat chunks.
Proof. exact async_dump_stream_intact. Qed.
Print Assumptions C09_async_dump_stream_intact.

Theorem C09_async_alias_refuted :
  let evs := [QWrite 0 (bs "first"); QDump 0; QWrite 0 (bs "SECND"); QDump 0; QDrain; QDrain] in
  q_final evs = [bs "first"; bs "SECND"] /\ qa_final evs = [bs "SECND"; bs "SECND"].
Proof. exact async_alias_refuted. Qed.
Print Assumptions C09_async_alias_refuted.

(* ---------- (round 5) what several requests share on the way to a connection ---------- *)

(* pool keys: a socket tied to one origin (direct, socks5, CONNECT tunnel through an http/https
   proxy) is filed under a key only requests for that origin look up *)
Theorem C09_cm_key_separates_tunnels : forall a b,
  cm_key a = cm_key b -> socket_bound_to_target a = true -> cm_target a = cm_target b.
Proof. exact cm_key_separates_tunnels. Qed.
Print Assumptions C09_cm_key_separates_tunnels.

Theorem C09_cm_key_shares_only_proxy_sockets : forall a b,
  cm_key a = cm_key b -> cm_target a <> cm_target b ->
  socket_bound_to_target a = false /\ socket_bound_to_target b = false.
Proof. exact cm_key_shares_only_proxy_sockets. Qed.
Print Assumptions C09_cm_key_shares_only_proxy_sockets.

Theorem C09_cm_key_shared_refuted :
  let a := mkCM PHttp 1 true 10 true in let b := mkCM PHttp 1 true 20 true in
  cm_key_shared a = cm_key_shared b /\ socket_bound_to_target a = true /\ cm_target a <> cm_target b /\
  cm_key a <> cm_key b.
Proof. exact cm_key_shared_refuted. Qed.
Print Assumptions C09_cm_key_shared_refuted.

(* a shared HTTP/2 dial: the context error of the request that started it fails that request
   only; a request that joined goes back to the scan and dials for itself *)
Theorem C09_waiter_survives_owner_context : forall s r k cl e,
  r_phase s r = RWaitDial k cl -> call_res s cl = Some None ->
  e = DErrCanceled \/ e = DErrDeadline ->
  r_phase (h2_step s (H2Wake r (should_retry_dial false e true))) r = RScan k.
Proof. exact waiter_survives_owner_context. Qed.
Print Assumptions C09_waiter_survives_owner_context.

Theorem C09_dial_error_goes_to_its_owner : forall s r k cl e done,
  r_phase s r = RWaitDial k cl -> call_res s cl = Some None -> e <> DErrNone ->
  r_phase (h2_step s (H2Wake r (should_retry_dial true e done))) r = RDone false /\
  r_phase (h2_step s (H2Wake r (should_retry_dial false DErrOther done))) r = RDone false.
Proof. exact dial_error_goes_to_its_owner. Qed.
Print Assumptions C09_dial_error_goes_to_its_owner.

Theorem C09_retry_without_deadline_refuted : forall s r k cl,
  r_phase s r = RWaitDial k cl -> call_res s cl = Some None ->
  r_phase (h2_step s (H2Wake r (should_retry_dial_no_deadline false DErrDeadline true))) r = RDone false.
Proof. exact retry_without_deadline_refuted. Qed.
Print Assumptions C09_retry_without_deadline_refuted.

(* ---------- (round 6) the HPACK encoding context of an HTTP/2 connection ---------- *)

(* for every sequence of requests on a connection, within the peer's MAX_HEADER_LIST_SIZE or
   refused because of it, the peer decodes for each request that is sent exactly the fields the
   client's shared encoder stands for *)
Theorem C09_h2_requests_decoded_as_meant : forall peer_max bs,
  Forall decoded_as_meant (hsend_run (hsend_step peer_max) hsend_init bs).
Proof. exact h2_requests_decoded_as_meant. Qed.
Print Assumptions C09_h2_requests_decoded_as_meant.

Theorem C09_h2_refused_request_is_invisible : forall peer_max s b,
  peer_max < list_size (meant (cl_tbl s) b) -> hsend_step peer_max s b = (s, None).
Proof. exact h2_refused_request_is_invisible. Qed.
Print Assumptions C09_h2_refused_request_is_invisible.

Theorem C09_h2_late_size_check_refuted :
  let bs := [[(0, [HIns (7, 5)])]; [(0, [HIns (8, 5); HLit (1, 100)])]; [(0, [HIns (9, 5)])]; [(0, [HRef 1])]] in
  hsend_run (hsend_step_late 20) hsend_init bs =
    [Some ([(7, 5)], [(7, 5)]); None; Some ([(9, 5)], [(9, 5)]); Some ([(8, 5)], [(7, 5)])] /\
  ~ Forall decoded_as_meant (hsend_run (hsend_step_late 20) hsend_init bs) /\
  hsend_run (hsend_step 20) hsend_init bs =
    [Some ([(7, 5)], [(7, 5)]); None; Some ([(9, 5)], [(9, 5)]); Some ([(7, 5)], [(7, 5)])].
Proof. exact h2_late_size_check_refuted. Qed.
Print Assumptions C09_h2_late_size_check_refuted.

(* ---------- (round 7) GOAWAY sequences on a multiplexed connection ---------- *)

(* for every sequence of GOAWAY frames (one, or a graceful shutdown 2^31-1 then the real id, or
   any other): an outstanding stream stays on the connection iff its id is at or below EVERY
   announced last-stream-id, it is sent again on another connection iff it is above one of them,
   and no outstanding request is lost *)
Theorem C09_goaway_every_frame_counts : forall open lasts,
  let '(kept, resent) := goaway_run open lasts in
  (forall id, In id kept <-> In id open /\ forall l, In l lasts -> id <= l) /\
  (forall id, In id resent <-> In id open /\ exists l, In l lasts /\ l < id) /\
  (forall id, In id open -> In id kept \/ In id resent).
Proof. exact goaway_every_frame_counts. Qed.
Print Assumptions C09_goaway_every_frame_counts.

Theorem C09_goaway_first_only_refuted :
  goaway_run [1; 3; 5] [goaway_max; 3] = ([1; 3], [5]) /\
  goaway_run_first_only [1; 3; 5] [goaway_max; 3] = ([1; 3; 5], []).
Proof. exact goaway_first_only_refuted. Qed.
Print Assumptions C09_goaway_first_only_refuted.

(* ---------- (round 8) the request side at the end of an exchange; the shared receive window ---------- *)

(* an HTTP/1.1 connection whose write loop has not reported (it is still inside the request
   body) is never handed to another request, whatever the response side looks like *)
Theorem C09_unreported_write_never_recycled : forall alive has_body eof saw_eof,
  recycle_ok (mkRecycle alive has_body eof saw_eof (wrote_request WNotYet)) = false.
Proof. exact unreported_write_never_recycled. Qed.
Print Assumptions C09_unreported_write_never_recycled.

Theorem C09_lenient_wrote_request_refuted :
  recycle_ok (mkRecycle true true true false (wrote_request_lenient WNotYet)) = true.
Proof. exact lenient_wrote_request_refuted. Qed.
Print Assumptions C09_lenient_wrote_request_refuted.

(* HTTP/2 connection-level receive window: window + buffered bytes is constant for every
   sequence of DATA / Read / early Close on any streams; once every body is read or closed the
   whole window is back - an abandoned body cannot starve the other callers of the connection *)
Theorem C09_conn_window_conserved : forall n evs s,
  (forall e, In e evs -> match e with FData i _ | FRead i _ | FClose i => i < n end) ->
  f_respects s evs = true ->
  let s' := fold_left f_step evs s in
  f_window s' + f_total n (f_buffered s') = f_window s + f_total n (f_buffered s).
Proof. exact conn_window_conserved. Qed.
Print Assumptions C09_conn_window_conserved.

Theorem C09_conn_window_restored : forall n w evs,
  (forall e, In e evs -> match e with FData i _ | FRead i _ | FClose i => i < n end) ->
  f_respects (mkFS w (fun _ => 0)) evs = true ->
  (forall i, i < n -> f_buffered (f_run f_step w evs) i = 0) ->
  f_window (f_run f_step w evs) = w.
Proof. exact conn_window_restored. Qed.
Print Assumptions C09_conn_window_restored.

Theorem C09_close_without_refund_refuted :
  f_window (f_run f_step 128 [FData 0 60; FClose 0; FData 1 60; FClose 1]) = 128 /\
  f_window (f_run f_step_noreturn 128 [FData 0 60; FClose 0; FData 1 60; FClose 1]) = 8.
Proof. exact close_without_refund_refuted. Qed.
Print Assumptions C09_close_without_refund_refuted.

(* non-vacuity of the HTTP/2 and HTTP/3 machines: two requests share one dialled connection with
   stream ids 1 and 3, a third id is 5 after the first finished; the HTTP/3 client is closed by
   CloseIdleConnections only after its request finished *)
Example C09_h2_h3_nonvacuous :
  let evs := [H2Get 4; H2Get 4; H2DialDone 0 true; H2Wake 0 false; H2Wake 1 false;
              H2Open 0 false; H2Open 1 false; H2Frame 0 3 (bs "b"); H2Frame 0 1 (bs "a");
              H2End 0 true; H2Get 4; H2Open 2 false; H2CloseIdle] in
  let s := h2_run evs in
  r_phase s 1 = ROpen 0 3 /\ r_phase s 2 = ROpen 0 5 /\ r_recv s 0 = [bs "a"] /\ r_recv s 1 = [bs "b"] /\
  n_call s = 1 /\ p_conns s 4 = [0] /\ c_closed s 0 = false /\ c_hist s 0 = [5; 3; 1] /\
  let t := h3_run [E3Get 2; E3CloseIdle; E3DialDone 0 true; E3Proceed 0 false; E3CloseIdle;
                   E3Finish 0 true false] in
  clients t 2 = Some 0 /\ cl_closed t 0 = false /\ cl_use t 0 = 0%Z /\
  cl_closed (h3_step t E3CloseIdle) 0 = true /\ clients (h3_step t E3CloseIdle) 2 = None.
Proof. vm_compute. repeat split. Qed.

(* non-vacuity: a run with a limit of one connection per host in which a second request waits,
   gets the first request's connection by late binding, and the connection ends up idle *)
Example C09_nonvacuous :
  let cfg := mkConfig 1 0 1 false in
  let r := mkRecycle true true true false true in
  let evs := [EGet 7; EQueueDial 0; EDialBegin 0; EDialEnd 0 true; ERecv 0;
              EGet 7; EQueueDial 1; EFinish 0 r; ERecv 1; EFinish 1 r] in
  let s := run cfg evs in
  idle s 7 = [0] /\ per_host s 7 = 1 /\ length (dial_wait s 7) = 1 /\ wheld s 1 = None /\
  wheld (run cfg (firstn 9 evs)) 1 = Some 0 /\ length (dial_wait (run cfg (firstn 7 evs)) 7) = 1 /\
  Interleave (fun i => match i with 1 => [bs "a"; bs "b"] | 3 => [bs "c"] | _ => [] end)
             [(1, bs "a"); (3, bs "c"); (1, bs "b")].
Proof.
  vm_compute. repeat split.
  eapply IL_cons with (l := [bs "b"]); [reflexivity|].
  eapply IL_cons with (l := []); [reflexivity|].
  eapply IL_cons with (l := []); [reflexivity|].
  apply IL_nil. intros [|[|[|[|i]]]]; reflexivity.
Qed.
