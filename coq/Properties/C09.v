(* Properties/C09.v - Concurrent use is safe and responses are never mixed up (PARTIAL: the
   pool bookkeeping and the stream demultiplexing are proved for ALL interleavings of the
   model's lock regions; absence of data races and the agreement of the model's atomic steps
   with the Go code are OBSERVED by the harness under the race detector, not proved).
   Only statements, `exact`, Print Assumptions.  Models: Model/Pool.v, Model/Demux.v. *)
From Coq Require Import List ZArith.
From ReqV Require Import Lib.Bytes Model.Pool Model.Demux Proofs.PoolProofs Proofs.DemuxProofs.
Import ListNotations.

(* an HTTP/1.1 connection is handed to at most one request at a time, and is never in the idle
   pool while a request has it (delivered or in use) - after EVERY event sequence *)
Theorem C09_exclusive_ownership : forall cfg evs, let s := run cfg evs in
  (forall w1 w2 c b1 b2, wres s w1 = Some (c, b1) -> wres s w2 = Some (c, b2) -> w1 = w2) /\
  (forall w1 w2 c, wheld s w1 = Some c -> wheld s w2 = Some c -> w1 = w2) /\
  (forall w1 w2 c b, wres s w1 = Some (c, b) -> wheld s w2 <> Some c) /\
  (forall w c k, wheld s w = Some c \/ (exists b, wres s w = Some (c, b)) -> ~ In c (idle s k)).
Proof. exact exclusive_ownership. Qed.
Print Assumptions C09_exclusive_ownership.

Theorem C09_no_duplicate_idle : forall cfg evs, let s := run cfg evs in
  (forall k, NoDup (idle s k)) /\
  (forall k1 k2 c, In c (idle s k1) -> In c (idle s k2) -> k1 = k2) /\
  NoDup (lru s) /\ (forall k c, In c (idle s k) -> In c (lru s)).
Proof. exact no_duplicate_idle. Qed.
Print Assumptions C09_no_duplicate_idle.

(* it returns to the pool only after the previous response was fully consumed *)
Theorem C09_idle_only_after_full_read : forall cfg evs w r c, let s := run cfg evs in
  wheld s w = Some c ->
  let s' := step cfg s (EFinish w r) in
  ((exists k, In c (idle s' k)) \/ (exists w' b, wres s' w' = Some (c, b))) ->
  recycle_ok r = true /\ (r_has_body r = true -> r_body_eof r = true) /\ closed s c = false.
Proof. exact idle_only_after_full_read. Qed.
Print Assumptions C09_idle_only_after_full_read.

(* configured limits: idle per host <= MaxIdleConnsPerHost (default 2), idle in total (over any
   set of distinct hosts) <= MaxIdleConns *)
Theorem C09_idle_limits : forall cfg evs, let s := run cfg evs in
  (forall k, length (idle s k) <= idle_cap cfg) /\
  (forall ks, NoDup ks -> length (concat (map (idle s) ks)) <= length (lru s)) /\
  ((0 < max_idle cfg)%Z -> forall ks, NoDup ks ->
     (Z.of_nat (length (concat (map (idle s) ks))) <= max_idle cfg)%Z).
Proof. exact idle_limits. Qed.
Print Assumptions C09_idle_limits.

(* connsPerHost[k] <= MaxConnsPerHost, it equals dial goroutines holding a slot + live
   connections, and a getConn waits for a slot only while the host is at its limit *)
Theorem C09_per_host_limit : forall cfg evs, host_limited cfg = true -> let s := run cfg evs in
  forall k, (Z.of_nat (per_host s k) <= max_host cfg)%Z /\
            per_host s k = dialing_count s k + live_count s k /\
            (dial_wait s k <> [] -> Z.of_nat (per_host s k) = max_host cfg).
Proof. exact per_host_limit. Qed.
Print Assumptions C09_per_host_limit.

Theorem C09_per_host_unlimited : forall cfg evs, host_limited cfg = false -> let s := run cfg evs in
  forall k, per_host s k = 0 /\ dial_wait s k = [].
Proof. exact per_host_unlimited. Qed.
Print Assumptions C09_per_host_unlimited.

(* the "connCount underflow" panic, the "dup idle pconn" fatal and the "already in LRU" panic
   are unreachable *)
Theorem C09_count_never_underflows : forall cfg evs, panicked (run cfg evs) = false.
Proof. exact count_never_underflows. Qed.
Print Assumptions C09_count_never_underflows.

Theorem C09_delivered_conn_is_used_or_returned : forall cfg evs w c b, let s := run cfg evs in
  wres s w = Some (c, b) ->
  (let s1 := step cfg s (ERecv w) in wheld s1 w = Some c /\ wres s1 w = None /\ cloc s1 c = LHeld w) /\
  (let s2 := step cfg s (ECancel w) in wres s2 w = None /\ cloc s2 c = LLoose /\
     let s3 := step cfg s2 (EPutLoose c) in
     cloc s3 c = LIdle \/ (exists w', cloc s3 c = LChan w') \/ cloc s3 c = LDead).
Proof. exact delivered_conn_is_used_or_returned. Qed.
Print Assumptions C09_delivered_conn_is_used_or_returned.

(* soundness of the snapshot check run on the real pool by Model/C09Run.v *)
Theorem C09_reachable_snapshot_ok : forall cfg evs ks, NoDup ks ->
  snap_ok cfg (snapshot_of (run cfg evs) ks) = true.
Proof. exact reachable_snapshot_ok. Qed.
Print Assumptions C09_reachable_snapshot_ok.

(* multiplexed connections: for EVERY interleaving of the per-stream frame sequences on the
   wire, dispatch by stream id gives every open stream exactly its own sequence *)
Theorem C09_demux_any_interleaving : forall open f wire, Interleave f wire ->
  forall i, demux open wire i = if existsb (Nat.eqb i) open then f i else [].
Proof. exact demux_any_interleaving. Qed.
Print Assumptions C09_demux_any_interleaving.

Theorem C09_demux_independent : forall open wire i,
  demux open wire i = demux open (filter (fun fr => Nat.eqb (fst fr) i) wire) i.
Proof. exact demux_independent. Qed.
Print Assumptions C09_demux_independent.

(* non-vacuity: a run with a limit of one connection per host in which a second request waits,
   gets the first request's connection by late binding, and the connection ends up idle *)
Example C09_nonvacuous :
  let cfg := mkConfig 1 0 1 false in
  let r := mkRecycle true true true false true in
  let evs := [EGet 7; EQueueDial 0; EDialBegin 0; EDialEnd 0 true; ERecv 0;
              EGet 7; EQueueDial 1; EFinish 0 r; ERecv 1; EFinish 1 r] in
  let s := run cfg evs in
  idle s 7 = [0] /\ per_host s 7 = 1 /\ length (dial_wait s 7) = 1 /\ wheld s 1 = None /\
  wheld (run cfg (firstn 9 evs)) 1 = Some 0 /\ length (dial_wait (run cfg (firstn 7 evs)) 7) = 1 /\
  Interleave (fun i => match i with 1 => [bs "a"; bs "b"] | 3 => [bs "c"] | _ => [] end)
             [(1, bs "a"); (3, bs "c"); (1, bs "b")].
Proof.
  vm_compute. repeat split.
  eapply IL_cons with (l := [bs "b"]); [reflexivity|].
  eapply IL_cons with (l := []); [reflexivity|].
  eapply IL_cons with (l := []); [reflexivity|].
  apply IL_nil. intros [|[|[|[|i]]]]; reflexivity.
Qed.
