(* Properties/C01.v - Request fidelity: the server sees exactly the request the API calls describe.
   Only statements, `exact`, and Print Assumptions.
   Model: Model/Url.v (net/url escaping, parseRequestURL), Model/H1Req.v (request writers). *)
From ReqV Require Import Lib.Bytes Model.Url Proofs.UrlProofs.
From Coq Require Import Permutation.

(* --- values are data: escaping is invertible and leaves no byte with a meaning in a URL --- *)
Theorem C01_escape_invertible : forall m v, unescape m (escape m v) = Some v.
Proof. exact unescape_escape. Qed.
Print Assumptions C01_escape_invertible.

(* no '/', '?', '#', '{', '}', ';', ',', blank, control or non-ASCII byte in an escaped path value *)
Theorem C01_path_escape_inert : forall v,
  unescape EPathSeg (path_escape v) = Some v /\ forallb path_inert (path_escape v) = true.
Proof. exact path_escape_inert. Qed.
Print Assumptions C01_path_escape_inert.

Theorem C01_query_escape_inert : forall v, forallb query_inert (query_escape v) = true.
Proof. exact query_escape_inert_bytes. Qed.
Print Assumptions C01_query_escape_inert.

(* --- parameter substitution: for every template made of brace-free text and {key} holes, and every
   parameter list with brace-free keys, each hole receives the escaped value of the FIRST binding
   of its key and everything else stays as written --- *)
Theorem C01_subst_closed_form : forall kvs ts,
  forallb wf_tok ts = true -> forallb (fun kv => brace_free (fst kv)) kvs = true ->
  subst_params (render_toks ts) kvs = concat (map (fill kvs) ts).
Proof. exact subst_closed_form. Qed.
Print Assumptions C01_subst_closed_form.

(* Go's map iteration order cannot matter: every permutation of the parameter map gives the same URL *)
Theorem C01_subst_order_irrelevant : forall ts kvs kvs',
  forallb wf_tok ts = true -> forallb (fun kv => brace_free (fst kv)) kvs = true ->
  NoDup (map fst kvs) -> Permutation kvs kvs' ->
  subst_params (render_toks ts) kvs' = subst_params (render_toks ts) kvs.
Proof. exact subst_order_irrelevant. Qed.
Print Assumptions C01_subst_order_irrelevant.

(* request-level value wins over the client-level value of the same key, whatever the two orders *)
Theorem C01_subst_request_wins : forall ts rp cp rp' cp',
  forallb wf_tok ts = true ->
  forallb (fun kv => brace_free (fst kv)) rp = true -> forallb (fun kv => brace_free (fst kv)) cp = true ->
  NoDup (map fst rp) -> NoDup (map fst cp) -> Permutation rp rp' -> Permutation cp cp' ->
  subst_params (render_toks ts) (rp' ++ cp') =
  concat (map (fun t => match t with
                        | TLit s => s
                        | THole k => match lookup k rp with
                                     | Some v => path_escape v
                                     | None => match lookup k cp with
                                               | Some v => path_escape v
                                               | None => placeholder k
                                               end
                                     end
                        end) ts).
Proof. exact subst_request_wins. Qed.
Print Assumptions C01_subst_request_wins.

(* a value can never add (or remove) a path separator, a query or a fragment: the number of
   '/', '?', '#' (and of any other byte that escaped text cannot contain) is that of the template *)
Theorem C01_subst_preserves_structure : forall c ts kvs,
  path_inert c = false -> c <> lbrace -> c <> rbrace ->
  forallb wf_tok ts = true -> forallb (fun kv => brace_free (fst kv)) kvs = true ->
  hole_keys_free c ts = true ->
  count_byte c (subst_params (render_toks ts) kvs) = count_byte c (render_toks ts).
Proof. exact subst_preserves_structure. Qed.
Print Assumptions C01_subst_preserves_structure.

(* ... and the path that reaches the wire (url.Parse's setPath, the RawPath normalisation of
   parseURLKeepEscapes, URL.EscapedPath) decodes to the parsed path and has exactly the separators
   of the substituted text, whatever else that text contains *)
Theorem C01_escaped_path_keeps_text : forall p path rp,
  set_path p = Some (path, rp) ->
  let e := escaped_path_of path (keep_path_escapes rp) in
  unescape EPath e = Some path /\ count_byte "/"%byte e = count_byte "/"%byte p.
Proof. exact escaped_path_keeps_text. Qed.
Print Assumptions C01_escaped_path_keeps_text.

(* the pinned code (RawPath as parsed) turned an escaped separator into a real one *)
Theorem C01_escaped_path_pinned_refuted :
  exists p path rp, set_path p = Some (path, rp) /\
    count_byte "/"%byte (escaped_path_of path rp) <> count_byte "/"%byte p.
Proof. exact escaped_path_pinned_refuted. Qed.

(* --- query parameters --- *)
Theorem C01_query_roundtrip : forall m,
  parse_query (encode_values m) = Some (flat_pairs (sort_keys m)).
Proof. exact query_roundtrip. Qed.
Print Assumptions C01_query_roundtrip.

Theorem C01_merge_query_spec : forall cq rq k v,
  In (k, v) (flat_pairs (merge_query cq rq)) <->
  In (k, v) (flat_pairs rq) \/ (has_key k rq = false /\ In (k, v) (flat_pairs cq)).
Proof. exact merge_query_spec. Qed.
Print Assumptions C01_merge_query_spec.

(* non-vacuity: a template with two holes, overlapping client/request keys and hostile values *)
Example C01_nonvacuous :
  let ts := [TLit (bs "/users/"); THole (bs "id"); TLit (bs "/files/"); THole (bs "name")] in
  let rp := [(bs "id", bs "../admin?x=1#f")] in
  let cp := [(bs "name", bs "a b/{id}"); (bs "id", bs "ignored")] in
  forallb wf_tok ts = true /\
  subst_params (render_toks ts) (rp ++ cp) = bs "/users/..%2Fadmin%3Fx=1%23f/files/a%20b%2F%7Bid%7D" /\
  parse_request_url (bs "http://h:80/base path") (render_toks ts) rp cp
    [(bs "q", [bs "c&d=e"])] [(bs "q", [bs "a b"; bs "="])] =
    BOk (bs "http") (bs "h:80") (bs "/base%20path/users/..%2Fadmin%3Fx=1%23f/files/a%20b%2F%7Bid%7D?q=a+b&q=%3D") /\
  parse_request_url_pinned (bs "http://h:80/base path") (render_toks ts) rp cp [] [] =
    BOk (bs "http") (bs "h:80") (bs "/base%20path/users/../admin%3Fx=1%23f/files/a%20b/%7Bid%7D").
Proof. vm_compute. repeat split. Qed.
