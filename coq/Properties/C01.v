(* Properties/C01.v - Request fidelity (placeholder while the model is being tied; theorems follow) *)
From ReqV Require Import Lib.Bytes Model.Url.

Example C01_nonvacuous :
  path_escape (bs "a/b c") = bs "a%2Fb%20c".
Proof. vm_compute. reflexivity. Qed.
