(* Properties/C01.v - Request fidelity: the server sees exactly the request the API calls describe.
   Only statements, `exact`, and Print Assumptions.
   Model: Model/Url.v (net/url escaping, parseRequestURL), Model/H1Req.v (request writers). *)
From ReqV Require Import Lib.Bytes Model.Url Model.HeaderCollect Model.BodyFraming Model.H1Req Model.H2Body.
From ReqV Require Import Proofs.UrlProofs Proofs.BodyFramingProofs Proofs.H1ReqProofs Proofs.H1EndToEnd Proofs.CrossProto Proofs.H2BodyProofs Proofs.StateProofs.
From ReqV Require Gen.C01Tables.
From Coq Require Import Permutation.

(* --- values are data: escaping is invertible and leaves no byte with a meaning in a URL --- *)
Theorem C01_escape_invertible : forall m v, unescape m (escape m v) = Some v.
Proof. exact unescape_escape. Qed.
Print Assumptions C01_escape_invertible.

(* no '/', '?', '#', '{', '}', ';', ',', blank, control or non-ASCII byte in an escaped path value *)
Theorem C01_path_escape_inert : forall v,
  unescape EPathSeg (path_escape v) = Some v /\ forallb path_inert (path_escape v) = true.
Proof. exact path_escape_inert. Qed.
Print Assumptions C01_path_escape_inert.

Theorem C01_query_escape_inert : forall v, forallb query_inert (query_escape v) = true.
Proof. exact query_escape_inert_bytes. Qed.
Print Assumptions C01_query_escape_inert.

(* --- parameter substitution: for every template made of brace-free text and {key} holes, and every
   parameter list with brace-free keys, each hole receives the escaped value of the FIRST binding
   of its key and everything else stays as written --- *)
Theorem C01_subst_closed_form : forall kvs ts,
  forallb wf_tok ts = true -> forallb (fun kv => brace_free (fst kv)) kvs = true ->
  subst_params (render_toks ts) kvs = concat (map (fill kvs) ts).
Proof. exact subst_closed_form. Qed.
Print Assumptions C01_subst_closed_form.

(* Go's map iteration order cannot matter: every permutation of the parameter map gives the same URL *)
Theorem C01_subst_order_irrelevant : forall ts kvs kvs',
  forallb wf_tok ts = true -> forallb (fun kv => brace_free (fst kv)) kvs = true ->
  NoDup (map fst kvs) -> Permutation kvs kvs' ->
  subst_params (render_toks ts) kvs' = subst_params (render_toks ts) kvs.
Proof. exact subst_order_irrelevant. Qed.
Print Assumptions C01_subst_order_irrelevant.

(* request-level value wins over the client-level value of the same key, whatever the two orders *)
Theorem C01_subst_request_wins : forall ts rp cp rp' cp',
  forallb wf_tok ts = true ->
  forallb (fun kv => brace_free (fst kv)) rp = true -> forallb (fun kv => brace_free (fst kv)) cp = true ->
  NoDup (map fst rp) -> NoDup (map fst cp) -> Permutation rp rp' -> Permutation cp cp' ->
  subst_params (render_toks ts) (rp' ++ cp') =
  concat (map (fun t => match t with
                        | TLit s => s
                        | THole k => match lookup k rp with
                                     | Some v => path_escape v
                                     | None => match lookup k cp with
                                               | Some v => path_escape v
                                               | None => placeholder k
                                               end
                                     end
                        end) ts).
Proof. exact subst_request_wins. Qed.
Print Assumptions C01_subst_request_wins.

(* a value can never add (or remove) a path separator, a query or a fragment: the number of
   '/', '?', '#' (and of any other byte that escaped text cannot contain) is that of the template *)
Theorem C01_subst_preserves_structure : forall c ts kvs,
  path_inert c = false -> c <> lbrace -> c <> rbrace ->
  forallb wf_tok ts = true -> forallb (fun kv => brace_free (fst kv)) kvs = true ->
  hole_keys_free c ts = true ->
  count_byte c (subst_params (render_toks ts) kvs) = count_byte c (render_toks ts).
Proof. exact subst_preserves_structure. Qed.
Print Assumptions C01_subst_preserves_structure.

(* ... and the path that reaches the wire (url.Parse's setPath, the RawPath normalisation of
   parseURLKeepEscapes, URL.EscapedPath) decodes to the parsed path and has exactly the separators
   of the substituted text, whatever else that text contains *)
Theorem C01_escaped_path_keeps_text : forall p path rp,
  set_path p = Some (path, rp) ->
  let e := escaped_path_of path (keep_path_escapes rp) in
  unescape EPath e = Some path /\ count_byte "/"%byte e = count_byte "/"%byte p.
Proof. exact escaped_path_keeps_text. Qed.
Print Assumptions C01_escaped_path_keeps_text.

(* the pinned code (RawPath as parsed) turned an escaped separator into a real one *)
Theorem C01_escaped_path_pinned_refuted :
  exists p path rp, set_path p = Some (path, rp) /\
    count_byte "/"%byte (escaped_path_of path rp) <> count_byte "/"%byte p.
Proof. exact escaped_path_pinned_refuted. Qed.
Print Assumptions C01_escaped_path_pinned_refuted.

(* --- query parameters --- *)
Theorem C01_query_roundtrip : forall m,
  parse_query (encode_values m) = Some (flat_pairs (sort_keys m)).
Proof. exact query_roundtrip. Qed.
Print Assumptions C01_query_roundtrip.

Theorem C01_merge_query_spec : forall cq rq k v,
  In (k, v) (flat_pairs (merge_query cq rq)) <->
  In (k, v) (flat_pairs rq) \/ (has_key k rq = false /\ In (k, v) (flat_pairs cq)).
Proof. exact merge_query_spec. Qed.
Print Assumptions C01_merge_query_spec.

(* --- HTTP/1.1: a specification-level reader (request line split at blanks, field lines at the
   first ':', values without surrounding blanks, body by Content-Length or chunked) reads back from
   the rendered bytes exactly the method, target, field lines and body - and leaves whatever follows
   untouched: nothing in a request can start a second one.  [ok_head]: method and target free of
   blank and CR, field names non-empty and free of ':' and CR, values free of CR. --- *)
Theorem C01_h1_roundtrip_cl : forall m t ls body cl rest, ok_head m t ls ->
  field_values "Transfer-Encoding" (map trim_line ls) = [] ->
  field_values "Content-Length" (map trim_line ls) = [cl] ->
  parse_dec cl 0 = Some (N.of_nat (length body)) ->
  observe_h1 (render_head m t ls ++ body ++ rest) =
    Some (mkView m t (map trim_line ls) body, rest).
Proof. exact h1_roundtrip_cl. Qed.
Print Assumptions C01_h1_roundtrip_cl.

Theorem C01_h1_roundtrip_nobody : forall m t ls rest, ok_head m t ls ->
  field_values "Transfer-Encoding" (map trim_line ls) = [] ->
  field_values "Content-Length" (map trim_line ls) = [] ->
  observe_h1 (render_head m t ls ++ rest) = Some (mkView m t (map trim_line ls) [], rest).
Proof. exact h1_roundtrip_nobody. Qed.
Print Assumptions C01_h1_roundtrip_nobody.

(* every partition of the body into well-formed chunks (BodyFraming's wf_chunked) *)
Theorem C01_h1_roundtrip_chunked : forall m t ls cs z zext tb rest, ok_head m t ls ->
  field_values "Transfer-Encoding" (map trim_line ls) = [bs "chunked"] ->
  field_values "Content-Length" (map trim_line ls) = [] ->
  wf_chunked cs z zext tb ->
  observe_h1 (render_head m t ls ++ render_chunked cs z zext tb ++ rest) =
    Some (mkView m t (map trim_line ls) (chunks_data cs), rest).
Proof. exact h1_roundtrip_chunked. Qed.
Print Assumptions C01_h1_roundtrip_chunked.

(* --- END TO END, for EVERY request the HTTP/1.1 model accepts: a reader of the bytes on the wire
   gets exactly the described request (method, target, field lines with their values as HTTP defines
   them, body) and whatever follows on the connection is untouched.  Premises: no verbatim-key
   header spells Content-Length / Transfer-Encoding (C16's subject); the target has no blank (only
   the raw query text of the caller's own URL can put one there, see design.d); for a body of
   unknown length, [parts] is a partition of it whose size lines are well-formed. --- *)
Theorem C01_h1_end_to_end : forall a parts w rest,
  render_h1 a parts = Sent w ->
  no_framing_keys (a_rhdr a) = true -> no_framing_keys (a_chdr a) = true ->
  (forall v, described a = Some v -> mem_byte " "%byte (v_target v) = false) ->
  (forall q, to_creq a = Sent q -> h1_chunked q (eff_body a) = true ->
     wf_chunked (map hex_chunk parts) (bs "0") [] [] /\ concat parts = eff_body a) ->
  exists v, described a = Some v /\ observe_h1 (w ++ rest) = Some (v, rest).
Proof. exact h1_end_to_end. Qed.
Print Assumptions C01_h1_end_to_end.

(* every field line the HTTP/1.1 writer emits is well-formed: non-empty name without ':' or CR,
   value without CR - whatever the header map holds, once it passed validateHeaders *)
Theorem C01_h1_field_lines_ok : forall q body,
  valid_host_header (c_host q) = true -> valid_headers (c_hdr q) = true ->
  Forall ok_line (h1_field_lines q body).
Proof. exact h1_field_lines_ok. Qed.
Print Assumptions C01_h1_field_lines_ok.

(* the Content-Length text denotes the length, for every length *)
Theorem C01_parse_dec_of_N : forall n, parse_dec (dec_of_N n) 0 = Some n.
Proof. exact parse_dec_of_N. Qed.
Print Assumptions C01_parse_dec_of_N.

(* --- a value that cannot be sent safely makes the call fail --- *)
(* a request-level header with an invalid name or a value holding a control byte other than TAB:
   no http.Request reaches any of the three writers *)
Theorem C01_unsafe_header_rejected : forall a x,
  In x (a_rhdr a) -> snd x <> [] -> bad_entry x = true ->
  fst x <> content_type -> fst x <> bs "Cookie" ->
  forall q, to_creq a <> Sent q.
Proof. exact unsafe_header_rejected. Qed.
Print Assumptions C01_unsafe_header_rejected.

(* client-level entries in force (the request has no value under that key) *)
Theorem C01_unsafe_client_header_rejected : forall a x,
  In x (a_chdr a) -> is_nil (hvals (a_rhdr a) (fst x)) = true -> bad_entry x = true ->
  fst x <> content_type -> fst x <> bs "Cookie" ->
  forall q, to_creq a <> Sent q.
Proof. exact unsafe_client_header_rejected. Qed.
Print Assumptions C01_unsafe_client_header_rejected.

(* ... and nothing invalid reaches the HPACK / QPACK encoders *)
Theorem C01_unsafe_header_rejected_h23 : forall a x,
  (In x (a_rhdr a) /\ snd x <> [] \/ In x (a_chdr a) /\ is_nil (hvals (a_rhdr a) (fst x)) = true) ->
  bad_entry x = true -> fst x <> content_type -> fst x <> bs "Cookie" ->
  forall ls, fields_h2 a <> Sent ls /\ fields_h3 a <> Sent ls.
Proof. exact unsafe_header_rejected_h23. Qed.
Print Assumptions C01_unsafe_header_rejected_h23.

Theorem C01_unsafe_method_rejected_all : forall a, valid_method (a_method a) = false ->
  (forall q, to_creq a <> Sent q) /\
  (forall ls, fields_h2 a <> Sent ls) /\ (forall ls, fields_h3 a <> Sent ls).
Proof. exact unsafe_method_rejected_all. Qed.
Print Assumptions C01_unsafe_method_rejected_all.

Theorem C01_unsafe_host_rejected_h23 : forall lines mc a ls, fields_h23 lines mc a = Sent ls ->
  exists q, to_creq_gen mc a = Sent q /\ valid_host_header (c_host q) = true /\ ls = lines q.
Proof. exact unsafe_host_rejected_h23. Qed.
Print Assumptions C01_unsafe_host_rejected_h23.

(* before fix 962230a forced HTTP/2 wrote an invalid method into :method *)
Theorem C01_fields_h2_pinned_refuted :
  exists a ls, valid_method (a_method a) = false /\ fields_h2_pinned a = Sent ls /\
               In (bs ":method", bs "GE T") ls /\ fields_h2 a = Rejected.
Proof. exact fields_h2_pinned_refuted. Qed.
Print Assumptions C01_fields_h2_pinned_refuted.

Theorem C01_crlf_nul_value_invalid : forall v,
  In CR v \/ In LF v \/ In x00 v -> valid_field_value v = false.
Proof. exact crlf_nul_value_invalid. Qed.
Print Assumptions C01_crlf_nul_value_invalid.

(* HTTP/1.1 writes a head only for a token method, a valid Host and a target without control bytes *)
Theorem C01_h1_sent_inv : forall q body w, h1_head q body = Sent w ->
  valid_method (c_method q) = true /\ valid_host_header (c_host q) = true /\
  existsb is_ctl (c_path q) = false /\
  w = render_head (c_method q) (c_path q) (h1_field_lines q body).
Proof. exact h1_sent_inv. Qed.
Print Assumptions C01_h1_sent_inv.

Theorem C01_unsafe_method_rejected : forall q body w,
  valid_method (c_method q) = false -> h1_head q body <> Sent w.
Proof. exact unsafe_method_rejected. Qed.
Print Assumptions C01_unsafe_method_rejected.

Theorem C01_unsafe_host_rejected : forall q body w,
  valid_host_header (c_host q) = false -> h1_head q body <> Sent w.
Proof. exact unsafe_host_rejected. Qed.
Print Assumptions C01_unsafe_host_rejected.

Theorem C01_ctl_target_rejected : forall q body w,
  existsb is_ctl (c_path q) = true -> h1_head q body <> Sent w.
Proof. exact ctl_target_rejected. Qed.
Print Assumptions C01_ctl_target_rejected.

(* the pinned HTTP/1.1 writer emptied an invalid Host and sent the request *)
Theorem C01_h1_host_pinned_refuted :
  exists q w, valid_host_header (c_host q) = false /\ h1_head_pinned q [] = Sent w /\ h1_head q [] = Rejected.
Proof. exact h1_host_pinned_refuted. Qed.
Print Assumptions C01_h1_host_pinned_refuted.

(* --- HTTP/2 and HTTP/3 emit the same field lines (no order list, no caller-written Cookie header) --- *)
Theorem C01_cross_protocol_h2_h3 : forall q,
  order_list (c_hdr q) = [] -> no_cookie_key (c_hdr q) = true ->
  h3_lines q = h2_lines q.
Proof. exact cross_protocol_h2_h3. Qed.
Print Assumptions C01_cross_protocol_h2_h3.

(* --- the caller's own fields (every name no writer treats specially: not connection-specific, not
   written by the transport itself, not User-Agent / Cookie / Trailer) reach the wire identically on
   HTTP/1.1, HTTP/2 and HTTP/3: names up to case, values without surrounding blanks, multiplicity
   and order, for every header map that passed validateHeaders --- *)
Theorem C01_cross_protocol_h1_h2 : forall h, valid_headers h = true ->
  caller_fields_h1 h = caller_fields_h23 h2_entry h.
Proof. exact cross_protocol_h1_h2. Qed.
Print Assumptions C01_cross_protocol_h1_h2.

Theorem C01_cross_protocol_h1_h3 : forall h, valid_headers h = true ->
  caller_fields_h1 h = caller_fields_h23 h3_entry h.
Proof. exact cross_protocol_h1_h3. Qed.
Print Assumptions C01_cross_protocol_h1_h3.

(* --- cookies: the header Request.AddCookie accumulates is the caller-written value (if any)
   followed by one pair per cookie; HTTP/2's crumb splitting yields exactly one crumb per cookie, and
   re-joined with "; " the crumbs are the header HTTP/1.1 and HTTP/3 carry --- *)
Theorem C01_add_cookies_header : forall cks h, cks <> [] ->
  header_get (fold_left add_cookie cks h) (bs "Cookie") = cookie_header (header_get h (bs "Cookie")) cks.
Proof. exact add_cookies_header. Qed.
Print Assumptions C01_add_cookies_header.

Theorem C01_cookie_crumbs_are_the_list : forall cks, forallb valid_cookie cks = true ->
  crumbs (cookie_header [] cks) = map cookie_pair cks /\
  join_with (bs "; ") (crumbs (cookie_header [] cks)) = cookie_header [] cks.
Proof. exact cookie_crumbs_are_the_list. Qed.
Print Assumptions C01_cookie_crumbs_are_the_list.

Theorem C01_cookie_crumbs_with_caller_header : forall cur cks, cur <> [] -> cks <> [] ->
  forallb valid_cookie cks = true ->
  crumbs (cookie_header cur cks) = crumbs (cur ++ [semi]) ++ map cookie_pair cks.
Proof. exact cookie_crumbs_with_caller_header. Qed.
Print Assumptions C01_cookie_crumbs_with_caller_header.

(* --- tables regenerated from the Go source on every run (gosync): the byte set of
   parseURLKeepEscapes is exactly the set URL.EscapedPath accepts; the marshalled-body content type --- *)
Theorem C01_keep_escapes_table_matches : forall c,
  valid_encoded_byte EPath c = in_src_ranges c || mem_byte c Gen.C01Tables.keep_escapes_plain.
Proof. exact keep_escapes_table_matches. Qed.
Print Assumptions C01_keep_escapes_table_matches.

Theorem C01_json_content_type_matches : json_ct = Gen.C01Tables.json_content_type_src.
Proof. exact json_content_type_matches. Qed.
Print Assumptions C01_json_content_type_matches.

(* --- several requests on one connection (round 3): whatever requests share an HTTP/1.1 connection,
   a reader takes them apart exactly where the writer put the boundaries; [exchange_ok] = the
   premises of C01_h1_end_to_end for each of them --- *)
Theorem C01_h1_sequence_roundtrip : forall xs rest, Forall exchange_ok xs ->
  exists vs, Forall2 (fun x v => described (req_of x) = Some v) xs vs /\
             observe_seq (length xs) (concat (map wire_of xs) ++ rest) = Some (vs, rest).
Proof. exact h1_sequence_roundtrip. Qed.
Print Assumptions C01_h1_sequence_roundtrip.

(* Expect: 100-continue: a connection that may serve another request has received the whole body;
   a body is withheld only on a connection that is not used again *)
Theorem C01_expect_reuse_needs_body : forall req_close ans head framed,
  conn_reusable_after req_close ans = true ->
  expect_sends_body req_close ans = true /\ exchange_wire head framed req_close ans = head ++ framed.
Proof. exact expect_reuse_needs_body. Qed.
Print Assumptions C01_expect_reuse_needs_body.

Theorem C01_expect_body_withheld_only_when_closing : forall req_close ans,
  expect_sends_body req_close ans = false -> conn_reusable_after req_close ans = false.
Proof. exact expect_body_withheld_only_when_closing. Qed.
Print Assumptions C01_expect_body_withheld_only_when_closing.

(* --- HTTP/2 DATA framing, for EVERY schedule of body reads (incl. data together with io.EOF) and
   EVERY schedule of flow-control allowances: the payloads are the bytes read, exactly one frame
   carries END_STREAM and it is the last one --- *)
Theorem C01_h2_body_frames_faithful : forall reads alw,
  concat (map fst (h2_body_frames reads alw)) = concat (map fst (upto_eof reads)) /\
  exists front last, h2_body_frames reads alw = front ++ [last] /\ snd last = true /\ all_open front.
Proof. exact h2_body_frames_faithful. Qed.
Print Assumptions C01_h2_body_frames_faithful.

(* --- requests sharing one HTTP/3 connection: the writer's shared buffer carries nothing from one
   request to the next, in whatever order their critical sections are serialised --- *)
Theorem C01_h3w_independent : forall qs, h3w_run [] qs = map h3_lines qs.
Proof. exact h3w_independent. Qed.
Print Assumptions C01_h3w_independent.

Theorem C01_h3w_order_irrelevant : forall qs qs', Permutation qs qs' ->
  Permutation (combine qs (h3w_run [] qs)) (combine qs' (h3w_run [] qs')).
Proof. exact h3w_order_irrelevant. Qed.
Print Assumptions C01_h3w_order_irrelevant.

(* --- round 4: state carried across reads, attempts and requests --- *)
(* a body source that fails: HTTP/2 never sets END_STREAM and writes only bytes read without error *)
Theorem C01_h2_failed_source_never_ends_stream : forall reads alw,
  snd (h2_upload reads alw) = false ->
  all_open (fst (h2_upload reads alw)) /\ concat (map fst (fst (h2_upload reads alw))) = ok_prefix reads.
Proof. exact h2_failed_source_never_ends_stream. Qed.
Print Assumptions C01_h2_failed_source_never_ends_stream.

(* HTTP/1.1: a chunked body that breaks off anywhere before its end is not read as a request *)
Theorem C01_h1_broken_off_chunked_body_is_no_request : forall m t ls cs z zext tb j,
  ok_head m t ls ->
  field_values "Transfer-Encoding" (map trim_line ls) = [bs "chunked"] ->
  field_values "Content-Length" (map trim_line ls) = [] ->
  wf_chunked cs z zext tb -> j < length (render_chunked cs z zext tb) ->
  observe_h1 (render_head m t ls ++ firstn j (render_chunked cs z zext tb)) = None.
Proof. exact h1_broken_off_chunked_body_is_no_request. Qed.
Print Assumptions C01_h1_broken_off_chunked_body_is_no_request.

(* one Request executed several times: merging the client defaults again changes nothing, and
   every attempt hands the transports the same header (each cookie once) *)
Theorem C01_merge_headers_idempotent : forall rh ch,
  NoDup (map fst rh) -> NoDup (map fst ch) -> client_values_nonempty ch ->
  merge_headers (merge_headers rh ch) ch = merge_headers rh ch.
Proof. exact merge_headers_idempotent. Qed.
Print Assumptions C01_merge_headers_idempotent.

Theorem C01_every_attempt_same_header : forall ch cck k s,
  NoDup (map fst (rs_hdr s)) -> NoDup (map fst ch) -> client_values_nonempty ch ->
  attempt_header (after_attempts ch cck k s) = attempt_header (after_attempts ch cck 0 s).
Proof. exact every_attempt_same_header. Qed.
Print Assumptions C01_every_attempt_same_header.

(* were the attempt's http.Request to share the Request's header map, the cookies would double *)
Theorem C01_shared_header_map_doubles_cookies :
  exists ch cck s,
    header_get (rs_hdr (run_attempt_shared ch cck 1 (run_attempt_shared ch cck 0 s))) (bs "Cookie")
      = bs "sid=1; sid=1" /\
    header_get (attempt_header (after_attempts ch cck 1 s)) (bs "Cookie") = bs "sid=1".
Proof. exact shared_header_map_doubles_cookies. Qed.
Print Assumptions C01_shared_header_map_doubles_cookies.

(* HPACK state of one HTTP/2 connection, for ANY codec whose encoder and decoder stay in step:
   whichever requests are refused locally for their size (checked before anything is encoded),
   the peer decodes exactly the field lists of the requests that were sent, in order *)
Theorem C01_refused_requests_leave_no_trace :
  forall (est dst block : Type) (enc : est -> list line -> block * est)
         (dec : dst -> block -> list line * dst) (in_sync : est -> dst -> Prop),
  (forall e d ls, in_sync e d ->
     fst (dec d (fst (enc e ls))) = ls /\ in_sync (snd (enc e ls)) (snd (dec d (fst (enc e ls))))) ->
  forall limit reqs e d, in_sync e d ->
  peer_decode dst block dec d (conn_run est block enc limit e reqs) = filter (within limit) reqs.
Proof. exact refused_requests_leave_no_trace. Qed.
Print Assumptions C01_refused_requests_leave_no_trace.

(* --- round 5 --- *)
(* whatever endpoint the Alt-Svc rewrite puts into URL.Host, the writers name the same authority,
   because Client.roundTrip fills Request.Host; left empty, it would follow the route *)
Theorem C01_authority_route_independent : forall override url_host alt, url_host <> [] ->
  writer_authority (req_host_field override url_host) alt =
  writer_authority (req_host_field override url_host) url_host.
Proof. exact authority_route_independent. Qed.
Print Assumptions C01_authority_route_independent.

Theorem C01_authority_empty_host_follows_route : forall url_host alt,
  writer_authority [] alt = alt /\ (alt <> url_host -> writer_authority [] alt <> writer_authority [] url_host).
Proof. exact authority_empty_host_follows_route. Qed.
Print Assumptions C01_authority_empty_host_follows_route.

(* one Request object, any sequence of body setters and sends, any marshalling function: every
   send carries the last thing that was set, marshalled as it is at that send *)
Theorem C01_every_send_carries_the_last_set_body :
  forall (V : Type) (marshal : V -> bytes) (ops : list body_op) (st : bstate),
  body_run marshal st ops = described_bodies marshal (st_meaning marshal st) ops.
Proof. exact @every_send_carries_the_last_set_body. Qed.
Print Assumptions C01_every_send_carries_the_last_set_body.

Theorem C01_cached_marshalling_sends_stale_body :
  exists ops : list (body_op (V := bytes)),
    (let fix run st ops := match ops with
                           | [] => []
                           | op :: r => let '(st', out) := body_step_cached (fun v => v) st op in
                                        match out with Some b => b :: run st' r | None => run st' r end
                           end in run (mkBs None []) ops)
    <> described_bodies (fun v => v) [] ops.
Proof. exact cached_marshalling_sends_stale_body. Qed.
Print Assumptions C01_cached_marshalling_sends_stale_body.

(* --- round 6 --- *)
(* a cookie added to the Request between two executions is kept: the second execution carries the
   request's cookies, the added ones, then the client's (as they are then), each once *)
Theorem C01_reexecution_keeps_added_cookies : forall (A : Type) (rck cck added cck' : list A),
  unmerge_cookies (length rck) (length cck) (rck ++ cck ++ added) ++ cck' = rck ++ added ++ cck'.
Proof. exact reexecution_keeps_added_cookies. Qed.
Print Assumptions C01_reexecution_keeps_added_cookies.

Theorem C01_truncating_unmerge_drops_added_cookies : forall (A : Type) (rck cck added : list A),
  unmerge_cookies_truncating (length rck) (rck ++ cck ++ added) = rck.
Proof. exact truncating_unmerge_drops_added_cookies. Qed.
Print Assumptions C01_truncating_unmerge_drops_added_cookies.

(* the content type that selects the marshaller of a value is the content type that is sent
   (header maps with distinct keys; a request-level Content-Type, if any, starts with a non-empty value) *)
Theorem C01_marshaller_follows_the_sent_content_type : forall rh ch,
  NoDup (map fst rh) ->
  (forall v vs, hget rh content_type = Some (v :: vs) -> v <> []) ->
  marshal_ct rh ch = header_get (merge_headers rh ch) content_type.
Proof. exact marshaller_follows_the_sent_content_type. Qed.
Print Assumptions C01_marshaller_follows_the_sent_content_type.

Theorem C01_client_first_marshaller_mismatch :
  exists rh ch, marshal_ct_client_first rh ch <> header_get (merge_headers rh ch) content_type.
Proof. exact client_first_marshaller_mismatch. Qed.
Print Assumptions C01_client_first_marshaller_mismatch.

(* HTTP/3: a request is sent again as it is only when there is no body to lose *)
Theorem C01_h3_replay_carries_the_described_body : forall has_body idem body,
  h3_replayable has_body idem = true -> (has_body = false -> body = []) -> h3_replay_body body = body.
Proof. exact h3_replay_carries_the_described_body. Qed.
Print Assumptions C01_h3_replay_carries_the_described_body.

Theorem C01_h3_replay_with_getbody_loses_the_body :
  exists body, h3_replayable_getbody true true true = true /\ h3_replay_body body <> body.
Proof. exact h3_replay_with_getbody_loses_the_body. Qed.
Print Assumptions C01_h3_replay_with_getbody_loses_the_body.

(* --- round 7 --- *)
(* a multipart file part carries the whole content for every way the reader cuts it into reads
   (cookies written as a Cookie header next to the cookie API: C01_add_cookies_header above) *)
Theorem C01_file_part_is_the_content : forall reads, file_part reads = concat reads.
Proof. exact file_part_is_the_content. Qed.
Print Assumptions C01_file_part_is_the_content.

Theorem C01_short_first_read_cuts_the_file :
  exists reads, file_part_short_first_is_all reads <> concat reads.
Proof. exact short_first_read_cuts_the_file. Qed.
Print Assumptions C01_short_first_read_cuts_the_file.

(* --- round 8 --- *)
(* the cookie-octet test for all 256 byte values (DEL refused), and what passes it is written whole *)
Theorem C01_cookie_value_byte_table : forall c,
  valid_cookie_value_byte c =
  negb ((bN c <? 32)%N || (127 <=? bN c)%N || beqb c """"%byte || beqb c ";"%byte || beqb c "\"%byte).
Proof. exact cookie_value_byte_table. Qed.
Print Assumptions C01_cookie_value_byte_table.

Theorem C01_valid_cookie_sent_unaltered : forall c, valid_cookie c = true ->
  cookie_pair c = fst c ++ "="%byte :: snd c \/
  cookie_pair c = fst c ++ "="%byte :: """"%byte :: snd c ++ [""""%byte].
Proof. exact valid_cookie_sent_unaltered. Qed.
Print Assumptions C01_valid_cookie_sent_unaltered.

(* a URL kept from the first attempt ignores what a retry hook changed (parseRequestURL runs afresh
   for every attempt: attempt_url is parse_request_url of the ingredients as they are then) *)
Theorem C01_cached_attempt_url_ignores_changed_ingredients :
  exists cache base raw rp rp' cp cq rq,
    cache = Some (raw, attempt_url base raw rp cp cq rq) /\
    attempt_url_cached cache base raw rp' cp cq rq <> attempt_url base raw rp' cp cq rq.
Proof. exact cached_attempt_url_ignores_changed_ingredients. Qed.
Print Assumptions C01_cached_attempt_url_ignores_changed_ingredients.

(* non-vacuity: a template with two holes, overlapping client/request keys and hostile values *)
Example C01_nonvacuous :
  let ts := [TLit (bs "/users/"); THole (bs "id"); TLit (bs "/files/"); THole (bs "name")] in
  let rp := [(bs "id", bs "../admin?x=1#f")] in
  let cp := [(bs "name", bs "a b/{id}"); (bs "id", bs "ignored")] in
  forallb wf_tok ts = true /\
  subst_params (render_toks ts) (rp ++ cp) = bs "/users/..%2Fadmin%3Fx=1%23f/files/a%20b%2F%7Bid%7D" /\
  parse_request_url (bs "http://h:80/base path") (render_toks ts) rp cp
    [(bs "q", [bs "c&d=e"])] [(bs "q", [bs "a b"; bs "="])] =
    BOk (bs "http") (bs "h:80") (bs "/base%20path/users/..%2Fadmin%3Fx=1%23f/files/a%20b%2F%7Bid%7D?q=a+b&q=%3D") /\
  parse_request_url_pinned (bs "http://h:80/base path") (render_toks ts) rp cp [] [] =
    BOk (bs "http") (bs "h:80") (bs "/base%20path/users/../admin%3Fx=1%23f/files/a%20b/%7Bid%7D").
Proof. vm_compute. repeat split. Qed.

(* the h1 hypotheses are met by a real rendered request, and the reader returns its parts *)
Example C01_h1_nonvacuous :
  let ls := [(bs "Host", bs "h:80"); (bs "Content-Length", bs "5"); (bs "X-A", bs "a: b  ")] in
  observe_h1 (render_head (bs "POST") (bs "/p%20q?x=1") ls ++ bs "hello" ++ bs "GET /next HTTP/1.1") =
    Some (mkView (bs "POST") (bs "/p%20q?x=1") [(bs "Host", bs "h:80"); (bs "Content-Length", bs "5"); (bs "X-A", bs "a: b")] (bs "hello"),
          bs "GET /next HTTP/1.1").
Proof. vm_compute. reflexivity. Qed.

(* the end-to-end premises are met by a whole API-level request with hostile values *)
Example C01_end_to_end_nonvacuous :
  let a := mkA (bs "POST") (bs "http://h:80/api") (bs "/u/{id}") [(bs "id", bs "../x y")] [] []
               [(bs "q", [bs "a&b"])] [(bs "X-A", [bs " v: 1 "])] [(bs "X-B", [bs "c"])]
               [(bs "sid", bs "a b")] [] BKnown (bs "hello") (bs "text/plain; charset=utf-8") true in
  let tail := bs "GET /2 HTTP/1.1" in
  (match render_h1 a [] with Sent w => observe_h1 (w ++ tail) | _ => None end) =
  (match described a with Some v => Some (v, tail) | None => None end) /\
  (match render_h1 a [] with Sent _ => true | _ => false end) = true /\
  no_framing_keys (a_rhdr a) = true /\ no_framing_keys (a_chdr a) = true /\
  option_map v_target (described a) = Some (bs "/api/u/..%2Fx%20y?q=a%26b").
Proof. vm_compute. repeat split. Qed.

(* a last read of 5 bytes with EOF against allowances 2, 2, 1: three frames, END_STREAM on the third *)
Example C01_h2_body_nonvacuous :
  h2_body_frames [(bs "abc", false); (bs "defgh", true); (bs "ignored", false)] [3; 2; 2; 1] =
  [(bs "abc", false); (bs "de", false); (bs "fg", false); (bs "h", true)].
Proof. vm_compute. reflexivity. Qed.
