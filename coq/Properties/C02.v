(* Properties/C02.v - Response fidelity: the caller gets exactly the response the server
   produced.  Only statements; every proof is a lemma of Proofs/*.  Theorems that were proved
   inside a Section are stated here in their closed form (the Section variables and
   hypotheses are the leading quantifiers / premises). *)
From ReqV Require Import Lib.Bytes Model.H1Resp Model.H1Render Model.RespRender Model.StreamBody
  Model.RespAPI Model.H1Client Model.MuxResp Model.H1Fast Model.ConnWindow
  Proofs.RespRenderProofs Proofs.H1RoundTrip Proofs.RespAPIProofs Proofs.MuxRespProofs Proofs.C02CrossProto Proofs.H1FastProofs Proofs.C02GenProofs Proofs.ConnWindowProofs.
From ReqV Require Gen.C02Consts.

(* ---------- HTTP/1.1: parse (render x) = x ---------- *)

(* header section: EVERY list of well-formed fields (token names in any case, values of VCHAR /
   SP / HTAB / obs-text, any optional whitespace around the value) and every continuation
   [rest] of the stream: exactly the multimap of those fields, and [rest] untouched *)
Theorem C02_mime_header_round_trip : forall bufsize fs rest,
  Forall (fun x => wfield_ok x = true) fs ->
  read_mime_header bufsize (render_wfields fs ++ H1Render.CRLF ++ rest) =
    inr (collect (map field_of fs), rest).
Proof. exact mime_header_round_trip. Qed.
Print Assumptions C02_mime_header_round_trip.

(* "the multimap of those fields": under every key the values of the fields whose name
   canonicalises to that key, in emission order; nothing else *)
Theorem C02_header_values_per_name : forall k fs,
  hget k (collect fs) = match values_of k fs with [] => None | vs => Some vs end.
Proof. exact hget_collect. Qed.
Print Assumptions C02_header_values_per_name.

(* status line, every three-digit code *)
Theorem C02_status_line_round_trip : forall code reason, (100 <= code <= 999)%Z ->
  parse_status_line (status_line_text code reason) =
    inr {| sl_proto := H11; sl_status := status_text code reason; sl_code := code;
           sl_major := 1; sl_minor := 1 |}.
Proof. exact parse_status_line_round_trip. Qed.
Print Assumptions C02_status_line_round_trip.

(* h1_parse_render, declared length: status, header multimap (framing fields anywhere in the
   section; "Connection: close" consumed), ContentLength, body = exactly the declared bytes,
   rest untouched *)
Theorem C02_h1_parse_render_content_length :
  forall (meth : bytes) (bufsize : nat) (code : Z) (reason : bytes) (fs : list wfield),
  (100 <= code <= 999)%Z -> reason_ok reason = true -> fields_ok fs ->
  pragma_neutral (map field_of fs) ->
  forall (t : bytes) (body rest : bytes),
  is_head meth = false -> body_allowed_for_status code = true ->
  no_field K_TE (map field_of fs) -> values_of K_CL (map field_of fs) = [t] ->
  parse_uint63 (trim_string t) = Some (Z.of_nat (length body)) ->
  parse_response meth bufsize (render_head code reason fs ++ body ++ rest) =
    Accepted
      {| r_proto := H11; r_code := code; r_status := status_text code reason;
         r_header := collect (after_conn (map field_of fs));
         r_content_length := Z.of_nat (length body); r_chunked := false;
         r_close := wants_close (map field_of fs);
         r_framing := if (Z.of_nat (length body) =? 0)%Z then H1Resp.FrNone
                      else FrLength (Z.of_nat (length body));
         r_trailer_declared := [] |}
      {| b_data := body; b_end := BOk; b_trailer := []; b_rest := rest |}.
Proof. exact h1_cl_round_trip. Qed.
Print Assumptions C02_h1_parse_render_content_length.

(* h1_parse_render, chunked: EVERY partition into non-empty chunks, any spelling of the size
   lines (leading zeros, hex case, extensions), trailer section with any fields: body = the
   concatenation, Trailer = announced keys + the trailer fields sent, rest untouched *)
Theorem C02_h1_parse_render_chunked :
  forall (meth : bytes) (bufsize : nat) (code : Z) (reason : bytes) (fs : list wfield),
  (100 <= code <= 999)%Z -> reason_ok reason = true -> fields_ok fs ->
  pragma_neutral (map field_of fs) ->
  forall (tfs : list wfield) (v : bytes) (cs : list (bytes * bytes)) (l0 rest : bytes),
  is_head meth = false -> body_allowed_for_status code = true ->
  values_of K_TE (map field_of fs) = [v] -> bytes_eqb (to_lower v) (bs "chunked") = true ->
  no_field K_CL (map field_of fs) ->
  existsb bad_trailer_key (declared_keys (map field_of fs)) = false ->
  chunks_ok bufsize 0 cs -> size_line_ok bufsize l0 0 ->
  fields_ok tfs -> trailer_fits bufsize tfs ->
  parse_response meth bufsize
    (render_head code reason fs ++ H1Render.render_chunks cs ++ l0 ++ H1Render.CRLF ++
     render_wfields tfs ++ H1Render.CRLF ++ rest) =
    Accepted
      {| r_proto := H11; r_code := code; r_status := status_text code reason;
         r_header := collect (without K_TRAILER (without K_TE (after_conn (map field_of fs))));
         r_content_length := -1; r_chunked := true;
         r_close := wants_close (map field_of fs); r_framing := H1Resp.FrChunked;
         r_trailer_declared := declared_trailer (map field_of fs) |}
      {| b_data := concat (map snd cs); b_end := BOk;
         b_trailer := merge_set_header (declared_trailer (map field_of fs)) (collect (map field_of tfs));
         b_rest := rest |}.
Proof. exact h1_chunked_round_trip. Qed.
Print Assumptions C02_h1_parse_render_chunked.

(* h1_parse_render, until close: everything after the head is the body *)
Theorem C02_h1_parse_render_until_close :
  forall (meth : bytes) (bufsize : nat) (code : Z) (reason : bytes) (fs : list wfield),
  (100 <= code <= 999)%Z -> reason_ok reason = true -> fields_ok fs ->
  pragma_neutral (map field_of fs) ->
  forall body : bytes,
  is_head meth = false -> body_allowed_for_status code = true ->
  no_field K_TE (map field_of fs) -> no_field K_CL (map field_of fs) ->
  parse_response meth bufsize (render_head code reason fs ++ body) =
    Accepted
      {| r_proto := H11; r_code := code; r_status := status_text code reason;
         r_header := collect (after_conn (map field_of fs));
         r_content_length := -1; r_chunked := false; r_close := true;
         r_framing := FrUntilClose; r_trailer_declared := [] |}
      {| b_data := body; b_end := BOk; b_trailer := []; b_rest := [] |}.
Proof. exact h1_close_round_trip. Qed.
Print Assumptions C02_h1_parse_render_until_close.

(* HEAD / 1xx / 204 / 304: no body is read, whatever Content-Length says; rest untouched *)
Theorem C02_h1_no_body_by_rule :
  forall (meth : bytes) (bufsize : nat) (code : Z) (reason : bytes) (fs : list wfield),
  (100 <= code <= 999)%Z -> reason_ok reason = true -> fields_ok fs ->
  pragma_neutral (map field_of fs) ->
  forall (cls : list bytes) (rest : bytes),
  no_body_by_rule code meth = true -> no_field K_TE (map field_of fs) ->
  values_of K_CL (map field_of fs) = cls ->
  cls = [] \/ (exists (t : bytes) (n : Z), cls = [t] /\ parse_uint63 (trim_string t) = Some n) ->
  exists r : resp,
    parse_response meth bufsize (render_head code reason fs ++ rest) =
      Accepted r {| b_data := []; b_end := BOk; b_trailer := []; b_rest := rest |} /\
    r_code r = code /\ r_status r = status_text code reason /\
    r_header r = collect (after_conn (map field_of fs)) /\ r_framing r = H1Resp.FrNone.
Proof. exact h1_nobody_round_trip. Qed.
Print Assumptions C02_h1_no_body_by_rule.

Theorem C02_h1_trailer_round_trip : forall bufsize tfs rest,
  fields_ok tfs -> trailer_fits bufsize tfs ->
  H1Resp.read_trailer bufsize (render_wfields tfs ++ H1Render.CRLF ++ rest) = inr (collect (map field_of tfs), rest).
Proof. exact read_trailer_round_trip. Qed.
Print Assumptions C02_h1_trailer_round_trip.

(* up to five informational responses (100-continue, 103 early hints, ...) in front of the
   final response change nothing *)
Theorem C02_interim_responses_skipped : forall meth ims w r rest,
  Forall interim_ok ims -> length ims <= max_1xx ->
  read_response_head meth br_size w = inr (r, rest) -> is_1xx_nonterminal (r_code r) = false ->
  read_final_response meth (render_interims ims ++ w) = FinOk r rest.
Proof. exact final_after_interims. Qed.
Print Assumptions C02_interim_responses_skipped.

(* the exchange as the caller sees it: final response + body through the chosen read mode *)
Theorem C02_h1_delivery : forall meth m sizes ims w r b,
  Forall interim_ok ims -> length ims <= max_1xx ->
  parse_response meth br_size w = Accepted r b -> (r_code r < 100 \/ 199 < r_code r)%Z ->
  h1_exchange meth m sizes (render_interims ims ++ w) =
    Some {| d_resp := r; d_body := b; d_api := run_mode m (r_code r) sizes (body_reader b) |}.
Proof. exact h1_delivery. Qed.
Print Assumptions C02_h1_delivery.

(* ... and they are reported to the caller (httptrace.Got1xxResponse: 100-continue, 103 early
   hints, ...) with exactly their own status and header multimap, in order *)
Theorem C02_interim_heads_delivered : forall meth ims fuel w r rest,
  Forall interim_ok ims -> length ims < fuel ->
  read_response_head meth br_size w = inr (r, rest) -> is_1xx_nonterminal (r_code r) = false ->
  interim_heads fuel meth br_size (render_interims ims ++ w) =
    map (fun i => (i_code i, collect (after_conn (map field_of (i_fields i))))) ims.
Proof. exact interim_heads_delivered. Qed.
Print Assumptions C02_interim_heads_delivered.

(* 101 Switching Protocols (Upgrade + "Connection: upgrade"): the head is delivered like any
   other and Body hands the caller exactly the bytes that follow it, until the peer closes *)
Theorem C02_h1_upgrade_delivery : forall meth m sizes reason fs u us rest,
  reason_ok reason = true -> fields_ok fs -> pragma_neutral (map field_of fs) ->
  no_field K_TE (map field_of fs) -> no_field K_CL (map field_of fs) ->
  values_of K_UPGRADE (map field_of fs) = u :: us -> u <> [] ->
  header_values_contain_token (values_of K_CONNECTION (map field_of fs)) (bs "Upgrade") = true ->
  wants_close (map field_of fs) = false ->
  exists r,
    h1_exchange meth m sizes (render_head 101 reason fs ++ rest) =
      Some {| d_resp := r; d_body := switch_body r rest;
              d_api := run_mode m 101 sizes {| rd_rem := rest; rd_end := BEof |} |} /\
    r_code r = 101%Z /\ r_header r = collect (map field_of fs).
Proof. exact h1_upgrade_delivery. Qed.
Print Assumptions C02_h1_upgrade_delivery.

(* A response that was CUT is never delivered as a complete one: if [s ++ ext] is one complete
   self-delimited response and the connection delivers only [s] (ext <> []), then whatever the
   cut point - in the body, in the last-chunk line, between it and the trailer section, inside
   a trailer line, inside the final CRLF - the reader does not report a clean end.  (The body
   stream then fails, and by C02_failure_surfaces_in_every_mode every read mode reports it.) *)
Theorem C02_cut_never_complete : forall meth bufsize s ext r b,
  parse_response meth bufsize (s ++ ext) = Accepted r b ->
  b_end b = BOk -> b_rest b = [] -> r_framing r <> FrUntilClose -> ext <> [] ->
  forall r' b', parse_response meth bufsize s = Accepted r' b' -> b_end b' <> BOk.
Proof. exact cut_never_complete. Qed.
Print Assumptions C02_cut_never_complete.

(* ... instantiated: EVERY proper prefix of a rendered chunked response with a trailer section *)
Theorem C02_chunked_cut_detected : forall meth bufsize code reason fs tfs v cs l0 k,
  (100 <= code <= 999)%Z -> reason_ok reason = true -> fields_ok fs ->
  pragma_neutral (map field_of fs) ->
  is_head meth = false -> body_allowed_for_status code = true ->
  values_of K_TE (map field_of fs) = [v] -> bytes_eqb (to_lower v) (bs "chunked") = true ->
  no_field K_CL (map field_of fs) ->
  existsb bad_trailer_key (declared_keys (map field_of fs)) = false ->
  chunks_ok bufsize 0 cs -> size_line_ok bufsize l0 0 ->
  fields_ok tfs -> trailer_fits bufsize tfs ->
  let wire := render_head code reason fs ++ H1Render.render_chunks cs ++ l0 ++ H1Render.CRLF ++
              render_wfields tfs ++ H1Render.CRLF ++ [] in
  k < length wire ->
  forall r' b', parse_response meth bufsize (firstn k wire) = Accepted r' b' -> b_end b' <> BOk.
Proof. exact chunked_cut_detected. Qed.
Print Assumptions C02_chunked_cut_detected.

(* Transport.MaxResponseHeaderBytes is a budget per response head: when every head of the
   exchange - each interim 1xx response and the final response - is within the limit BY ITSELF,
   the limited reader delivers exactly what the unlimited one delivers, however large the heads
   are together: interim responses do not eat the final response's header budget. *)
Theorem C02_header_budget_is_per_head : forall meth bufsize lim fuel k s,
  heads_fit fuel meth bufsize lim s = true ->
  read_final_lim fuel meth bufsize lim k s = read_final fuel meth bufsize k s.
Proof. exact budget_is_per_head. Qed.
Print Assumptions C02_header_budget_is_per_head.

(* ---------- HTTP/2, HTTP/3 ---------- *)

(* h2_body_concat: EVERY partition into DATA frames, ANY padding, declared length or not *)
Theorem C02_h2_body_concat : forall fs last cl,
  open_frames fs -> fd_end last = true ->
  (cl = None \/ cl = Some (N.of_nat (length (payload (fs ++ [last]))))) ->
  h2_read cl false (h2_events (fs ++ [last]) false) = (payload (fs ++ [last]), H2Clean).
Proof. exact h2_body_concat. Qed.
Print Assumptions C02_h2_body_concat.

Theorem C02_h2_body_concat_trailers : forall fs cl,
  open_frames fs -> (cl = None \/ cl = Some (N.of_nat (length (payload fs)))) ->
  h2_read cl false (h2_events fs true) = (payload fs, H2Clean).
Proof. exact h2_body_concat_trailers. Qed.
Print Assumptions C02_h2_body_concat_trailers.

(* h3_body_concat: EVERY partition into DATA frames (empty ones included) then FIN *)
Theorem C02_h3_body_concat : forall parts rem,
  (rem = None \/ rem = Some (N.of_nat (length (concat parts)))) ->
  h3_read true rem (h3_events parts) = (concat parts, H3Clean).
Proof. exact h3_body_concat. Qed.
Print Assumptions C02_h3_body_concat.

(* Once the response stream has ended (END_STREAM on DATA or on the trailer block), ANY sequence
   of later peer events - RST_STREAM with any code (e.g. NO_ERROR to stop an upload), GOAWAY,
   the end of the connection - in any order relative to the caller's reads leaves status,
   header, trailers and the body the caller reads unchanged. *)
Theorem C02_h2_after_end_irrelevant : forall is_head heads frames trailers after m sizes,
  snd (h2_pipe (h2_events frames (match trailers with Some _ => true | None => false end))) <> H2Pending ->
  h2_exchange_after is_head heads frames trailers after m sizes =
  h2_exchange is_head heads frames trailers m sizes.
Proof. exact h2_after_end_irrelevant. Qed.
Print Assumptions C02_h2_after_end_irrelevant.

Theorem C02_h2_stream_ended : forall fs last,
  open_frames fs ->
  (fd_end last = true -> snd (h2_pipe (h2_events (fs ++ [last]) false)) <> H2Pending) /\
  snd (h2_pipe (h2_events fs true)) <> H2Pending.
Proof. exact (fun fs last Ho => conj (ended_on_data fs last Ho) (ended_on_trailers fs Ho)). Qed.
Print Assumptions C02_h2_stream_ended.

(* Several exchanges in flight on ONE connection.  [stream_view sid l] = what stream sid gets of
   the connection's frame sequence l; [foreign sid c] = c is none of its business (a frame of
   another stream, a PING, a graceful GOAWAY covering sid).  For EVERY interleaving of a
   stream's own frames with anything foreign - frames of any number of other streams, also
   streams that end or are reset meanwhile - the stream sees exactly its own frames, and its
   caller reads exactly what it would read with the connection to itself. *)
Theorem C02_h2_stream_view_interleave : forall sid own other l,
  interleave (map (CFrame sid) own) other l -> Forall (foreign sid) other ->
  stream_view sid l = own.
Proof. exact stream_view_interleave. Qed.
Print Assumptions C02_h2_stream_view_interleave.

Theorem C02_h2_concurrent_streams_independent : forall cl hdr_end sid own other l,
  interleave (map (CFrame sid) own) other l -> Forall (foreign sid) other ->
  h2_conn_read cl hdr_end sid l = h2_read cl hdr_end own.
Proof. exact concurrent_streams_independent. Qed.
Print Assumptions C02_h2_concurrent_streams_independent.

Theorem C02_h2_foreign_events : forall sid,
  (forall s e, s <> sid -> foreign sid (CFrame s e)) /\ foreign sid CPing /\
  (forall last, (sid <= last)%N -> foreign sid (CGoAway last)).
Proof. exact (fun sid => conj (foreign_other_stream sid) (conj (foreign_ping sid) (foreign_graceful_goaway sid))). Qed.
Print Assumptions C02_h2_foreign_events.

(* The connection-level receive window as state carried across the exchanges of a connection.
   For EVERY sequence of DATA frames (any padding), caller reads, early Closes with unread
   bytes and dropped frames: window available to the peer + credit pending + bytes still
   buffered unread = the initial window (no credit is ever lost) ... *)
Theorem C02_conn_window_conserved : forall w ops s s' a,
  cw_inv w s -> cw_run s ops = Some (s', a) -> cw_inv w s'.
Proof. exact conn_window_conserved. Qed.
Print Assumptions C02_conn_window_conserved.

(* ... so at every quiescent point (every body read to its end or closed) the peer may again send
   all but less than inflowMinRefresh bytes of the initial window: a later response is never
   starved by what callers did with earlier ones *)
Theorem C02_quiescent_window_restored : forall w ops s a,
  (0 <= w)%Z -> cw_run (cw_init w) ops = Some (s, a) -> cw_buf s = 0%Z ->
  quiescent_ok w (cw_avail s) = true /\ (w - cw_avail s = cw_unsent s)%Z.
Proof. exact quiescent_window_restored. Qed.
Print Assumptions C02_quiescent_window_restored.

Theorem C02_close_unread_returns_credit : forall w n,
  (min_refresh <= n <= w)%Z ->
  cw_run (cw_init w) [CData n 0; CClose n] = Some ({| cw_avail := w; cw_unsent := 0; cw_buf := 0 |}, n).
Proof. exact close_unread_returns_credit. Qed.
Print Assumptions C02_close_unread_returns_credit.

(* An HTTP/2 stream cut before END_STREAM is never delivered as complete: whatever DATA frames
   arrived (any number, any padding), with or without a declared length, if the connection ends
   with a clean FIN or a GOAWAY + FIN, or the stream is reset, the caller's read ends with an
   error - never with io.EOF. *)
Theorem C02_h2_cut_never_complete : forall fs k after cl,
  open_frames fs -> stream_cut k ->
  snd (h2_read cl false (h2_events fs false ++ k :: after)) <> H2Clean.
Proof. exact h2_cut_never_complete. Qed.
Print Assumptions C02_h2_cut_never_complete.

(* An HTTP/3 stream that ends (FIN) INSIDE a DATA frame is never delivered as complete: for
   every sequence of complete DATA frames followed by a frame of which only a part arrived,
   with or without a declared length, and whenever the FIN reached the client (together with
   the last bytes or later: the same event sequence), the read ends with an error; without a
   declared length the caller has received exactly the bytes that arrived. *)
Theorem C02_h3_cut_never_complete : forall parts declared partial rem,
  (N.of_nat (length partial) < declared)%N ->
  snd (h3_read true rem (h3_events_cut parts declared partial)) <> H3Clean /\
  (rem = None -> fst (h3_read true rem (h3_events_cut parts declared partial)) = concat parts ++ partial).
Proof. exact h3_cut_never_complete. Qed.
Print Assumptions C02_h3_cut_never_complete.

(* lower-case names on the wire, the same canonical multimap for the caller *)
Theorem C02_h2_header_collect : forall fs,
  token_names fs -> none_named K_TRAILER fs -> h2_header (lower_fields fs) = (collect fs, []).
Proof. exact h2_header_collect. Qed.
Print Assumptions C02_h2_header_collect.

Theorem C02_h3_header_collect : forall fs,
  token_names fs -> none_named K_CL fs -> none_named K_TRAILER fs ->
  h3_header (lower_fields fs) = Some (collect fs, [], (-1)%Z).
Proof. exact h3_header_collect. Qed.
Print Assumptions C02_h3_header_collect.

Theorem C02_trailer_fields_collect : forall fs, token_names fs -> add_all (lower_fields fs) = collect fs.
Proof. exact add_all_collect. Qed.
Print Assumptions C02_trailer_fields_collect.

(* cross_protocol_response.  [aresp_ok a fs tfs]: a is an abstract response with a status that
   allows a body, end-to-end header fields a_fields (written on an HTTP/1.1 wire as fs, any
   optional whitespace), trailer fields a_trailers (written as tfs), any body.  Sent
   chunked over HTTP/1.1 (ANY chunk partition / size-line spelling), as DATA frames + trailer
   block over HTTP/2 (ANY partition, ANY padding) and HTTP/3 (ANY partition), the caller
   obtains the same status, the same header multimap [collect (a_fields a)], the same trailer
   multimap [collect (a_trailers a)] and the same body through the same read mode. *)
Theorem C02_cross_h1 : forall a fs tfs cs l0 m sizes,
  aresp_ok a fs tfs ->
  chunks_ok br_size 0 cs -> size_line_ok br_size l0 0 -> concat (map snd cs) = a_body a ->
  trailer_fits br_size tfs ->
  exists r b,
    h1_exchange (bs "GET") m sizes
      (render_head (a_code a) (a_reason a) (fs ++ [te_chunked]) ++ H1Render.render_chunks cs ++
       l0 ++ H1Render.CRLF ++ render_wfields tfs ++ H1Render.CRLF ++ []) =
      Some {| d_resp := r; d_body := b; d_api := expected_api a m sizes |} /\
    r_code r = a_code a /\ r_header r = collect (a_fields a) /\
    b_trailer b = collect (a_trailers a) /\ b_data b = a_body a.
Proof. exact cross_h1. Qed.
Print Assumptions C02_cross_h1.

Theorem C02_cross_h2 : forall a fs tfs fr m sizes,
  aresp_ok a fs tfs -> open_frames fr -> payload fr = a_body a ->
  h2_exchange false
    [{| hh_status := code_text (a_code a); hh_fields := lower_fields (a_fields a); hh_end := false |}]
    fr (Some (lower_fields (a_trailers a))) m sizes =
  Some {| m_code := a_code a; m_header := collect (a_fields a); m_cl := -1;
          m_trailer := collect (a_trailers a); m_api := expected_api a m sizes |}.
Proof. exact cross_h2. Qed.
Print Assumptions C02_cross_h2.

Theorem C02_cross_h3 : forall a fs tfs parts m sizes,
  aresp_ok a fs tfs -> concat parts = a_body a ->
  h3_exchange false
    [{| h3_status := code_text (a_code a); h3_flds := lower_fields (a_fields a) |}]
    parts (Some (lower_fields (a_trailers a))) m sizes =
  Some {| m_code := a_code a; m_header := collect (a_fields a); m_cl := -1;
          m_trailer := collect (a_trailers a); m_api := expected_api a m sizes |}.
Proof. exact cross_h3. Qed.
Print Assumptions C02_cross_h3.

Theorem C02_cross_protocol_response : forall a fs tfs cs l0 fr parts m sizes,
  aresp_ok a fs tfs ->
  chunks_ok br_size 0 cs -> size_line_ok br_size l0 0 -> concat (map snd cs) = a_body a ->
  trailer_fits br_size tfs ->
  open_frames fr -> payload fr = a_body a -> concat parts = a_body a ->
  exists r b d2 d3,
    h1_exchange (bs "GET") m sizes
      (render_head (a_code a) (a_reason a) (fs ++ [te_chunked]) ++ H1Render.render_chunks cs ++
       l0 ++ H1Render.CRLF ++ render_wfields tfs ++ H1Render.CRLF ++ []) =
      Some {| d_resp := r; d_body := b; d_api := expected_api a m sizes |} /\
    h2_exchange false
      [{| hh_status := code_text (a_code a); hh_fields := lower_fields (a_fields a); hh_end := false |}]
      fr (Some (lower_fields (a_trailers a))) m sizes = Some d2 /\
    h3_exchange false
      [{| h3_status := code_text (a_code a); h3_flds := lower_fields (a_fields a) |}]
      parts (Some (lower_fields (a_trailers a))) m sizes = Some d3 /\
    r_code r = a_code a /\ m_code d2 = a_code a /\ m_code d3 = a_code a /\
    r_header r = collect (a_fields a) /\ m_header d2 = collect (a_fields a) /\
    m_header d3 = collect (a_fields a) /\
    b_trailer b = collect (a_trailers a) /\ m_trailer d2 = collect (a_trailers a) /\
    m_trailer d3 = collect (a_trailers a) /\
    m_api d2 = expected_api a m sizes /\ m_api d3 = expected_api a m sizes.
Proof. exact cross_protocol_response. Qed.
Print Assumptions C02_cross_protocol_response.

(* announced x sent trailer fields: what the Trailer header announced (any set of keys - a subset
   of the fields sent, a superset, disjoint from them, nothing) never hides a field that was
   sent.  Under every key that occurs in the trailer section the caller finds exactly the
   values sent, in order (HTTP/1.1: mergeSetHeader; HTTP/2: copyTrailers; HTTP/3 delivers
   [collect T] itself, C02_trailer_fields_collect); a key that was only announced stays as
   announced. *)
Theorem C02_trailers_sent_are_delivered : forall k declared T,
  hget k (merge_set_header declared (collect T)) =
    match values_of k T with [] => hget k declared | vs => Some vs end /\
  hget k (set_all declared (collect T)) =
    match values_of k T with [] => hget k declared | vs => Some vs end.
Proof. exact trailers_sent_are_delivered. Qed.
Print Assumptions C02_trailers_sent_are_delivered.

(* the linear-time copy of the reader that the correspondence check evaluates (Model/H1Fast.v)
   IS the reader the theorems above are about, on every input *)
Theorem C02_checked_reader_is_the_reader : forall meth m sizes s,
  h1_exchange_f meth m sizes s = h1_exchange meth m sizes s.
Proof. exact h1_exchange_f_eq. Qed.
Print Assumptions C02_checked_reader_is_the_reader.

(* ---------- read modes ---------- *)

(* a Read loop with EVERY schedule of positive buffer sizes returns the content, then the
   terminal condition *)
Theorem C02_reads_concat : forall sizes r,
  positive_sizes sizes -> length (rd_rem r) < length sizes ->
  drain sizes r = (rd_rem r, Some (rd_end r), exhausted r).
Proof. exact drain_all. Qed.
Print Assumptions C02_reads_concat.

(* read_modes_agree: auto-read Bytes() = restored Body streamed with any positive sizes =
   ToBytes again = DisableAutoReadResponse + streaming = ToBytes (twice) = bytes copied to the
   output writer / file *)
Theorem C02_read_modes_agree :
  forall (code : Z) (sizes : list nat) (d : bytes),
  (199 < code)%Z -> positive_sizes sizes -> length d < length sizes ->
  let body := {| rd_rem := d; rd_end := BEof |} in
  o_bytes (run_mode MAuto code sizes body) = Some d /\
  o_stream (run_mode MAuto code sizes body) = d /\
  o_again (run_mode MAuto code sizes body) = d /\
  o_stream (run_mode MStream code sizes body) = d /\
  o_stream (run_mode MToBytes code sizes body) = d /\
  o_again (run_mode MToBytes code sizes body) = d /\
  o_out (run_mode MOutput code sizes body) = d.
Proof. exact read_modes_agree. Qed.
Print Assumptions C02_read_modes_agree.

(* a body stream that fails after d: every mode reports the failure and delivers exactly d *)
Theorem C02_failure_surfaces_in_every_mode :
  forall (code : Z) (sizes : list nat) (d : bytes),
  (199 < code)%Z -> positive_sizes sizes -> length d < length sizes ->
  let body := {| rd_rem := d; rd_end := BFail |} in
  (let o := run_mode MAuto code sizes body in
   o_err o = true /\ o_bytes o = Some d /\ o_again_ok o = false) /\
  (let o := run_mode MStream code sizes body in o_stream o = d /\ o_stream_end o = Some BFail) /\
  (let o := run_mode MToBytes code sizes body in
   o_stream o = d /\ o_stream_end o = Some BFail /\ o_again_ok o = false) /\
  (let o := run_mode MOutput code sizes body in o_err o = true /\ o_out o = d).
Proof. exact failure_surfaces_in_every_mode. Qed.
Print Assumptions C02_failure_surfaces_in_every_mode.

(* ---------- the Response API in detail (round 2) ---------- *)

(* auto-read of a clean body: the cache holds the body (through the response-body transformer
   when one is installed), Body is a fresh reader over the cache, no error *)
Theorem C02_auto_read_caches : forall tf code d b,
  (199 < code)%Z -> view tf d = Some b ->
  finish (auto_cfg tf) code {| rd_rem := d; rd_end := BEof |} =
    {| a_state := {| s_err := false; s_cache := Some b; s_body := mem_reader b |};
       a_out := []; a_callbacks := []; a_unmarshal := None |}.
Proof. exact auto_read_caches. Qed.
Print Assumptions C02_auto_read_caches.

Theorem C02_transformer_failure_surfaces : forall f code d,
  (199 < code)%Z -> f d = None ->
  let r := finish (auto_cfg (Some f)) code {| rd_rem := d; rd_end := BEof |} in
  s_err (a_state r) = true /\ s_cache (a_state r) = None.
Proof. exact transformer_failure_surfaces. Qed.
Print Assumptions C02_transformer_failure_surfaces.

(* once cached: for ANY sequence of Bytes / String / ToBytes / ToString / UnmarshalJson / Read
   loops (any buffer sizes), any number of times, every view is the cached bytes - also the
   bytes handed to the unmarshaller - and the Read loops return a prefix of what Body held *)
Theorem C02_cached_ops_stable : forall tf ops s b,
  s_err s = false -> s_cache s = Some b ->
  Forall (op_sees b) (run_ops tf ops s) /\
  exists t, rd_rem (s_body s) = reads_of (run_ops tf ops s) ++ t.
Proof. exact cached_ops_stable. Qed.
Print Assumptions C02_cached_ops_stable.

(* the restored Body delivers the body exactly once; ToBytes still returns it afterwards *)
Theorem C02_restored_body_read_once : forall tf b sizes1 sizes2,
  positive_sizes sizes1 -> length b < length sizes1 -> sizes2 <> [] ->
  run_ops tf [OpRead sizes1; OpRead sizes2; OpToBytes]
    {| s_err := false; s_cache := Some b; s_body := mem_reader b |} =
  [OutRead b (Some BEof); OutRead [] (Some BEof); OutToBytes b true].
Proof. exact restored_body_read_once. Qed.
Print Assumptions C02_restored_body_read_once.

(* DisableAutoReadResponse, manual reads of any length, then ToBytes: the body, exactly once *)
Theorem C02_manual_reads_then_tobytes : forall d sizes,
  exists d1 e d2,
    run_ops None [OpRead sizes; OpToBytes]
      {| s_err := false; s_cache := None; s_body := {| rd_rem := d; rd_end := BEof |} |} =
    [OutRead d1 e; OutToBytes d2 true] /\ d1 ++ d2 = d.
Proof. exact manual_reads_then_tobytes. Qed.
Print Assumptions C02_manual_reads_then_tobytes.

(* SetOutput / SetOutputFile with a writer that may fail after accepting some bytes: the writer
   gets a prefix; no error reported => it got ALL of the body; a writer that cannot take
   everything fails the call; the download callback reports the full size *)
Theorem C02_download_no_silent_truncation : forall code d cap cb,
  let r := finish (save_cfg cap cb) code {| rd_rem := d; rd_end := BEof |} in
  (exists t, d = a_out r ++ t) /\
  (s_err (a_state r) = false -> a_out r = d) /\
  (match cap with Some n => n < length d | None => False end -> s_err (a_state r) = true) /\
  (cap = None -> cb = true -> d <> [] -> a_callbacks r = [length d]) /\
  s_cache (a_state r) = None.
Proof. exact download_no_silent_truncation. Qed.
Print Assumptions C02_download_no_silent_truncation.

Theorem C02_download_source_failure_surfaces : forall code d cb,
  s_err (a_state (finish (save_cfg None cb) code {| rd_rem := d; rd_end := BFail |})) = true.
Proof. exact download_source_failure_surfaces. Qed.
Print Assumptions C02_download_source_failure_surfaces.

(* SetSuccessResult + SetOutput: the unmarshaller and the writer both get the body *)
Theorem C02_result_then_download : forall code d,
  success_state code = true -> code <> 204%Z ->
  let c := {| c_disable_auto := false; c_save := true; c_cap := None; c_callback := false;
              c_result := true; c_tf := None |} in
  let r := finish c code {| rd_rem := d; rd_end := BEof |} in
  a_unmarshal r = Some d /\ a_out r = d /\ s_cache (a_state r) = Some d /\ s_err (a_state r) = false.
Proof. exact result_then_download. Qed.
Print Assumptions C02_result_then_download.

(* "saved to a file" = the body: for EVERY previous state of the file system (the file may exist
   and be longer than the new body), every output directory and file name: after the exchange
   the file holds exactly the body, no other file changed, no error *)
Theorem C02_output_file_equals_body : forall st dir file code d,
  let r := finish (save_cfg None false) code {| rd_rem := d; rd_end := BEof |} in
  let st' := download_to_file st dir file (a_out r) in
  store_get (output_path dir file) st' = Some d /\
  (forall q, bytes_eqb q (output_path dir file) = false -> store_get q st' = store_get q st) /\
  s_err (a_state r) = false.
Proof. exact output_file_equals_body. Qed.
Print Assumptions C02_output_file_equals_body.

(* the same path reused by two exchanges: the file holds the second body, in full *)
Theorem C02_output_file_last_write_wins : forall st dir file c1 d1 c2 d2,
  match download_all st dir [(file, c1, d1); (file, c2, d2)] with
  | [_; st2] => store_get (output_path dir file) st2 = Some d2
  | _ => False
  end.
Proof. exact output_file_last_write_wins. Qed.
Print Assumptions C02_output_file_last_write_wins.

(* ---------- the tie to the source text (coq/Gen/C02Consts.v, regenerated by gosync) ---------- *)

Theorem C02_auto_read_guard_is_the_sources :
  Gen.C02Consts.fork_auto_read_conjuncts =
    ["resp.Err == nil"; "!c.disableAutoReadResponse"; "!r.isSaveResponse";
     "!r.disableAutoReadResponse"; "resp.StatusCode > 199"]%string /\
  Gen.C02Consts.fork_restores_body = true.
Proof. exact auto_read_guard_agrees. Qed.
Print Assumptions C02_auto_read_guard_is_the_sources.

Theorem C02_model_auto_reads_under_the_sources_guard : forall c code body,
  c_result c = false -> c_save c = false ->
  a_state (finish c code body) =
    if (negb (c_disable_auto c) && (Gen.C02Consts.fork_auto_read_min_status <? code)%Z)%bool then
      let '(_, _, s) := to_bytes_t (c_tf c) {| s_err := false; s_cache := None; s_body := body |} in
      {| s_err := s_err s; s_cache := s_cache s;
         s_body := mem_reader (match s_cache s with Some b => b | None => [] end) |}
    else {| s_err := false; s_cache := None; s_body := body |}.
Proof. exact finish_auto_guard. Qed.
Print Assumptions C02_model_auto_reads_under_the_sources_guard.

Theorem C02_tobytes_and_download_guards_are_the_sources :
  (Gen.C02Consts.fork_tobytes_guards =
     ["r.Err != nil"; "r.body != nil"; "r.Response == nil || r.Response.Body == nil"]%string /\
   Gen.C02Consts.fork_transformer_guard =
     "err == nil && r.Request.client.responseBodyTransformer != nil"%string) /\
  (Gen.C02Consts.fork_download_guard = "r.Response == nil || !r.Request.isSaveResponse"%string /\
   Gen.C02Consts.fork_download_cache_guard = "r.body != nil"%string).
Proof. exact (conj tobytes_guards_agree download_guards_agree). Qed.
Print Assumptions C02_tobytes_and_download_guards_are_the_sources.

Theorem C02_bounds_are_the_sources :
  (forall code, success_state code =
     ((Gen.C02Consts.fork_success_lo <? code)%Z && (code <? Gen.C02Consts.fork_success_hi)%Z)%bool) /\
  Z.of_nat max_1xx = Gen.C02Consts.fork_max_1xx_h1 /\ Gen.C02Consts.fork_max_1xx_h2 = 5%Z /\
  Gen.C02Consts.fork_max_1xx_h3 = 5%Z /\ Z.of_nat br_size = Gen.C02Consts.fork_read_buffer.
Proof. exact (conj success_state_agrees bounds_agree). Qed.

Theorem C02_min_refresh_is_the_sources : min_refresh = Gen.C02Consts.fork_inflow_min_refresh.
Proof. exact min_refresh_agrees. Qed.
Print Assumptions C02_min_refresh_is_the_sources.
Print Assumptions C02_bounds_are_the_sources.

Example C02_nonvacuous :
  let fs := [ {| wf_name := bs "set-cookie"; wf_pre := bs " "; wf_value := bs "a=1"; wf_post := [] |};
              {| wf_name := bs "X-Empty"; wf_pre := []; wf_value := []; wf_post := bs "  " |};
              {| wf_name := bs "SET-COOKIE"; wf_pre := [x09]; wf_value := bs "b=2; Path=/"; wf_post := bs " " |} ] in
  Forall (fun x => wfield_ok x = true) fs /\
  read_mime_header 4096 (render_wfields fs ++ H1Render.CRLF ++ bs "body") =
    inr ([(bs "Set-Cookie", [bs "a=1"; bs "b=2; Path=/"]); (bs "X-Empty", [[]])], bs "body") /\
  (* a whole exchange: 103 early hints, then a chunked 200 with a trailer, auto-read *)
  let w := bs "HTTP/1.1 103 Early Hints" ++ H1Render.CRLF ++ bs "Link: </s.css>" ++ H1Render.CRLF ++ H1Render.CRLF ++
           bs "HTTP/1.1 200 OK" ++ H1Render.CRLF ++ bs "transfer-encoding: chunked" ++ H1Render.CRLF ++ H1Render.CRLF ++
           bs "3;x=y" ++ H1Render.CRLF ++ bs "abc" ++ H1Render.CRLF ++ bs "02" ++ H1Render.CRLF ++ bs "de" ++ H1Render.CRLF ++
           bs "0" ++ H1Render.CRLF ++ bs "x-sum: 5" ++ H1Render.CRLF ++ H1Render.CRLF in
  match h1_exchange (bs "GET") MAuto [2; 2; 2; 2] w with
  | Some d => r_code (d_resp d) = 200%Z /\ o_bytes (d_api d) = Some (bs "abcde") /\
              o_stream (d_api d) = bs "abcde" /\ b_trailer (d_body d) = [(bs "X-Sum", [bs "5"])]
  | None => False
  end.
Proof. split; [repeat constructor|]. split; vm_compute; repeat split; reflexivity. Qed.
