(* Properties/C02.v - Response fidelity: the caller gets exactly the response the server
   produced.  Only statements; every proof is a lemma of Proofs/*. *)
From ReqV Require Import Lib.Bytes Model.H1Resp Model.H1Render Model.RespRender
  Proofs.RespRenderProofs.

(* HTTP/1.1 header section: for EVERY list of well-formed fields (token names in any case,
   values of VCHAR / SP / HTAB / obs-text without blanks at the edges, any optional
   whitespace around the value on the wire) and every continuation [rest] of the stream,
   the header reader returns exactly the multimap of those fields and [rest] untouched. *)
Theorem C02_mime_header_round_trip : forall bufsize fs rest,
  Forall (fun x => wfield_ok x = true) fs ->
  read_mime_header bufsize (render_wfields fs ++ CRLF ++ rest) =
    inr (collect (map field_of fs), rest).
Proof. exact mime_header_round_trip. Qed.
Print Assumptions C02_mime_header_round_trip.

(* what "the multimap of those fields" means: under every key, the values of the fields
   whose name canonicalises to that key, in emission order; nothing else *)
Theorem C02_header_values_per_name : forall k fs,
  hget k (collect fs) = match values_of k fs with [] => None | vs => Some vs end.
Proof. exact hget_collect. Qed.
Print Assumptions C02_header_values_per_name.

Example C02_nonvacuous :
  let fs := [ {| wf_name := bs "set-cookie"; wf_pre := bs " "; wf_value := bs "a=1"; wf_post := [] |};
              {| wf_name := bs "X-Empty"; wf_pre := []; wf_value := []; wf_post := bs "  " |};
              {| wf_name := bs "SET-COOKIE"; wf_pre := [x09]; wf_value := bs "b=2; Path=/"; wf_post := bs " " |} ] in
  Forall (fun x => wfield_ok x = true) fs /\
  read_mime_header 4096 (render_wfields fs ++ CRLF ++ bs "body") =
    inr ([(bs "Set-Cookie", [bs "a=1"; bs "b=2; Path=/"]); (bs "X-Empty", [[]])], bs "body").
Proof. split; [repeat constructor|vm_compute; reflexivity]. Qed.
