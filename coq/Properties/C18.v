(* Properties/C18.v - Response classification, result binding and the error contract.
   Only statements, `exact`, and Print Assumptions.  Model: Model/Pipeline.v (control flow of
   Request.Send/Do/do, Client.roundTrip, parseResponseBody, Response.ResultState/ToBytes, digest
   re-send; every user-supplied stage is an oracle value of the program). *)
From ReqV Require Import Lib.Bytes Model.Pipeline Model.Entry Model.CloneMw Proofs.PipelineProofs Proofs.EntryProofs Proofs.CloneMwProofs.
Open Scope Z_scope.

(* ---- classification: every status code - indeed every integer - falls in exactly one state ---- *)
Theorem C18_classify_total : forall code : Z,
  (200 <= code <= 299 /\ default_result_state code = SuccessState) \/
  (400 <= code /\ default_result_state code = ErrorState) \/
  ((code < 200 \/ 300 <= code <= 399) /\ default_result_state code = UnknownState).
Proof. exact classify_total. Qed.
Print Assumptions C18_classify_total.

Theorem C18_classify_ranges : forall code,
  (default_result_state code = SuccessState <-> 200 <= code <= 299) /\
  (default_result_state code = ErrorState <-> 400 <= code) /\
  (default_result_state code = UnknownState <-> (code < 200 \/ 300 <= code <= 399)).
Proof. exact classify_ranges. Qed.
Print Assumptions C18_classify_ranges.

(* ---- result binding (one parseResponseBody step, any response, any oracles) ---- *)
Theorem C18_success_result_iff : forall tg b r,
  r_result r = false ->
  (r_result (fst (parse_response_body tg b r)) = true <->
   t_result tg = true /\ r_present r = true /\ result_state r = SuccessState /\
   r_status r <> no_content /\ body_ok b r /\ b_um_res b = None).
Proof. exact success_result_iff. Qed.
Print Assumptions C18_success_result_iff.

(* the request-level target shadows the client-level common error type *)
Theorem C18_error_result_iff : forall tg b r,
  r_error r = ENone ->
  let r' := fst (parse_response_body tg b r) in
  (r_error r' = EReq <->
     t_error tg = true /\ r_present r = true /\ result_state r = ErrorState /\
     r_status r <> no_content /\ body_ok b r /\ b_um_req b = None) /\
  (r_error r' = ECommon <->
     t_error tg = false /\ t_common tg = true /\ r_present r = true /\ result_state r = ErrorState /\
     r_status r <> no_content /\ body_ok b r /\ b_um_com b = None).
Proof. exact error_result_iff. Qed.
Print Assumptions C18_error_result_iff.

Theorem C18_never_both : forall tg b r,
  r_result r = false -> r_error r = ENone ->
  let r' := fst (parse_response_body tg b r) in
  ~ (r_result r' = true /\ r_error r' <> ENone).
Proof. exact never_both. Qed.
Print Assumptions C18_never_both.

Theorem C18_unmarshal_failure_surfaces : forall tg b r w x,
  applicable tg r = Some w -> body_ok b r -> um_of b w = Some x ->
  snd (parse_response_body tg b r) = Some x /\
  r_result (fst (parse_response_body tg b r)) = r_result r /\
  r_error (fst (parse_response_body tg b r)) = r_error r.
Proof. exact unmarshal_failure_surfaces. Qed.
Print Assumptions C18_unmarshal_failure_surfaces.

Theorem C18_read_failure_surfaces : forall tg b r w,
  applicable tg r = Some w -> ~ body_ok b r ->
  snd (parse_response_body tg b r) <> None /\
  r_result (fst (parse_response_body tg b r)) = r_result r /\
  r_error (fst (parse_response_body tg b r)) = r_error r.
Proof. exact read_failure_surfaces. Qed.
Print Assumptions C18_read_failure_surfaces.

(* ... and through Client.roundTrip and a whole call: the caller's response carries exactly the
   bindings of one step on the auto-read transport answer (so the biconditionals above apply to it) *)
Theorem C18_round_trip_binding : forall fl cfg a r e l s chk b,
  round_trip fl cfg a = (Some r, e, l) -> Forall is_user (a_cli a) ->
  a_getbody a = None -> a_transport a = TResp s chk b ->
  let r3 := auto_read (c_autoread cfg) autoread_status_ok b (mkResp true s chk None false false ENone) in
  r_result r3 = false /\ r_error r3 = ENone /\ r_present r3 = true /\ r_status r3 = s /\ r_chk r3 = chk /\
  r_result r = r_result (fst (parse_response_body (c_targets cfg) b r3)) /\
  r_error r = r_error (fst (parse_response_body (c_targets cfg) b r3)) /\
  r_present r = true /\ r_status r = s.
Proof. exact round_trip_binding. Qed.
Print Assumptions C18_round_trip_binding.

Theorem C18_round_trip_no_binding : forall fl cfg a r e l,
  round_trip fl cfg a = (Some r, e, l) -> Forall is_user (a_cli a) ->
  (a_getbody a <> None \/ exists x, a_transport a = TFail x) ->
  r_result r = false /\ r_error r = ENone /\ r_present r = false /\ r_err r <> None.
Proof. exact round_trip_no_binding. Qed.
Print Assumptions C18_round_trip_no_binding.

Theorem C18_call_binding_passthrough : forall fl cfg a rest n prev r0 e0 l0,
  c_retry cfg = None ->
  fst (run_before (a_ud a) 0) = None -> a_bi a = None ->
  Forall (fun w => w = WPass) (a_wraps a) -> Forall is_user (a_req a) ->
  round_trip fl cfg a = (Some r0, e0, l0) ->
  exists r e ls, do_loop fl cfg (a :: rest) n prev = DoRet (Some r) e ls /\
    r_result r = r_result r0 /\ r_error r = r_error r0 /\ r_present r = r_present r0 /\ r_status r = r_status r0.
Proof. exact call_binding_passthrough. Qed.
Print Assumptions C18_call_binding_passthrough.

(* ---- a call always returns a non-nil response whose recorded error equals the returned error ---- *)
Theorem C18_resp_never_nil : forall fl p ro e ls h, run fl p = Returned ro e ls h -> ro <> None.
Proof. exact resp_never_nil. Qed.
Print Assumptions C18_resp_never_nil.

Theorem C18_err_equals_resp_err : forall fl p ro e ls h,
  run fl p = Returned ro e ls h -> p_entry p <> EDo -> e = resp_err ro.
Proof. exact err_equals_resp_err. Qed.
Print Assumptions C18_err_equals_resp_err.

Theorem C18_must_panics_with_resp_err : forall fl p,
  p_entry p = EMust ->
  match run fl p with
  | Panicked x ls h =>
      exists ro e0, do_call fl (p_cfg p) (p_attempts p) = DoRet ro e0 ls /\
        (resp_err (after_hook (p_cfg p) ro) = Some x \/
         exists hb, resp_err ro <> None /\ c_onerror (p_cfg p) = Some hb /\ h_panic hb = Some x)
  | Returned ro e ls h => e = None /\ resp_err ro = None
  | OutOfFuel => do_call fl (p_cfg p) (p_attempts p) = DoOutOfFuel
  end.
Proof. exact must_panics_with_resp_err. Qed.
Print Assumptions C18_must_panics_with_resp_err.

(* at the Do exit: an error returned by do() is recorded in the response *)
Theorem C18_do_err_recorded : forall fl cfg atts n prev ro x ls,
  do_loop fl cfg atts n prev = DoRet ro (Some x) ls -> resp_err ro <> None.
Proof. exact do_err_recorded. Qed.
Print Assumptions C18_do_err_recorded.

Theorem C18_round_trip_err_eq : forall fl cfg a ro e l, round_trip fl cfg a = (ro, e, l) ->
  exists r, ro = Some r /\ e = r_err r.
Proof. exact round_trip_err_eq. Qed.
Print Assumptions C18_round_trip_err_eq.

(* fuel: the distinguished out-of-fuel result does not occur when there are enough attempt scripts *)
Theorem C18_fuel_suffices : forall fl cfg atts n prev mx conds,
  c_retry cfg = Some (mx, conds) -> 0 <= mx -> 0 <= n -> (Z.to_nat (mx - n) < length atts)%nat ->
  do_loop fl cfg atts n prev <> DoOutOfFuel.
Proof. exact fuel_suffices. Qed.
Print Assumptions C18_fuel_suffices.

Theorem C18_fuel_suffices_no_retry : forall fl cfg a rest n prev,
  c_retry cfg = None -> do_loop fl cfg (a :: rest) n prev <> DoOutOfFuel.
Proof. exact fuel_suffices_no_retry. Qed.
Print Assumptions C18_fuel_suffices_no_retry.

(* ---- middleware order and multiplicity, for every iteration of do() ---- *)
(* the logs of a call are, one by one, the logs of the iterations that ran ... *)
Theorem C18_logs_are_attempt_logs : forall fl cfg atts n prev ro e ls,
  do_loop fl cfg atts n prev = DoRet ro e ls ->
  (1 <= length ls <= length atts)%nat /\
  forall k l, nth_error ls k = Some l ->
    exists a prev', nth_error atts k = Some a /\ snd (do_attempt fl cfg a (n + Z.of_nat k) prev') = l.
Proof. exact do_loop_logs. Qed.
Print Assumptions C18_logs_are_attempt_logs.

(* ... and in every iteration: request middleware first, in registration order, stopping at the
   first failure; anything else (wrappers, transport, response middleware) only after all of
   them and the built-in chain succeeded *)
Theorem C18_request_middleware_in_order_before_send : forall fl cfg a n prev st l,
  do_attempt fl cfg a n prev = (st, l) ->
  exists j rest,
    l = map EvUd (seq 0 j) ++ rest /\ filter is_ud rest = [] /\ (j <= length (a_ud a))%nat /\
    (rest <> [] -> j = length (a_ud a) /\ Forall (fun m => m = None) (a_ud a) /\ a_bi a = None) /\
    (forall x, fst (run_before (a_ud a) 0) = Some x ->
       nth_error (a_ud a) (j - 1) = Some (Some x) /\ Forall (fun m => m = None) (firstn (j - 1) (a_ud a)) /\
       rest = [] /\ st = Stop prev (Some x)).
Proof. exact request_middleware_in_order_before_send. Qed.
Print Assumptions C18_request_middleware_in_order_before_send.

Theorem C18_response_middleware_after_every_attempt : forall fl cfg a n prev st l,
  do_attempt fl cfg a n prev = (st, l) ->
  fst (run_before (a_ud a) 0) = None -> a_bi a = None ->
  (exists k, (k <= length (a_req a))%nat /\ filter is_req l = user_evs EvReq (firstn k (a_req a)) 0 /\
      (a_req a <> [] -> (1 <= k)%nat) /\
      (k < length (a_req a) -> exists ro x, st = Stop ro (Some x)))%nat /\
  (Forall calls_inner_once (a_wraps a) -> a_getbody a = None ->
      filter is_cli l = user_evs EvCli (a_cli a) 0 /\ In EvSend l) /\
  (exists k, filter is_cli l = napp k (user_evs EvCli (a_cli a) 0)).
Proof. exact response_middleware_after_every_attempt. Qed.
Print Assumptions C18_response_middleware_after_every_attempt.

(* the error hook: exactly once for a verb-style call that ends in error, never otherwise *)
Theorem C18_on_error_exactly_once : forall fl p,
  hooks_of (run fl p) =
  match p_entry p with
  | EDo => 0%nat
  | _ => if ends_in_error fl p && is_some (c_onerror (p_cfg p)) then 1%nat else 0%nat
  end.
Proof. exact on_error_exactly_once. Qed.
Print Assumptions C18_on_error_exactly_once.

Theorem C18_ends_in_error_iff : forall fl p,
  p_entry p <> EDo ->
  (forall hb, c_onerror (p_cfg p) = Some hb -> h_set hb = None /\ h_panic hb = None) ->
  (ends_in_error fl p = true <->
   match run fl p with
   | Returned _ e _ _ => e <> None
   | Panicked _ _ _ => True
   | OutOfFuel => False
   end).
Proof. exact ends_in_error_iff. Qed.
Print Assumptions C18_ends_in_error_iff.

(* ---- the error the caller sees: the precise precedence, stage by stage ---- *)
(* request middleware / built-in request chain *)
Theorem C18_before_error_is_seen : forall fl cfg a rest n prev x,
  fst (run_before (a_ud a) 0) = Some x \/ (fst (run_before (a_ud a) 0) = None /\ a_bi a = Some x) ->
  exists r l, do_loop fl cfg (a :: rest) n prev = DoRet (Some r) (Some x) [l] /\
    r_err r = (match resp_err prev with Some y => Some y | None => Some x end) /\
    filter is_send l = [] /\ filter is_cli l = [] /\ filter is_req l = [].
Proof. exact before_error_is_seen. Qed.
Print Assumptions C18_before_error_is_seen.

(* transport, GetBody, unmarshalling: seen unless a later client-level middleware raises; among
   client-level middleware the LAST one that raises decides (every one of them runs) *)
Theorem C18_client_middleware_last_wins : forall fl cfg ms i r, Forall is_user ms ->
  let r' := fst (run_cli fl cfg ms i r) in
  r_err r' = last_wins (r_err r) ms /\
  r_present r' = r_present r /\ r_status r' = r_status r /\ r_chk r' = r_chk r /\
  r_cached r' = r_cached r /\ r_result r' = r_result r /\ r_error r' = r_error r.
Proof. exact run_cli_user. Qed.
Print Assumptions C18_client_middleware_last_wins.

Theorem C18_transport_error_is_seen : forall fl cfg a x, a_getbody a = None -> a_transport a = TFail x ->
  Forall is_user (a_cli a) ->
  exists r l, round_trip fl cfg a = (Some r, r_err r, l) /\ r_err r = last_wins (Some x) (a_cli a) /\ r_present r = false.
Proof. exact transport_error_is_seen. Qed.
Print Assumptions C18_transport_error_is_seen.

Theorem C18_getbody_error_is_seen : forall fl cfg a x, a_getbody a = Some x ->
  exists r, round_trip fl cfg a = (Some r, Some x, []) /\ r_err r = Some x.
Proof. exact getbody_error_is_seen. Qed.
Print Assumptions C18_getbody_error_is_seen.

Theorem C18_unmarshal_error_is_seen : forall fl cfg a s chk b w x,
  a_getbody a = None -> a_transport a = TResp s chk b -> Forall is_user (a_cli a) ->
  b_read b = None -> b_tf b = None -> c_save cfg = false ->
  applicable (c_targets cfg) (mkResp true s chk None false false ENone) = Some w -> um_of b w = Some x ->
  exists r l, round_trip fl cfg a = (Some r, r_err r, l) /\ r_err r = last_wins (Some x) (a_cli a) /\
              r_result r = false /\ r_error r = ENone.
Proof. exact unmarshal_error_is_seen. Qed.
Print Assumptions C18_unmarshal_error_is_seen.

(* wrapping round-trippers: registration order from the inside out; do() keeps a recorded error
   over a returned one *)
Theorem C18_wrapped_result_fold : forall fl cfg a, Forall (fun w => w <> WTwice) (a_wraps a) ->
  fst (wrapped_round_trip fl cfg a) = fold_left wrap_step (a_wraps a) (fst (round_trip fl cfg a)).
Proof. exact wrapped_result_fold. Qed.
Print Assumptions C18_wrapped_result_fold.

Theorem C18_normalise_err : forall ro e,
  r_err (normalise ro e) = match resp_err ro with Some y => Some y | None => e end.
Proof. exact normalise_err. Qed.
Print Assumptions C18_normalise_err.

(* request-level middleware: assignments accumulate, the FIRST returned error ends the call *)
Theorem C18_request_level_first_wins : forall fl cfg ms i r, Forall is_user ms ->
  let '(r2, e, _) := run_req fl cfg ms i r in
  (r_err r2, e) = req_outcome ms (r_err r) /\
  r_present r2 = r_present r /\ r_status r2 = r_status r /\ r_result r2 = r_result r /\ r_error r2 = r_error r.
Proof. exact run_req_user. Qed.
Print Assumptions C18_request_level_first_wins.

(* never swallowed: an error recorded or returned by the round trip, or returned by a
   request-level middleware, leaves the caller with resp.Err set *)
Theorem C18_stage_error_never_swallowed : forall fl cfg a n prev ro e l,
  do_attempt fl cfg a n prev = (Stop ro e, l) ->
  fst (run_before (a_ud a) 0) = None -> a_bi a = None ->
  (let '(ro0, e0, _) := wrapped_round_trip fl cfg a in resp_err ro0 <> None \/ e0 <> None) \/ e <> None ->
  exists r, fst (do_deferred ro e) = Some r /\ r_err r <> None.
Proof. exact attempt_error_kept. Qed.
Print Assumptions C18_stage_error_never_swallowed.

Theorem C18_client_error_sticky : forall fl cfg ms i r, r_err r <> None -> r_err (fst (run_cli fl cfg ms i r)) <> None.
Proof. exact run_cli_sticky. Qed.
Print Assumptions C18_client_error_sticky.

(* a wrapper that calls the inner round-tripper twice hands on the SECOND call's result; a
   response fabricated by the outermost wrapper is never read and never bound *)
Theorem C18_twice_returns_second : forall rest i in1 in2,
  fst (run_wraps (WTwice :: rest) i in1 in2) = fst (run_wraps rest (pred i) in2 in2).
Proof. exact twice_returns_second. Qed.
Print Assumptions C18_twice_returns_second.

Theorem C18_fabricated_response_not_bound : forall fl cfg a ws st chk,
  a_wraps a = ws ++ [WFab st chk] ->
  fst (wrapped_round_trip fl cfg a) = (Some (mkResp true st chk None false false ENone), None).
Proof. exact fabricated_response_not_bound. Qed.
Print Assumptions C18_fabricated_response_not_bound.

(* ---- the error hook is a user function too: it may rewrite resp.Err or panic ---- *)
Theorem C18_run_verb_spec : forall fl p, p_entry p <> EDo ->
  match do_call fl (p_cfg p) (p_attempts p) with
  | DoOutOfFuel => run fl p = OutOfFuel
  | DoRet ro e0 ls =>
    let hook_runs := is_some (resp_err ro) && is_some (c_onerror (p_cfg p)) in
    let h := if hook_runs then 1%nat else 0%nat in
    (exists x hb, hook_runs = true /\ c_onerror (p_cfg p) = Some hb /\ h_panic hb = Some x /\ run fl p = Panicked x ls 1) \/
    ((forall hb, hook_runs = true -> c_onerror (p_cfg p) = Some hb -> h_panic hb = None) /\
     run fl p = finish (p_entry p) (after_hook (p_cfg p) ro) ls h)
  end.
Proof. exact run_verb_spec. Qed.
Print Assumptions C18_run_verb_spec.

(* ---- download next to result targets ---- *)
Theorem C18_binding_then_download_from_cache : forall cfg tg b r w,
  applicable tg r = Some w -> body_ok b r ->
  let r' := fst (parse_response_body tg b r) in
  r_cached r' = true /\
  (c_save cfg = true -> handle_download cfg b r' = match b_write b with Some e => Some e | None => b_close b end).
Proof. exact binding_then_download_from_cache. Qed.
Print Assumptions C18_binding_then_download_from_cache.

Theorem C18_download_streams_when_unread : forall cfg b r,
  c_save cfg = true -> r_present r = true -> r_cached r = false -> r_err r = None ->
  handle_download cfg b r =
  match b_read b with Some e => Some e | None => match b_write b with Some e => Some e | None => b_close b end end.
Proof. exact download_streams_when_unread. Qed.
Print Assumptions C18_download_streams_when_unread.

Theorem C18_download_keeps_earlier_error : forall cfg b r e,
  r_cached r = false -> r_err r = Some e -> c_save cfg = true -> r_present r = true ->
  handle_download cfg b r = None.
Proof. exact download_keeps_earlier_error. Qed.
Print Assumptions C18_download_keeps_earlier_error.

(* closing the output: a failed copy keeps its error for EVERY close outcome; a failed close fails
   an otherwise good download *)
Theorem C18_copy_error_kept_for_every_close : forall cfg b r e c,
  c_save cfg = true -> r_present r = true -> (r_cached r = true \/ r_err r = None) -> copy_result b r = Some e ->
  handle_download cfg (with_close c b) r = Some e.
Proof. exact copy_error_kept_for_every_close. Qed.
Print Assumptions C18_copy_error_kept_for_every_close.

Theorem C18_close_error_fails_download : forall cfg b r c,
  c_save cfg = true -> r_present r = true -> (r_cached r = true \/ r_err r = None) -> copy_result b r = None ->
  handle_download cfg (with_close c b) r = c.
Proof. exact close_error_fails_download. Qed.
Print Assumptions C18_close_error_fails_download.

Theorem C18_close_overwrite_loses_copy_error :
  let cfg := mkCfg (mkTargets false false false) false None None None false true in
  let b := mkBody (Some 7) None None None None None None in
  let r := mkResp true 200 None None false false ENone in
  handle_download_close_overwrites cfg b r = None /\ handle_download cfg b r = Some 7.
Proof. exact close_overwrite_loses_copy_error. Qed.
Print Assumptions C18_close_overwrite_loses_copy_error.

(* ---- the request-level error target's outcome stands for EVERY outcome of the client-level type ---- *)
Theorem C18_request_target_failure_stands : forall tg b r x u,
  t_error tg = true -> r_present r = true -> result_state r = ErrorState -> r_status r <> no_content ->
  body_ok b r -> b_um_req b = Some x ->
  snd (parse_response_body tg (with_um_com u b) r) = Some x /\
  r_error (fst (parse_response_body tg (with_um_com u b) r)) = r_error r /\
  r_result (fst (parse_response_body tg (with_um_com u b) r)) = r_result r.
Proof. exact request_target_failure_stands. Qed.
Print Assumptions C18_request_target_failure_stands.

Theorem C18_request_target_shadows_for_every_common_outcome : forall tg b r u,
  t_error tg = true -> r_present r = true -> result_state r = ErrorState -> r_status r <> no_content ->
  body_ok b r -> b_um_req b = None -> r_error r = ENone ->
  r_error (fst (parse_response_body tg (with_um_com u b) r)) = EReq.
Proof. exact request_target_shadows_for_every_common_outcome. Qed.
Print Assumptions C18_request_target_shadows_for_every_common_outcome.

Theorem C18_flattened_branch_overwrites_failure :
  let tg := mkTargets false true true in
  let b := mkBody None None None (Some 7) None None None in
  let r := mkResp true 500 None None true false ENone in
  parse_error_branch_flattened tg b r = (set_error ECommon r, None) /\ parse_response_body tg b r = (r, Some 7).
Proof. exact flattened_branch_overwrites_failure. Qed.
Print Assumptions C18_flattened_branch_overwrites_failure.

(* ---- a failing body read surfaces for EVERY body transformer (installed or not, failing or not) ---- *)
Theorem C18_read_error_kept_for_every_transformer : forall b r e tf,
  r_err r = None -> r_cached r = false -> r_present r = true -> b_read b = Some e ->
  to_bytes (with_tf tf b) r = (set_cached true (set_err (Some e) r), Some e).
Proof. exact read_error_kept_for_every_transformer. Qed.
Print Assumptions C18_read_error_kept_for_every_transformer.

Theorem C18_read_failure_surfaces_for_every_transformer : forall tg b r w e tf,
  applicable tg r = Some w -> r_err r = None -> r_cached r = false -> b_read b = Some e ->
  snd (parse_response_body tg (with_tf tf b) r) = Some e /\
  r_err (fst (parse_response_body tg (with_tf tf b) r)) = Some e /\
  r_result (fst (parse_response_body tg (with_tf tf b) r)) = r_result r /\
  r_error (fst (parse_response_body tg (with_tf tf b) r)) = r_error r.
Proof. exact read_failure_surfaces_for_every_transformer. Qed.
Print Assumptions C18_read_failure_surfaces_for_every_transformer.

(* the auto-read drops ToBytes' return value and relies on the error being RECORDED *)
Theorem C18_auto_read_error_is_seen : forall fl cfg a s chk b e tf,
  a_getbody a = None -> a_transport a = TResp s chk (with_tf tf b) -> Forall is_user (a_cli a) ->
  c_autoread cfg = true -> autoread_status_ok s = true -> c_save cfg = false -> b_read b = Some e ->
  exists r l, round_trip fl cfg a = (Some r, r_err r, l) /\ r_err r = last_wins (Some e) (a_cli a) /\
              r_result r = false /\ r_error r = ENone.
Proof. exact auto_read_error_is_seen. Qed.
Print Assumptions C18_auto_read_error_is_seen.

(* the refactoring that runs the transformer regardless of the read error loses it (seeded b-m2) *)
Theorem C18_unguarded_transformer_loses_read_error :
  let b := mkBody (Some 7) None None None None None None in
  let r := mkResp true 200 None None false false ENone in
  to_bytes_unguarded b r = (set_cached true r, None) /\ to_bytes b r = (set_cached true (set_err (Some 7) r), Some 7).
Proof. exact unguarded_transformer_loses_read_error. Qed.
Print Assumptions C18_unguarded_transformer_loses_read_error.

(* ---- any state checker: the verdict of a custom resultStateCheckFunc is an arbitrary value ---- *)
Theorem C18_custom_checker_decides : forall r s, r_present r = true -> r_chk r = Some s -> result_state r = s.
Proof. exact custom_checker_decides. Qed.
Print Assumptions C18_custom_checker_decides.

Theorem C18_other_state_binds_nothing : forall tg b r,
  result_state r <> SuccessState -> result_state r <> ErrorState ->
  parse_response_body tg b r = (r, None).
Proof. exact other_state_binds_nothing. Qed.
Print Assumptions C18_other_state_binds_nothing.

Theorem C18_checker_overrides_status : forall tg b r,
  r_present r = true -> r_chk r = Some ErrorState -> r_result r = false ->
  r_result (fst (parse_response_body tg b r)) = false.
Proof. exact checker_overrides_status. Qed.
Print Assumptions C18_checker_overrides_status.

(* ---- several attempts: the caller gets the LAST attempt's bindings only ---- *)
Theorem C18_retry_clears_bindings : forall fl cfg a n prev r l,
  do_attempt fl cfg a n prev = (Again r, l) -> r_result r = false /\ r_error r = ENone /\ r_cached r = false.
Proof. exact retry_clears_bindings. Qed.
Print Assumptions C18_retry_clears_bindings.

Theorem C18_attempt_independent_of_prev : forall fl cfg a n prev prev',
  fst (run_before (a_ud a) 0) = None -> a_bi a = None ->
  do_attempt fl cfg a n prev = do_attempt fl cfg a n prev'.
Proof. exact attempt_independent_of_prev. Qed.
Print Assumptions C18_attempt_independent_of_prev.

Theorem C18_result_is_last_attempts : forall fl cfg atts n prev r e ls,
  do_loop fl cfg atts n prev = DoRet (Some r) e ls ->
  exists k a prev' ro e0 l,
    k = (length ls - 1)%nat /\ nth_error atts k = Some a /\ nth_error ls k = Some l /\
    do_attempt fl cfg a (n + Z.of_nat k) prev' = (Stop ro e0, l) /\ do_deferred ro e0 = (Some r, e) /\
    ((k = 0)%nat -> prev' = prev) /\
    ((0 < k)%nat -> exists p, prev' = Some p /\ r_result p = false /\ r_error p = ENone /\ r_cached p = false).
Proof. exact result_is_last_attempts. Qed.
Print Assumptions C18_result_is_last_attempts.

(* ---- what runs / binds is what THAT client carries (through Clone): response middleware, request
   middleware, round-trip wrappers, common error type ---- *)
(* after the last registration / setting on a client, nothing registered on, set on or cloned from
   any other client (the original, a sibling, a clone of the clone) changes what that client carries *)
Theorem C18_later_ops_on_others_irrelevant : forall ops s c, (c < length s)%nat ->
  forallb (fun o => negb (touches c o)) ops = true ->
  nth c (fold_left step ops s) cl0 = nth c s cl0.
Proof. exact later_ops_on_others_irrelevant. Qed.
Print Assumptions C18_later_ops_on_others_irrelevant.

Theorem C18_clone_copies : forall s src, nth (length s) (step s (CClone src)) cl0 = nth src s cl0.
Proof. exact clone_copies. Qed.
Print Assumptions C18_clone_copies.

Theorem C18_reg_appends : forall s c k m, (c < length s)%nat ->
  nth c (step s (CReg c k m)) cl0 = reg k m (nth c s cl0).
Proof. exact reg_appends. Qed.
Print Assumptions C18_reg_appends.

Theorem C18_errtype_sets_own : forall s c t, (c < length s)%nat ->
  cl_et (nth c (step s (CErrType c t)) cl0) = t /\
  cl_resp (nth c (step s (CErrType c t)) cl0) = cl_resp (nth c s cl0) /\
  cl_wraps (nth c (step s (CErrType c t)) cl0) = cl_wraps (nth c s cl0).
Proof. exact errtype_sets_own. Qed.
Print Assumptions C18_errtype_sets_own.

(* ---- every verb-style entry point: the table regenerated from request.go / request_wrapper.go ----
   (Get/Post/Put/Patch/Delete/Head/Options, their Must* forms, and the package-level functions on
   the default client).  A new entry point, or one whose body no longer has a modelled shape, fails
   the translation; a changed table re-checks these. *)
Theorem C18_entry_table_complete : table_complete entry_table = true.
Proof. exact entry_table_complete. Qed.
Print Assumptions C18_entry_table_complete.

Theorem C18_entry_points_contract : forall name pkg sh k, In (name, pkg, sh) entry_table ->
  kind_of entry_table name pkg = Some k ->
  forall fl cfg atts,
  let p := mkProg k cfg atts in
  k <> EDo /\
  (forall ro e ls h, run fl p = Returned ro e ls h -> ro <> None /\ e = resp_err ro /\ (k = EMust -> e = None)) /\
  hooks_of (run fl p) = (if ends_in_error fl p && is_some (c_onerror cfg) then 1 else 0)%nat.
Proof. exact entry_points_contract. Qed.
Print Assumptions C18_entry_points_contract.

Theorem C18_entry_kind_verb : forall name pkg sh, In (name, pkg, sh) entry_table ->
  kind_of entry_table name pkg = Some ESend \/ kind_of entry_table name pkg = Some EMust.
Proof. exact entry_kind_verb. Qed.
Print Assumptions C18_entry_kind_verb.

(* ---- the pinned code violates the contract; witnesses kept checked ---- *)
Theorem C18_pinned_digest_refuted :
  let '(r, _, _) := digest_mw Pinned digest_witness_cfg digest_witness digest_witness_resp in
  r_status r = 200 /\ result_state r = SuccessState /\ r_result r = false /\ r_error r = EReq.
Proof. exact digest_pinned_refuted. Qed.
Print Assumptions C18_pinned_digest_refuted.

Theorem C18_fixed_digest_rebinds :
  let '(r, e, _) := digest_mw Fixed digest_witness_cfg digest_witness digest_witness_resp in
  r_status r = 200 /\ result_state r = SuccessState /\ r_result r = true /\ r_error r = ENone /\ e = None.
Proof. exact digest_fixed_rebinds. Qed.
Print Assumptions C18_fixed_digest_rebinds.

Theorem C18_pinned_nil_response_dereferenced :
  do_first_pinned Fixed retry_cfg nil_wrapper_attempt = PNilDeref.
Proof. exact do_pinned_nil_deref. Qed.
Print Assumptions C18_pinned_nil_response_dereferenced.

(* non-vacuity: concrete non-trivial programs *)
Example C18_nonvacuous :
  (* 200 + JSON + success target: bound; error hook silent *)
  run Fixed (mkProg ESend (mkCfg (mkTargets true true true) true (Some (mkHook None None)) None None false false)
    [mkAttempt [None; None] None [WPass] None (TResp 200 None (mkBody None None None None None None None)) (TFail 9) [Mw None None] [Mw None None] [] false false])
  = Returned (Some (mkResp true 200 None None true true ENone)) None
      [[EvUd 0; EvUd 1; EvWIn 0; EvSend; EvCli 0; EvWOut 0; EvReq 0]] 0 /\
  (* 500 + ill-formed body + request-level error target: unmarshal error surfaces, hook runs once *)
  run Fixed (mkProg ESend (mkCfg (mkTargets true true true) true (Some (mkHook None None)) None None false false)
    [mkAttempt [] None [] None (TResp 500 None (mkBody None None None (Some (-1)) None None None)) (TFail 9) [] [] [] false false])
  = Returned (Some (mkResp true 500 None (Some (-1)) true false ENone)) (Some (-1)) [[EvSend]] 1 /\
  (* a wrapper returning (nil, err) under retry: the repaired loop retries and reports the error *)
  run Fixed (mkProg ESend retry_cfg [nil_wrapper_attempt; nil_wrapper_attempt]) =
  Returned (Some (set_err (Some 1) fresh_resp)) (Some 1) [[EvWIn 0; EvWOut 0; EvHook 0]; [EvWIn 0; EvWOut 0]] 0.
Proof. vm_compute. repeat split; reflexivity. Qed.
