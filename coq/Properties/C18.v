(* Properties/C18.v - Response classification, result binding and the error contract.
   Only statements, `exact`, and Print Assumptions.  Model: Model/Pipeline.v. *)
From ReqV Require Import Lib.Bytes Model.Pipeline Proofs.PipelineProofs.
Open Scope Z_scope.

(* every status code - indeed every integer - falls in exactly one state, with the documented ranges *)
Theorem C18_classify_total : forall code : Z,
  (200 <= code <= 299 /\ default_result_state code = SuccessState) \/
  (400 <= code /\ default_result_state code = ErrorState) \/
  ((code < 200 \/ 300 <= code <= 399) /\ default_result_state code = UnknownState).
Proof. exact classify_total. Qed.
Print Assumptions C18_classify_total.

Theorem C18_classify_ranges : forall code,
  (default_result_state code = SuccessState <-> 200 <= code <= 299) /\
  (default_result_state code = ErrorState <-> 400 <= code) /\
  (default_result_state code = UnknownState <-> (code < 200 \/ 300 <= code <= 399)).
Proof. exact classify_ranges. Qed.
Print Assumptions C18_classify_ranges.
