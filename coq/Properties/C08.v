(* Properties/C08.v - Cancellation and timeouts take effect at every point of a request's life
   (PARTIAL: the life-cycle decision logic; wall-clock promptness, goroutines and timers are
   observed by the harness only).
   Only statements, `exact`, and Print Assumptions.  Model: Model/Lifecycle.v.
   [reach1 c s]: s is reached from the start of a request by ANY finite sequence of environment
   events (dial result, write progress, response head, body, peer close, timer, the caller's
   context ending at any position) and scheduling choices (which ready select case is taken). *)
From Coq Require Import List ZArith.
From ReqV Require Import Model.Lifecycle Model.LifecycleH2 Model.LifecycleH3 Model.RetryLife Proofs.Reach
  Proofs.LifecycleProofs Proofs.LifecycleThms Proofs.LifecycleH2Proofs Proofs.LifecycleH3Proofs Proofs.RetryLifeProofs
  Model.Bystander Proofs.BystanderProofs Model.BackoffLife Proofs.BackoffLifeProofs.
Import ListNotations.

(* HTTP/1.1: wherever the context ended, once everything has settled the caller holds an error
   identifying the cause (or the response-header timeout that fired, or - only when the response
   raced the cancellation - the response, whose pending body read then fails with the cause);
   after an error the connection is not in the idle pool; no loop is left; the request body is
   closed. *)
Theorem C08_h1_cancel_anywhere : forall c s, reach1 c s -> user_ctx s = true -> settled1 c s = true ->
  failed s = false -> outcome_ok c s /\ loops_gone s = true /\ body_closed s = true.
Proof. exact h1_cancel_anywhere. Qed.
Print Assumptions C08_h1_cancel_anywhere.

(* every error reported in a run without an independent failure identifies the cancellation *)
Theorem C08_h1_errors_identify : forall c s, reach1 c s -> failed s = false ->
  (forall e, ret s = Some (CErr e) ->
     (exists cs, ctx s = CtxUser cs /\ e = ECause cs) \/ (e = EHdrTimeout /\ c_hdr_timeout c = true)) /\
  (forall e, bres s = BErr e -> exists cs, ctx s = CtxUser cs /\ e = ECause cs).
Proof. exact h1_errors_identify. Qed.
Print Assumptions C08_h1_errors_identify.

(* "promptly" in the model: once the context has ended the caller is never blocked ... *)
Theorem C08_h1_cancel_progress : forall c s, reach1 c s -> user_ctx s = true -> at_ s <> LDone ->
  exists l, In l caller_labels /\ step1 c s l <> None.
Proof. exact h1_cancel_progress. Qed.
Print Assumptions C08_h1_cancel_progress.

(* ... and returns after at most 5 of its own steps, whatever else happens in between *)
Theorem C08_h1_returns_within : forall c ls s s', reach1 c s -> user_ctx s = true ->
  run1 c s ls = Some s' -> count_caller ls <= mu1 s /\ mu1 s <= 5.
Proof. exact h1_returns_within. Qed.
Print Assumptions C08_h1_returns_within.

(* a pending body read ends with readLoop's next step *)
Theorem C08_h1_body_read_returns : forall c s, reach1 c s -> user_ctx s = true -> body_pending s = true ->
  step1 c s IRlCtx <> None /\
  forall l s', In l [IRlBody; IRlCtx; IRlClosed] -> step1 c s l = Some s' -> body_pending s' = false.
Proof. exact h1_body_read_returns. Qed.
Print Assumptions C08_h1_body_read_returns.

Theorem C08_h1_pool_only_after_complete_exchange : forall c s, reach1 c s -> in_pool s = true ->
  wrote_ok s = true /\ (rl s = RIdle \/ rl s = RSend (RvResp false)) /\ (bres s = BNone \/ bres s = BEOF).
Proof. exact h1_pool_only_after_complete_exchange. Qed.
Print Assumptions C08_h1_pool_only_after_complete_exchange.

Theorem C08_h1_residue : forall c s, reach1 c s -> settled1 c s = true ->
  loops_gone s = true /\ body_closed s = true.
Proof. exact h1_residue. Qed.
Print Assumptions C08_h1_residue.

Theorem C08_h1_no_retry_after_cancel : forall c s l s', reach1 c s -> user_ctx s = true ->
  step1 c s l = Some s' -> attempt s' = attempt s.
Proof. exact h1_no_retry_after_cancel. Qed.
Print Assumptions C08_h1_no_retry_after_cancel.

(* ---- HTTP/2 (ClientConn.roundTrip + doRequest/cleanupWriteRequest), all event/schedule sequences ---- *)

Theorem C08_h2_errors_identify : forall hb s, reach2 hb s -> failed2 s = false ->
  (forall e, c2 s = CRet (CErr e) -> exists c, ctx2 s = Some c /\ e = ECause c) /\
  (forall e, pipe2 s = BErr e -> exists c, ctx2 s = Some c /\ e = ECause c).
Proof. exact h2_errors_identify. Qed.
Print Assumptions C08_h2_errors_identify.

(* once the context has ended neither the caller nor the doRequest goroutine can be stuck *)
Theorem C08_h2_cancel_progress : forall hb s, reach2 hb s -> (exists c, ctx2 s = Some c) ->
  (returned2 s = false -> exists l, In l [JResp; JAbort; JCtx; JDone; JDoneCtx; KCtx; KAbort; KPeerEnd] /\ step2 hb s l <> None) /\
  (exited2 s = false -> rstall s = false -> exists l, In l [KCtx; KAbort; KPeerEnd; KCtxAbort] /\ step2 hb s l <> None).
Proof. exact h2_cancel_progress. Qed.
Print Assumptions C08_h2_cancel_progress.

(* ... and the caller does not depend on the request body's reader: with doRequest blocked inside
   Request.Body.Read (a reader that Close does not wake) a caller whose context has ended can still move,
   also out of the wait that follows a reset by the peer *)
Theorem C08_h2_caller_returns_despite_stalled_reader : forall hb s, reach2 hb s -> (exists c, ctx2 s = Some c) ->
  rstall s = true -> returned2 s = false ->
  exists l, In l [JResp; JAbort; JCtx; JDone; JDoneCtx] /\ step2 hb s l <> None.
Proof. exact h2_caller_returns_despite_stalled_reader. Qed.
Print Assumptions C08_h2_caller_returns_despite_stalled_reader.

(* settled after a cancellation: RST_STREAM(CANCEL) only if the headers were sent, no RST_STREAM
   only if they were not or the stream was closed on both sides; request body closed; donec closed *)
Theorem C08_h2_rst_iff_open_stream : forall hb s, reach2 hb s -> settled2 hb s = true ->
  (exists c, ctx2 s = Some c) -> failed2 s = false ->
  (rst2 s = Some RstCancel -> sent_hdr s = true) /\
  (rst2 s = Some RstNoError -> sent_hdr s = true /\ sent_end s = false) /\
  (rst2 s = None -> sent_hdr s = false \/ (sent_end s = true /\ peer_end s = true)) /\
  (hb = true -> bclosed2 s = true) /\ donec2 s = true.
Proof. exact h2_rst_iff_open_stream. Qed.
Print Assumptions C08_h2_rst_iff_open_stream.

(* ---- HTTP/3 (RoundTripOpt + SingleDestinationRoundTripper.roundTrip + response body), current code ---- *)

Theorem C08_h3_errors_identify : forall c s, reach3 true c s ->
  (forall e, c3 s = C3Ret (CErr e) -> exists cs, ctx3 s = Some cs /\ e = ECause cs) /\
  (forall e, pipe3 s = BErr e -> exists cs, ctx3 s = Some cs /\ e = ECause cs).
Proof. exact h3_errors_identify. Qed.
Print Assumptions C08_h3_errors_identify.

Theorem C08_h3_cancel_progress : forall c s, reach3 true c s -> ended3 s = true -> returned3 s = false ->
  exists l, In l internals3 /\ step3 true c s l <> None.
Proof. exact h3_cancel_progress. Qed.
Print Assumptions C08_h3_cancel_progress.

(* settled after the context ended: cancel goroutine and dial goroutine gone, request body closed,
   the next request on the host unaffected, outcome = the cause, or the response (complete, or
   its body read failing with the cause after the stream was cancelled towards the peer) *)
Theorem C08_h3_cancel_anywhere : forall c s, reach3 true c s -> ended3 s = true -> settled3 c s = true ->
  cg3 s = false /\ d3 s <> D3Running /\ (c3_body c = true -> bclosed3 s = true) /\
  follow_ok true s = true /\
  ((exists e cs, c3 s = C3Ret (CErr e) /\ ctx3 s = Some cs /\ e = ECause cs) \/
   (exists b, c3 s = C3Ret (CResp b) /\
      ((exists e cs, pipe3 s = BErr e /\ ctx3 s = Some cs /\ e = ECause cs /\ scancel s = true) \/
       pipe3 s = BEOF \/ (pipe3 s = BNone /\ b = false)))).
Proof. exact h3_cancel_anywhere. Qed.
Print Assumptions C08_h3_cancel_anywhere.

Theorem C08_h3_stream_wait_interruptible : forall c s cs,
  c3 s = C3Stream -> ctx3 s = Some cs ->
  exists s', step3 true c s LStreamCtx = Some s' /\ c3 s' = C3Ret (CErr (ECause cs)) /\
             scancel s' = scancel s /\ (c3_body c = true -> bclosed3 s' = true).
Proof. exact h3_stream_wait_interruptible. Qed.
Print Assumptions C08_h3_stream_wait_interruptible.

(* the pinned HTTP/3 code: a cancelled dial fails the next request and leaves the body open; a
   pending body read fails with an error that is not the cause *)
Theorem C08_h3_pinned_poisons_next_request :
  exists s, run3 false (mkCfg3 false true false) (init3 (mkCfg3 false true false)) [ZCancel CCanceled; LWaitCtx; LDialCtx] = Some s /\
            follow_ok false s = false /\ bclosed3 s = false /\ c3 s = C3Ret (CErr (ECause CCanceled)).
Proof. exact h3_pinned_poisons_next_request. Qed.
Print Assumptions C08_h3_pinned_poisons_next_request.

Theorem C08_h3_pinned_body_error_not_cause :
  exists s, run3 false (mkCfg3 true false false) (init3 (mkCfg3 true false false))
              [LProceed; LStreamOpen; ZHdrSent; ZResp true; ZCancel CDeadline; LCancelG; LBodyFail] = Some s /\
            pipe3 s = BErr EOther.
Proof. exact h3_pinned_body_error_not_cause. Qed.
Print Assumptions C08_h3_pinned_body_error_not_cause.

(* ---- retry layer (Request.do), all label sequences, any retry limit ---- *)

Theorem C08_no_retry_after_cancel : forall max s l s' c,
  r_ctx s = Some c -> rstep true max s l = Some s' ->
  r_attempt s' = r_attempt s /\ r_net s' = r_net s.
Proof. exact retry_no_new_attempt_after_cancel. Qed.
Print Assumptions C08_no_retry_after_cancel.

Theorem C08_no_retry_after_cancel_zero_interval : forall zero max s l s' c,
  r_ctx s = Some c -> rstepz zero true max s l = Some s' ->
  r_attempt s' = r_attempt s /\ r_net s' = r_net s.
Proof. exact retry_no_new_attempt_after_cancel_z. Qed.
Print Assumptions C08_no_retry_after_cancel_zero_interval.

Theorem C08_retry_sleep_interruptible : forall max s c,
  r_phase s = PSleep -> r_ctx s = Some c ->
  exists s', rstep true max s RSleepCtx = Some s' /\ r_phase s' = PRet (Some (ECause c)) /\
             r_net s' = r_net s.
Proof. exact retry_sleep_interruptible. Qed.
Print Assumptions C08_retry_sleep_interruptible.

Theorem C08_retry_returns_within : forall max s l s' c,
  r_ctx s = Some c -> is_rcancel l = false -> rstep true max s l = Some s' -> rmu s' < rmu s /\ rmu s <= 2.
Proof. exact retry_returns_within. Qed.
Print Assumptions C08_retry_returns_within.

Theorem C08_retry_returns_cause : forall max ls s s' c e,
  r_ctx s = Some c -> (forall x, r_phase s <> PRet x) -> only_ctx_results ls = true ->
  rrun true max s ls = Some s' -> r_phase s' = PRet (Some e) -> e = ECause c.
Proof. exact retry_returns_cause. Qed.
Print Assumptions C08_retry_returns_cause.

(* the pinned retry loop (time.Sleep; only context.Canceled ends it) violates both *)
Theorem C08_retry_pinned_sleep_not_interruptible : forall max s,
  r_phase s = PSleep -> rstep false max s RSleepCtx = None.
Proof. exact retry_pinned_sleep_not_interruptible. Qed.
Print Assumptions C08_retry_pinned_sleep_not_interruptible.

Theorem C08_retry_pinned_deadline_never_stops : forall n,
  exists s, rrun false None rinit (RCancel CDeadline :: spin n) = Some s /\
            r_attempt s = n /\ r_phase s = PAttempt.
Proof. exact retry_pinned_deadline_never_stops. Qed.
Print Assumptions C08_retry_pinned_deadline_never_stops.

(* ---- "the client remains fully usable": requests that SHARE something with the ended request ---- *)

(* HTTP/1.1 wait queue (MaxConnsPerHost): any enqueue/cancel/idle sequence - no live waiter is left in the
   queue while a connection is parked idle; the idle connection goes to the first live waiter *)
Theorem C08_queue_no_live_waiter_stranded : forall ls,
  q_idle (qrun false ls) > 0 -> has_live (q_queue (qrun false ls)) = false.
Proof. exact queue_no_live_waiter_stranded. Qed.
Print Assumptions C08_queue_no_live_waiter_stranded.

Theorem C08_queue_first_live_served : forall s i r,
  deliver (q_queue s) = (Some i, r) ->
  q_served (qstep false s QFree) = q_served s ++ [i] /\
  exists pre, q_queue s = pre ++ (i, true) :: r /\ has_live pre = false.
Proof. exact queue_first_live_served. Qed.
Print Assumptions C08_queue_first_live_served.

Theorem C08_queue_front_only_refuted :
  let s := qrun true [QEnq 0; QEnq 1; QCancel 0; QFree] in
  q_idle s = 1 /\ has_live (q_queue s) = true /\ q_served s = [].
Proof. exact queue_front_only_refuted. Qed.
Print Assumptions C08_queue_front_only_refuted.

(* HTTP/2 connection window: DATA arriving for streams already reset and forgotten is handed back -
   after any sequence of such frames the peer's window is the whole window again, up to a remainder
   below inflowMinRefresh *)
Theorem C08_window_restored : forall w ns f cr peer, (0 < w)%Z -> Forall (fun n => (0 <= n)%Z) ns ->
  stray_frames true (win_init w) ns = Some (f, cr, peer) ->
  (peer + in_unsent f = w /\ 0 <= in_unsent f < min_refresh /\ cr + in_unsent f = fold_right Z.add 0 ns)%Z.
Proof. exact window_restored. Qed.
Print Assumptions C08_window_restored.

Theorem C08_window_ignored_refuted : forall w ns,
  stray_frames false (win_init w) ns = Some (mkIn w 0, 0%Z, (w - fold_right Z.add 0 ns)%Z).
Proof. exact window_ignored_refuted. Qed.
Print Assumptions C08_window_ignored_refuted.

(* HTTP/2 HPACK: the connection's encoder and the peer's decoder stay in step whatever requests are
   cancelled before or while their headers are written *)
Theorem C08_hpack_tables_in_step : forall ls, h_enc (hrun false ls) = h_sent (hrun false ls).
Proof. exact hpack_tables_in_step. Qed.
Print Assumptions C08_hpack_tables_in_step.

Theorem C08_hpack_late_check_refuted :
  let s := hrun true [HSend 0 false false; HSend 1 false true; HSend 2 false false] in
  h_enc s = [0; 1; 2] /\ h_sent s = [0; 2].
Proof. exact hpack_late_check_refuted. Qed.
Print Assumptions C08_hpack_late_check_refuted.

(* a dial shared by two requests: the one that joined never fails because the owner's context ended *)
Theorem C08_share_waiter_never_fails : forall ls s,
  shrun true shinit ls = Some s -> forall e, s_b s <> BRet (Some e).
Proof. exact share_waiter_never_fails. Qed.
Print Assumptions C08_share_waiter_never_fails.

Theorem C08_share_waiter_redials_for_every_cause : forall c,
  shrun true shinit [SCancelA c; SDialFails; SBSees; SBDialOk] = Some (mkSh (Some c) (SFail c) (BRet None)).
Proof. exact share_waiter_redials_for_every_cause. Qed.
Print Assumptions C08_share_waiter_redials_for_every_cause.

Theorem C08_share_deadline_dropped_refuted :
  exists s, shrun false shinit [SCancelA CDeadline; SDialFails; SBSees] = Some s /\
            s_b s = BRet (Some (ECause CDeadline)).
Proof. exact share_deadline_dropped_refuted. Qed.
Print Assumptions C08_share_deadline_dropped_refuted.

(* ---- the HTTP/2 transport's own re-send loop (REFUSED_STREAM / GOAWAY back-off 1 s, 2 s, 4 s ...) ---- *)

Theorem C08_backoff_interruptible : forall s c,
  b_phase s = PbBackoff -> b_ctx s = Some c ->
  exists s', bstep true s TCtxWake = Some s' /\ b_phase s' = PbRet (Some (ECause c)) /\ b_net s' = b_net s.
Proof. exact backoff_interruptible. Qed.
Print Assumptions C08_backoff_interruptible.

Theorem C08_backoff_no_new_attempt_after_cancel : forall intr s l s' c,
  b_ctx s = Some c -> bstep intr s l = Some s' -> b_net s' = b_net s /\ b_ctx s' = Some c.
Proof. exact backoff_no_new_attempt_after_cancel. Qed.
Print Assumptions C08_backoff_no_new_attempt_after_cancel.

Theorem C08_backoff_returns_within : forall s l s' c,
  b_ctx s = Some c -> bwf s -> (forall c', l <> TCancel c') -> bstep true s l = Some s' ->
  bmu s' < bmu s /\ bmu s <= 17 /\ bwf s'.
Proof. exact backoff_returns_within. Qed.
Print Assumptions C08_backoff_returns_within.

Theorem C08_backoff_wf_reachable : forall intr ls s, brun intr binit ls = Some s -> bwf s.
Proof. exact backoff_wf_reachable. Qed.
Print Assumptions C08_backoff_wf_reachable.

Theorem C08_backoff_pinned_not_interruptible : forall s,
  b_phase s = PbBackoff -> bstep false s TCtxWake = None.
Proof. exact backoff_pinned_not_interruptible. Qed.
Print Assumptions C08_backoff_pinned_not_interruptible.

Example C08_nonvacuous :
  let c := mkCfg1 false true true in
  exists s, run1 c (init1 c) [XDialDone true; IConnResult; XWrote; ISelWrite; XCancel CCanceled; ISelCtx; ISelResc] = Some s /\
            ret s = Some (CErr (ECause CCanceled)) /\ settled1 c s = true /\ failed s = false /\
            closed s = true /\ in_pool s = false.
Proof. exact h1_nonvacuous. Qed.
