(* Properties/C08.v - Cancellation and timeouts take effect at every point of a request's life
   (PARTIAL: the life-cycle decision logic; wall-clock promptness, goroutines and timers are
   observed by the harness only).
   Only statements, `exact`, and Print Assumptions.  Model: Model/Lifecycle.v.
   [reach1 c s]: s is reached from the start of a request by ANY finite sequence of environment
   events (dial result, write progress, response head, body, peer close, timer, the caller's
   context ending at any position) and scheduling choices (which ready select case is taken). *)
From Coq Require Import List.
From ReqV Require Import Model.Lifecycle Proofs.Reach Proofs.LifecycleProofs Proofs.LifecycleThms.
Import ListNotations.

(* HTTP/1.1: wherever the context ended, once everything has settled the caller holds an error
   identifying the cause (or the response-header timeout that fired, or - only when the response
   raced the cancellation - the response, whose pending body read then fails with the cause);
   after an error the connection is not in the idle pool; no loop is left; the request body is
   closed. *)
Theorem C08_h1_cancel_anywhere : forall c s, reach1 c s -> user_ctx s = true -> settled1 c s = true ->
  failed s = false -> outcome_ok c s /\ loops_gone s = true /\ body_closed s = true.
Proof. exact h1_cancel_anywhere. Qed.
Print Assumptions C08_h1_cancel_anywhere.

(* every error reported in a run without an independent failure identifies the cancellation *)
Theorem C08_h1_errors_identify : forall c s, reach1 c s -> failed s = false ->
  (forall e, ret s = Some (CErr e) ->
     (exists cs, ctx s = CtxUser cs /\ e = ECause cs) \/ (e = EHdrTimeout /\ c_hdr_timeout c = true)) /\
  (forall e, bres s = BErr e -> exists cs, ctx s = CtxUser cs /\ e = ECause cs).
Proof. exact h1_errors_identify. Qed.
Print Assumptions C08_h1_errors_identify.

(* "promptly" in the model: once the context has ended the caller is never blocked ... *)
Theorem C08_h1_cancel_progress : forall c s, reach1 c s -> user_ctx s = true -> at_ s <> LDone ->
  exists l, In l caller_labels /\ step1 c s l <> None.
Proof. exact h1_cancel_progress. Qed.
Print Assumptions C08_h1_cancel_progress.

(* ... and returns after at most 5 of its own steps, whatever else happens in between *)
Theorem C08_h1_returns_within : forall c ls s s', reach1 c s -> user_ctx s = true ->
  run1 c s ls = Some s' -> count_caller ls <= mu1 s /\ mu1 s <= 5.
Proof. exact h1_returns_within. Qed.
Print Assumptions C08_h1_returns_within.

(* a pending body read ends with readLoop's next step *)
Theorem C08_h1_body_read_returns : forall c s, reach1 c s -> user_ctx s = true -> body_pending s = true ->
  step1 c s IRlCtx <> None /\
  forall l s', In l [IRlBody; IRlCtx; IRlClosed] -> step1 c s l = Some s' -> body_pending s' = false.
Proof. exact h1_body_read_returns. Qed.
Print Assumptions C08_h1_body_read_returns.

Theorem C08_h1_pool_only_after_complete_exchange : forall c s, reach1 c s -> in_pool s = true ->
  wrote_ok s = true /\ (rl s = RIdle \/ rl s = RSend (RvResp false)) /\ (bres s = BNone \/ bres s = BEOF).
Proof. exact h1_pool_only_after_complete_exchange. Qed.
Print Assumptions C08_h1_pool_only_after_complete_exchange.

Theorem C08_h1_residue : forall c s, reach1 c s -> settled1 c s = true ->
  loops_gone s = true /\ body_closed s = true.
Proof. exact h1_residue. Qed.
Print Assumptions C08_h1_residue.

Theorem C08_h1_no_retry_after_cancel : forall c s l s', reach1 c s -> user_ctx s = true ->
  step1 c s l = Some s' -> attempt s' = attempt s.
Proof. exact h1_no_retry_after_cancel. Qed.
Print Assumptions C08_h1_no_retry_after_cancel.

Example C08_nonvacuous :
  let c := mkCfg1 false true true in
  exists s, run1 c (init1 c) [XDialDone true; IConnResult; XWrote; ISelWrite; XCancel CCanceled; ISelCtx; ISelResc] = Some s /\
            ret s = Some (CErr (ECause CCanceled)) /\ settled1 c s = true /\ failed s = false /\
            closed s = true /\ in_pool s = false.
Proof. exact h1_nonvacuous. Qed.
