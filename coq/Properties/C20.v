(* Properties/C20.v - Authentication headers are computed correctly.
   Only statements, `exact`, and Print Assumptions.
   Model: Model/Base64.v (util.BasicAuthHeaderValue, SetBearerAuthToken, net/http parseBasicAuth),
   Model/Digest.v (digest.go + an independent transcription of RFC 7616 section 3.4).
   The hash function is a universally quantified variable H everywhere. *)
From Coq Require Import Permutation.
From ReqV Require Import Model.ProxyAuth Proofs.ProxyAuthProofs Model.AuthReexec Proofs.AuthReexecProofs Model.FormResend Proofs.FormResendProofs.
From ReqV Require Import Lib.Bytes Model.Base64 Model.AuthParam Model.Digest
     Proofs.Base64Proofs Proofs.AuthParamProofs Proofs.DigestProofs Proofs.ChallengeTextProofs
     Proofs.DigestVerifyProofs.

(* ----- Basic / Bearer: the server recovers exactly what was given, for all strings ----- *)

Theorem C20_base64_roundtrip : forall b : bytes, b64_decode (b64_encode b) = Some b.
Proof. exact base64_roundtrip. Qed.
Print Assumptions C20_base64_roundtrip.

(* the encoding is padded to whole groups of four characters *)
Theorem C20_base64_length : forall s, length (b64_encode s) = 4 * ((length s + 2) / 3).
Proof. exact b64_encode_length. Qed.
Print Assumptions C20_base64_length.

(* the transmitted credential is user ":" pass for ALL byte strings *)
Theorem C20_basic_decodes : forall user pass,
  b64_decode (skipn 6 (basic_header user pass)) = Some (user ++ colon_b :: pass).
Proof. exact basic_decodes. Qed.
Print Assumptions C20_basic_decodes.

(* net/http's BasicAuth() returns (user, pass) iff user has no colon (RFC 7617's own limit) *)
Theorem C20_basic_recovers : forall user pass,
  parse_basic (basic_header user pass) = Some (user, pass) <-> mem_byte colon_b user = false.
Proof. exact basic_recovers. Qed.
Print Assumptions C20_basic_recovers.

(* ... and with a colon in the user name nothing is lost, the split just moves *)
Theorem C20_basic_recovers_split : forall user1 rest pass,
  mem_byte colon_b user1 = false ->
  parse_basic (basic_header (user1 ++ colon_b :: rest) pass) = Some (user1, rest ++ colon_b :: pass).
Proof. exact basic_recovers_split. Qed.
Print Assumptions C20_basic_recovers_split.

Theorem C20_bearer_exact : forall token, parse_bearer (bearer_header token) = Some token.
Proof. exact bearer_exact. Qed.
Print Assumptions C20_bearer_exact.

(* ----- Basic credentials for a proxy (Proxy-Authorization from the proxy URL's userinfo) ----- *)

(* the credentials survive the URL: url.UserPassword(u, p).String() (or url.User(u)) parsed
   again by net/url gives back u and p - for ALL byte strings *)
Theorem C20_proxy_userinfo_roundtrip : forall u : userinfo, ui_parse (ui_string u) = Some u.
Proof. exact ui_parse_string. Qed.
Print Assumptions C20_proxy_userinfo_roundtrip.

(* what is sent decodes to user ":" password (empty password when none is set); the proxy's
   Basic parser recovers (user, password) when the user has no colon *)
Theorem C20_proxy_auth_decodes : forall u pw host,
  exists h, proxy_auth (mkPU (Some (u, pw)) host) = Some h /\
            b64_decode (skipn 6 h) = Some (u ++ colon_b :: match pw with Some p => p | None => [] end).
Proof. exact proxy_auth_decodes. Qed.
Print Assumptions C20_proxy_auth_decodes.

Theorem C20_proxy_auth_recovers : forall u pw host,
  mem_byte colon_b u = false ->
  exists h, proxy_auth (mkPU (Some (u, Some pw)) host) = Some h /\ parse_basic h = Some (u, pw).
Proof. exact proxy_auth_recovers. Qed.
Print Assumptions C20_proxy_auth_recovers.

(* the connection-pool key (the proxy URL text, URL.String) determines the proxy URL and with it
   the credentials: two connect methods with one key send the same Proxy-Authorization *)
Theorem C20_pool_key_determines_credentials : forall p q hs ht t t',
  host_ok p -> host_ok q ->
  conn_key_of p hs t = conn_key_of q ht t' -> p = q /\ hs = ht /\ proxy_auth p = proxy_auth q.
Proof. exact key_determines_auth. Qed.
Print Assumptions C20_pool_key_determines_credentials.

(* carried state: idle proxy connections remember the header they were dialled with.  On one
   client, over any sequence of proxy URLs (password rotations, URLs without userinfo) and
   http / https targets, everything the proxy receives for request i is what request i's proxy
   URL prescribes - for a CONNECT the URL's credentials, else the Proxy-Authorization the caller
   put into the static ProxyConnectHeader ([static]), which is never modified - and a plain-http
   request carries exactly the URL's *)
Theorem C20_proxy_sequence_sends_current : forall static rs,
  Forall (fun r : proxy_req => host_ok (fst (fst r))) rs ->
  Forall2 (fun (r : proxy_req) seen =>
             (forall h, In h seen -> h = sent_auth static (snd (fst r)) (fst (fst r))) /\
             (snd (fst r) = false -> seen = [proxy_auth (fst (fst r))]))
          rs (proxy_run static [] rs).
Proof. intros static rs H. exact (proxy_run_current static rs [] (pool_ok_nil static) H). Qed.
Print Assumptions C20_proxy_sequence_sends_current.

(* a proxy whose URL carries no credentials receives none, whatever proxies were used before *)
Theorem C20_proxy_without_userinfo_gets_nothing : forall rs,
  Forall (fun r : proxy_req => host_ok (fst (fst r))) rs ->
  Forall2 (fun (r : proxy_req) seen => pu_user (fst (fst r)) = None -> forall h, In h seen -> h = None)
          rs (proxy_run None [] rs).
Proof. exact no_userinfo_no_credentials. Qed.
Print Assumptions C20_proxy_without_userinfo_gets_nothing.

(* a key built from URL.Redacted() (password masked) breaks exactly this: the rotated password
   is not transmitted *)
Theorem C20_redacted_key_refuted :
  let a := mkPU (Some (bs "alice", Some (bs "first-secret"))) (bs "127.0.0.1:3128") in
  let b := mkPU (Some (bs "alice", Some (bs "second-secret"))) (bs "127.0.0.1:3128") in
  proxy_run_with pu_redacted None [] [(a, false, []); (b, false, [])] = [[proxy_auth a]; [proxy_auth a]] /\
  proxy_auth a <> proxy_auth b /\
  proxy_run None [] [(a, false, []); (b, false, [])] = [[proxy_auth a]; [proxy_auth b]].
Proof. exact redacted_key_refuted. Qed.
Print Assumptions C20_redacted_key_refuted.

(* writing the URL's credentials into the shared static CONNECT header (no Clone) leaks them to
   a later proxy that was given none *)
Theorem C20_shared_connect_header_refuted :
  let a := mkPU (Some (bs "alice", Some (bs "secret"))) (bs "127.0.0.1:3128") in
  let b := mkPU None (bs "127.0.0.1:3129") in
  let rs := [(a, true, bs "origin:443"); (b, true, bs "origin:443")] in
  proxy_run None [] rs = [[proxy_auth a]; [None]] /\
  proxy_run_shared None [] rs = [[proxy_auth a]; [proxy_auth a]].
Proof. exact shared_connect_header_refuted. Qed.
Print Assumptions C20_shared_connect_header_refuted.

(* ----- one Request executed again, credential setters in between ----- *)

(* for ALL sequences of Client.SetCommonBasicAuth / SetCommonBearerAuthToken, Request.SetBasicAuth /
   SetBearerAuthToken and executions of one Request - plain ones and ones whose first attempt is
   retried (the retry sends what the first attempt sent): every transmission carries the credentials
   given - the latest set on the request if any ever was, otherwise the client's current ones
   (merge bookkeeping of parseRequestHeader / unmergeClientSettings by slice identity) *)
Theorem C20_reexecution_transmits_given : forall ops,
  rq_run rq_init ops = spec_run (mkSp None None) ops.
Proof. exact reexec_from_new. Qed.
Print Assumptions C20_reexecution_transmits_given.

(* comparing header VALUES instead of the slice identity loses a request-level credential equal
   to what the client had before: after the client's rotation the new client credential goes out *)
Theorem C20_value_compare_refuted :
  let ops := [CBasic (bs "u") (bs "old"); Send; RBasic (bs "u") (bs "old"); CBasic (bs "u") (bs "new"); Send] in
  rq_run rq_init ops = [Some (basic_header (bs "u") (bs "old")); Some (basic_header (bs "u") (bs "old"))] /\
  rqv_run (mkRqv None None None) ops = [Some (basic_header (bs "u") (bs "old")); Some (basic_header (bs "u") (bs "new"))].
Proof. exact value_compare_refuted. Qed.
Print Assumptions C20_value_compare_refuted.

(* ----- clients and their clones ----- *)

(* Client.Headers is a map each client owns, Clone copies it.  For ALL sequences of credential
   setters on any client, Clone of any client and requests from any client (every index naming
   an existing client): each request carries the credentials of ITS client - the last set on it,
   or what its parent had when it was cloned *)
Theorem C20_clones_transmit_own : forall ops,
  ops_ok 1 ops = true -> cl_run cl_init ops = cls_run [None] ops.
Proof. exact clones_from_new. Qed.
Print Assumptions C20_clones_transmit_own.

(* a clone SHARING the header map sends the clone's credentials from the original *)
Theorem C20_shared_header_map_refuted :
  let ops := [KBasic 0 (bs "alice") (bs "a-pw"); KClone 0; KBasic 1 (bs "bob") (bs "b-pw"); KSend 0; KSend 1] in
  cl_run cl_init ops = [Some (basic_header (bs "alice") (bs "a-pw")); Some (basic_header (bs "bob") (bs "b-pw"))] /\
  cl_run_with true cl_init ops = [Some (basic_header (bs "bob") (bs "b-pw")); Some (basic_header (bs "bob") (bs "b-pw"))].
Proof. exact shared_header_map_refuted. Qed.
Print Assumptions C20_shared_header_map_refuted.

(* ----- the body set up again for the digest re-send (form data) ----- *)

(* parseRequestBody merges the client-level form data once (Request.clientFormDataMerged):
   setting the body up again - for the digest re-send, any number of times - leaves the form as
   it was first transmitted: the request's fields followed by the client's, once *)
Theorem C20_form_resend_same_fields : forall client req,
  form_resend client req = form_first client req /\ form_first client req = req ++ client.
Proof. exact resend_same_fields. Qed.
Print Assumptions C20_form_resend_same_fields.

Theorem C20_body_setup_idempotent : forall client s n,
  Nat.iter (S n) (body_setup client) s = body_setup client s.
Proof. exact setup_n_times. Qed.
Print Assumptions C20_body_setup_idempotent.

(* deciding by the retry attempt instead adds the client's fields a second time within attempt 0 *)
Theorem C20_merge_by_attempt_refuted :
  let client := [(bs "tenant", bs "acme")] in
  let req := [(bs "k", bs "v")] in
  fm_fields (body_setup_by_attempt 0 client (body_setup_by_attempt 0 client (mkForm req false)))
    = [(bs "k", bs "v"); (bs "tenant", bs "acme"); (bs "tenant", bs "acme")] /\
  form_resend client req = [(bs "k", bs "v"); (bs "tenant", bs "acme")].
Proof. exact by_attempt_refuted. Qed.
Print Assumptions C20_merge_by_attempt_refuted.

(* connectMethod.key, proxyAuth and basicAuth as regenerated from the source are the ones modelled *)
Theorem C20_proxy_source_as_modelled :
  proxy_key_source = [bs "cm.proxyURL.String()"] /\
  proxy_key_fields = [bs "proxy: proxyStr"; bs "scheme: cm.targetScheme"; bs "addr: targetAddr"; bs "onlyH1: cm.onlyH1"] /\
  proxy_auth_returns = [bs """"""; bs """Basic "" + basicAuth(username, password)"; bs """"""] /\
  basic_auth_source = [bs "auth := username + "":"" + password"; bs "return base64.StdEncoding.EncodeToString([]byte(auth))"].
Proof. exact proxy_source_as_modelled. Qed.
Print Assumptions C20_proxy_source_as_modelled.

(* ----- Digest ----- *)

(* the algorithm table regenerated from digest.go maps every name - registered or not - to
   the hash function of the RFC 7616 registry (this breaks when the table is wrong) *)
Theorem C20_alg_table_matches_registry : forall alg,
  lookup_alg alg = match rfc_registry alg with Some (f, _) => Some f | None => None end.
Proof. exact alg_table_matches_registry. Qed.
Print Assumptions C20_alg_table_matches_registry.

(* the format strings and argument lists of every fmt.Sprintf of the digest computation are
   regenerated from digest.go (Gen/DigestKernels.v); the model computes its hash inputs by
   interpreting them (Model/Digest.v hash_input), and here: they spell the colon-separated
   strings of RFC 7616 3.4.1-3.4.4 (A1, session A1, A2, userhash, response without / with qop) *)
Theorem C20_source_formats_mean_rfc : forall user realm pass nonce cnonce qop method uri x a1 a2,
  let env0 := [(bs "c.username", FS user); (bs "c.realm", FS realm); (bs "c.password", FS pass);
               (bs "c.nonce", FS nonce); (bs "c.cNonce", FS cnonce); (bs "c.nc", FN 1);
               (bs "c.messageQop", FS qop); (bs "c.method", FS method); (bs "c.digestURI", FS uri)] in
  hash_input (bs "ha1#0") env0 = user ++ bs ":" ++ realm ++ bs ":" ++ pass /\
  hash_input (bs "ha1#1") ((bs "ret", FS x) :: env0) = x ++ bs ":" ++ nonce ++ bs ":" ++ cnonce /\
  hash_input (bs "ha2#0") env0 = method ++ bs ":" ++ uri /\
  hash_input (bs "authorize#0") env0 = user ++ bs ":" ++ realm /\
  hash_input (bs "resp#1") ((bs "ha1", FS a1) :: (bs "ha2", FS a2) :: env0) = a1 ++ bs ":" ++ nonce ++ bs ":" ++ a2 /\
  hash_input (bs "kd#0") [(bs "secret", FS a1);
     (bs "data", FS (hash_input (bs "resp#2") ((bs "ha1", FS a1) :: (bs "ha2", FS a2) :: env0)))] =
    a1 ++ bs ":" ++ nonce ++ bs ":" ++ bs "00000001" ++ bs ":" ++ cnonce ++ bs ":" ++ qop ++ bs ":" ++ a2.
Proof.
  intros. subst env0. repeat split.
  - exact (fmt_ha1 user realm pass nonce cnonce qop method uri).
  - exact (fmt_ha1_sess user realm pass nonce cnonce qop method uri x).
  - exact (fmt_ha2 user realm pass nonce cnonce qop method uri).
  - exact (fmt_userhash user realm pass nonce cnonce qop method uri).
  - exact (fmt_resp_noqop user realm pass nonce cnonce qop method uri a1 a2).
  - exact (fmt_resp_qop user realm pass nonce cnonce qop method uri a1 a2).
Qed.
Print Assumptions C20_source_formats_mean_rfc.

(* the `sl = append(sl, fmt.Sprintf(...))` lines of authorize(), in source order, write the
   parameters of the model's build_fields - same names, same order, same quoting/escaping -
   and the final Sprintf/Join the "Digest " prefix and ", " separator of render_fields *)
Theorem C20_authorize_formats_as_modelled : forall u r n uri resp a o os q qs nc cn,
  map (fun f => Some (fst f, fval_kind (snd f)))
      (build_fields true u r n uri resp (Some a) (o :: os) (q :: qs) nc cn) =
  map (fun name => match assoc_bytes name sprintf_calls with Some c => call_field c | None => None end)
      [bs "authorize#1"; bs "authorize#2"; bs "authorize#3"; bs "authorize#4"; bs "authorize#5";
       bs "authorize#6"; bs "authorize#7"; bs "authorize#8"; bs "authorize#9"; bs "authorize#10";
       bs "authorize#11"] /\
  assoc_bytes (bs "authorize#12") sprintf_calls = Some (bs "Digest %s", [bs "strings.Join(sl, "", "")"]) /\
  assoc_bytes (bs "authorize#10") sprintf_calls = Some (bs "nc=%08x", [bs "c.nc"]).
Proof. exact authorize_formats_as_modelled. Qed.
Print Assumptions C20_authorize_formats_as_modelled.

(* the string literals the source compares against are those of the model *)
Theorem C20_source_literals_as_modelled :
  assoc_bytes (bs "newCredentials#0:HasSuffix") string_tests = Some (bs "-sess") /\
  assoc_bytes (bs "parseChallenge#0:HasPrefix") string_tests = Some (bs "Digest ") /\
  assoc_bytes (bs "createDigestAuth#0:HasPrefix") string_tests = Some (bs "Digest ") /\
  assoc_bytes (bs "parseChallenge#1:strings.ToUpper(unquoteParam(r[1]))!=") string_tests = Some (bs "UTF-8") /\
  assoc_bytes (bs "authorize#0:c.userhash==") string_tests = Some (bs "true") /\
  assoc_bytes (bs "authorize#1:c.algorithm!=") string_tests = Some [] /\
  assoc_bytes (bs "authorize#2:c.opaque!=") string_tests = Some [] /\
  assoc_bytes (bs "authorize#3:c.messageQop!=") string_tests = Some [] /\
  assoc_bytes (bs "validateQop#0:c.messageQop==") string_tests = Some [] /\
  assoc_bytes (bs "validateQop#1:Split") string_tests = Some [comma] /\
  assoc_bytes (bs "validateQop#2:strings.TrimSpace(qop)==") string_tests = Some (bs "auth") /\
  map snd (filter (fun e => has_prefix (bs "escapeQuoted#") (fst e)) string_tests) =
    [[bslash]; [bslash; bslash]; [dquote]; [bslash; dquote]].
Proof. exact source_literals_as_modelled. Qed.
Print Assumptions C20_source_literals_as_modelled.

Theorem C20_sess_flag_matches_registry : forall alg f sess,
  rfc_registry alg = Some (f, sess) -> has_suffix (bs "-sess") alg = sess.
Proof. exact sess_flag_matches. Qed.
Print Assumptions C20_sess_flag_matches_registry.

(* the parameter names parseChallenge accepts (switch labels regenerated from the source)
   are those of RFC 7616 section 3.3 *)
Theorem C20_param_table_matches : forall k,
  known_key k = existsb (bytes_eqb k) challenge_keys /\
  existsb (bytes_eqb k) challenge_keys = existsb (bytes_eqb k) rfc_challenge_params.
Proof. intros k. split; [exact (known_key_matches_table k)|exact (challenge_keys_are_rfc k)]. Qed.
Print Assumptions C20_param_table_matches.

(* for EVERY supported challenge (MD5, SHA-256, SHA-512-256 and their -sess forms, algorithm
   absent; qop absent or a list offering auth; opaque; userhash), every method, request URI,
   user, password, nonce, client nonce and every hash function H: the parameters emitted are
   exactly those RFC 7616 prescribes - each name at most once *)
Theorem C20_digest_matches_rfc7616 : forall H c uri method user pass cnonce,
  supported c = true ->
  exists fs,
    authorize H c uri method user pass cnonce = inl fs /\
    NoDup (map fst fs) /\
    forall k, option_map fval_sem (lookup_field k fs) = rfc7616_field H c uri method user pass cnonce k.
Proof. exact digest_matches_rfc7616. Qed.
Print Assumptions C20_digest_matches_rfc7616.

(* ----- the header TEXT, as a server reads it ----- *)

(* quoted-string escaping round trip, client side: every byte string a server writes as a
   quoted-string (quote and backslash escaped) is recovered exactly by unquoteParam *)
Theorem C20_challenge_value_roundtrip : forall s,
  unquote_param (dquote :: escape_quoted s ++ [dquote]) = s.
Proof. exact unquote_param_escape. Qed.
Print Assumptions C20_challenge_value_roundtrip.

(* server side: an RFC 7235 parser (scheme, 1*SP, #auth-param, quoted-pairs resolved, names
   case-insensitive, duplicates refused) reads back every parameter list rendered the way
   authorize() renders it - the exact bytes of every escaped value, whatever they are *)
Theorem C20_header_parses_back : forall fs,
  forallb field_ok fs = true -> keys_distinct fs = true ->
  parse_credentials (render_fields fs) = Some (bs "Digest", map sem_field fs).
Proof. exact parse_credentials_rendered. Qed.
Print Assumptions C20_header_parses_back.

(* THE acceptance theorem: for every supported challenge, every user name, password, realm,
   nonce, opaque, method and request URI (ANY bytes, quotes and backslashes included), every
   client nonce and every hash function whose digests are free of quote and backslash (hex),
   the header text is parsed back by the RFC 7235 parser to exactly the parameters emitted and
   is accepted by the RFC 7616 verifier of Model/Digest.v *)
Theorem C20_verifier_accepts : forall H,
  (forall f d, clean (H f d) = true) ->
  forall c uri method user pass cnonce,
  supported c = true -> clean cnonce = true ->
  exists fs,
    authorize H c uri method user pass cnonce = inl fs /\
    parse_credentials (render_fields fs) = Some (bs "Digest", map sem_field fs) /\
    rfc7616_accepts H c uri method user pass cnonce (render_fields fs) = true.
Proof. exact verifier_accepts. Qed.
Print Assumptions C20_verifier_accepts.

(* ... and acceptance is not vacuous: an accepted header parses, and each section 3.4 parameter
   (response included) has exactly the RFC's value for the client nonce that was sent *)
Theorem C20_accept_means_rfc_values : forall H c uri method user pass hint hdr,
  rfc7616_accepts H c uri method user pass hint hdr = true ->
  exists scheme ps cnonce,
    parse_credentials hdr = Some (scheme, ps) /\ to_lower scheme = bs "digest" /\
    (cnonce = hint \/ assoc_bytes (bs "cnonce") ps = Some (Quoted cnonce)) /\
    (forall k, In k rfc_auth_params ->
       assoc_bytes k ps = rfc7616_field H c uri method user pass cnonce k) /\
    (forall k v, In (k, v) ps -> In k rfc_auth_params).
Proof. exact accepts_means_rfc_values. Qed.
Print Assumptions C20_accept_means_rfc_values.

(* ----- the challenge TEXT: quoting / white space / ordering variants ----- *)

(* parseChallenge on ANY rendering of a parameter list - white space before the scheme, after
   "Digest ", around every comma and at the end; each value as a token or as a quoted-string
   with quoted-pairs (any bytes); parameters in any order, names repeated or not - returns the
   meaning of the list (apply_fields: the parameters applied in order, errors included) *)
Theorem C20_challenge_text_parsed : forall pre mid post xs,
  forallb is_chal_ws pre = true -> forallb is_chal_ws mid = true -> forallb is_chal_ws post = true ->
  forallb piece_ok xs = true -> ends_tightb xs = true ->
  parse_challenge (render_challenge pre mid post xs) = apply_fields empty_chal (map padded_sem xs).
Proof.
  intros pre mid post xs H1 H2 H3 H4 H5.
  exact (parse_challenge_rendered pre mid post xs H1 H2 H3 H4 (ends_tightb_spec xs H5)).
Qed.
Print Assumptions C20_challenge_text_parsed.

(* ordering / quoting / white-space variants are the same challenge: two renderings whose
   parameter lists are permutations of each other (names distinct) parse to the same result *)
Theorem C20_renderings_agree : forall pre mid post xs pre' mid' post' ys c,
  forallb is_chal_ws pre = true -> forallb is_chal_ws mid = true -> forallb is_chal_ws post = true ->
  forallb piece_ok xs = true -> ends_tightb xs = true ->
  forallb is_chal_ws pre' = true -> forallb is_chal_ws mid' = true -> forallb is_chal_ws post' = true ->
  forallb piece_ok ys = true -> ends_tightb ys = true ->
  Permutation (map padded_sem xs) (map padded_sem ys) -> NoDup (map fst (map padded_sem xs)) ->
  parse_challenge (render_challenge pre mid post xs) = inl c ->
  parse_challenge (render_challenge pre' mid' post' ys) = inl c.
Proof.
  intros pre mid post xs pre' mid' post' ys c H1 H2 H3 H4 H5 H6 H7 H8 H9 H10.
  exact (renderings_agree pre mid post xs pre' mid' post' ys c H1 H2 H3 H4 (ends_tightb_spec xs H5)
           H6 H7 H8 H9 (ends_tightb_spec ys H10)).
Qed.
Print Assumptions C20_renderings_agree.

(* the splitter returns exactly the list elements, commas inside quoted strings included *)
Theorem C20_split_rendered : forall xs, xs <> [] -> forallb piece_ok xs = true ->
  split_params (join_with [comma] (map render_piece xs)) = map render_piece xs.
Proof. exact split_rendered. Qed.
Print Assumptions C20_split_rendered.

(* text to text: a challenge as the server wrote it, whose meaning c is supported, is answered
   with header text that the RFC 7616 verifier accepts for c *)
Theorem C20_challenge_text_to_accepted_header : forall H,
  (forall f d, clean (H f d) = true) ->
  forall pre mid post xs c uri method user pass cnonce,
  forallb is_chal_ws pre = true -> forallb is_chal_ws mid = true -> forallb is_chal_ws post = true ->
  forallb piece_ok xs = true -> ends_tightb xs = true ->
  apply_fields empty_chal (map padded_sem xs) = inl c ->
  supported c = true -> clean cnonce = true ->
  exists hdr,
    create_digest_auth H (render_challenge pre mid post xs) uri method user pass cnonce = inl hdr /\
    rfc7616_accepts H c uri method user pass cnonce hdr = true.
Proof.
  intros H HH pre mid post xs c uri method user pass cnonce H1 H2 H3 H4 H5.
  exact (challenge_text_to_accepted_header H HH pre mid post xs c uri method user pass cnonce
           H1 H2 H3 H4 (ends_tightb_spec xs H5)).
Qed.
Print Assumptions C20_challenge_text_to_accepted_header.

(* ... and such a challenge is answered: exactly one more request, same body, same Content-Type *)
Theorem C20_supported_is_answered : forall H first rsp user pass cnonce c,
  r_err rsp = false -> r_status rsp = 401%N -> r_chal rsp <> [] ->
  parse_challenge (r_chal rsp) = inl c -> supported c = true ->
  exists fs q,
    authorize H c (w_uri first) (w_method first) user pass cnonce = inl fs /\
    digest_exchange H true first rsp user pass cnonce = [first; q] /\
    w_auth q = Some (render_fields fs) /\ w_body q = w_body first /\ w_ctype q = w_ctype first /\
    forall k, option_map fval_sem (lookup_field k fs) =
              rfc7616_field H c (w_uri first) (w_method first) user pass cnonce k.
Proof. exact supported_is_answered. Qed.
Print Assumptions C20_supported_is_answered.

(* unsupported or malformed => error, never a header *)
Theorem C20_unknown_alg_is_error : forall H c uri method user pass cnonce,
  rfc_registry (c_algorithm c) = None ->
  authorize H c uri method user pass cnonce = inr EAlgNotSupported.
Proof. exact unknown_alg_is_error. Qed.
Print Assumptions C20_unknown_alg_is_error.

Theorem C20_qop_without_auth_is_error : forall H c uri method user pass cnonce,
  rfc_registry (c_algorithm c) <> None ->
  c_qop c <> [] -> qop_offers_auth (c_qop c) = false ->
  authorize H c uri method user pass cnonce = inr EQopNotSupported.
Proof. exact qop_without_auth_is_error. Qed.
Print Assumptions C20_qop_without_auth_is_error.

Theorem C20_non_utf8_charset_is_error : forall c v,
  bytes_eqb (to_upper (unquote_param v)) (bs "UTF-8") = false ->
  set_param c (bs "charset") v = inr ECharset.
Proof. exact param_charset_not_utf8. Qed.
Print Assumptions C20_non_utf8_charset_is_error.

Theorem C20_malformed_param_is_error :
  (forall p, mem_byte equals (trim_space p) = false -> param_ok p = false) /\
  (forall c k v, known_key k = false -> set_param c k v = inr EBadChallenge) /\
  (forall split input,
     (exists p, In p (split (trim is_chal_ws (skipn 7 (trim is_chal_ws input)))) /\ param_ok p = false) ->
     exists e, parse_challenge_with split input = inr e) /\
  (forall split input, has_prefix (bs "Digest ") (trim is_chal_ws input) = false ->
     parse_challenge_with split input = inr EBadChallenge).
Proof.
  exact (conj param_without_equals_bad (conj param_unknown_key_bad (conj bad_param_is_error non_digest_is_error))).
Qed.
Print Assumptions C20_malformed_param_is_error.

(* a parameter list is accepted iff every single parameter is (no dependence on order or on
   what was parsed before) *)
Theorem C20_params_accepted_iff : forall ps c,
  (exists c', parse_params c ps = inl c') <-> forallb param_ok ps = true.
Proof. exact parse_params_ok_iff. Qed.
Print Assumptions C20_params_accepted_iff.

Theorem C20_error_means_no_header : forall H rp first rsp user pass cnonce e,
  r_err rsp = false -> r_status rsp = 401%N ->
  create_digest_auth H (r_chal rsp) (w_uri first) (w_method first) user pass cnonce = inr e ->
  digest_middleware H rp first rsp user pass cnonce = MwErr e /\
  digest_exchange H rp first rsp user pass cnonce = [first].
Proof. exact middleware_error_sends_nothing. Qed.
Print Assumptions C20_error_means_no_header.

Theorem C20_non_401_untouched : forall H rp first rsp user pass cnonce,
  r_err rsp = true \/ r_status rsp <> 401%N ->
  digest_middleware H rp first rsp user pass cnonce = Untouched /\
  digest_exchange H rp first rsp user pass cnonce = [first].
Proof. exact non_401_untouched. Qed.
Print Assumptions C20_non_401_untouched.

(* at most one re-send per call; it has the method, request URI, Content-Type and body of the
   original request - unconditionally - and carries the computed header *)
Theorem C20_answered_once_body_intact : forall H rp first rsp user pass cnonce,
  length (digest_exchange H rp first rsp user pass cnonce) <= 2 /\
  hd_error (digest_exchange H rp first rsp user pass cnonce) = Some first /\
  forall q, In q (tl (digest_exchange H rp first rsp user pass cnonce)) ->
    r_err rsp = false /\ r_status rsp = 401%N /\ rp = true /\
    w_method q = w_method first /\ w_uri q = w_uri first /\
    w_ctype q = w_ctype first /\ w_body q = w_body first /\
    exists auth, w_auth q = Some auth /\
      create_digest_auth H (r_chal rsp) (w_uri first) (w_method first) user pass cnonce = inl auth.
Proof. exact answered_once_body_intact. Qed.
Print Assumptions C20_answered_once_body_intact.

(* a body that cannot be obtained again (plain io.Reader): an error and no second request -
   never the credentials with another body *)
Theorem C20_unreplayable_is_error : forall H first rsp user pass cnonce,
  r_err rsp = false -> r_status rsp = 401%N ->
  (exists e, digest_middleware H false first rsp user pass cnonce = MwErr e) /\
  digest_exchange H false first rsp user pass cnonce = [first].
Proof. exact unreplayable_is_error. Qed.
Print Assumptions C20_unreplayable_is_error.

(* the pinned code sent the credentials with an EMPTY body in that case *)
Theorem C20_unreplayable_pinned_refuted : forall H first rsp user pass cnonce auth,
  r_err rsp = false -> r_status rsp = 401%N ->
  create_digest_auth H (r_chal rsp) (w_uri first) (w_method first) user pass cnonce = inl auth ->
  exists q, digest_middleware_pinned H false first rsp user pass cnonce = Resent q /\ w_body q = [].
Proof. exact unreplayable_pinned_refuted. Qed.
Print Assumptions C20_unreplayable_pinned_refuted.

(* ----- faults and sequences: state that is NOT carried ----- *)

(* a connection fault at the re-send (origin drops the kept-alive connection after reading the
   authenticated request): whether the transport replays it or hands the error to the caller,
   everything on the wire after the first request is the one answer the middleware computed,
   at most twice, with the Content-Type and body of the original *)
Theorem C20_replay_intact : forall H fault rp first rsp user pass cnonce,
  length (digest_exchange_f H fault rp first rsp user pass cnonce) <= 3 /\
  hd_error (digest_exchange_f H fault rp first rsp user pass cnonce) = Some first /\
  forall q, In q (tl (digest_exchange_f H fault rp first rsp user pass cnonce)) ->
    digest_middleware H rp first rsp user pass cnonce = Resent q /\
    In q (tl (digest_exchange H rp first rsp user pass cnonce)) /\
    w_method q = w_method first /\ w_uri q = w_uri first /\
    w_ctype q = w_ctype first /\ w_body q = w_body first.
Proof. exact replay_intact. Qed.
Print Assumptions C20_replay_intact.

Theorem C20_exchange_no_fault : forall H rp first rsp user pass cnonce,
  digest_exchange_f H None rp first rsp user pass cnonce = digest_exchange H rp first rsp user pass cnonce.
Proof. exact exchange_no_fault. Qed.
Print Assumptions C20_exchange_no_fault.

(* one middleware serving a sequence of calls keeps nothing from one to the next *)
Theorem C20_session_independent : forall H user pass before after rp first rsp cnonce,
  nth_error (digest_session H user pass (before ++ (rp, first, rsp, cnonce) :: after)) (length before) =
  Some (digest_exchange H rp first rsp user pass cnonce).
Proof. exact session_independent. Qed.
Print Assumptions C20_session_independent.

(* ... so every call with a supported challenge is answered acceptably for ITS challenge, whatever
   was answered before (same realm under another hash family, other realms, -sess variants) *)
Theorem C20_session_every_answer_accepted : forall H,
  (forall f d, clean (H f d) = true) ->
  forall user pass before after first rsp cnonce c,
  r_err rsp = false -> r_status rsp = 401%N -> r_chal rsp <> [] ->
  parse_challenge (r_chal rsp) = inl c -> supported c = true -> clean cnonce = true ->
  exists q hdr,
    nth_error (digest_session H user pass (before ++ (true, first, rsp, cnonce) :: after)) (length before)
      = Some [first; q] /\
    w_auth q = Some hdr /\ w_body q = w_body first /\
    rfc7616_accepts H c (w_uri first) (w_method first) user pass cnonce hdr = true.
Proof. exact session_every_answer_accepted. Qed.
Print Assumptions C20_session_every_answer_accepted.

(* ----- digest x retry attempts; digest on a clone ----- *)

(* every retry attempt of one execution starts without credentials, is challenged and is answered
   acceptably for its own challenge and client nonce - the later attempts exactly like the first *)
Theorem C20_every_retry_attempt_answered : forall H,
  (forall f d, clean (H f d) = true) ->
  forall user pass first xs,
  Forall (fun x : first_response * bytes =>
            r_err (fst x) = false /\ r_status (fst x) = 401%N /\ r_chal (fst x) <> [] /\
            (exists c, parse_challenge (r_chal (fst x)) = inl c /\ supported c = true) /\
            clean (snd x) = true) xs ->
  Forall2 (fun (x : first_response * bytes) ex =>
             exists c q hdr, parse_challenge (r_chal (fst x)) = inl c /\
               ex = [first; q] /\ w_auth q = Some hdr /\ w_body q = w_body first /\
               rfc7616_accepts H c (w_uri first) (w_method first) user pass (snd x) hdr = true)
          xs (retry_attempts H user pass first xs).
Proof. exact retry_attempts_all_answered. Qed.
Print Assumptions C20_every_retry_attempt_answered.

(* the re-send travels over the transport of the client that executes the request, also when the
   middleware was inherited from another client through Clone; binding it to the client it was
   installed on sends a clone's answer over the original's route *)
Theorem C20_resend_takes_callers_route : forall installed_on calling,
  resend_route installed_on calling = calling /\
  (installed_on <> calling -> resend_route_bound installed_on calling <> calling).
Proof. intros i j. split; [reflexivity|]. intros Hne. exact Hne. Qed.
Print Assumptions C20_resend_takes_callers_route.

(* the challenge response is released before the re-send: under a per-host connection limit the
   re-send is never blocked by the 401 of its own call, whether or not that body was read *)
Theorem C20_resend_not_blocked_by_own_401 : forall limit others unread,
  others < limit -> resend_gets_connection limit others unread true = true.
Proof. exact resend_not_blocked_by_own_401. Qed.
Print Assumptions C20_resend_not_blocked_by_own_401.

Theorem C20_hold_401_until_answer_refuted :
  resend_gets_connection 1 0 true false = false /\ resend_gets_connection 1 0 true true = true.
Proof. exact hold_401_until_answer_refuted. Qed.
Print Assumptions C20_hold_401_until_answer_refuted.

(* re-execution after a retried execution: RetryAttempt is reset by every execution; resetting it
   only when something had been merged leaves a previously retried request without the client's
   credentials for good *)
Theorem C20_reset_if_merged_refuted :
  let ops := [SendR; CBearer (bs "tok"); Send] in
  rq_run rq_init ops = [None; None; Some (bearer_header (bs "tok"))] /\
  rq_run_with unmerge_identity reset_if_merged rq_init ops = [None; None; None].
Proof. exact reset_if_merged_refuted. Qed.
Print Assumptions C20_reset_if_merged_refuted.

(* ----- several WWW-Authenticate lines (one scheme each) ----- *)

(* the Digest challenge is answered wherever it stands among lines of other schemes *)
Theorem C20_digest_line_selected : forall pre c post,
  forallb (fun l => negb (is_digest_line l)) pre = true -> is_digest_line c = true ->
  select_challenge (pre ++ c :: post) = c.
Proof. exact select_digest_line. Qed.
Print Assumptions C20_digest_line_selected.

(* no Digest line: an error, never a header *)
Theorem C20_no_digest_line_is_error : forall lines,
  forallb (fun l => negb (is_digest_line l)) lines = true ->
  select_challenge lines = hd [] lines /\
  (lines <> [] -> parse_challenge (select_challenge lines) = inr EBadChallenge).
Proof. exact select_no_digest_line. Qed.
Print Assumptions C20_no_digest_line_is_error.

(* the pinned code looked at the first line only *)
Theorem C20_pinned_first_line_refuted :
  let lines := [bs "Basic realm=""fallback"""; bs "Digest realm=""r"", nonce=""n"", qop=""auth"""] in
  parse_challenge (select_challenge_pinned lines) = inr EBadChallenge /\
  exists c, parse_challenge (select_challenge lines) = inl c /\ supported c = true.
Proof. exact select_pinned_refuted. Qed.
Print Assumptions C20_pinned_first_line_refuted.

(* the pinned (pre-fix) splitter rejected supported challenges; witnesses kept checked *)
Theorem C20_pinned_split_refuted :
  parse_challenge_pinned (bs "Digest realm=""r"", nonce=""n"", qop=""auth,auth-int""") = inr EBadChallenge /\
  exists c, parse_challenge (bs "Digest realm=""r"", nonce=""n"", qop=""auth,auth-int""") = inl c /\
            supported c = true.
Proof. exact pinned_rejects_qop_list. Qed.
Print Assumptions C20_pinned_split_refuted.

Theorem C20_pinned_comma_in_realm_refuted :
  parse_challenge_pinned (bs "Digest realm=""Acme, Inc."", nonce=""n""") = inr EBadChallenge /\
  exists c, parse_challenge (bs "Digest realm=""Acme, Inc."", nonce=""n""") = inl c /\
            c_realm c = bs "Acme, Inc.".
Proof. exact pinned_rejects_comma_in_realm. Qed.
Print Assumptions C20_pinned_comma_in_realm_refuted.

(* the pinned value reader (strings.Trim) kept the backslashes of a quoted-pair and lost the
   closing quote; the repaired one yields the realm the server meant *)
Theorem C20_pinned_quoted_pair_refuted :
  set_param_pinned empty_chal (bs "realm") (bs """say \""hi\""""") <>
  set_param empty_chal (bs "realm") (bs """say \""hi\""""") /\
  exists c, set_param empty_chal (bs "realm") (bs """say \""hi\""""") = inl c /\
            c_realm c = bs "say ""hi""".
Proof. exact pinned_keeps_quoted_pair. Qed.
Print Assumptions C20_pinned_quoted_pair_refuted.

(* non-vacuity: RFC 7616 section 3.9.1's challenge is supported, parsed, and answered with all
   eleven parameters; H instantiated with a toy function only to run the model *)
Example C20_nonvacuous :
  let chal := bs "Digest realm=""http-auth@example.org"", qop=""auth, auth-int"", algorithm=SHA-256, nonce=""7ypf/xlj9XXwfDPEoM4URrv/xwf94BcCAzFZH4GiTo0v"", opaque=""FQhe/qaU925kfnzjCev0ciny7QMkPqMAFRtzCUYo5tdS""" in
  (exists c, parse_challenge chal = inl c /\ supported c = true /\ c_qop c = bs "auth, auth-int" /\
             c_algorithm c = bs "SHA-256") /\
  (exists a, create_digest_auth (fun _ d => firstn 4 d) chal (bs "/dir/index.html") (bs "GET")
               (bs "Mufasa") (bs "Circle of Life") (bs "f2/wE4q74E6zIJEtWaHKaf5wv/H5QzzpXusqGemxURZJ") = inl a /\
             has_prefix (bs "Digest username=""Mufasa"", realm=""http-auth@example.org""") a = true) /\
  parse_basic (basic_header (bs "Aladdin") (bs "open sesame")) = Some (bs "Aladdin", bs "open sesame") /\
  basic_header (bs "Aladdin") (bs "open sesame") = bs "Basic QWxhZGRpbjpvcGVuIHNlc2FtZQ==".
Proof.
  cbv zeta. split; [eexists; repeat split; vm_compute; reflexivity|].
  split; [eexists; split; vm_compute; reflexivity|]. split; vm_compute; reflexivity.
Qed.

(* non-vacuity of the acceptance theorem: a user name with a double quote and a realm with a
   backslash; H = "keep the letters and digits" (free of quote and backslash, depends on its
   input).  The rendered header is accepted; the same header is refused for another password,
   another method, and when its response is altered. *)
(* non-vacuity of the challenge-text theorems: RFC 7616 3.9.1-like challenge with odd spacing,
   a comma and a quoted-pair inside the realm, quoted algorithm *)
Example C20_challenge_text_nonvacuous :
  let xs : list padded :=
    [([], (bs "qop", Quoted (bs "auth, auth-int")), bs " ");
     (bs "  ", (bs "realm", Quoted (bs "Acme, ""Inc""\")), []);
     (bs " ", (bs "algorithm", Quoted (bs "SHA-256")), bs " ");
     ([x09], (bs "nonce", Quoted (bs "n")), []);
     ([], (bs "userhash", Bare (bs "true")), [])] in
  forallb piece_ok xs = true /\ ends_tightb xs = true /\
  render_challenge [x09] (bs " ") [x0a] xs =
    [x09] ++ bs "Digest  qop=""auth, auth-int"" ,  realm=""Acme, \""Inc\""\\"", algorithm=""SHA-256"" ," ++ [x09] ++
    bs "nonce=""n"",userhash=true" ++ [x0a] /\
  exists c, parse_challenge (render_challenge [x09] (bs " ") [x0a] xs) = inl c /\
            c_realm c = bs "Acme, ""Inc""\" /\ supported c = true.
Proof.
  cbv zeta. split; [vm_compute; reflexivity|]. split; [vm_compute; reflexivity|].
  split; [vm_compute; reflexivity|]. eexists. repeat split; vm_compute; reflexivity.
Qed.

Example C20_verifier_nonvacuous :
  let H := fun (_ : hashfn) (d : bytes) => filter (fun b => is_alpha b || is_digit b) d in
  let c := mkChal (bs "back\slash") [] (bs "n0nce") (bs "o") [] (bs "SHA-256-sess") (bs "auth-int, auth") (bs "true") in
  let user := bs "q""uote" in
  supported c = true /\
  exists fs hdr,
    authorize H c (bs "/p?x=1") (bs "POST") user (bs "pw") (bs "c0ffee") = inl fs /\
    hdr = render_fields fs /\
    contains_sub (bs "realm=""back\\slash""") hdr = true /\
    rfc7616_accepts H c (bs "/p?x=1") (bs "POST") user (bs "pw") [] hdr = true /\
    rfc7616_accepts H c (bs "/p?x=1") (bs "POST") user (bs "other") [] hdr = false /\
    rfc7616_accepts H c (bs "/p?x=1") (bs "GET") user (bs "pw") [] hdr = false /\
    rfc7616_accepts H c (bs "/p?x=1") (bs "POST") user (bs "pw") []
      (bs "Digest username=""x"", realm=""back\\slash"", nonce=""n0nce"", uri=""/p?x=1"", response=""0""") = false.
Proof.
  cbv zeta. split; [vm_compute; reflexivity|]. eexists. eexists.
  split; [vm_compute; reflexivity|]. split; [reflexivity|]. repeat split; vm_compute; reflexivity.
Qed.
