(* Properties/C20.v - Authentication headers are computed correctly.
   Only statements, `exact`, and Print Assumptions.
   Model: Model/Base64.v (util.BasicAuthHeaderValue, SetBearerAuthToken, net/http parseBasicAuth),
   Model/Digest.v (digest.go + an independent transcription of RFC 7616 section 3.4).
   The hash function is a universally quantified variable H everywhere. *)
From ReqV Require Import Lib.Bytes Model.Base64 Model.Digest Proofs.Base64Proofs Proofs.DigestProofs.

(* ----- Basic / Bearer: the server recovers exactly what was given, for all strings ----- *)

Theorem C20_base64_roundtrip : forall b : bytes, b64_decode (b64_encode b) = Some b.
Proof. exact base64_roundtrip. Qed.
Print Assumptions C20_base64_roundtrip.

(* the transmitted credential is user ":" pass for ALL byte strings *)
Theorem C20_basic_decodes : forall user pass,
  b64_decode (skipn 6 (basic_header user pass)) = Some (user ++ colon_b :: pass).
Proof. exact basic_decodes. Qed.
Print Assumptions C20_basic_decodes.

(* net/http's BasicAuth() returns (user, pass) iff user has no colon (RFC 7617's own limit) *)
Theorem C20_basic_recovers : forall user pass,
  parse_basic (basic_header user pass) = Some (user, pass) <-> mem_byte colon_b user = false.
Proof. exact basic_recovers. Qed.
Print Assumptions C20_basic_recovers.

(* ... and with a colon in the user name nothing is lost, the split just moves *)
Theorem C20_basic_recovers_split : forall user1 rest pass,
  mem_byte colon_b user1 = false ->
  parse_basic (basic_header (user1 ++ colon_b :: rest) pass) = Some (user1, rest ++ colon_b :: pass).
Proof. exact basic_recovers_split. Qed.
Print Assumptions C20_basic_recovers_split.

Theorem C20_bearer_exact : forall token, parse_bearer (bearer_header token) = Some token.
Proof. exact bearer_exact. Qed.
Print Assumptions C20_bearer_exact.

(* ----- Digest ----- *)

(* the algorithm table regenerated from digest.go maps every name - registered or not - to
   the hash function of the RFC 7616 registry (this breaks when the table is wrong) *)
Theorem C20_alg_table_matches_registry : forall alg,
  lookup_alg alg = match rfc_registry alg with Some (f, _) => Some f | None => None end.
Proof. exact alg_table_matches_registry. Qed.
Print Assumptions C20_alg_table_matches_registry.

Theorem C20_sess_flag_matches_registry : forall alg f sess,
  rfc_registry alg = Some (f, sess) -> has_suffix (bs "-sess") alg = sess.
Proof. exact sess_flag_matches. Qed.
Print Assumptions C20_sess_flag_matches_registry.

(* the parameter names parseChallenge accepts (switch labels regenerated from the source)
   are those of RFC 7616 section 3.3 *)
Theorem C20_param_table_matches : forall k,
  known_key k = existsb (bytes_eqb k) challenge_keys /\
  existsb (bytes_eqb k) challenge_keys = existsb (bytes_eqb k) rfc_challenge_params.
Proof. intros k. split; [exact (known_key_matches_table k)|exact (challenge_keys_are_rfc k)]. Qed.
Print Assumptions C20_param_table_matches.

(* for EVERY supported challenge (MD5, SHA-256, SHA-512-256 and their -sess forms, algorithm
   absent; qop absent or a list offering auth; opaque; userhash), every method, request URI,
   user, password, nonce, client nonce and every hash function H: the parameters emitted are
   exactly those RFC 7616 prescribes - each name at most once *)
Theorem C20_digest_matches_rfc7616 : forall H c uri method user pass cnonce,
  supported c = true ->
  exists fs,
    authorize H c uri method user pass cnonce = inl fs /\
    NoDup (map fst fs) /\
    forall k, lookup_field k fs = rfc7616_field H c uri method user pass cnonce k.
Proof. exact digest_matches_rfc7616. Qed.
Print Assumptions C20_digest_matches_rfc7616.

(* ... and such a challenge is answered: exactly one more request, same body *)
Theorem C20_supported_is_answered : forall H rp first rsp user pass cnonce c,
  r_err rsp = false -> r_status rsp = 401%N -> r_chal rsp <> [] ->
  parse_challenge (r_chal rsp) = inl c -> supported c = true ->
  exists fs q,
    authorize H c (w_uri first) (w_method first) user pass cnonce = inl fs /\
    digest_exchange H rp first rsp user pass cnonce = [first; q] /\
    w_auth q = Some (render_fields fs) /\ (rp = true -> w_body q = w_body first) /\
    forall k, lookup_field k fs = rfc7616_field H c (w_uri first) (w_method first) user pass cnonce k.
Proof. exact supported_is_answered. Qed.
Print Assumptions C20_supported_is_answered.

(* unsupported or malformed => error, never a header *)
Theorem C20_unknown_alg_is_error : forall H c uri method user pass cnonce,
  rfc_registry (c_algorithm c) = None ->
  authorize H c uri method user pass cnonce = inr EAlgNotSupported.
Proof. exact unknown_alg_is_error. Qed.
Print Assumptions C20_unknown_alg_is_error.

Theorem C20_qop_without_auth_is_error : forall H c uri method user pass cnonce,
  rfc_registry (c_algorithm c) <> None ->
  c_qop c <> [] -> qop_offers_auth (c_qop c) = false ->
  authorize H c uri method user pass cnonce = inr EQopNotSupported.
Proof. exact qop_without_auth_is_error. Qed.
Print Assumptions C20_qop_without_auth_is_error.

Theorem C20_non_utf8_charset_is_error : forall c v,
  bytes_eqb (to_upper (trim_quotes v)) (bs "UTF-8") = false ->
  set_param c (bs "charset") v = inr ECharset.
Proof. exact param_charset_not_utf8. Qed.
Print Assumptions C20_non_utf8_charset_is_error.

Theorem C20_malformed_param_is_error :
  (forall p, mem_byte equals (trim_space p) = false -> param_ok p = false) /\
  (forall c k v, known_key k = false -> set_param c k v = inr EBadChallenge) /\
  (forall split input,
     (exists p, In p (split (trim is_chal_ws (skipn 7 (trim is_chal_ws input)))) /\ param_ok p = false) ->
     exists e, parse_challenge_with split input = inr e) /\
  (forall split input, has_prefix (bs "Digest ") (trim is_chal_ws input) = false ->
     parse_challenge_with split input = inr EBadChallenge).
Proof.
  exact (conj param_without_equals_bad (conj param_unknown_key_bad (conj bad_param_is_error non_digest_is_error))).
Qed.
Print Assumptions C20_malformed_param_is_error.

Theorem C20_error_means_no_header : forall H rp first rsp user pass cnonce e,
  r_err rsp = false -> r_status rsp = 401%N ->
  create_digest_auth H (r_chal rsp) (w_uri first) (w_method first) user pass cnonce = inr e ->
  digest_middleware H rp first rsp user pass cnonce = MwErr e /\
  digest_exchange H rp first rsp user pass cnonce = [first].
Proof. exact middleware_error_sends_nothing. Qed.
Print Assumptions C20_error_means_no_header.

Theorem C20_non_401_untouched : forall H rp first rsp user pass cnonce,
  r_err rsp = true \/ r_status rsp <> 401%N ->
  digest_middleware H rp first rsp user pass cnonce = Untouched /\
  digest_exchange H rp first rsp user pass cnonce = [first].
Proof. exact non_401_untouched. Qed.
Print Assumptions C20_non_401_untouched.

(* at most one re-send per call; it has the method, request URI and body of the original
   request and carries the computed header *)
Theorem C20_answered_once_body_intact : forall H rp first rsp user pass cnonce,
  length (digest_exchange H rp first rsp user pass cnonce) <= 2 /\
  hd_error (digest_exchange H rp first rsp user pass cnonce) = Some first /\
  forall q, In q (tl (digest_exchange H rp first rsp user pass cnonce)) ->
    r_err rsp = false /\ r_status rsp = 401%N /\
    w_method q = w_method first /\ w_uri q = w_uri first /\
      (rp = true -> w_body q = w_body first) /\
    exists auth, w_auth q = Some auth /\
      create_digest_auth H (r_chal rsp) (w_uri first) (w_method first) user pass cnonce = inl auth.
Proof. exact answered_once_body_intact. Qed.
Print Assumptions C20_answered_once_body_intact.

(* the pinned (pre-fix) splitter rejected supported challenges; witnesses kept checked *)
Theorem C20_pinned_split_refuted :
  parse_challenge_pinned (bs "Digest realm=""r"", nonce=""n"", qop=""auth,auth-int""") = inr EBadChallenge /\
  exists c, parse_challenge (bs "Digest realm=""r"", nonce=""n"", qop=""auth,auth-int""") = inl c /\
            supported c = true.
Proof. exact pinned_rejects_qop_list. Qed.

(* non-vacuity: RFC 7616 section 3.9.1's challenge is supported, parsed, and answered with all
   eleven parameters; H instantiated with a toy function only to run the model *)
Example C20_nonvacuous :
  let chal := bs "Digest realm=""http-auth@example.org"", qop=""auth, auth-int"", algorithm=SHA-256, nonce=""7ypf/xlj9XXwfDPEoM4URrv/xwf94BcCAzFZH4GiTo0v"", opaque=""FQhe/qaU925kfnzjCev0ciny7QMkPqMAFRtzCUYo5tdS""" in
  (exists c, parse_challenge chal = inl c /\ supported c = true /\ c_qop c = bs "auth, auth-int" /\
             c_algorithm c = bs "SHA-256") /\
  (exists a, create_digest_auth (fun _ d => firstn 4 d) chal (bs "/dir/index.html") (bs "GET")
               (bs "Mufasa") (bs "Circle of Life") (bs "f2/wE4q74E6zIJEtWaHKaf5wv/H5QzzpXusqGemxURZJ") = inl a /\
             has_prefix (bs "Digest username=""Mufasa"", realm=""http-auth@example.org""") a = true) /\
  parse_basic (basic_header (bs "Aladdin") (bs "open sesame")) = Some (bs "Aladdin", bs "open sesame") /\
  basic_header (bs "Aladdin") (bs "open sesame") = bs "Basic QWxhZGRpbjpvcGVuIHNlc2FtZQ==".
Proof.
  cbv zeta. split; [eexists; repeat split; vm_compute; reflexivity|].
  split; [eexists; split; vm_compute; reflexivity|]. split; vm_compute; reflexivity.
Qed.
