(* Properties/C07.v - No input from a server can crash or wedge the caller (PARTIAL).
   Only statements, `exact`, and Print Assumptions.

   What these theorems carry: totality and limits of the modelled decision / parsing logic
   (every modelled call ends in a response or an error, never in the model's out-of-fuel
   artefact; header budget; at most five informational responses; no reader in the body
   stack is nil).  What they cannot carry: Go runtime panics, spinning goroutines and heap use
   - those are observed by harness/c07 only (child process, recover, watchdog, census).
   Models: Model/H1Resp.v (C04), Model/H1Limits.v, Model/BodyStages.v, Model/Decode.v (C14). *)
From ReqV Require Import Lib.Bytes Model.Decode Model.BodyStages Model.H1Resp Model.H1Limits
  Model.AltSvc Model.H2Frame Proofs.BodyStagesProofs Proofs.H1LimitsProofs Proofs.AltSvcProofs Proofs.C07Misc
  Model.H2Info Proofs.H2InfoProofs Model.HeaderSlots Proofs.HeaderSlotsProofs Proofs.C07DigestAlg
  Model.H3Control Proofs.H3ControlProofs Proofs.C07H2Order
  Model.H2Wake Proofs.H2WakeProofs Model.H3Retry Proofs.H3RetryProofs.
From ReqV Require Model.H2GoAway Proofs.H2GoAwayProofs Model.H2HdrLimit Proofs.H2HdrLimitProofs Model.H2Ping Proofs.H2PingProofs.
From ReqV Require Model.Digest Gen.C07Consts Model.H3Frame Model.H3Limits Proofs.H3FrameProofs Proofs.H3LimitsProofs.
From Coq Require Import Lia.
Local Open Scope nat_scope.

(* ---------- HTTP/1.1: every byte stream yields a response or an error ---------- *)

Theorem C07_h1_call_total : forall meth bufsize visible s,
  match read_call meth bufsize visible s with
  | CallErr _ e => e <> HOutOfFuel
  | CallTooMany1xx => True
  | CallResp _ r rest => b_end (read_body bufsize r rest) <> BOutOfFuel
  end.
Proof. exact h1_call_total. Qed.
Print Assumptions C07_h1_call_total.

Theorem C07_at_most_5_informational : forall meth bufsize visible s,
  match read_call meth bufsize visible s with
  | CallErr k _ => k <= 5
  | CallTooMany1xx => True
  | CallResp k _ _ => k <= 5
  end.
Proof. exact at_most_5_informational. Qed.
Print Assumptions C07_at_most_5_informational.

Theorem C07_sixth_informational_rejected : forall meth bufsize visible hs t,
  Forall (fun h => info_head meth bufsize h /\ length h <= visible) hs -> length hs = 6 ->
  read_call meth bufsize visible (concat hs ++ t) = CallTooMany1xx.
Proof. exact sixth_informational_rejected. Qed.
Print Assumptions C07_sixth_informational_rejected.

(* header budget: an accepted head is the unlimited reader's head and lies within the budget;
   a head that needs more is an error; more budget never changes an accepted call *)
Theorem C07_header_budget_respected : forall meth bufsize visible s r rest,
  limited_head meth bufsize visible s = inr (r, rest) ->
  read_response_head meth bufsize s = inr (r, rest) /\ length s - length rest <= visible.
Proof. exact header_budget_respected. Qed.
Print Assumptions C07_header_budget_respected.

Theorem C07_header_over_budget_rejected : forall meth bufsize visible s r rest,
  read_response_head meth bufsize s = inr (r, rest) -> visible < length s - length rest ->
  exists e, limited_head meth bufsize visible s = inl e.
Proof. exact header_over_budget_rejected. Qed.
Print Assumptions C07_header_over_budget_rejected.

Theorem C07_call_monotone : forall meth bufsize v v' s k r rest,
  read_call meth bufsize v s = CallResp k r rest -> v <= v' ->
  read_call meth bufsize v' s = CallResp k r rest.
Proof. exact call_monotone. Qed.
Print Assumptions C07_call_monotone.

(* the form evaluated on the harness cases (own budget for the first head) is the same function *)
Theorem C07_read_call2_same : forall meth bufsize v s,
  read_call2 meth bufsize v v s = read_call meth bufsize v s.
Proof. exact read_call2_same. Qed.
Print Assumptions C07_read_call2_same.

(* ---------- the body stays a usable reader through every wrapping stage ---------- *)

Theorem C07_stages_never_nil : forall st c p guard ce ct o, sound (pipeline st c p guard ce ct o) = true.
Proof. exact stages_never_nil. Qed.
Print Assumptions C07_stages_never_nil.

(* ... also once reading has begun (the decoder's end-of-message wrapper then puts a tracking reader
   under the decoder): still no nil reader, and nothing but tracking readers was added *)
Theorem C07_stages_never_nil_reading : forall st c p guard ce ct o,
  sound (after_first_read (pipeline st c p guard ce ct o)) = true.
Proof. exact stages_never_nil_reading. Qed.
Print Assumptions C07_stages_never_nil_reading.

Theorem C07_first_read_only_adds_tracked : forall b,
  filter not_tracked (fst (flatten (after_first_read b))) = filter not_tracked (fst (flatten b)) /\
  snd (flatten (after_first_read b)) = snd (flatten b).
Proof. exact first_read_only_adds_tracked. Qed.
Print Assumptions C07_first_read_only_adds_tracked.

Theorem C07_stages_only_add : forall st c p guard ce ct o,
  core (pipeline st c p guard ce ct o) = core (transport_body st c ce).
Proof. exact stages_only_add. Qed.
Print Assumptions C07_stages_only_add.

Theorem C07_dump_outermost : forall st c p guard ce ct o,
  exists rest, fst (flatten (pipeline st c p guard ce ct o)) = repeat TDump (p_dumpers p) ++ rest /\
               ~ In TDump rest.
Proof. exact dump_outermost. Qed.
Print Assumptions C07_dump_outermost.

Theorem C07_decode_off_for_utf8 : forall d g ct o cs,
  o_parse_err o = false -> o_charset o = Some cs ->
  contains_sub (bs "utf-8") (to_lower cs) || contains_sub (bs "utf8") (to_lower cs) = true ->
  decode_decision d g ct o = DNone.
Proof. exact decode_off_for_utf8. Qed.
Print Assumptions C07_decode_off_for_utf8.

Theorem C07_decode_off_for_unknown_charset : forall d g ct o cs,
  o_parse_err o = false -> o_charset o = Some cs -> o_known o = false ->
  decode_decision d g ct o = DNone.
Proof. exact decode_off_for_unknown_charset. Qed.
Print Assumptions C07_decode_off_for_unknown_charset.

Theorem C07_decode_off_when_guarded : forall d g ct o, g <> [] -> decode_decision d g ct o = DNone.
Proof. exact decode_off_when_guarded. Qed.
Print Assumptions C07_decode_off_when_guarded.

(* the pinned code: nil stored as the body for an unsupported coding, then wrapped *)
Theorem C07_stages_pinned_refuted :
  sound (pipeline_pinned H1 cfg_auto cfg_plain [] (bs "identity") (bs "text/plain") o_none) = false /\
  sound (pipeline_pinned H2 cfg_auto cfg_plain [] (bs "identity") (bs "text/plain") o_none) = false /\
  sound (pipeline_pinned H3 cfg_auto cfg_plain [] (bs "identity") (bs "text/plain") o_none) = false /\
  flatten (pipeline_pinned H1 cfg_auto cfg_plain [] (bs "identity") (bs "text/plain") o_none) = ([TAutoDecode], true) /\
  flatten (pipeline H1 cfg_auto cfg_plain [] (bs "identity") (bs "text/plain") o_none) = ([TAutoDecode; TEofSignal], false).
Proof. exact pinned_refuted. Qed.
Print Assumptions C07_stages_pinned_refuted.

(* ---------- Alt-Svc: the parser terminates on every header text ---------- *)

(* progress measure: a parseKv call on a non-empty buffer consumes at least one byte *)
Theorem C07_altsvc_kv_progress : forall s, s <> [] -> length (k_rest (parse_kv s)) < length s.
Proof. exact altsvc_kv_progress. Qed.
Print Assumptions C07_altsvc_kv_progress.

(* each iteration of Parse's loop consumes at least one byte or ends the loop *)
Theorem C07_altsvc_parse_terminates : forall s,
  let '(a, e, s') := parse_one s in
  (e = PNil -> length s' < length s) /\ length s' <= length s.
Proof. exact altsvc_parse_terminates. Qed.
Print Assumptions C07_altsvc_parse_terminates.

Theorem C07_altsvc_parse_total : forall v, snd (parse_header v) <> PFuel.
Proof. exact altsvc_parse_total. Qed.
Print Assumptions C07_altsvc_parse_total.

Theorem C07_altsvc_entries_bounded : forall v, length (fst (parse_header v)) <= length v.
Proof. exact altsvc_entries_bounded. Qed.
Print Assumptions C07_altsvc_entries_bounded.

(* ---------- digest challenge (model of C20) ---------- *)

Theorem C07_parse_challenge_total : forall input,
  match Digest.parse_challenge input with
  | inl _ => True
  | inr e => e = Digest.EBadChallenge \/ e = Digest.ECharset
  end.
Proof. exact parse_challenge_total. Qed.
Print Assumptions C07_parse_challenge_total.

Theorem C07_challenge_params_bounded : forall s, length (Digest.split_params s) <= S (length s).
Proof. exact challenge_params_bounded. Qed.
Print Assumptions C07_challenge_params_bounded.

(* ---------- HTTP/2 frame reader (model of C05): maxReadSize ---------- *)

Theorem C07_h2_frame_too_large : forall st input,
  (frameHeaderLen <=? lenN input)%N = true ->
  (rs_max st <? fh_len (h2_read_header (firstn 9 input)))%N = true ->
  read_frame st input = (Err EFrameTooLarge, skipn 9 input, st).
Proof. exact h2_frame_too_large. Qed.
Print Assumptions C07_h2_frame_too_large.

Theorem C07_h2_frame_within_limit : forall st input f rest st',
  read_frame st input = (Ok f, rest, st') ->
  (N.of_nat (length input - length rest) <= 9 + rs_max st)%N.
Proof. exact h2_frame_within_limit. Qed.
Print Assumptions C07_h2_frame_within_limit.

(* ---------- HTTP/3 frame parser and response head (Model/H3Frame.v of C05, Model/H3Limits.v) ---------- *)

(* no fuel artefact: with any fuel above the input length the parser gives the same result *)
Theorem C07_h3_frame_parse_total : forall body f input,
  length input < f -> H3Frame.h3_parse_next_fuel body f input = H3Frame.h3_parse_next_b body input.
Proof. exact H3LimitsProofs.h3_frame_parse_total. Qed.
Print Assumptions C07_h3_frame_parse_total.

Theorem C07_h3_parse_only_consumes : forall body input,
  length (snd (H3Frame.h3_parse_next_b body input)) <= length input.
Proof. exact H3LimitsProofs.h3_parse_only_consumes. Qed.
Print Assumptions C07_h3_parse_only_consumes.

(* SETTINGS cap (8 KiB, regenerated from the source): refused with the reader untouched *)
Theorem C07_h3_settings_over_cap : forall input l,
  (H3Consts.h3SettingsMaxLen < l)%N ->
  H3Frame.h3_parse_settings_frame input l = (H3Frame.H3Err (H3Frame.H3SettingsTooLarge l), input).
Proof. exact H3LimitsProofs.h3_settings_over_cap. Qed.
Print Assumptions C07_h3_settings_over_cap.

Theorem C07_h3_settings_cap : forall body input s rest,
  H3Frame.h3_parse_next_b body input = (H3Frame.H3Ok (H3Frame.H3Settings s), rest) ->
  exists payload, (BigEndian.lenN payload <= H3Consts.h3SettingsMaxLen)%N /\
                  H3Frame.h3_parse_settings_payload payload = H3Frame.H3Ok s.
Proof. exact H3LimitsProofs.h3_settings_cap. Qed.
Print Assumptions C07_h3_settings_cap.

(* header size limit: refused on the announced length alone; an accepted field section is within it *)
Theorem C07_h3_header_over_limit : forall max input l rest,
  H3Frame.h3_parse_next input = (H3Frame.H3Ok (H3Frame.H3Headers l), rest) -> (max < l)%N ->
  H3Limits.h3_read_head max input = H3Limits.HdTooLarge l.
Proof. exact H3LimitsProofs.h3_header_over_limit. Qed.
Print Assumptions C07_h3_header_over_limit.

Theorem C07_h3_header_within_limit : forall max input block rest,
  H3Limits.h3_read_head max input = H3Limits.HdOk block rest ->
  (BigEndian.lenN block <= max)%N /\ length block + length rest <= length input.
Proof. exact H3LimitsProofs.h3_header_within_limit. Qed.
Print Assumptions C07_h3_header_within_limit.

(* an unknown (non-reserved) frame is skipped: the parser continues behind its payload, whatever
   its type and however it is encoded; a payload that is not all there is io.EOF *)
Theorem C07_h3_unknown_frame_skipped : forall body et el t p rest,
  H3FrameProofs.is_enc et t -> H3FrameProofs.is_enc el (BigEndian.lenN p) ->
  t <> H3Consts.h3FrameData -> t <> H3Consts.h3FrameHeaders -> t <> H3Consts.h3FrameSettings ->
  ~ In t H3Consts.h3ReservedTypes ->
  H3Frame.h3_parse_next_b body (et ++ el ++ p ++ rest) = H3Frame.h3_parse_next_b body rest.
Proof. exact H3FrameProofs.h3_unknown_frame_skipped. Qed.
Print Assumptions C07_h3_unknown_frame_skipped.

Theorem C07_h3_unknown_frame_truncated : forall body et el t l rest,
  H3FrameProofs.is_enc et t -> H3FrameProofs.is_enc el l ->
  t <> H3Consts.h3FrameData -> t <> H3Consts.h3FrameHeaders -> t <> H3Consts.h3FrameSettings ->
  ~ In t H3Consts.h3ReservedTypes -> (BigEndian.lenN rest < l)%N ->
  H3Frame.h3_parse_next_b body (et ++ el ++ rest) = (H3Frame.H3Err (H3Frame.trunc_err body), []).
Proof. exact H3FrameProofs.h3_unknown_frame_truncated. Qed.
Print Assumptions C07_h3_unknown_frame_truncated.

Theorem C07_h3_at_most_5_informational : forall max q input,
  match H3Limits.h3_read_call max q input with
  | H3Limits.H3CallErr k => k <= 5
  | H3Limits.H3Resp k _ _ => k <= 5
  | _ => True
  end.
Proof. exact H3LimitsProofs.h3_at_most_5_informational. Qed.
Print Assumptions C07_h3_at_most_5_informational.

(* ---------- HTTP/2 interim responses: the read loop is never stuck telling the writer ---------- *)

(* every order of HEADERS blocks and of the request writer taking its notification, every status:
   never blocked, the notification channel never over capacity, at most five interim blocks *)
Theorem C07_h2_info_never_blocks : forall evs s,
  i_on100 s <= on100_cap -> i_num1xx s <= h2_max_1xx ->
  match h2_info_run false s evs with
  | RBlocked => False
  | RFinal _ n => n <= h2_max_1xx
  | ROpen s' => i_on100 s' <= on100_cap /\ i_num1xx s' <= h2_max_1xx
  | RErr => True
  end.
Proof. exact h2_info_never_blocks. Qed.
Print Assumptions C07_h2_info_never_blocks.

(* what the caller gets does not depend on when (or whether) the writer takes the notification *)
Theorem C07_h2_info_writer_irrelevant : forall evs s,
  match h2_info_run false s evs, h2_info_run false s (no_writer_events evs) with
  | RFinal c n, RFinal c' n' => c = c' /\ n = n'
  | RErr, RErr => True
  | ROpen a, ROpen b => i_num1xx a = i_num1xx b
  | _, _ => False
  end.
Proof. exact h2_info_writer_irrelevant. Qed.
Print Assumptions C07_h2_info_writer_irrelevant.

(* a blocking send is stuck on the second `:status 100` nobody receives *)
Theorem C07_h2_info_blocking_refuted :
  h2_info_run true istate0 [EvHeaders 100 false; EvHeaders 100 false; EvHeaders 200 false] = RBlocked /\
  h2_info_run true istate0 [EvHeaders 100 false; EvWriterTakes; EvHeaders 100 false; EvHeaders 100 false; EvHeaders 200 false] = RBlocked /\
  h2_info_run false istate0 [EvHeaders 100 false; EvHeaders 100 false; EvHeaders 100 false; EvHeaders 200 true] = RFinal 200 3.
Proof. exact h2_info_blocking_refuted. Qed.
Print Assumptions C07_h2_info_blocking_refuted.

(* ---------- HTTP/1.1 header reader: the value slots sized from what happened to be buffered ---------- *)

(* for every hint and every list of header lines the reader does not fault and builds the map it
   builds without slots: independent of segmentation and read-buffer size *)
Theorem C07_header_map_hint_independent : forall hint lines,
  header_map_hinted hint lines = Some (header_map_plain lines).
Proof. exact header_map_hint_independent. Qed.
Print Assumptions C07_header_map_hint_independent.

Theorem C07_slot_guard_on_hint_refuted :
  slot_run false 1 1 [] [(bs "A", bs "1"); (bs "B", bs "2")] = None /\
  slot_run true 1 1 [] [(bs "A", bs "1"); (bs "B", bs "2")] = Some (0, [(bs "A", [bs "1"]); (bs "B", [bs "2"])]).
Proof. exact slot_guard_on_hint_refuted. Qed.
Print Assumptions C07_slot_guard_on_hint_refuted.

(* ---------- digest: the algorithm check and the hashing look up one table with one token ---------- *)

Theorem C07_authorize_checks_table : forall H c uri m u p cn,
  Digest.lookup_alg (Digest.c_algorithm c) = None ->
  Digest.authorize H c uri m u p cn = inr Digest.EAlgNotSupported.
Proof. exact authorize_checks_table. Qed.
Print Assumptions C07_authorize_checks_table.

Theorem C07_authorize_hash_defined : forall H c uri m u p cn fs,
  Digest.authorize H c uri m u p cn = inl fs -> exists f, Digest.lookup_alg (Digest.c_algorithm c) = Some f.
Proof. exact authorize_hash_defined. Qed.
Print Assumptions C07_authorize_hash_defined.

(* ---------- HTTP/2: nothing but its CONTINUATION gets through while a header block is open ---------- *)

Theorem C07_h2_open_block_only_continuation : forall last h,
  last <> 0%N -> (fh_type h <> H2Consts.FrameContinuation \/ fh_sid h <> last) -> check_order last h = None.
Proof. exact open_block_only_continuation. Qed.
Print Assumptions C07_h2_open_block_only_continuation.

(* what ReadFrame hands out while a block is open IS a CONTINUATION of that stream (the premise of
   readMetaFrame's unchecked type assertion) *)
Theorem C07_h2_open_block_accepts_continuation : forall last h l,
  last <> 0%N -> check_order last h = Some l -> fh_type h = H2Consts.FrameContinuation /\ fh_sid h = last.
Proof. exact open_block_accepts_continuation. Qed.
Print Assumptions C07_h2_open_block_accepts_continuation.

(* ---------- HTTP/3: one control stream, whatever the order of events across streams ---------- *)

Theorem C07_h3_control_guard_single : forall evs, c_closes (crun true evs) <= 1.
Proof. exact control_guard_single. Qed.
Print Assumptions C07_h3_control_guard_single.

Theorem C07_h3_control_guard_second_refused : forall pre i j post,
  c_dup (crun true (pre ++ CType i :: CType j :: post)) = true.
Proof. exact control_guard_second_refused. Qed.
Print Assumptions C07_h3_control_guard_second_refused.

Theorem C07_h3_control_check_then_act_refuted :
  c_closes (crun false [CType 0; CType 1; CSettings 0; CSettings 1]) = 2 /\
  c_closes (crun true [CType 0; CType 1; CSettings 0; CSettings 1]) = 1 /\
  c_closes (crun false [CType 0; CSettings 0; CType 1; CSettings 1]) = 1.
Proof. exact control_guard_check_then_act_refuted. Qed.
Print Assumptions C07_h3_control_check_then_act_refuted.

(* ---------- HTTP/2: an upload parked on flow control is never left sleeping on an open window ---------- *)

(* for every sequence of WINDOW_UPDATE / SETTINGS(INITIAL_WINDOW_SIZE) / other wake-ups, every initial
   window and body size: the writer sleeps only while bytes are left AND its window is used up *)
Theorem C07_h2_no_lost_wakeup : forall iws body evs,
  (0 <= body)%Z -> winv (wrun true (wstart iws body) evs).
Proof. exact no_lost_wakeup. Qed.
Print Assumptions C07_h2_no_lost_wakeup.

Theorem C07_h2_settings_open_finishes : forall iws body v evs,
  (0 <= body)%Z -> let s := wrun true (wstart iws body) evs in
  (w_left s <= w_win s + (v - w_iws s))%Z ->
  w_left (wstep true s (WSettingsIWS v)) = 0%Z.
Proof. exact settings_open_finishes. Qed.
Print Assumptions C07_h2_settings_open_finishes.

Theorem C07_h2_no_broadcast_on_settings_refuted :
  let s := wrun false (wstart 0 11) [WSettingsIWS 65535] in
  w_parked s = true /\ w_left s = 11%Z /\ w_win s = 65535%Z /\
  w_left (wrun true (wstart 0 11) [WSettingsIWS 65535]) = 0%Z.
Proof. exact no_broadcast_on_settings_refuted. Qed.
Print Assumptions C07_h2_no_broadcast_on_settings_refuted.

(* ---------- HTTP/3: one call sends its request at most twice, whatever the peer does ---------- *)

Theorem C07_h3_at_most_two_attempts : forall c reused fails fuel,
  2 <= fuel -> exists n, attempts true c fuel reused fails = Some n /\ n <= 2 /\ (reused = false -> n = 1).
Proof. exact h3_at_most_two_attempts. Qed.
Print Assumptions C07_h3_at_most_two_attempts.

Theorem C07_h3_unguarded_replay_refuted : forall fuel,
  attempts false {| r_replayable := true; r_only_cached := false |} fuel false (repeat FConnClosed fuel) = None.
Proof. exact h3_unguarded_replay_refuted. Qed.
Print Assumptions C07_h3_unguarded_replay_refuted.

(* ---------- HTTP/2: what is remembered from one GOAWAY frame to the next ---------- *)

(* every non-empty sequence of GOAWAY frames: the first non-zero error code, the first non-empty debug
   text and the latest last-stream id are what the pending requests are told *)
Theorem C07_h2_goaway_first_error_wins : forall f fs,
  exists s, H2GoAway.goaway_run None (f :: fs) = Some s /\
    H2GoAway.gs_code s = H2GoAway.first_code (f :: fs) /\
    H2GoAway.gs_debug s = H2GoAway.first_debug (f :: fs) /\
    H2GoAway.gs_last s = match rev fs with [] => H2GoAway.gf_last f | g :: _ => H2GoAway.gf_last g end.
Proof. exact H2GoAwayProofs.goaway_first_error_wins. Qed.
Print Assumptions C07_h2_goaway_first_error_wins.

(* the three remembered values are the whole carried state: nothing else of an earlier frame matters *)
Theorem C07_h2_goaway_state_is_all : forall fs1 fs2 rest,
  H2GoAway.goaway_run None fs1 = H2GoAway.goaway_run None fs2 ->
  H2GoAway.goaway_run None (fs1 ++ rest) = H2GoAway.goaway_run None (fs2 ++ rest).
Proof. exact H2GoAwayProofs.goaway_state_is_all. Qed.
Print Assumptions C07_h2_goaway_state_is_all.

(* ---------- HTTP/2: the header-list limit enforced is the one advertised, however configured ---------- *)

(* a custom SETTINGS frame naming MAX_HEADER_LIST_SIZE: on the first connection of the transport and
   on every later one the frame reader enforces exactly the value that goes out on the wire *)
Theorem C07_h2_framer_limit_is_advertised : forall t k t' lim v,
  H2HdrLimit.t_custom t <> [] -> H2HdrLimit.nth_conn true k t = (t', lim, Some v) ->
  lim = H2HdrLimit.max_header_list_size v.
Proof. exact H2HdrLimitProofs.framer_limit_is_advertised. Qed.
Print Assumptions C07_h2_framer_limit_is_advertised.

Theorem C07_h2_framer_limit_default_frame : forall t,
  H2HdrLimit.t_custom t = [] -> let '(_, lim, adv) := H2HdrLimit.new_conn true t in
  lim = H2HdrLimit.max_header_list_size (H2HdrLimit.t_mhls t) /\ (adv = None <-> lim = 0%N) /\
  (forall v, adv = Some v -> v = lim).
Proof. exact H2HdrLimitProofs.framer_limit_default_frame. Qed.
Print Assumptions C07_h2_framer_limit_default_frame.

Theorem C07_h2_framer_before_copy_refuted :
  let t := {| H2HdrLimit.t_mhls := 0%N; H2HdrLimit.t_custom := [(2, 0); (6, 4096)]%N |} in
  snd (fst (H2HdrLimit.nth_conn false 0 t)) = 10485760%N /\ snd (H2HdrLimit.nth_conn false 0 t) = Some 4096%N /\
  snd (fst (H2HdrLimit.nth_conn false 1 t)) = 4096%N /\ snd (fst (H2HdrLimit.nth_conn true 0 t)) = 4096%N.
Proof. exact H2HdrLimitProofs.framer_before_copy_refuted. Qed.
Print Assumptions C07_h2_framer_before_copy_refuted.

(* ---------- HTTP/2: pings and their acknowledgements; interim block with END_STREAM ---------- *)

(* every order of pings sent, acknowledgements (repeated, unknown payloads) and Ping calls returning:
   the read loop never closes a ping's channel twice *)
Theorem C07_h2_ping_ack_never_double_close : forall evs, H2Ping.prun true [] evs <> None.
Proof. exact H2PingProofs.ping_ack_never_double_close0. Qed.
Print Assumptions C07_h2_ping_ack_never_double_close.

Theorem C07_h2_ping_entry_kept_refuted :
  H2Ping.prun false [] [H2Ping.PSent 7; H2Ping.PAck 7; H2Ping.PAck 7; H2Ping.PReturns 7] = None /\
  H2Ping.prun false [] [H2Ping.PSent 7; H2Ping.PAck 7; H2Ping.PReturns 7; H2Ping.PAck 7] <> None /\
  H2Ping.prun true [] [H2Ping.PSent 7; H2Ping.PAck 7; H2Ping.PAck 7; H2Ping.PReturns 7] <> None.
Proof. exact H2PingProofs.ping_entry_kept_refuted. Qed.
Print Assumptions C07_h2_ping_entry_kept_refuted.

Theorem C07_h2_interim_end_stream_is_error : forall b s code,
  (100 <= code <= 199)%Z -> h2_info_step b s code true = IErrEndStream.
Proof. exact h2_interim_end_stream_is_error. Qed.
Print Assumptions C07_h2_interim_end_stream_is_error.

(* ---------- translator tie: limits and tables regenerated from the source ---------- *)

Theorem C07_consts_agree :
  N.of_nat max_1xx_responses = Gen.C07Consts.fork_max_1xx_h1 /\
  Gen.C07Consts.fork_max_1xx_h2 = Gen.C07Consts.fork_max_1xx_h1 /\
  Gen.C07Consts.fork_max_1xx_h3 = Gen.C07Consts.fork_max_1xx_h1 /\
  text_markers = Gen.C07Consts.fork_text_content_types /\
  Gen.C07Consts.fork_default_max_header_h1 = 10485760%N /\
  Gen.C07Consts.fork_default_max_header_h3 = 10485760%N /\
  Gen.C07Consts.fork_h3_settings_cap = 8192%N /\
  (Gen.C07Consts.fork_autodecode_guard_header = bs "Accept-Encoding" \/
   Gen.C07Consts.fork_autodecode_guard_header = bs "Content-Encoding").
Proof. exact c07_consts_agree. Qed.
Print Assumptions C07_consts_agree.

(* non-vacuity: a stream of two informational heads and a chunked final response, read under a
   64-byte-per-head budget, ends in that response; six informational heads meet the premise of
   the rejection theorem; a full option set builds a five-layer stack *)
Example C07_nonvacuous :
  let CRLF := [x0d; x0a] in
  let i := bs "HTTP/1.1 103 Early Hints" ++ CRLF ++ bs "Link: </a>" ++ CRLF ++ CRLF in
  let f := bs "HTTP/1.1 200 OK" ++ CRLF ++ bs "Transfer-Encoding: chunked" ++ CRLF ++ CRLF ++
           bs "3" ++ CRLF ++ bs "abc" ++ CRLF ++ bs "0" ++ CRLF ++ CRLF in
  (match run_exchange (bs "GET") 4096 64 (i ++ i ++ f) with
   | XResp 200 2 b => b_data b = bs "abc" /\ b_end b = BOk
   | _ => False
   end) /\
  info_head (bs "GET") 4096 i /\ length i <= 64 /\
  run_exchange (bs "GET") 4096 20 (i ++ f) = XErr /\
  flatten (pipeline H1 {| t_head := false; t_wire_cl := 9; t_ended := false; t_asked := true; t_auto := false |}
             {| p_callback := true; p_decode := {| d_disable := false; d_custom := None |}; p_dumpers := 1 |}
             [] (bs "GZIP") (bs "text/html") o_none)
    = ([TDump; TAutoDecode; TGzipH1; TEofSignal; TCallback], false) /\
  parse_header (bs "h2=""alt.example:443"", h3="":8443""; ma=3600; persist=1") =
    ([ {| e_proto := bs "h2"; e_host := bs "alt.example"; e_port := bs "443"; e_ma := false |};
       {| e_proto := bs "h3"; e_host := []; e_port := bs "8443"; e_ma := true |} ], PNil).
Proof. vm_compute. repeat split; try lia. eexists. split; reflexivity. Qed.
