(* Properties/C06.v - HTTP/2 connections respect everything the peer advertised.
   Only statements, `exact`, and Print Assumptions.
   Part 1: the flow-control kernel (Gen/H2Flow.v = internal/http2/flow.go translated by gosync). *)
From Coq Require Import ZArith Bool List.
From ReqV Require Import Lib.GoInt Gen.H2Flow Model.H2Flow Proofs.H2FlowProofs.
Open Scope Z_scope.

(* outflow.add returns true and stores the exact sum iff the mathematical sum fits in int32;
   otherwise false and nothing changes - for ALL pairs of int32 values *)
Theorem C06_outflow_add_spec : forall n c cn d, in32 n -> in32 d ->
  outflow_add n c cn d =
    if in32b (n + d) then (Ret true, (n + d, c, cn)) else (Ret false, (n, c, cn)).
Proof. exact outflow_add_spec. Qed.
Print Assumptions C06_outflow_add_spec.

Theorem C06_outflow_available_spec : forall n c cn,
  outflow_available n c cn = (Ret (if c then Z.min n cn else n), (n, c, cn)).
Proof. exact outflow_available_spec. Qed.
Print Assumptions C06_outflow_available_spec.

Theorem C06_outflow_take_spec : forall n cn t, in32 n -> in32 cn -> 0 <= t <= 2147483647 ->
  outflow_take n true cn t =
    if t >? Z.min n cn then (Panic, (n, true, cn)) else (Ret tt, (n - t, true, cn - t)).
Proof. exact outflow_take_spec. Qed.
Print Assumptions C06_outflow_take_spec.

Theorem C06_inflow_add_spec : forall a u n, 0 <= a <= 2147483647 -> 0 <= u <= 2147483647 ->
  n <= 4611686018427387904 ->
  inflow_add a u n =
    if n <? 0 then (Panic, (a, u))
    else if a + u + n >? 2147483647 then (Panic, (a, u))
    else if (u + n <? inflowMinRefresh) && (u + n <? a) then (Ret 0, (a, u + n))
    else (Ret (u + n), (a + u + n, 0)).
Proof. exact inflow_add_spec. Qed.
Print Assumptions C06_inflow_add_spec.

Theorem C06_inflow_take_spec : forall a u n, 0 <= a <= 2147483647 -> 0 <= n <= 4294967295 ->
  inflow_take a u n = if n <=? a then (Ret true, (a - n, u)) else (Ret false, (a, u)).
Proof. exact inflow_take_spec. Qed.
Print Assumptions C06_inflow_take_spec.

Theorem C06_take_inflows_spec : forall a1 u1 a2 u2 n,
  0 <= a1 <= 2147483647 -> 0 <= a2 <= 2147483647 -> 0 <= n <= 4294967295 ->
  takeInflows a1 u1 a2 u2 n =
    if (n <=? a1) && (n <=? a2) then (Ret true, (a1 - n, u1, a2 - n, u2))
    else (Ret false, (a1, u1, a2, u2)).
Proof. exact take_inflows_spec. Qed.
Print Assumptions C06_take_inflows_spec.

(* credit bookkeeping: avail + unsent grows by exactly n, the returned amount is exactly the
   growth of the advertised window, and what stays unsent is small *)
Theorem C06_inflow_add_conservation : forall a u n r a' u',
  0 <= a <= 2147483647 -> 0 <= u <= 2147483647 -> 0 <= n <= 4611686018427387904 ->
  inflow_add a u n = (Ret r, (a', u')) ->
  a' + u' = a + u + n /\ a' = a + r /\ 0 <= r /\
  0 <= u' /\ (u' = 0 \/ (u' < inflowMinRefresh /\ u' < a')) /\ a' <= 2147483647.
Proof. exact inflow_add_conservation. Qed.
Print Assumptions C06_inflow_add_conservation.

Example C06_flow_nonvacuous :
  outflow_add 2147483647 false 0 1 = (Ret false, (2147483647, false, 0)) /\
  outflow_add (-5) true 9 2147483647 = (Ret true, (2147483642, true, 9)) /\
  inflow_add 1000 0 1000 = (Ret 1000, (2000, 0)) /\
  inflow_add 4194304 0 1000 = (Ret 0, (4194304, 1000)) /\
  inflow_take 5 0 6 = (Ret false, (5, 0)).
Proof. vm_compute. repeat split. Qed.
