(* Properties/C06.v - HTTP/2 connections respect everything the peer advertised.
   Only statements, `exact`, and Print Assumptions.
   Part 1: the flow-control kernel (Gen/H2Flow.v = internal/http2/flow.go translated by gosync).
   Part 2: the client connection machine (Model/H2Conn.v, windows computed by the generated
   kernel) against the strict peer-side monitor (Model/H2Monitor.v) and the stand-alone trace
   predicates (Model/H2TraceSpec.v), for ARBITRARY event lists = all interleavings of client
   actions and peer frames. *)
From Coq Require Import ZArith Bool Lia List.
From ReqV Require Import Lib.GoInt Gen.H2Flow Model.H2Flow Model.H2Monitor Model.H2Conn Model.H2TraceSpec
                         Proofs.H2FlowProofs Proofs.H2ConnProofs Proofs.H2CreditProofs Proofs.H2WireOrder Proofs.H2ConnTheorems.
Import ListNotations.
Open Scope Z_scope.

(* outflow.add returns true and stores the exact sum iff the mathematical sum fits in int32;
   otherwise false and nothing changes - for ALL pairs of int32 values *)
Theorem C06_outflow_add_spec : forall n c cn d, in32 n -> in32 d ->
  outflow_add n c cn d =
    if in32b (n + d) then (Ret true, (n + d, c, cn)) else (Ret false, (n, c, cn)).
Proof. exact outflow_add_spec. Qed.
Print Assumptions C06_outflow_add_spec.

Theorem C06_outflow_available_spec : forall n c cn,
  outflow_available n c cn = (Ret (if c then Z.min n cn else n), (n, c, cn)).
Proof. exact outflow_available_spec. Qed.
Print Assumptions C06_outflow_available_spec.

Theorem C06_outflow_take_spec : forall n cn t, in32 n -> in32 cn -> 0 <= t <= 2147483647 ->
  outflow_take n true cn t =
    if t >? Z.min n cn then (Panic, (n, true, cn)) else (Ret tt, (n - t, true, cn - t)).
Proof. exact outflow_take_spec. Qed.
Print Assumptions C06_outflow_take_spec.

Theorem C06_inflow_add_spec : forall a u n, 0 <= a <= 2147483647 -> 0 <= u <= 2147483647 ->
  n <= 4611686018427387904 ->
  inflow_add a u n =
    if n <? 0 then (Panic, (a, u))
    else if a + u + n >? 2147483647 then (Panic, (a, u))
    else if (u + n <? inflowMinRefresh) && (u + n <? a) then (Ret 0, (a, u + n))
    else (Ret (u + n), (a + u + n, 0)).
Proof. exact inflow_add_spec. Qed.
Print Assumptions C06_inflow_add_spec.

Theorem C06_inflow_take_spec : forall a u n, 0 <= a <= 2147483647 -> 0 <= n <= 4294967295 ->
  inflow_take a u n = if n <=? a then (Ret true, (a - n, u)) else (Ret false, (a, u)).
Proof. exact inflow_take_spec. Qed.
Print Assumptions C06_inflow_take_spec.

Theorem C06_take_inflows_spec : forall a1 u1 a2 u2 n,
  0 <= a1 <= 2147483647 -> 0 <= a2 <= 2147483647 -> 0 <= n <= 4294967295 ->
  takeInflows a1 u1 a2 u2 n =
    if (n <=? a1) && (n <=? a2) then (Ret true, (a1 - n, u1, a2 - n, u2))
    else (Ret false, (a1, u1, a2, u2)).
Proof. exact take_inflows_spec. Qed.
Print Assumptions C06_take_inflows_spec.

(* credit bookkeeping: avail + unsent grows by exactly n, the returned amount is exactly the
   growth of the advertised window, and what stays unsent is small *)
Theorem C06_inflow_add_conservation : forall a u n r a' u',
  0 <= a <= 2147483647 -> 0 <= u <= 2147483647 -> 0 <= n <= 4611686018427387904 ->
  inflow_add a u n = (Ret r, (a', u')) ->
  a' + u' = a + u + n /\ a' = a + r /\ 0 <= r /\
  0 <= u' /\ (u' = 0 \/ (u' < inflowMinRefresh /\ u' < a')) /\ a' <= 2147483647.
Proof. exact inflow_add_conservation. Qed.
Print Assumptions C06_inflow_add_conservation.

Example C06_flow_nonvacuous :
  outflow_add 2147483647 false 0 1 = (Ret false, (2147483647, false, 0)) /\
  outflow_add (-5) true 9 2147483647 = (Ret true, (2147483642, true, 9)) /\
  inflow_add 1000 0 1000 = (Ret 1000, (2000, 0)) /\
  inflow_add 4194304 0 1000 = (Ret 0, (4194304, 1000)) /\
  inflow_take 5 0 6 = (Ret false, (5, 0)).
Proof. vm_compute. repeat split. Qed.


(* ================= Part 2: the connection ================= *)
(* cfg_ok: the caller's fingerprint is a legal one - HeaderPriority adds 0 or 5 bytes, PRIORITY
   frames name odd stream ids, the advertised stream window and 65535 + the connection
   WINDOW_UPDATE fit in 31 bits.  trace_of ... evs = every frame read or written by the machine,
   in the order in which the client processes/writes them, for the event list evs. *)

(* the strict peer, started from its protocol defaults, accepts the preface and every later
   frame: no violation class (windows, frame size, stream limit, ids, header blocks, closed
   streams, spurious or missing acks) is ever reported *)
Theorem C06_admissible_from_preface : forall prio_len prio_last kvs conn_flow prios evs,
  cfg_ok prio_len prio_last (last_setting S_INITIAL_WINDOW_SIZE kvs 65535) conn_flow ->
  accepts mon0 (preface kvs conn_flow prios ++
                trace_of prio_len prio_last (last_setting S_INITIAL_WINDOW_SIZE kvs 65535) conn_flow evs) = true.
Proof. exact admissible_from_preface. Qed.
Print Assumptions C06_admissible_from_preface.

(* every DATA frame fits into the connection window and (unless the peer already closed the
   stream) the stream window the peer has on its books at that moment - including windows
   that a lowered INITIAL_WINDOW_SIZE made zero or negative *)
Theorem C06_data_within_windows : forall prio_len prio_last stream_in conn_flow,
  cfg_ok prio_len prio_last stream_in conn_flow ->
  forall evs pre sid len es post,
  trace_of prio_len prio_last stream_in conn_flow evs = pre ++ C (FData sid len es) :: post ->
  exists m s, mon_steps (mon_init stream_in conn_flow) pre = Some m /\
    find_ms sid (m_streams m) = Some s /\ ms_cli_closed s = false /\
    (0 < len -> len <= m_conn_win m /\ (ms_closed s = false -> len <= ms_win s)).
Proof. exact data_within_windows. Qed.
Print Assumptions C06_data_within_windows.

(* no HEADERS/CONTINUATION/DATA payload exceeds the MAX_FRAME_SIZE last acknowledged (and no
   SETTINGS frame of the peer is in flight at that point) *)
Theorem C06_data_within_max_frame : forall prio_len prio_last stream_in conn_flow,
  cfg_ok prio_len prio_last stream_in conn_flow ->
  forall evs pre f l post,
  trace_of prio_len prio_last stream_in conn_flow evs = pre ++ C f :: post -> frame_len f = Some l ->
  exists m, mon_steps (mon_init stream_in conn_flow) pre = Some m /\ m_pending m = [] /\ l <= m_max_frame m.
Proof. exact data_within_max_frame. Qed.
Print Assumptions C06_data_within_max_frame.

(* a HEADERS frame opens a new stream only while fewer streams than MAX_CONCURRENT_STREAMS are open *)
Theorem C06_streams_within_limit : forall prio_len prio_last stream_in conn_flow,
  cfg_ok prio_len prio_last stream_in conn_flow ->
  forall evs pre sid l eh es post,
  trace_of prio_len prio_last stream_in conn_flow evs = pre ++ C (FHeaders sid l eh es) :: post ->
  exists m, mon_steps (mon_init stream_in conn_flow) pre = Some m /\ m_pending m = [] /\
    (find_ms sid (m_streams m) = None ->
       forall v, m_max_streams m = Some v -> open_count (m_streams m) < v).
Proof. exact streams_within_limit. Qed.
Print Assumptions C06_streams_within_limit.

(* a new stream's id is odd and larger than the id of every stream opened before *)
Theorem C06_stream_ids_odd_increasing : forall prio_len prio_last stream_in conn_flow,
  cfg_ok prio_len prio_last stream_in conn_flow ->
  forall evs pre sid l eh es post,
  trace_of prio_len prio_last stream_in conn_flow evs = pre ++ C (FHeaders sid l eh es) :: post ->
  exists m, mon_steps (mon_init stream_in conn_flow) pre = Some m /\
    (find_ms sid (m_streams m) = None ->
       Z.odd sid = true /\ Forall (fun s => ms_id s < sid) (m_streams m)).
Proof. exact stream_ids_odd_increasing. Qed.
Print Assumptions C06_stream_ids_odd_increasing.

(* header blocks are contiguous and complete *)
Theorem C06_header_block_contiguous : forall prio_len prio_last stream_in conn_flow,
  cfg_ok prio_len prio_last stream_in conn_flow ->
  forall evs, hb_run 0 (trace_of prio_len prio_last stream_in conn_flow evs) = Some 0.
Proof. exact header_block_contiguous. Qed.
Print Assumptions C06_header_block_contiguous.

(* after END_STREAM / RST_STREAM nothing but RST_STREAM, WINDOW_UPDATE (and PRIORITY) on that stream *)
Theorem C06_closed_stream_silence : forall prio_len prio_last stream_in conn_flow,
  cfg_ok prio_len prio_last stream_in conn_flow ->
  forall evs, css_ok [] (trace_of prio_len prio_last stream_in conn_flow evs) = true.
Proof. exact closed_stream_silence. Qed.
Print Assumptions C06_closed_stream_silence.

(* every SETTINGS frame is acknowledged at once, nothing else is acknowledged, none is left *)
Theorem C06_every_settings_acked : forall prio_len prio_last stream_in conn_flow,
  cfg_ok prio_len prio_last stream_in conn_flow ->
  forall evs,
  sa_ok (trace_of prio_len prio_last stream_in conn_flow evs) = true /\
  exists m', mon_steps (mon_init stream_in conn_flow) (trace_of prio_len prio_last stream_in conn_flow evs) = Some m' /\
             m_pending m' = [].
Proof. exact every_settings_acked. Qed.
Print Assumptions C06_every_settings_acked.

(* credit conservation, connection and every stream the peer may still send on: window the peer
   has + credit not yet sent + bytes still buffered = what was advertised; the peer's books
   equal the client's; unsent credit is 0 or below both 4096 and the window *)
Theorem C06_credit_conservation : forall prio_len prio_last stream_in conn_flow,
  cfg_ok prio_len prio_last stream_in conn_flow ->
  forall evs, exists m',
  mon_steps (mon_init stream_in conn_flow) (trace_of prio_len prio_last stream_in conn_flow evs) = Some m' /\
  let c := fst (conn_run (conn0 prio_len prio_last stream_in conn_flow) evs) in
  in_avail (cc_in c) + in_unsent (cc_in c) + total_buffered (cc_streams c) = 65535 + conn_flow /\
  m_c_conn_win m' = in_avail (cc_in c) /\ 0 <= in_unsent (cc_in c) /\ unsent_ok (cc_in c) /\
  forall sid s, find_cs sid (cc_streams c) = Some s -> open_rx s = true ->
    exists ms, find_ms sid (m_streams m') = Some ms /\ ms_recv ms = in_avail (cs_in s) /\
      in_avail (cs_in s) + in_unsent (cs_in s) + cs_buf s = stream_in /\
      0 <= in_unsent (cs_in s) /\ 0 <= cs_buf s /\ unsent_ok (cs_in s).
Proof. exact credit_conservation. Qed.
Print Assumptions C06_credit_conservation.

(* no permanent stall: when the application has consumed or discarded everything buffered, the
   peer's connection window (resp. the window of a stream it may still send on) is positive,
   within 4095 bytes of - and more than half of - what was advertised *)
Theorem C06_no_permanent_stall : forall prio_len prio_last stream_in conn_flow,
  cfg_ok prio_len prio_last stream_in conn_flow ->
  forall evs, exists m',
  mon_steps (mon_init stream_in conn_flow) (trace_of prio_len prio_last stream_in conn_flow evs) = Some m' /\
  let c := fst (conn_run (conn0 prio_len prio_last stream_in conn_flow) evs) in
  (total_buffered (cc_streams c) = 0 ->
     65535 + conn_flow - 4095 <= m_c_conn_win m' /\ 65535 + conn_flow <= 2 * m_c_conn_win m' /\ 0 < m_c_conn_win m') /\
  forall sid s, find_cs sid (cc_streams c) = Some s -> open_rx s = true -> cs_buf s = 0 ->
    exists ms, find_ms sid (m_streams m') = Some ms /\
      stream_in - 4095 <= ms_recv ms /\ stream_in <= 2 * ms_recv ms /\ (0 < stream_in -> 0 < ms_recv ms).
Proof. exact no_permanent_stall. Qed.
Print Assumptions C06_no_permanent_stall.

(* The statements above speak about the order in which the CLIENT processes and writes.  The peer
   logs the same frames in another interleaving: a frame it sent before it received some client
   frame stands EARLIER relative to that client frame (`earlier`: repeated exchange of adjacent
   C f; P g into P g; C f, where g carries a non-negative increment and does not refer to a
   stream that f opens).  The strict monitor accepts all of those, with the same final books up
   to the send windows of closed streams. *)
Theorem C06_wire_order_monitor : forall m0 t t', earlier m0 t t' -> Forall cev_ok t ->
  forall mf, mon_steps m0 t = Some mf -> exists mf', mon_steps m0 t' = Some mf' /\ meq mf mf'.
Proof. exact wire_order_accepted. Qed.
Print Assumptions C06_wire_order_monitor.

Theorem C06_wire_order_admissible : forall prio_len prio_last stream_in conn_flow,
  cfg_ok prio_len prio_last stream_in conn_flow ->
  forall evs t', earlier (mon_init stream_in conn_flow) (trace_of prio_len prio_last stream_in conn_flow evs) t' ->
  accepts (mon_init stream_in conn_flow) t' = true.
Proof. exact wire_order_admissible. Qed.
Print Assumptions C06_wire_order_admissible.

(* non-vacuity of `earlier`: the peer's WINDOW_UPDATE was on the wire before the client's first
   DATA frame arrived, and its SETTINGS frame before the HEADERS frame arrived *)
Example C06_wire_order_nonvacuous :
  earlier (mon_init 1000 1000)
    [C (FHeaders 1 10 true false); P (FSettings [(4, 100)]); C FSettingsAck; C (FData 1 100 false);
     P (FWindowUpdate 1 50); C (FData 1 50 false)]
    [P (FSettings [(4, 100)]); C (FHeaders 1 10 true false); C FSettingsAck; P (FWindowUpdate 1 50);
     C (FData 1 100 false); C (FData 1 50 false)].
Proof.
  eapply (earlier_swap _ [C (FHeaders 1 10 true false); P (FSettings [(4, 100)]); C FSettingsAck]
                       (FData 1 100 false) (FWindowUpdate 1 50) [C (FData 1 50 false)]);
    [vm_compute; reflexivity|cbn; lia|exact I|].
  eapply (earlier_swap _ [] (FHeaders 1 10 true false) (FSettings [(4, 100)])
                       [C FSettingsAck; P (FWindowUpdate 1 50); C (FData 1 100 false); C (FData 1 50 false)]);
    [vm_compute; reflexivity|exact I|cbn; intros _; lia|].
  apply earlier_refl.
Qed.

(* settings persist until changed: a SETTINGS frame that does not mention a limit leaves what
   the client holds for it alone (MAX_CONCURRENT_STREAMS: after the first frame; the first frame
   without it replaces the transport's own cap of 100 by 1000) *)
Theorem C06_limits_persist : forall c kvs,
  let c' := fst (conn_step c (ESettings kvs)) in
  (has_setting S_MAX_FRAME_SIZE kvs = false -> cc_max_frame c' = cc_max_frame c) /\
  (has_setting S_INITIAL_WINDOW_SIZE kvs = false -> cc_init_win c' = cc_init_win c) /\
  (has_setting S_MAX_CONCURRENT_STREAMS kvs = false -> cc_seen_settings c = true -> cc_max_streams c' = cc_max_streams c) /\
  (has_setting S_MAX_CONCURRENT_STREAMS kvs = false -> cc_seen_settings c = false -> settings_valid kvs = true ->
     cc_max_streams c' = c_defaultMaxConcurrentStreams).
Proof. exact limits_persist. Qed.
Print Assumptions C06_limits_persist.

(* the two behaviours a client must NOT show are rejected by the monitor: (a) a second stream
   after a later SETTINGS frame that does not repeat MAX_CONCURRENT_STREAMS = 1; (b) a DATA
   frame cut by the MAX_FRAME_SIZE in force when the upload began (65536) after a lower one
   (16384) was acknowledged - while the machine, fed the same events, waits resp. cuts at 16384 *)
Example C06_forbidden_traces_rejected :
  accepts (mon_init 1000 1000)
    [P (FSettings [(3, 1)]); C FSettingsAck; C (FHeaders 1 10 true false);
     P (FSettings [(4, 30000)]); C FSettingsAck; C (FHeaders 3 10 true true)] = false /\
  accepts (mon_init 1000 1000)
    [P (FSettings [(4, 1000000); (5, 65536)]); C FSettingsAck; C (FHeaders 1 10 true false);
     C (FData 1 65535 false); P (FWindowUpdate 0 1000000);
     P (FSettings [(5, 16384)]); C FSettingsAck; C (FData 1 65536 false)] = false /\
  trace_of 0 0 1000 1000
    [ESettings [(3, 1)]; EOpen 10 false; ESettings [(4, 30000)]; EOpen 10 true;
     ESettings [(4, 1000000); (5, 65536)]; EWindowUpdate 0 1000000; ESendData 1 65536 false;
     ESettings [(5, 16384)]; ESendData 1 65536 false] =
    [P (FSettings [(3, 1)]); C FSettingsAck; C (FHeaders 1 10 true false);
     P (FSettings [(4, 30000)]); C FSettingsAck;
     P (FSettings [(4, 1000000); (5, 65536)]); C FSettingsAck; P (FWindowUpdate 0 1000000);
     C (FData 1 65536 false); P (FSettings [(5, 16384)]); C FSettingsAck; C (FData 1 16384 false)].
Proof. vm_compute. repeat split. Qed.

(* a slot the client has freed is free on the peer's books too: every forgotten stream is closed
   there, and the peer never counts more open streams than the client holds *)
Theorem C06_peer_open_le_client_active : forall prio_len prio_last stream_in conn_flow,
  cfg_ok prio_len prio_last stream_in conn_flow ->
  forall evs, exists m',
  mon_steps (mon_init stream_in conn_flow) (trace_of prio_len prio_last stream_in conn_flow evs) = Some m' /\
  let c := fst (conn_run (conn0 prio_len prio_last stream_in conn_flow) evs) in
  open_count (m_streams m') <= active_count (cc_streams c) /\
  (forall sid s, find_cs sid (cc_streams c) = Some s -> cs_forgotten s = true ->
     exists ms, find_ms sid (m_streams m') = Some ms /\ ms_closed ms = true).
Proof. exact peer_open_le_client_active. Qed.
Print Assumptions C06_peer_open_le_client_active.

(* a final response in the middle of an upload (END_STREAM on the response HEADERS), limit 1: the
   machine can neither forget the stream nor open the next one before it has closed its own half
   (here RST_STREAM); the trace without that RST_STREAM is rejected by the monitor *)
Example C06_early_final_response :
  trace_of 0 0 1000 1000
    [ESettings [(3,1)]; EOpen 10 false; ESendData 1 500 false; EPeerHeaders 1 true; EForget 1; EOpen 10 true;
     EReset 1; EOpen 10 true] =
    [P (FSettings [(3, 1)]); C FSettingsAck; C (FHeaders 1 10 true false); C (FData 1 500 false);
     P (FHeaders 1 0 true true); C (FRst 1); C (FHeaders 3 10 true true)] /\
  accepts (mon_init 1000 1000)
    [P (FSettings [(3, 1)]); C FSettingsAck; C (FHeaders 1 10 true false); C (FData 1 500 false);
     P (FHeaders 1 0 true true); C (FHeaders 3 10 true true)] = false.
Proof. vm_compute. split; reflexivity. Qed.

(* DATA frames that carry nothing but padding (pad = len) are debited and refunded in full: two
   4096-byte padding-only frames on a stream with an 8192-byte window leave both windows where they
   were, with the WINDOW_UPDATEs on the wire; and after MAX_CONCURRENT_STREAMS is lowered to the
   number of open streams the next EOpen waits *)
Example C06_padding_only_and_lowered_limit :
  let r := conn_run (conn0 0 0 8192 1000)
    [ESettings [(3,2)]; EOpen 10 true; EPeerHeaders 1 false; EPeerData 1 4096 4096 false;
     EPeerData 1 4096 4096 false; ESettings [(3,1)]; EOpen 10 true] in
  snd r = [P (FSettings [(3, 2)]); C FSettingsAck; C (FHeaders 1 10 true true); P (FHeaders 1 0 true false);
           P (FData 1 4096 false); C (FWindowUpdate 0 4096); C (FWindowUpdate 1 4096);
           P (FData 1 4096 false); C (FWindowUpdate 0 4096); C (FWindowUpdate 1 4096);
           P (FSettings [(3, 1)]); C FSettingsAck] /\
  cc_in (fst r) = mkIn 66535 0 /\
  map (fun s => (cs_in s, cs_buf s)) (cc_streams (fst r)) = [(mkIn 8192 0, 0)].
Proof. vm_compute. repeat split. Qed.

(* a stream starts with the window in force when it is OPENED (however long the request queued for
   a slot and whatever SETTINGS frames were applied meanwhile) *)
Theorem C06_new_stream_window_current : forall c hlen es c' out,
  0 <= cc_init_win c <= 2147483647 ->
  conn_step c (EOpen hlen es) = (c', out) -> out <> [] ->
  exists s, cc_streams c' = s :: cc_streams c /\ cs_id s = cc_next_id c /\ cs_flow s = cc_init_win c /\
            cs_in s = mkIn (cc_stream_in c) 0.
Proof. exact new_stream_window_current. Qed.
Print Assumptions C06_new_stream_window_current.

(* frame-sequence invariant: in every reachable state, whatever event is handled next - also one
   that answers a peer frame arriving at any moment - the frames written in that critical
   section leave no header block open; pieces with that property compose to a contiguous trace *)
Theorem C06_step_blocks_whole : forall prio_len prio_last stream_in conn_flow,
  cfg_ok prio_len prio_last stream_in conn_flow ->
  forall evs e,
  hb_run 0 (snd (conn_step (fst (conn_run (conn0 prio_len prio_last stream_in conn_flow) evs)) e)) = Some 0.
Proof. exact reachable_step_blocks_whole. Qed.
Print Assumptions C06_step_blocks_whole.

Theorem C06_blocks_compose : forall a b, hb_run 0 a = Some 0 -> hb_run 0 (a ++ b) = hb_run 0 b.
Proof. exact hb_run_app. Qed.
Print Assumptions C06_blocks_compose.

(* a PING ACK between HEADERS and CONTINUATION is not a contiguous trace, and the monitor rejects it *)
Example C06_ping_ack_inside_block_rejected :
  hb_run 0 [C (FHeaders 1 16384 false true); C (FPing true); C (FContinuation 1 100 true)] = None /\
  accepts (mon_init 1000 1000)
    [C (FHeaders 1 16384 false true); P (FPing false); C (FPing true); C (FContinuation 1 100 true)] = false.
Proof. vm_compute. split; reflexivity. Qed.

(* stream id allocation: the id counter never moves backwards, whatever event is handled and over
   any event list - an id taken by a request that never reached the wire (EOpenRefused: header
   block refused locally / cancelled before the write) is burned, not handed out again.  With
   C06_stream_ids_odd_increasing (which quantifies over event lists containing EOpenRefused) the
   ids on the wire stay odd and strictly increasing. *)
Theorem C06_next_id_never_rewinds : forall c e, cc_next_id c <= cc_next_id (fst (conn_step c e)).
Proof. exact next_id_never_rewinds. Qed.
Print Assumptions C06_next_id_never_rewinds.

Theorem C06_next_id_run_monotone : forall evs c, cc_next_id c <= cc_next_id (fst (conn_run c evs)).
Proof. exact next_id_run_monotone. Qed.
Print Assumptions C06_next_id_run_monotone.

Example C06_refused_ids_burned :
  trace_of 0 0 1000 1000 [EOpen 10 true; EOpenRefused; EOpen 10 true; EOpenRefused; EOpenRefused; EOpen 12 true] =
    [C (FHeaders 1 10 true true); C (FHeaders 5 10 true true); C (FHeaders 11 12 true true)] /\
  accepts (mon_init 1000 1000)
    [C (FHeaders 1 10 true true); C (FHeaders 5 10 true true); C (FHeaders 5 10 true true)] = false.
Proof. vm_compute. split; reflexivity. Qed.

(* a new stream uses the settings held at the OPEN step (not those held when the request was queued
   for a slot): its header block is exactly hdr_frames cut by the MAX_FRAME_SIZE held then, every
   frame of it fits that limit, its send window is the INITIAL_WINDOW_SIZE held then *)
Theorem C06_new_stream_uses_current_settings : forall c hlen es c' out,
  0 <= cc_init_win c <= 2147483647 -> 0 <= cc_prio_len c ->
  conn_step c (EOpen hlen es) = (c', out) -> out <> [] ->
  out = cl (hdr_frames (cc_next_id c) hlen (cc_max_frame c) (cc_prio_len c) es) /\
  Forall (fun f => match frame_len f with Some l => l <= cc_max_frame c | None => True end)
         (hdr_frames (cc_next_id c) hlen (cc_max_frame c) (cc_prio_len c) es) /\
  exists s, cc_streams c' = s :: cc_streams c /\ cs_id s = cc_next_id c /\ cs_flow s = cc_init_win c.
Proof. exact new_stream_uses_current_settings. Qed.
Print Assumptions C06_new_stream_uses_current_settings.

(* queued under limit 1 while MAX_FRAME_SIZE goes 65536 -> 16384: the 40000-byte block written once
   the slot is free is cut at 16384; the single 40000-byte HEADERS frame is rejected *)
Example C06_queued_request_uses_lowered_frame_size :
  trace_of 0 0 1000 1000
    [ESettings [(3,1);(5,65536)]; EOpen 10 true; EOpen 40000 true; ESettings [(5,16384)]; EOpen 40000 true;
     EPeerHeaders 1 true; EForget 1; EOpen 40000 true] =
    [P (FSettings [(3, 1); (5, 65536)]); C FSettingsAck; C (FHeaders 1 10 true true);
     P (FSettings [(5, 16384)]); C FSettingsAck; P (FHeaders 1 0 true true);
     C (FHeaders 3 16384 false true); C (FContinuation 3 16384 false); C (FContinuation 3 7232 true)] /\
  accepts (mon_init 1000 1000)
    [P (FSettings [(3, 1); (5, 65536)]); C FSettingsAck; C (FHeaders 1 10 true true);
     P (FSettings [(5, 16384)]); C FSettingsAck; P (FHeaders 1 0 true true);
     C (FHeaders 3 40000 true true)] = false.
Proof. vm_compute. split; reflexivity. Qed.

(* non-vacuity: a legal configuration (priority fields on HEADERS, Firefox-like PRIORITY frames up
   to stream 13, stream window 1000) and an interleaving with a 40000-byte header block, the
   peer lowering MAX_CONCURRENT_STREAMS to 1 and INITIAL_WINDOW_SIZE to 100 and then 0 (window
   -100), a 150-byte WINDOW_UPDATE, padded response DATA, reads, close and a late DATA frame *)
Example C06_conn_nonvacuous :
  cfg_ok 5 13 1000 1000 /\
  trace_of 5 13 1000 1000
    [EOpen 40000 false; ESettings [(3,1);(4,100);(5,16384)]; EOpen 10 true; ESendData 15 300 false; ESettings [(4,0)];
     ESendData 15 300 false; EWindowUpdate 15 150; ESendData 15 300 true; ESendData 15 300 true;
     EPeerData 15 600 100 false; EAppRead 15 500 false; EPeerData 15 400 0 true; EAppClose 15; ESendEnd 15 0;
     EForget 15; EOpen 10 true; EPeerData 15 10 0 false] =
    [C (FHeaders 15 16384 false false); C (FContinuation 15 16384 false); C (FContinuation 15 7237 true);
     P (FSettings [(3, 1); (4, 100); (5, 16384)]); C FSettingsAck; C (FData 15 100 false);
     P (FSettings [(4, 0)]); C FSettingsAck; P (FWindowUpdate 15 150); C (FData 15 50 false);
     P (FData 15 600 false); C (FWindowUpdate 15 600); P (FData 15 400 true); C (FData 15 0 true);
     C (FHeaders 17 15 true true); P (FData 15 10 false)].
Proof. split; [unfold cfg_ok; repeat split; try lia; right; split; [lia|reflexivity]|vm_compute; reflexivity]. Qed.
