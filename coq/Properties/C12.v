(* Properties/C12.v - Protocol selection and TLS configuration are honoured uniformly (PARTIAL: the
   selection / configuration plumbing is proved; certificate verification and the QUIC handshake are
   crypto/tls / quic-go and are exercised by the harness, represented in the model by [verify_ok],
   [clientcert_ok], [negotiate]).
   Only statements, `exact`, and Print Assumptions.  Model: Model/Proto.v (its [run]/[do_req]/[tls_view] are
   the functions Model/C12Run.v evaluates against the real client). *)
From Coq Require Import List Bool NArith.
From ReqV Require Import Lib.Bytes Gen.ProtoTables Model.Proto Proofs.ProtoProofs.
Import ListNotations.

(* A forced version is used or the request fails - in EVERY client state (whatever the connection caches and
   the Alt-Svc bookkeeping hold), against every server.  The only other outcome the code has - an https
   request written in clear - needs a plain DialTLSContext, which no reachable client has any more (C12_https_never_in_clear). *)
Theorem C12_forced_version_or_fail : forall e c v,
  version_of (c_force c) = Some v ->
  match outcome_of (do_req e c) with
  | Use v' => v' = v
  | Cleartext => c_plain_dialtls c = true /\ e_https e = true
  | Fail _ => True
  end.
Proof. exact forced_version_or_fail. Qed.
Print Assumptions C12_forced_version_or_fail.

(* Without forcing, in every state reachable from req.C() by any sequence of operations (setters, clones,
   requests, background Alt-Svc events ...), an https request is served by a version the server offers:
   HTTP/2 only if the TLS listener offers h2, HTTP/3 only if a QUIC listener answers. *)
Theorem C12_unforced_https_negotiated : forall e c,
  reachable e c -> c_force c = FNone -> e_https e = true ->
  match outcome_of (do_req e c) with
  | Use V1 => True
  | Use V2 => mem_bytes alpn_h2 (s_alpn (e_srv e)) = true
  | Use V3 => s_h3 (e_srv e) = true
  | Cleartext => c_plain_dialtls c = true
  | Fail _ => True
  end.
Proof. exact unforced_https_negotiated. Qed.
Print Assumptions C12_unforced_https_negotiated.

(* Plain http: HTTP/1.1 - or HTTP/2 exactly through the h2c route (HTTP/2 forced, AllowHTTP set, origin
   speaks h2c); never HTTP/3, never anything else. *)
Theorem C12_plain_http_is_h1 : forall e c,
  reachable e c -> e_https e = false ->
  match outcome_of (do_req e c) with
  | Use V1 => True
  | Use V2 => c_force c = FH2 /\ c_allow_http c = true /\ s_h2c (e_srv e) = true
  | Use V3 => False
  | Cleartext => False
  | Fail _ => True
  end.
Proof. exact plain_http_is_h1. Qed.
Print Assumptions C12_plain_http_is_h1.

(* Every stack (HTTP/1 addTLS, HTTP/2 newTLSConfig, HTTP/3 dial) builds its tls.Config with exactly the
   client's roots, server name (defaulting to the URL host), client certificates and skip-verify flag. *)
Theorem C12_tls_uniform : forall s only_h1 host o,
  sec (tls_view s only_h1 host o) =
  match o with
  | Some c => (t_roots c, (if nilb (t_sname c) then host else t_sname c), t_certs c, t_skip c)
  | None => ([], host, [], false)
  end.
Proof. exact tls_view_explicit. Qed.
Print Assumptions C12_tls_uniform.

(* ... before and after mutation through either setter, after first use, for the original and for clones:
   after ANY operation sequence every stack's view equals the settings the setters accumulated (requests,
   Clone, CloseIdleConnections, background events never alter or lose them). *)
Theorem C12_tls_uniform_run : forall e ops c s only_h1,
  sec (tls_view s only_h1 (e_host e) (c_tls (snd (run e c ops)))) =
  sec (effective (e_host e) (settings ops (c_tls c))).
Proof. exact tls_uniform_run. Qed.
Print Assumptions C12_tls_uniform_run.

(* The settings govern every handshake of every request, on all three stacks: each ClientHello carries the
   client's server name; a request that handshakes and succeeds implies the origin is acceptable under the
   client's current settings (so an unacceptable certificate is rejected whatever the version), and a
   certificate failure implies it is not (an acceptable one is never refused).  [user_tls c = None]: the caller
   has not replaced the library's TLS by his own through SetDialTLS / SetTLSHandshake (next theorem). *)
Theorem C12_settings_govern_every_handshake : forall e c,
  route e c = None -> user_tls c = None ->
  let '(o, ds, _) := do_req e c in
  Forall (fun d => d_sni d = t_sname (effective (e_host e) (c_tls c))) ds /\
  (ds <> [] -> (forall v, o = Use v -> acceptable e c = true) /\ (o = Fail ECert -> acceptable e c = false)).
Proof. exact (fun e c => do_req_sound_client altsvc_only_unforced e c). Qed.
Print Assumptions C12_settings_govern_every_handshake.

(* SetDialTLS / SetTLSHandshake (documented as valid for HTTP/1 and HTTP/2 only): every TCP handshake is then
   governed - in the same sense - by the configuration the caller's function uses, every QUIC handshake still by
   the client's settings; in EVERY client state. *)
Theorem C12_user_tls_governs_tcp_only : forall e c t,
  route e c = None -> user_tls c = Some t ->
  let '(o, ds, _) := do_req e c in
  Forall (fun d =>
    let g := if stack_quic (d_stack d) then effective (e_host e) (c_tls c) else default_sname (e_host e) t in
    d_sni d = t_sname g /\
    (forall v, o = Use v -> acceptable_under g e = true) /\
    (o = Fail ECert -> acceptable_under g e = false)) ds.
Proof. exact user_tls_governs_tcp_only. Qed.
Print Assumptions C12_user_tls_governs_tcp_only.

(* Forcing after first use: whatever the client did before - requests on any version, cached connections,
   learned Alt-Svc entries, clones - once a version is forced the next request uses it or fails. *)
Theorem C12_forced_after_any_history : forall e c0 ops f v,
  version_of f = Some v ->
  let c := snd (run e c0 (ops ++ [OForce f])) in
  match outcome_of (do_req e c) with
  | Use v' => v' = v
  | Cleartext => c_plain_dialtls c = true /\ e_https e = true
  | Fail _ => True
  end.
Proof. exact forced_after_any_history. Qed.
Print Assumptions C12_forced_after_any_history.

(* Uniformity of the decision: a request that has no connection to reuse - on whatever version the dispatch
   ends up: forced 1.1 / 2 / 3, unforced, through a learned Alt-Svc entry - is refused when the origin is
   unacceptable under the client's settings (wrong root, wrong name, missing client certificate, no skip) and
   is never refused for its certificate when the origin is acceptable. *)
Theorem C12_new_connection_decided_by_settings : forall e c,
  route e c = None -> e_https e = true -> c_plain_dialtls c = false -> user_tls c = None -> no_conns c ->
  (acceptable e c = false -> exists er, outcome_of (do_req e c) = Fail er) /\
  (acceptable e c = true -> outcome_of (do_req e c) <> Fail ECert).
Proof. exact new_connection_decided_by_settings. Qed.
Print Assumptions C12_new_connection_decided_by_settings.

(* A clone that is configured differently, used and dropped leaves the original client exactly as it was
   (settings, switches, connection caches, Alt-Svc bookkeeping); the clone itself starts from the original's
   settings and switches with no connection of its own. *)
Theorem C12_clone_independent : forall e c a,
  snd (step e c (OFork a)) = c /\
  c_tls (do_clone c) = c_tls c /\ c_force (do_clone c) = c_force c /\ c_h3 (do_clone c) = c_h3 c /\
  no_conns (do_clone c) /\ c_alt (do_clone c) = ANone.
Proof.
  exact (fun e c a => conj (fork_leaves_original altsvc_only_unforced e c a)
    (match clone_spec c with
     | conj t (conj f (conj h (conj _ (conj i (conj i1 (conj t2 (conj t3 al))))))) =>
         conj t (conj f (conj h (conj (conj i (conj i1 (conj t2 t3))) al)))
     end)).
Qed.
Print Assumptions C12_clone_independent.

(* No https request of a client reachable from req.C() - by ANY sequence of EnableH2C / DisableH2C / SetDialTLS /
   SetTLSHandshake / Clone / requests ... - is written in clear (repair ecf6c40: EnableH2C no longer installs a
   plain dialler in the DialTLSContext slot; the pinned behaviour is refuted below). *)
Theorem C12_https_never_in_clear : forall e c,
  reachable e c -> outcome_of (do_req e c) <> Cleartext.
Proof. exact never_in_clear. Qed.
Print Assumptions C12_https_never_in_clear.

(* Requests that ask for a connection of their own (Connection: close; the http2 pool dials a single-use
   connection for them, HTTP/1 does not keep the connection): a forced version is used or the request fails, in
   every state; no reachable client writes such an https request in clear (h2c enabled or not - [plain] of every
   dialClientConn call is the scheme of the request: generated fact h2_plain_from_request_scheme); forced
   HTTP/2: the single-use connection is handshaken under the governing settings like every other. *)
Theorem C12_close_request_forced_version_or_fail : forall e c v,
  version_of (c_force c) = Some v ->
  match outcome_of (do_req_close e c) with
  | Use v' => v' = v
  | Cleartext => c_plain_dialtls c = true /\ e_https e = true
  | Fail _ => True
  end.
Proof. exact forced_close_version_or_fail. Qed.
Print Assumptions C12_close_request_forced_version_or_fail.

Theorem C12_close_request_never_in_clear : forall e c,
  reachable e c -> outcome_of (do_req_close e c) <> Cleartext /\ h2_plain_from_request_scheme = true.
Proof. exact (fun e c R => conj (close_never_in_clear e c R) gen_plain_from_request). Qed.
Print Assumptions C12_close_request_never_in_clear.

Theorem C12_close_request_forced_h2_governed : forall e c,
  c_force c = FH2 ->
  let '(o, ds, _) := round_trip_close altsvc_only_unforced e c in
  Forall (fun d =>
    let t := settings_for e c (stack_quic (d_stack d)) in
    d_sni d = t_sname t /\
    (forall v, o = Use v -> acceptable_under t e = true) /\
    (o = Fail ECert -> acceptable_under t e = false)) ds.
Proof. exact (fun e c F => close_forced_h2_sound altsvc_only_unforced e c F). Qed.
Print Assumptions C12_close_request_forced_h2_governed.

(* One origin under two authorities (localhost:p and 127.0.0.1:p): connection caches, Alt-Svc bookkeeping and
   HTTP/3 entries are per authority, the settings are the client's.  What the client does at either authority in
   ANY interleaved sequence is exactly what it does in the one-authority sequence from which everything directed
   at the other authority has been removed: nothing is carried from a connection to one name to a connection to
   the other ... *)
Theorem C12_two_authorities_independent : forall eA eB ops cA cB,
  fst (snd (run2 eA eB (cA, cB) ops)) = snd (run eA cA (proj_host false ops)) /\
  snd (snd (run2 eA eB (cA, cB) ops)) = snd (run eB cB (proj_host true ops)).
Proof. exact run2_proj. Qed.
Print Assumptions C12_two_authorities_independent.

(* ... in particular the tls.Config every stack builds for a connection to either authority carries the
   accumulated settings and - when no ServerName is configured - the name of THAT authority, whatever was dialled
   before under the other name, on whichever version. *)
Theorem C12_tls_uniform_two_authorities : forall eA eB ops cA cB s only_h1,
  c_tls cA = c_tls cB ->
  let w := snd (run2 eA eB (cA, cB) ops) in
  sec (tls_view s only_h1 (e_host eA) (c_tls (fst w))) = sec (effective (e_host eA) (settings (map snd ops) (c_tls cA))) /\
  sec (tls_view s only_h1 (e_host eB) (c_tls (snd w))) = sec (effective (e_host eB) (settings (map snd ops) (c_tls cA))).
Proof. exact tls_uniform_two_hosts. Qed.
Print Assumptions C12_tls_uniform_two_authorities.

(* The route through a CONNECT proxy (SetProxyURL, http:// or https://; [route e c = None] in the theorems above =
   the direct route).  Whatever the dispatch does with the request (the http2 transport's own dials and HTTP/3 do
   not go through the proxy), in EVERY state: every handshake with the ORIGIN inside a tunnel carries the ORIGIN's
   name (never the proxy's) under the client's settings (or the TLSHandshakeContext hook's); a success implies the
   origin is acceptable under them, a certificate failure of the last handshake that it is not; every handshake of
   the first hop to an https:// proxy carries the PROXY's name under the client's settings (or the DialTLSContext
   function's). *)
Theorem C12_origin_handshake_governed_via_proxy : forall e c px,
  route e c = Some px ->
  let '(o, ds, _) := do_req e c in
  Forall (fun d =>
    match d_stack d with
    | S1 => d_sni d = t_sname (origin_cfg_via_proxy e c) /\
            (forall v, o = Use v -> acceptable_under (origin_cfg_via_proxy e c) e = true)
    | SP => d_sni d = t_sname (proxy_cfg px c) /\ (forall v, o = Use v -> acceptable_proxy px c = true)
    | _ => True
    end) ds /\
  (o = Fail ECert ->
   match last_stack ds with
   | Some S1 => acceptable_under (origin_cfg_via_proxy e c) e = false
   | Some SP => acceptable_proxy px c = false
   | _ => True
   end).
Proof. exact do_req_proxy_sound. Qed.
Print Assumptions C12_origin_handshake_governed_via_proxy.

(* A tunnel - like every connection - serves its own authority only: C12_two_authorities_independent holds for
   every environment, the proxy route included (each authority of an interleaved sequence sees exactly its own
   one-authority run), and the code's idle list is keyed by the target of an https request behind a proxy
   (generated fact on connectMethod.key). *)
Theorem C12_tunnel_reused_for_its_authority_only : forall eA eB ops cA cB,
  (fst (snd (run2 eA eB (cA, cB) ops)) = snd (run eA cA (proj_host false ops)) /\
   snd (snd (run2 eA eB (cA, cB) ops)) = snd (run eB cB (proj_host true ops))) /\
  pool_key_keeps_https_target = true.
Proof. exact (fun eA eB ops cA cB => conj (run2_proj eA eB ops cA cB) gen_key_keeps_target). Qed.
Print Assumptions C12_tunnel_reused_for_its_authority_only.

(* What is learned about one authority stays with it (round 5): two authorities - one origin under two names, or
   two origins on ONE host name with different ports.  Whatever the client did and learned at A in ANY interleaved
   sequence (Alt-Svc entries pending or confirmed, HTTP/3 connections ...), an unforced request to B is served over
   HTTP/3 only if B itself has a QUIC listener and over HTTP/2 only if B's TLS listener offers h2; the code's
   Alt-Svc bookkeeping is keyed by host AND port (generated fact on netutil.AuthorityKey). *)
Theorem C12_other_authority_negotiates_for_itself : forall eA eB ops,
  let cB := snd (snd (run2 eA eB (new_client, new_client) ops)) in
  c_force cB = FNone -> e_https eB = true ->
  match outcome_of (do_req eB cB) with
  | Use V2 => mem_bytes alpn_h2 (s_alpn (e_srv eB)) = true
  | Use V3 => s_h3 (e_srv eB) = true
  | Cleartext => False
  | _ => True
  end.
Proof. exact other_authority_negotiates_for_itself. Qed.
Print Assumptions C12_other_authority_negotiates_for_itself.

Theorem C12_altsvc_keyed_by_host_and_port : altsvc_key_has_port = true.
Proof. exact gen_altsvc_key. Qed.
Print Assumptions C12_altsvc_keyed_by_host_and_port.

(* Fingerprint / impersonation handshakes (SetTLSFingerprintX, ImpersonateX: a utls handshake in the
   TLSHandshakeContext slot, bound to the transport; Clone installs it anew on the clone): after ANY operation
   sequence the TCP handshakes of a client that has one installed are governed by exactly the settings the setters
   accumulated for THAT client - a clone's by the clone's - : roots, server name, client certificates, skip-verify
   (with C12_user_tls_governs_tcp_only: each such handshake is decided by them). *)
Theorem C12_fingerprint_follows_settings : forall e ops c,
  let c' := snd (run e c ops) in
  c_fp c' = true -> c_udial c' = None ->
  sec (tcp_settings e c') = sec (effective (e_host e) (settings ops (c_tls c))).
Proof. exact fingerprint_follows_settings. Qed.
Print Assumptions C12_fingerprint_follows_settings.

(* Transport middleware (WrapRoundTripFunc; round 7): a pass-through middleware is transparent - a sequence with
   such installations anywhere, before or after Clone, leaves the client in the state of the sequence without them
   (so every theorem above holds for clients and clones carrying middleware); in the code the clone's chain ends in
   the CLONE's roundTrip (generated fact on Transport.Clone). *)
Theorem C12_transport_middleware_transparent : forall e ops c,
  snd (run e c ops) = snd (run e c (no_wrap ops)) /\ clone_middleware_bound_to_clone = true.
Proof. exact (fun e ops c => conj (wrap_transparent altsvc_only_unforced e ops c) gen_clone_middleware). Qed.
Print Assumptions C12_transport_middleware_transparent.

(* the three defects of the pinned tree, as theorems about the pinned variants of the same functions *)
Theorem C12_tls_uniform_pinned_refuted :
  exists host o, sec (tls_view_pinned S3 false host o) <> sec (effective host o).
Proof. exact tls_view_pinned_refuted. Qed.
Print Assumptions C12_tls_uniform_pinned_refuted.

Theorem C12_forced_pinned_refuted :
  exists ops, fst (run_pinned local_env new_client ops) =
    [ObsCfg; ObsCfg; ObsCfg;
     ObsReq (Use V1) [mkDial S1 (bs "localhost") [] true];
     ObsBg [mkDial S3 (bs "localhost") [alpn_h3] true] AObsReady;
     ObsReq (Use V3) []].
Proof. exact forced_pinned_refuted. Qed.
Print Assumptions C12_forced_pinned_refuted.

Theorem C12_h2c_pinned_refuted :
  outcome_of (do_req local_env (with_h2c true true (mutate (add_root 1%N) new_client))) = Cleartext.
Proof. exact h2c_pinned_refuted. Qed.
Print Assumptions C12_h2c_pinned_refuted.

(* non-vacuity: a reachable forced state with a learned Alt-Svc entry, where the repaired dispatch stays on
   the forced version (same operations as the refutation above) *)
Example C12_forced_nonvacuous :
  fst (run local_env new_client [OEnableH3; OForce FH1; OAddRoot 1%N; OReq; OBg; OReq]) =
    [ObsCfg; ObsCfg; ObsCfg;
     ObsReq (Use V1) [mkDial S1 (bs "localhost") [] true];
     ObsBg [mkDial S3 (bs "localhost") [alpn_h3] true] AObsReady;
     ObsReq (Use V1) []].
Proof. exact forced_fixed_example. Qed.

(* non-vacuity of the uniformity clause: same settings, the three forced versions, an origin offering all three:
   accepted three times under the issuing root, refused three times under another root *)
Example C12_uniform_nonvacuous :
  map (fun f => fst (run h3_env new_client [OAddRoot 1%N; OForce f; OReq])) [FH1; FH2; FH3] =
    [[ObsCfg; ObsCfg; ObsReq (Use V1) [mkDial S1 (bs "localhost") [] true]];
     [ObsCfg; ObsCfg; ObsReq (Use V2) [mkDial S2 (bs "localhost") [alpn_h1; alpn_h2] true]];
     [ObsCfg; ObsCfg; ObsReq (Use V3) [mkDial S3 (bs "localhost") [alpn_h3] true]]] /\
  map (fun f => fst (run h3_env new_client [OAddRoot 2%N; OForce f; OReq])) [FH1; FH2; FH3] =
    [[ObsCfg; ObsCfg; ObsReq (Fail ECert) [mkDial S1 (bs "localhost") [] false]];
     [ObsCfg; ObsCfg; ObsReq (Fail ECert) [mkDial S2 (bs "localhost") [alpn_h1; alpn_h2] false]];
     [ObsCfg; ObsCfg; ObsReq (Fail ECert) [mkDial S3 (bs "localhost") [alpn_h3] false]]].
Proof. exact uniform_example. Qed.
