(* Properties/C11.v - Redirect policies are enforced exactly.
   Only statements, `exact`, and Print Assumptions.  Model: Model/Authority.v, Model/Redirect.v. *)
From ReqV Require Import Lib.Bytes Model.Authority Model.Redirect Proofs.RedirectProofs.

(* Host identity = URL hostname, case-insensitive, port stripped whatever its form, IPv6
   without brackets - for EVERY well-formed authority. *)
Theorem C11_hostname_of_rendered : forall a,
  wf_authority a = true ->
  get_hostname (render_authority a) = to_lower (host_text (a_host a)).
Proof. exact hostname_of_rendered. Qed.
Print Assumptions C11_hostname_of_rendered.

Theorem C11_same_host_iff : forall a b via,
  wf_authority a = true -> wf_authority b = true ->
  permits PSameHost (render_authority a) (render_authority b :: via) = true <->
  to_lower (host_text (a_host a)) = to_lower (host_text (a_host b)).
Proof. exact same_host_iff. Qed.
Print Assumptions C11_same_host_iff.

Theorem C11_allowed_host_iff : forall a hs via,
  wf_authority a = true -> forallb wf_authority hs = true ->
  permits (PAllowedHost (map render_authority hs)) (render_authority a) via = true <->
  exists b, In b hs /\ to_lower (host_text (a_host a)) = to_lower (host_text (a_host b)).
Proof. exact allowed_host_iff. Qed.
Print Assumptions C11_allowed_host_iff.

(* IP literals are compared as whole addresses *)
Theorem C11_domain_v6_whole : forall a s,
  a_host a = HV6 s -> wf_authority a = true -> get_domain (render_authority a) = to_lower s.
Proof. exact domain_v6. Qed.
Print Assumptions C11_domain_v6_whole.

Theorem C11_domain_v4_whole : forall a s,
  a_host a = HName s -> wf_authority a = true -> is_ipv4 (to_lower s) = true ->
  get_domain (render_authority a) = to_lower s.
Proof. exact domain_v4. Qed.
Print Assumptions C11_domain_v4_whole.

(* ... so SameDomain between two IP literals is equality of whole addresses *)
Theorem C11_same_domain_ip_iff : forall a b via,
  wf_authority a = true -> wf_authority b = true ->
  ip_authority a = true -> ip_authority b = true ->
  permits PSameDomain (render_authority a) (render_authority b :: via) = true <->
  to_lower (host_text (a_host a)) = to_lower (host_text (a_host b)).
Proof. exact same_domain_ip_iff. Qed.
Print Assumptions C11_same_domain_ip_iff.

Theorem C11_domain_name_labels : forall a s,
  a_host a = HName s -> wf_authority a = true -> is_ip_literal (to_lower s) = false ->
  get_domain (render_authority a) =
    match split_byte dot (to_lower s) with
    | _ :: ((_ :: _ :: _) as rest) => join_with [dot] rest
    | _ => to_lower s
    end.
Proof. exact domain_name_labels. Qed.
Print Assumptions C11_domain_name_labels.

(* hop n+1 is refused iff n >= limit; NoRedirect refuses the first hop *)
Theorem C11_max_redirects_exact : forall n t via,
  permits (PMax n) t via = true <-> (Z.of_nat (length via) < n)%Z.
Proof. exact max_redirects_exact. Qed.
Print Assumptions C11_max_redirects_exact.

(* the default policy stops after 10 requests in the chain (limit regenerated from the source) *)
Theorem C11_default_is_ten : forall t via,
  permits PDefault t via = true <-> (length via < 10)%nat.
Proof. exact default_is_ten. Qed.
Print Assumptions C11_default_is_ten.

Theorem C11_no_redirect_refuses : forall t via, permits PNo t via = false.
Proof. exact no_redirect_refuses. Qed.
Print Assumptions C11_no_redirect_refuses.

(* followed only if EVERY configured policy permits *)
Theorem C11_composition_is_conjunction : forall ps t via,
  all_permit ps t via = true <-> forall p, In p ps -> permits p t via = true.
Proof. exact composition_is_conjunction. Qed.
Print Assumptions C11_composition_is_conjunction.

(* for every chain: what reaches the wire is the initial request plus a prefix of the
   targets; on refusal the refused target and everything after it receive nothing *)
Theorem C11_refused_host_gets_nothing : forall ps init targets via strip,
  exists k, map s_host (fst (follow ps init via strip targets)) = firstn k targets /\
            (snd (follow ps init via strip targets) = Completed -> k = length targets) /\
            (snd (follow ps init via strip targets) = Refused ->
               k < length targets /\
               all_permit ps (nth k targets []) (via ++ firstn k targets) = false).
Proof. exact follow_hosts_prefix. Qed.
Print Assumptions C11_refused_host_gets_nothing.

Theorem C11_every_sent_hop_was_permitted : forall ps init targets via strip k,
  k < length (fst (follow ps init via strip targets)) ->
  all_permit ps (nth k targets []) (via ++ firstn k targets) = true.
Proof. exact follow_all_permitted. Qed.
Print Assumptions C11_every_sent_hop_was_permitted.

Theorem C11_chain_bounded : forall ps init targets n,
  In (PMax n) ps ->
  (Z.of_nat (length (fst (run_chain ps init targets))) <= Z.max n 1)%Z.
Proof. exact chain_bounded. Qed.
Print Assumptions C11_chain_bounded.

(* sensitive headers reach only hosts Go's cross-origin rule allows unless the caller asked
   for AlwaysCopy of that header, and once stripped they stay stripped *)
Theorem C11_authorization_only_where_allowed : forall ps init,
  copies_auth ps = false ->
  forall targets via strip s,
  In s (fst (follow ps init via strip targets)) -> s_auth s <> 0 ->
  strip = false /\ (s_host s = init \/ should_copy init (s_host s) = true).
Proof. exact follow_auth. Qed.
Print Assumptions C11_authorization_only_where_allowed.

Theorem C11_cookie_only_where_allowed : forall ps init,
  copies_cookie ps = false ->
  forall targets via strip s,
  In s (fst (follow ps init via strip targets)) -> s_cookie s <> 0 ->
  strip = false /\ (s_host s = init \/ should_copy init (s_host s) = true).
Proof. exact follow_cookie. Qed.
Print Assumptions C11_cookie_only_where_allowed.

Theorem C11_headers_never_duplicated : forall ps init targets via strip s,
  In s (fst (follow ps init via strip targets)) -> s_auth s <= 1 /\ s_cookie s <= 1.
Proof. exact follow_no_duplicates. Qed.
Print Assumptions C11_headers_never_duplicated.

(* The pinned (pre-fix) code violates the first theorem; witness kept checked. *)
Theorem C11_pinned_hostname_refuted :
  exists a, wf_authority a = true /\
    get_hostname_pinned (render_authority a) <> to_lower (host_text (a_host a)).
Proof. exact hostname_pinned_refuted. Qed.

(* non-vacuity: the hypotheses are met by concrete non-trivial authorities *)
Example C11_nonvacuous :
  wf_authority {| a_host := HV6 (bs "2001:DB8::1%eth0"); a_port := Some (bs "8443") |} = true /\
  wf_authority {| a_host := HName (bs "WWW.Example.COM."); a_port := Some [] |} = true /\
  get_hostname (bs "[2001:DB8::1%eth0]:8443") = bs "2001:db8::1%eth0" /\
  get_domain (bs "a.b.example.com:80") = bs "b.example.com" /\
  get_domain (bs "10.2.3.4:80") = bs "10.2.3.4".
Proof. vm_compute. repeat split. Qed.
