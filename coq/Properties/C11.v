(* Properties/C11.v - Redirect policies are enforced exactly.
   Only statements, `exact`, and Print Assumptions.  Model: Model/Authority.v, Model/Redirect.v. *)
From ReqV Require Import Lib.Bytes Model.Authority Model.Redirect Model.RedirectClient
  Proofs.RedirectProofs Proofs.RedirectClientProofs Proofs.RedirectSyncProofs.
From ReqV Require Import Gen.RedirectClientFacts Gen.RedirectHost.

(* Host identity = URL hostname, case-insensitive, port stripped whatever its form, IPv6
   without brackets - for EVERY well-formed authority. *)
Theorem C11_hostname_of_rendered : forall a,
  wf_authority a = true ->
  get_hostname (render_authority a) = to_lower (host_text (a_host a)).
Proof. exact hostname_of_rendered. Qed.
Print Assumptions C11_hostname_of_rendered.

Theorem C11_same_host_iff : forall a b via,
  wf_authority a = true -> wf_authority b = true ->
  permits PSameHost (render_authority a) (render_authority b :: via) = true <->
  to_lower (host_text (a_host a)) = to_lower (host_text (a_host b)).
Proof. exact same_host_iff. Qed.
Print Assumptions C11_same_host_iff.

Theorem C11_allowed_host_iff : forall a hs via,
  wf_authority a = true -> forallb wf_authority hs = true ->
  permits (PAllowedHost (map render_authority hs)) (render_authority a) via = true <->
  exists b, In b hs /\ to_lower (host_text (a_host a)) = to_lower (host_text (a_host b)).
Proof. exact allowed_host_iff. Qed.
Print Assumptions C11_allowed_host_iff.

(* IP literals - what netip.ParseAddr accepts, modelled by parse_addr_ok - are compared as whole
   addresses *)
Theorem C11_domain_ip_whole : forall a,
  wf_authority a = true -> ip_authority a = true ->
  get_domain (render_authority a) = to_lower (host_text (a_host a)).
Proof. exact domain_ip_whole. Qed.
Print Assumptions C11_domain_ip_whole.

Theorem C11_domain_v6_whole : forall a s,
  a_host a = HV6 s -> wf_authority a = true -> is_ip_literal (to_lower s) = true ->
  get_domain (render_authority a) = to_lower s.
Proof. exact domain_v6. Qed.
Print Assumptions C11_domain_v6_whole.

Theorem C11_domain_v4_whole : forall a s,
  a_host a = HName s -> wf_authority a = true -> is_ip_literal (to_lower s) = true ->
  get_domain (render_authority a) = to_lower s.
Proof. exact domain_v4. Qed.
Print Assumptions C11_domain_v4_whole.

(* ... so SameDomain between two IP literals is equality of whole addresses *)
Theorem C11_same_domain_ip_iff : forall a b via,
  wf_authority a = true -> wf_authority b = true ->
  ip_authority a = true -> ip_authority b = true ->
  permits PSameDomain (render_authority a) (render_authority b :: via) = true <->
  to_lower (host_text (a_host a)) = to_lower (host_text (a_host b)).
Proof. exact same_domain_ip_iff. Qed.
Print Assumptions C11_same_domain_ip_iff.

Theorem C11_domain_name_labels : forall a,
  wf_authority a = true -> ip_authority a = false ->
  get_domain (render_authority a) =
    let h := trim_suffix_byte dot (to_lower (host_text (a_host a))) in
    match split_byte dot h with
    | _ :: ((_ :: _ :: _) as rest) => join_with [dot] rest
    | _ => h
    end.
Proof. exact domain_name_labels. Qed.
Print Assumptions C11_domain_name_labels.

(* the dot that ends a fully qualified name is not a label (round-7 repair): example.com. is in the
   domain example.com, SameDomain from example.com. refuses evil.com.; the code before the repair
   (get_domain_dotted) put both in "com." *)
Theorem C11_trailing_dot_is_not_a_label :
  get_domain (bs "example.com.") = bs "example.com" /\
  get_domain (bs "www.Example.com.:443") = bs "example.com" /\
  get_domain (bs "example.com") = bs "example.com" /\
  permits PSameDomain (bs "evil.com.") [bs "example.com."] = false /\
  get_domain_dotted (bs "example.com.") = bs "com." /\
  get_domain_dotted (bs "evil.com.") = bs "com.".
Proof. exact trailing_dot_examples. Qed.
Print Assumptions C11_trailing_dot_is_not_a_label.

(* "IP literal" is netip.ParseAddr's verdict: boundary literals kept checked against the model of
   its algorithm (the same strings are compared with the real netip in the harness) *)
Theorem C11_parse_addr_examples :
  map (fun t => parse_addr_ok (bs t))
      ["::1"; "::"; "2001:db8::1%eth0"; "fe80::1%"; "::ffff:1.2.3.4"; "1:2:3:4:5:6:7:8"; "1:2:3:4:5:6:7::";
       "1:2:3:4:5:6:7:8:9"; "1::2::3"; "12345::"; "1:2:3:4:5:6:1.2.3.4"; "1:2:3:4:5:6:7:1.2.3.4";
       "::ffff:1.2.3.256"; ":::"; "1:2:3:4:5:6:7::8"; "1.2.3.4"; "1.2.3"; "01.2.3.4"; "256.1.1.1"; "1.2.3.4.";
       "a:b.c.d"; "example.com"; ""]%string =
  [true; true; true; false; true; true; true;
   false; false; false; true; false;
   false; false; false; true; false; false; false; false;
   false; false; false].
Proof. exact parse_addr_examples. Qed.
Print Assumptions C11_parse_addr_examples.

(* hop n+1 is refused iff n >= limit; NoRedirect refuses the first hop *)
Theorem C11_max_redirects_exact : forall n t via,
  permits (PMax n) t via = true <-> (Z.of_nat (length via) < n)%Z.
Proof. exact max_redirects_exact. Qed.
Print Assumptions C11_max_redirects_exact.

(* the default policy stops after 10 requests in the chain (limit regenerated from the source) *)
Theorem C11_default_is_ten : forall t via,
  permits PDefault t via = true <-> (length via < 10)%nat.
Proof. exact default_is_ten. Qed.
Print Assumptions C11_default_is_ten.

Theorem C11_no_redirect_refuses : forall t via, permits PNo t via = false.
Proof. exact no_redirect_refuses. Qed.
Print Assumptions C11_no_redirect_refuses.

(* followed only if EVERY configured policy permits *)
Theorem C11_composition_is_conjunction : forall ps t via,
  all_permit ps t via = true <-> forall p, In p ps -> permits p t via = true.
Proof. exact composition_is_conjunction. Qed.
Print Assumptions C11_composition_is_conjunction.

(* a user-defined policy that FAULTS (panics) on a hop permits nothing on that hop, wherever it
   stands in the list: the hop is not taken, and a chain under such a list sends at most k requests *)
Theorem C11_fault_is_no_permission : forall ps k t via,
  In (PFault k) ps -> length via = k -> all_permit ps t via = false.
Proof. exact fault_is_no_permission. Qed.
Print Assumptions C11_fault_is_no_permission.

Theorem C11_fault_bounds_chain : forall ps init hs targets k,
  In (PFault k) ps -> 1 <= k -> length (fst (run_chain ps init hs targets)) <= k.
Proof. exact fault_bounds_chain. Qed.
Print Assumptions C11_fault_bounds_chain.

(* for every chain: what reaches the wire is the initial request plus a prefix of the
   targets; on refusal the refused target and everything after it receive nothing *)
Theorem C11_refused_host_gets_nothing : forall ps init hs targets via strip,
  exists k, map s_host (fst (follow ps init hs via strip targets)) = firstn k targets /\
            (snd (follow ps init hs via strip targets) = Completed -> k = length targets) /\
            (snd (follow ps init hs via strip targets) = Refused ->
               k < length targets /\
               all_permit ps (nth k targets []) (via ++ firstn k targets) = false).
Proof. exact follow_hosts_prefix. Qed.
Print Assumptions C11_refused_host_gets_nothing.

Theorem C11_every_sent_hop_was_permitted : forall ps init hs targets via strip k,
  k < length (fst (follow ps init hs via strip targets)) ->
  all_permit ps (nth k targets []) (via ++ firstn k targets) = true.
Proof. exact follow_all_permitted. Qed.
Print Assumptions C11_every_sent_hop_was_permitted.

Theorem C11_chain_bounded : forall ps init hs targets n,
  In (PMax n) ps ->
  (Z.of_nat (length (fst (run_chain ps init hs targets))) <= Z.max n 1)%Z.
Proof. exact chain_bounded. Qed.
Print Assumptions C11_chain_bounded.

(* the clauses of the property at chain level: what holds of EVERY request put on the wire.
   Redirects disabled: nothing but the first request is ever sent *)
Theorem C11_disabled_sends_only_the_first_request : forall ps init hs targets,
  In PNo ps -> fst (run_chain ps init hs targets) = [{| s_host := init; s_hdrs := hs |}].
Proof. exact chain_disabled. Qed.
Print Assumptions C11_disabled_sends_only_the_first_request.

(* SameHost / SameDomain among the policies: every request of the chain goes to the host / domain
   of the first one *)
Theorem C11_same_host_chain_stays_on_host : forall ps init hs targets s,
  In PSameHost ps -> In s (fst (run_chain ps init hs targets)) ->
  get_hostname (s_host s) = get_hostname init.
Proof. exact chain_same_host. Qed.
Print Assumptions C11_same_host_chain_stays_on_host.

Theorem C11_same_domain_chain_stays_in_domain : forall ps init hs targets s,
  In PSameDomain ps -> In s (fst (run_chain ps init hs targets)) ->
  get_domain (s_host s) = get_domain init.
Proof. exact chain_same_domain. Qed.
Print Assumptions C11_same_domain_chain_stays_in_domain.

(* AllowedHost / AllowedDomain among the policies: every redirected request goes to a named host /
   domain - so no header of any kind reaches another one *)
Theorem C11_allowed_host_chain_only_named_hosts : forall ps init hs targets l s,
  In (PAllowedHost l) ps -> In s (tl (fst (run_chain ps init hs targets))) ->
  mem_bytes (get_hostname (s_host s)) (map (fun h => to_lower (get_hostname h)) l) = true.
Proof. exact chain_allowed_host. Qed.
Print Assumptions C11_allowed_host_chain_only_named_hosts.

Theorem C11_allowed_domain_chain_only_named_domains : forall ps init hs targets l s,
  In (PAllowedDomain l) ps -> In s (tl (fst (run_chain ps init hs targets))) ->
  mem_bytes (get_domain (s_host s)) (map (fun h => to_lower (get_domain h)) l) = true.
Proof. exact chain_allowed_domain. Qed.
Print Assumptions C11_allowed_domain_chain_only_named_domains.

(* headers.  [hs] = the caller's headers on the first request (canonical name, number of values) -
   ANY set of them; sensitive = net/http's list.  A sensitive header that no AlwaysCopy policy
   names reaches only the initial host and hosts Go's cross-origin rule allows, and once the chain
   has left them it stays stripped *)
Theorem C11_sensitive_header_only_where_allowed : forall ps init hs n,
  is_sensitive n = true -> mem_bytes n (always_names ps) = false ->
  forall targets via strip s k,
  In s (fst (follow ps init hs via strip targets)) -> In (n, k) (s_hdrs s) -> k <> 0 ->
  strip = false /\ (s_host s = init \/ should_copy init (s_host s) = true).
Proof. exact follow_sensitive. Qed.
Print Assumptions C11_sensitive_header_only_where_allowed.

(* nothing is invented or multiplied on the way *)
Theorem C11_headers_never_added_or_duplicated : forall ps init hs targets via strip s n k,
  In s (fst (follow ps init hs via strip targets)) -> In (n, k) (s_hdrs s) ->
  exists k0, In (n, k0) hs /\ (k = k0 \/ k = 0).
Proof. exact follow_no_new_headers. Qed.
Print Assumptions C11_headers_never_added_or_duplicated.

(* every other header, and every header an AlwaysCopy policy names, reaches every followed hop *)
Theorem C11_other_headers_always_carried : forall ps init hs n k,
  is_sensitive n = false \/ mem_bytes n (always_names ps) = true ->
  In (n, k) hs ->
  forall targets via strip s,
  In s (fst (follow ps init hs via strip targets)) -> In (n, k) (s_hdrs s).
Proof. exact follow_carried. Qed.
Print Assumptions C11_other_headers_always_carried.

(* the sensitive set is the one in this toolchain's net/http (regenerated by gosync) *)
Theorem C11_sensitive_set_is_gos :
  go_sensitive_headers = [bs "Authorization"; bs "Www-Authenticate"; bs "Cookie"; bs "Cookie2"].
Proof. exact sensitive_set. Qed.
Print Assumptions C11_sensitive_set_is_gos.

(* ---- whose policies: clients, SetRedirectPolicy, Clone (Model/RedirectClient.v) ---- *)

(* a request through client c is decided by the policy list c holds, by nothing else *)
Theorem C11_request_uses_own_policies : forall w c cfg init hs targets,
  nth_error w c = Some cfg ->
  cstep w (ODo c init hs targets) = (w, Some (run_chain cfg init hs targets)).
Proof. exact cstep_do_own. Qed.
Print Assumptions C11_request_uses_own_policies.

(* SetRedirectPolicy replaces (does not add to) what was configured; with no argument it is a no-op *)
Theorem C11_last_set_replaces : forall w c ps,
  c < length w -> ps <> [] -> nth_error (fst (cstep w (OSet c ps))) c = Some ps.
Proof. exact cstep_set_replaces. Qed.
Print Assumptions C11_last_set_replaces.

Theorem C11_empty_set_is_noop : forall w c, cstep w (OSet c []) = (w, None).
Proof. exact cstep_set_empty. Qed.
Print Assumptions C11_empty_set_is_noop.

(* nothing but SetRedirectPolicy on c itself changes what c holds: not SetRedirectPolicy on the
   client it was cloned from or on its clones, not Clone, not C(), not a request *)
Theorem C11_other_operations_leave_client_alone : forall w o c,
  c < length w -> (forall ps, o <> OSet c ps) ->
  nth_error (fst (cstep w o)) c = nth_error w c.
Proof. exact cstep_frame. Qed.
Print Assumptions C11_other_operations_leave_client_alone.

(* over whole histories: after c's last non-empty SetRedirectPolicy, c holds exactly that list
   whatever else happens afterwards *)
Theorem C11_own_last_set_decides : forall c ps w pre post,
  c < length (fst (crun w pre)) -> ps <> [] -> (forall qs, ~ In (OSet c qs) post) ->
  nth_error (fst (crun w (pre ++ OSet c ps :: post))) c = Some ps.
Proof. exact own_last_set_decides. Qed.
Print Assumptions C11_own_last_set_decides.

(* a clone starts with what its source holds at the moment of cloning and keeps it, whatever the
   source (or anybody else) is told later, until it is itself reconfigured *)
Theorem C11_clone_keeps_snapshot : forall w c cfg post,
  nth_error w c = Some cfg -> (forall qs, ~ In (OSet (length w) qs) post) ->
  nth_error (fst (crun w (OClone c :: post))) (length w) = Some cfg.
Proof. exact clone_keeps_snapshot. Qed.
Print Assumptions C11_clone_keeps_snapshot.

(* independence, for every history: the outcomes of ALL requests through c are the same when every
   SetRedirectPolicy and every request on the other clients is dropped (replaced by the no-op) -
   starting from any two worlds that agree on c *)
Theorem C11_client_independent_of_other_clients : forall c ops w1 w2,
  length w1 = length w2 -> c < length w1 -> nth_error w1 c = nth_error w2 c ->
  crun_of c w1 ops = crun_of c w2 (erase_foreign c ops).
Proof. exact client_independence_gen. Qed.
Print Assumptions C11_client_independent_of_other_clients.

(* the OTHER configuration methods of a client (SetTimeout, SetCookieJar, SetUserAgent ...) leave
   the policy alone: made in any number and any order with SetRedirectPolicy, Clone and requests,
   they change no outcome *)
Theorem C11_other_configuration_is_irrelevant : forall ops w,
  crun w (drop_other ops) = crun w ops.
Proof. exact crun_ignores_other. Qed.
Print Assumptions C11_other_configuration_is_irrelevant.

(* the design of seeded change e-m1 (SetTimeout rebuilds the http.Client without CheckRedirect) is
   a different machine: witness kept checked *)
Theorem C11_rebuild_design_refuted :
  exists ops, crun_rebuild [] ops <> snd (crun [] ops).
Proof. exact rebuild_design_refuted. Qed.
Print Assumptions C11_rebuild_design_refuted.

(* the design of seeded change b-m1 (a clone's CheckRedirect bound to the source's policy field) is
   a different machine: witness kept checked *)
Theorem C11_method_value_design_refuted :
  exists ops, crun_mv ([], []) ops <> snd (crun [] ops).
Proof. exact method_value_design_refuted. Qed.
Print Assumptions C11_method_value_design_refuted.

(* ---- several chains in flight through one client ---- *)

(* at any moment of any schedule of CheckRedirect evaluations, chain i is where it would be had it
   run alone for as many deliveries as the schedule gave it *)
Theorem C11_chain_state_independent_of_other_chains : forall ps sched ks i,
  nth_error (run_sched ps sched ks) i =
  option_map (hop_n (count_occ Nat.eq_dec sched i) ps) (nth_error ks i).
Proof. exact run_sched_nth. Qed.
Print Assumptions C11_chain_state_independent_of_other_chains.

(* ... and every chain the schedule lets run to its end ends exactly as run_chain says - the
   function all the chain theorems above are about *)
Theorem C11_interleaved_chains_end_as_alone : forall ps sched chains i init hs targets,
  nth_error chains i = Some (init, hs, targets) ->
  length targets < count_occ Nat.eq_dec sched i ->
  option_map chain_result
    (nth_error (run_sched ps sched (map (fun c => chain_start (fst (fst c)) (snd (fst c)) (snd c)) chains)) i) =
  Some (fst (run_chain ps init hs targets), Some (snd (run_chain ps init hs targets))).
Proof. exact interleaved_chains_independent. Qed.
Print Assumptions C11_interleaved_chains_end_as_alone.

(* ---- several requests for one named URL: retry attempts, HEAD + segments of a parallel download ---- *)

(* every request such an operation makes is a chain of its own from the NAMED authority *)
Theorem C11_reissued_requests_are_chains_from_the_named_url : forall ps init hs scripts o,
  In o (reissue ps init hs scripts) -> exists t, In t scripts /\ o = run_chain ps init hs t.
Proof. exact reissue_each_is_a_chain. Qed.
Print Assumptions C11_reissued_requests_are_chains_from_the_named_url.

Theorem C11_reissued_requests_start_at_the_named_host : forall ps init hs scripts o,
  In o (reissue ps init hs scripts) ->
  exists l, fst o = {| s_host := init; s_hdrs := hs |} :: l.
Proof. exact reissue_starts_at_named. Qed.
Print Assumptions C11_reissued_requests_start_at_the_named_host.

(* any other host one of them reaches was permitted by every policy as a redirect from the named
   one, and receives a sensitive header only as Go's cross-origin rule or AlwaysCopy allows *)
Theorem C11_reissued_other_hosts_were_permitted : forall ps init hs scripts o s,
  In o (reissue ps init hs scripts) -> In s (tl (fst o)) ->
  exists ext, all_permit ps (s_host s) (init :: ext) = true.
Proof. exact reissue_other_hosts_permitted. Qed.
Print Assumptions C11_reissued_other_hosts_were_permitted.

Theorem C11_reissued_credentials_only_where_allowed : forall ps init hs scripts o s n k,
  is_sensitive n = true -> mem_bytes n (always_names ps) = false ->
  In o (reissue ps init hs scripts) -> In s (tl (fst o)) -> In (n, k) (s_hdrs s) -> k <> 0 ->
  s_host s = init \/ should_copy init (s_host s) = true.
Proof. exact reissue_sensitive. Qed.
Print Assumptions C11_reissued_credentials_only_where_allowed.

(* the design of seeded change c-m1 (segments fetched from where the HEAD ended up) delivers the
   caller's Authorization to a host only learned from a redirect, where the code delivers none *)
Theorem C11_reissue_from_final_url_refuted :
  exists ps init hs scripts o s,
    In o (reissue_from_final ps init hs scripts) /\ In s (fst o) /\
    In (bs "Authorization", 1) (s_hdrs s) /\
    s_host s <> init /\ should_copy init (s_host s) = false /\
    (forall o' s', In o' (reissue ps init hs scripts) -> In s' (fst o') ->
                   s_host s' <> init -> In (bs "Authorization", 0) (s_hdrs s')).
Proof. exact reissue_from_final_refuted. Qed.
Print Assumptions C11_reissue_from_final_url_refuted.

(* ---- the digest-auth re-send: one more request, to the NAMED host, never followed further ---- *)

Theorem C11_digest_resend_goes_to_the_named_host : forall ps init hs targets s,
  In s (fst (digest_call ps init hs targets)) ->
  In s (fst (run_chain ps init hs targets)) \/ s_host s = init.
Proof. exact digest_call_requests. Qed.
Print Assumptions C11_digest_resend_goes_to_the_named_host.

(* the digest answer, and the caller's other sensitive headers with it, reach no host but the
   named one and those Go's cross-origin rule allows *)
Theorem C11_digest_call_credentials_only_where_allowed : forall ps init hs targets s n k,
  is_sensitive n = true -> mem_bytes n (always_names ps) = false ->
  In s (fst (digest_call ps init hs targets)) -> In (n, k) (s_hdrs s) -> k <> 0 ->
  s_host s = init \/ should_copy init (s_host s) = true.
Proof. exact digest_call_sensitive. Qed.
Print Assumptions C11_digest_call_credentials_only_where_allowed.

Theorem C11_no_digest_resend_after_a_refusal : forall ps init hs targets,
  snd (run_chain ps init hs targets) = Refused ->
  digest_call ps init hs targets = run_chain ps init hs targets.
Proof. exact digest_call_refused. Qed.
Print Assumptions C11_no_digest_resend_after_a_refusal.

(* the design of seeded change d-m1 (re-send to the LAST hop's URL with the first request's headers)
   delivers the digest answer and the caller's Cookie to a host only learned from a redirect *)
Theorem C11_digest_resend_to_last_hop_refuted :
  exists ps init hs targets s,
    In s (fst (digest_call_last_hop ps init hs targets)) /\
    s_host s <> init /\ should_copy init (s_host s) = false /\
    In (bs "Authorization", 1) (s_hdrs s) /\ In (bs "Cookie", 1) (s_hdrs s) /\
    (forall s', In s' (fst (digest_call ps init hs targets)) -> s_host s' <> init ->
                In (bs "Authorization", 0) (s_hdrs s') /\ In (bs "Cookie", 0) (s_hdrs s')).
Proof. exact digest_call_last_hop_refuted. Qed.
Print Assumptions C11_digest_resend_to_last_hop_refuted.

(* ---- the tie to the source text (gosync, regenerated on every run) ---- *)

(* the model's decision of every policy value is the boolean function translated from the body of
   the closure its constructor returns in redirect.go *)
Theorem C11_permits_is_the_source : forall p target via,
  permits p target via = src_permits p target via.
Proof. exact permits_is_the_source. Qed.
Print Assumptions C11_permits_is_the_source.

(* the model's host identity functions are getHostname / getDomain of redirect.go translated
   statement by statement (net.SplitHostPort -> split_host_port, `netip.ParseAddr succeeds` ->
   is_ip_literal) *)
Theorem C11_get_hostname_is_the_source : forall host, get_hostname host = src_get_hostname host.
Proof. exact get_hostname_is_the_source. Qed.
Print Assumptions C11_get_hostname_is_the_source.

Theorem C11_get_domain_is_the_source : forall host, get_domain host = src_get_domain host.
Proof. exact get_domain_is_the_source. Qed.
Print Assumptions C11_get_domain_is_the_source.

(* SetRedirectPolicy / Clone / C() have the shape the client model rests on *)
Theorem C11_client_source_shape :
  checkredirect_assignments = 1 /\
  httpclient_field_assignments = 1 /\
  set_policy_empty_is_noop = true /\
  set_policy_installs_closure_over_argument = true /\
  set_policy_copies_argument = true /\
  set_policy_other_receiver_writes = 0 /\
  set_policy_skips_nil = true /\
  set_policy_first_error_wins = true /\
  set_policy_closure_extra_statements = 0 /\
  clone_copies_http_client_by_value = true /\
  new_client_installs_default = true.
Proof. exact client_source_shape. Qed.
Print Assumptions C11_client_source_shape.

(* The pinned (pre-fix) code violates the first theorem; witness kept checked. *)
Theorem C11_pinned_hostname_refuted :
  exists a, wf_authority a = true /\
    get_hostname_pinned (render_authority a) <> to_lower (host_text (a_host a)).
Proof. exact hostname_pinned_refuted. Qed.
Print Assumptions C11_pinned_hostname_refuted.

(* non-vacuity: the hypotheses are met by concrete non-trivial authorities *)
Example C11_nonvacuous :
  wf_authority {| a_host := HV6 (bs "2001:DB8::1%eth0"); a_port := Some (bs "8443") |} = true /\
  wf_authority {| a_host := HName (bs "WWW.Example.COM."); a_port := Some [] |} = true /\
  get_hostname (bs "[2001:DB8::1%eth0]:8443") = bs "2001:db8::1%eth0" /\
  get_domain (bs "a.b.example.com:80") = bs "b.example.com" /\
  get_domain (bs "10.2.3.4:80") = bs "10.2.3.4" /\
  ip_authority {| a_host := HV6 (bs "2001:DB8::1%eth0"); a_port := Some (bs "8443") |} = true /\
  ip_authority {| a_host := HV6 (bs "a:b.c.d"); a_port := None |} = false /\
  get_domain (bs "[a:b.c.d]") = bs "c.d" /\
  get_domain (bs "256.1.1.1") = bs "1.1.1".
Proof. vm_compute. repeat split. Qed.
Print Assumptions C11_nonvacuous.

(* non-vacuity of the client theorems: A refuses redirects, B := A.Clone(), A is opened up;
   a request through B still stops at the first response, one through A follows *)
Example C11_clients_nonvacuous :
  let hs := [(bs "Authorization", 1); (bs "X-Token", 1)] in
  snd (crun [] [ONew; OSet 0 [PNo]; OClone 0; OSet 0 [PMax 5];
                ODo 1 (bs "a.test") hs [bs "b.test"]; ODo 0 (bs "a.test") hs [bs "b.test"]]) =
  [([{| s_host := bs "a.test"; s_hdrs := hs |}], Refused);
   ([{| s_host := bs "a.test"; s_hdrs := hs |};
     {| s_host := bs "b.test"; s_hdrs := [(bs "Authorization", 0); (bs "X-Token", 1)] |}], Completed)].
Proof. vm_compute. reflexivity. Qed.
Print Assumptions C11_clients_nonvacuous.
