(* Properties/C17.v - Form, multipart and marshalled bodies round-trip; progress callbacks truthful.
   Only statements, `exact`, and Print Assumptions.
   Model: Model/Form.v, Model/Multipart.v, Model/ReqBody.v, Model/Progress.v (+ Gen/PayloadForbid.v,
   Gen/ContentTypes.v regenerated from the Go source). *)
From Coq Require Import ZArith Permutation.
From ReqV Require Import Lib.Bytes Model.Form Model.Multipart Model.ReqBody Model.Progress
  Proofs.FormProofs Proofs.MultipartProofs Proofs.ReqBodyProofs Proofs.ProgressProofs
  Model.Session Proofs.SessionProofs Model.BodySetters Proofs.BodySettersProofs.

(* ------------------------------------------------------------------ url-encoded forms *)

(* QueryUnescape inverts QueryEscape on every byte string *)
Theorem C17_unescape_escape : forall s, query_unescape (query_escape s) = Some s.
Proof. exact unescape_escape. Qed.
Print Assumptions C17_unescape_escape.

(* plain form data: the server-side parser accepts the body and sees, as a multimap, exactly the
   caller's map - for ALL byte strings as keys and values *)
Theorem C17_form_roundtrip : forall m,
  NoDup (map fst m) ->
  snd (parse_query (encode_form m)) = false /\
  forall k, values_of k (parse_form (encode_form m)) = lookup k m.
Proof. exact form_roundtrip. Qed.
Print Assumptions C17_form_roundtrip.

(* ... and the pairs arrive with the keys sorted, the values of a key in the caller's order *)
Theorem C17_form_pairs_exact : forall m,
  parse_query (encode_form m) = (flatten (sort_form m), false) /\ keys_sorted (sort_form m).
Proof. exact form_pairs_exact. Qed.
Print Assumptions C17_form_pairs_exact.

(* client-level and request-level form data both arrive *)
Theorem C17_merged_form_roundtrip : forall rf cf,
  NoDup (map fst rf) ->
  snd (parse_query (encode_form (merge_form rf cf))) = false /\
  forall k, values_of k (parse_form (encode_form (merge_form rf cf))) = lookup k rf ++ lookup k cf.
Proof. exact merged_form_roundtrip. Qed.
Print Assumptions C17_merged_form_roundtrip.

(* ordered form data: the exact list of pairs, in order; every string supplied is carried *)
Theorem C17_ordered_roundtrip : forall kvs body,
  encode_ordered kvs = Some body ->
  parse_query body = (pair_up kvs, false) /\
  flat_map (fun p => [fst p; snd p]) (pair_up kvs) = kvs.
Proof. exact ordered_roundtrip. Qed.
Print Assumptions C17_ordered_roundtrip.

(* the url-encoded branch of parseRequestBody as a whole (ordered, plain, both levels, any mix):
   ordered pairs in order, then the plain data; nothing supplied is lost, nothing invented *)
Theorem C17_form_body_pairs : forall rf cf ord b,
  form_plan_of rf cf ord = FBody b ->
  parse_query b = (pair_up ord ++ flatten (sort_form (merged_form rf cf)), false).
Proof. exact form_body_pairs. Qed.
Print Assumptions C17_form_body_pairs.

Theorem C17_form_body_roundtrip : forall rf cf ord b,
  NoDup (map fst rf) ->
  form_plan_of rf cf ord = FBody b ->
  snd (parse_query b) = false /\
  forall k, values_of k (parse_form b) = values_of k (pair_up ord) ++ lookup k rf ++ lookup k cf.
Proof. exact form_body_roundtrip. Qed.
Print Assumptions C17_form_body_roundtrip.

(* an odd number of ordered strings is refused (and only that) *)
Theorem C17_form_refused_iff_odd : forall rf cf ord,
  form_plan_of rf cf ord = FBadOrdered <-> Nat.odd (length ord) = true.
Proof. exact form_refused_iff. Qed.
Print Assumptions C17_form_refused_iff_odd.

(* ------------------------------------------------------------------ multipart *)

(* every sequence of parts the writer emits is read back exactly, in order - any number of parts;
   the hypotheses are visible: SetBoundary's character set, header bytes textproto accepts,
   CRLF--boundary occurs in no part body *)
Theorem C17_parse_render : forall b ps,
  boundary_chars b = true -> forallb (part_ok b) ps = true ->
  parse_multipart b (render_multipart b ps) = Some ps.
Proof. exact parse_render. Qed.
Print Assumptions C17_parse_render.

(* fields, then files in order, with the names, file names, content types (given or sniffed) and
   bytes supplied; any number of files.  field_ok / file_ok: names without control bytes,
   CRLF--boundary in no value / file content, content type made of header-value bytes *)
Theorem C17_multipart_roundtrip : forall is_print sniff b fields files,
  boundary_chars b = true ->
  forallb (field_ok b) fields = true ->
  forallb (file_ok is_print sniff b) files = true ->
  parse_form_parts b (multipart_body is_print sniff b fields files) =
  Some (map field_view fields ++ map (file_view sniff) files).
Proof. exact multipart_roundtrip. Qed.
Print Assumptions C17_multipart_roundtrip.

(* a file name can never change the part structure: whatever bytes it holds, its quoted form
   consists of bytes a header value may carry (no CR, LF, NUL ...) *)
Theorem C17_quoted_name_is_header_safe : forall is_print s, forallb valid_hv (go_quote is_print s) = true.
Proof. exact go_quote_valid. Qed.
Print Assumptions C17_quoted_name_is_header_safe.

(* for EVERY file name (any bytes, invalid UTF-8, unprintable runes) the server's quoted-string
   reader recovers a definite name (name_image), and that name is the one supplied exactly when the
   name is quotable: no ASCII control byte, valid UTF-8, only runes strconv.IsPrint accepts *)
Theorem C17_file_name_recovered_iff : forall is_print s r,
  unquote (quote_body is_print (length s) s ++ dquote :: r) = Some (name_image is_print (length s) s, r) /\
  (name_image is_print (length s) s = s <-> quotable is_print s = true).
Proof. exact file_name_recovered. Qed.
Print Assumptions C17_file_name_recovered_iff.

(* field names: every name the code accepts (no control byte other than TAB) arrives exactly *)
Theorem C17_field_name_recovered : forall s r,
  field_name_ok s = true -> unquote (escape_quotes s ++ dquote :: r) = Some (s, r).
Proof. exact unquote_escape_quotes. Qed.
Print Assumptions C17_field_name_recovered.

(* the boundary parameter of the request's Content-Type is the boundary of the body *)
Theorem C17_content_type_names_boundary : forall b,
  valid_boundary b = true -> parse_boundary_param (form_data_content_type b) = Some b.
Proof. exact content_type_names_boundary. Qed.
Print Assumptions C17_content_type_names_boundary.

(* ------------------------------------------------------------------ dispatch *)

(* HEAD, OPTIONS, and GET unless AllowGetMethodPayload: no payload whatever was configured *)
Theorem C17_forbidden_methods_send_nothing : forall is_print sniff q,
  payload_forbidden (q_method q) (q_allow_get q) = true -> plan_of is_print sniff q = PNone.
Proof. exact forbidden_methods_send_nothing. Qed.
Print Assumptions C17_forbidden_methods_send_nothing.

Theorem C17_head_options_get_send_nothing : forall is_print sniff q,
  q_method q = bs "HEAD" \/ q_method q = bs "OPTIONS" \/
  (q_method q = bs "GET" /\ q_allow_get q = false) ->
  plan_of is_print sniff q = PNone.
Proof. exact head_options_get_send_nothing. Qed.
Print Assumptions C17_head_options_get_send_nothing.

(* the table regenerated from isPayloadForbid is exactly that set *)
Theorem C17_payload_forbidden_spec : forall m allow,
  payload_forbidden m allow =
  (bytes_eqb (bs "GET") m && negb allow) || bytes_eqb (bs "HEAD") m || bytes_eqb (bs "OPTIONS") m.
Proof. exact payload_forbidden_spec. Qed.
Print Assumptions C17_payload_forbidden_spec.

(* a prepared body comes under the Content-Type that describes it *)
Theorem C17_content_type_matches_body : forall is_print sniff q ct body,
  valid_boundary (q_random_boundary q) = true ->
  plan_of is_print sniff q = PBody ct body ->
  (q_multipart q = false /\ ct = form_ct /\ snd (parse_query body) = false) \/
  (q_multipart q = true /\
   let b := effective_boundary (q_custom_boundary q) (q_random_boundary q) in
   parse_boundary_param ct = Some b /\
   forallb (fun kv => field_name_ok (fst kv)) (multipart_fields q) = true /\
   body = multipart_body is_print sniff b (multipart_fields q) (q_files q)).
Proof. exact content_type_matches_body. Qed.
Print Assumptions C17_content_type_matches_body.

(* a multipart request as a whole: the boundary named in Content-Type frames a body that reads
   back as the ordered pairs, the plain form data of both levels, and the files in order.  Nothing
   is asked of the field names: a request whose field names cannot be carried is refused *)
Theorem C17_multipart_request_roundtrip : forall is_print sniff q ct body,
  valid_boundary (q_random_boundary q) = true ->
  plan_of is_print sniff q = PBody ct body -> q_multipart q = true ->
  let b := effective_boundary (q_custom_boundary q) (q_random_boundary q) in
  forallb (value_ok b) (multipart_fields q) = true ->
  forallb (file_ok is_print sniff b) (q_files q) = true ->
  parse_boundary_param ct = Some b /\
  parse_form_parts b body =
  Some (map field_view (multipart_fields q) ++ map (file_view sniff) (q_files q)).
Proof. exact multipart_request_roundtrip. Qed.
Print Assumptions C17_multipart_request_roundtrip.

Theorem C17_bad_field_name_refused : forall is_print sniff q,
  payload_forbidden (q_method q) (q_allow_get q) = false -> q_multipart q = true ->
  forallb (fun kv => field_name_ok (fst kv)) (multipart_fields q) = false ->
  plan_of is_print sniff q = PError.
Proof. exact bad_field_name_refused. Qed.
Print Assumptions C17_bad_field_name_refused.

(* SetFiles attaches the files in map iteration order: every order gives the same multiset of parts *)
Theorem C17_files_any_order : forall is_print sniff b fields files files',
  boundary_chars b = true ->
  forallb (field_ok b) fields = true ->
  forallb (file_ok is_print sniff b) files = true ->
  Permutation files files' ->
  exists vs vs',
    parse_form_parts b (multipart_body is_print sniff b fields files) = Some vs /\
    parse_form_parts b (multipart_body is_print sniff b fields files') = Some vs' /\
    Permutation vs vs'.
Proof. exact files_any_order. Qed.
Print Assumptions C17_files_any_order.

(* marshalled values: XML iff the effective Content-Type says xml; the JSON content type is
   set exactly when the caller gave none, and then the body is JSON *)
Theorem C17_marshaller_matches_content_type : forall rct cct m ct,
  choose_marshaller rct cct = (m, ct) ->
  let preset := match rct with [] => cct | _ => rct end in
  let eff := match ct with Some c => c | None => preset end in
  (m = MXml <-> is_xml_type eff = true) /\
  (ct = None <-> preset <> []) /\
  (forall c, ct = Some c -> c = json_ct /\ m = MJson).
Proof. exact marshaller_matches_content_type. Qed.
Print Assumptions C17_marshaller_matches_content_type.

(* ------------------------------------------------------------------ progress callbacks *)

(* uploads, for every chunking, clock, interval and declared size: reported counts strictly
   increase and never exceed what was really written *)
Theorem C17_upload_progress_monotone_bounded : forall total interval evs st,
  incr_above (w_written st) (run_writer total interval st evs) /\
  Forall (fun r => (r <= w_written st + written_total evs)%Z) (run_writer total interval st evs).
Proof. exact upload_progress_monotone_bounded. Qed.
Print Assumptions C17_upload_progress_monotone_bounded.

(* ... and when the declared size is the true size (> 0) the last report is exactly it *)
Theorem C17_upload_progress_final : forall total interval t0 evs,
  written_total evs = total -> (0 < total)%Z ->
  exists p, run_writer total interval (w0 t0) evs = p ++ [total].
Proof. exact upload_progress_final. Qed.
Print Assumptions C17_upload_progress_final.

(* downloads, for every chunking, clock and interval *)
Theorem C17_download_progress_monotone_bounded : forall interval evs st,
  (r_lastread st <= r_read st)%Z ->
  incr_above (r_lastread st) (run_reader interval st evs) /\
  Forall (fun r => (r <= r_read st + read_total evs)%Z) (run_reader interval st evs).
Proof. exact download_progress_monotone_bounded. Qed.
Print Assumptions C17_download_progress_monotone_bounded.

(* ... a body read to EOF: the last report is the number of bytes delivered (if any) *)
Theorem C17_download_progress_final : forall interval t0 pre n now,
  let evs := pre ++ [(n, true, now)] in
  (0 < read_total evs)%Z ->
  exists p, run_reader interval (r0 t0) evs = p ++ [read_total evs].
Proof. exact download_progress_final. Qed.
Print Assumptions C17_download_progress_final.

(* several response bodies in one call (redirect pages the http client drains, the body of an
   attempt that is retried, the body that is saved): each is read through a fresh wrapper, so the
   reports made for body k depend on body k alone ... *)
Theorem C17_body_reports_independent : forall interval pre post pre' post' b,
  nth (length pre) (run_bodies interval (pre ++ b :: post)) [] =
  nth (length pre') (run_bodies interval (pre' ++ b :: post')) [].
Proof. exact body_reports_independent. Qed.
Print Assumptions C17_body_reports_independent.

(* ... and what the caller is told is truthful for the saved body whatever preceded it *)
Theorem C17_call_progress_truthful : forall interval pre t0 evs,
  let rs := call_reports interval (pre ++ [(t0, evs)]) in
  incr_above 0 rs /\ Forall (fun r => (r <= read_total evs)%Z) rs /\
  (forall evs' n now, evs = evs' ++ [(n, true, now)] -> (0 < read_total evs)%Z ->
     exists p, rs = p ++ [read_total evs]).
Proof. exact call_progress_truthful. Qed.
Print Assumptions C17_call_progress_truthful.

(* one counter shared by the bodies of a call would not be *)
Theorem C17_shared_counter_refuted :
  exists interval bodies,
    let own := nth 1 bodies (0%Z, []) in
    nth 1 (run_bodies_shared interval (r0 0) bodies) [] = [250%Z] /\
    read_total (snd own) = 100%Z /\
    nth 1 (run_bodies interval bodies) [] = [100%Z].
Proof. exact shared_counter_refuted. Qed.
Print Assumptions C17_shared_counter_refuted.

(* int64: with fewer than 2^63 bytes in total every count the Go code computes and reports lies in
   (0, 2^63) - no wrap-around, the Z model is exact *)
Theorem C17_upload_counts_fit_int64 : forall total interval evs st,
  (0 <= w_written st)%Z -> (w_written st + written_total evs < 2 ^ 63)%Z ->
  Forall (fun r => (0 < r < 2 ^ 63)%Z) (run_writer total interval st evs).
Proof. exact upload_counts_fit_int64. Qed.
Print Assumptions C17_upload_counts_fit_int64.

Theorem C17_download_counts_fit_int64 : forall interval evs st,
  (0 <= r_lastread st <= r_read st)%Z -> (r_read st + read_total evs < 2 ^ 63)%Z ->
  Forall (fun r => (0 < r < 2 ^ 63)%Z) (run_reader interval st evs).
Proof. exact download_counts_fit_int64. Qed.
Print Assumptions C17_download_counts_fit_int64.

(* whatever the clock: the reports are a sub-sequence of the running byte totals (this is what
   the checker applies where the harness cannot observe the clock) *)
Theorem C17_upload_any_clock : forall total interval evs st,
  subseq (run_writer total interval st evs) (running (w_written st) (map fst evs)) = true.
Proof. exact upload_any_clock. Qed.
Print Assumptions C17_upload_any_clock.

Theorem C17_download_any_clock : forall interval t0 evs,
  subseq (run_reader interval (r0 t0) evs) (running 0 (map (fun e => fst (fst e)) evs)) = true.
Proof. exact download_any_clock. Qed.
Print Assumptions C17_download_any_clock.

(* ------------------------------------------------------------------ several requests, several executions *)

(* what an execution merged from the client into the request is taken back exactly by the next one:
   the request's own data are what they were (unmergeClientSettings after parseRequestBody's merge) *)
Theorem C17_unmerge_merge : forall rf cf,
  NoDup (map fst rf) -> NoDup (map fst cf) ->
  forall k, lookup k (unmerge (merge_records rf cf) (merge_form rf cf)) = lookup k rf.
Proof. exact unmerge_merge. Qed.
Print Assumptions C17_unmerge_merge.

(* sending the same request again sets up the request's own data plus the client's, like the first
   time: nothing is lost, nothing doubled - and the server sees the same form data both times *)
Theorem C17_resend_same_data : forall c v1 v2 r,
  NoDup (map fst (sr_form r)) -> sr_merged r = [] -> NoDup (map fst c) ->
  forall k, lookup k (sr_form (prepare c v2 (prepare c v1 r))) = lookup k (sr_form r) ++ lookup k c.
Proof. exact resend_same_data. Qed.
Print Assumptions C17_resend_same_data.

Theorem C17_resend_same_body_data : forall c v1 v2 r b1 b2,
  NoDup (map fst (sr_form r)) -> sr_merged r = [] -> NoDup (map fst c) ->
  form_plan_of (sr_form (prepare c v1 r)) [] (sr_ordered r) = FBody b1 ->
  form_plan_of (sr_form (prepare c v2 (prepare c v1 r))) [] (sr_ordered r) = FBody b2 ->
  forall k, values_of k (parse_form b2) = values_of k (parse_form b1).
Proof. exact resend_same_body_data. Qed.
Print Assumptions C17_resend_same_body_data.

(* whatever is done to request i (setters, executions, retries) leaves every other request and the
   client's form data as they were *)
Theorem C17_step_frame : forall s o i j,
  op_target o = Some i -> i <> j ->
  nth j (ss_reqs (fst (sstep s o))) sreq0 = nth j (ss_reqs s) sreq0 /\
  ss_client (fst (sstep s o)) = ss_client s.
Proof. exact step_frame. Qed.
Print Assumptions C17_step_frame.

Theorem C17_client_untouched_by_requests : forall s o,
  (forall c f, o <> SClientAdd c f) -> (forall c, o <> SClone c) ->
  ss_client (fst (sstep s o)) = ss_client s.
Proof. exact client_untouched_by_requests. Qed.
Print Assumptions C17_client_untouched_by_requests.

(* Client.Clone: the clone starts with the original's form data as they are at that moment; from
   then on what is added to one of the two is not seen by the other (nor by any other client) *)
Theorem C17_clone_copies : forall s c,
  nth (length (ss_client s)) (ss_client (fst (sstep s (SClone c)))) [] = nth c (ss_client s) [] /\
  forall d, d < length (ss_client s) ->
    nth d (ss_client (fst (sstep s (SClone c)))) [] = nth d (ss_client s) [].
Proof. exact clone_copies. Qed.
Print Assumptions C17_clone_copies.

Theorem C17_client_add_frame : forall s c d f,
  c <> d -> nth d (ss_client (fst (sstep s (SClientAdd c f)))) [] = nth d (ss_client s) [].
Proof. exact client_add_frame. Qed.
Print Assumptions C17_client_add_frame.

(* every attempt marshals the payload as it is at that moment *)
Theorem C17_attempts_marshal_fresh : forall s i v r,
  r = prepare (client_of s i) (ss_cell s) (nth i (ss_reqs s) sreq0) ->
  form_plan_of (sr_form r) [] (sr_ordered r) = FNone -> sr_body r = true ->
  snd (sstep s (SSendRetry i v)) = [OutMarshal i (ss_cell s); OutMarshal i v] /\
  snd (sstep s (SSend i)) = [OutMarshal i (ss_cell s)].
Proof. exact attempts_marshal_fresh. Qed.
Print Assumptions C17_attempts_marshal_fresh.

(* between set-up and write: whatever other requests do meanwhile (a round-trip wrapper uploading
   something of its own, another goroutine's upload, a retry that changes the shared payload), the
   request sends the body that was set up for it *)
Theorem C17_interleaving_independent : forall s i ops,
  i < length (ss_reqs s) ->
  Forall (other_request i) ops ->
  let s1 := fst (sstep s (SBegin i)) in
  snd (sstep (srun_state s1 ops) (SFinish i)) = snd (sstep s (SSend i)).
Proof. exact interleaving_independent. Qed.
Print Assumptions C17_interleaving_independent.

(* ------------------------------------------------------------------ several body setters on one request *)

(* the last body setter wins: whatever was set before (a value to marshal, bytes, pre-marshalled
   JSON / XML, a reader), an execution sends what the last setter supplied *)
Theorem C17_last_setter_wins : forall l x,
  snd (execute (fold_left apply_setter (l ++ [x]) bf0)) =
  body_of_setter (bf_ct (fold_left apply_setter l bf0)) x.
Proof. exact last_setter_wins. Qed.
Print Assumptions C17_last_setter_wins.

Theorem C17_earlier_setters_irrelevant : forall l l' x,
  bf_ct (fold_left apply_setter l bf0) = bf_ct (fold_left apply_setter l' bf0) ->
  snd (execute (fold_left apply_setter (l ++ [x]) bf0)) =
  snd (execute (fold_left apply_setter (l' ++ [x]) bf0)).
Proof. exact earlier_setters_irrelevant. Qed.
Print Assumptions C17_earlier_setters_irrelevant.

Theorem C17_execute_again_same : forall s,
  bf_stream s = None -> snd (execute (fst (execute s))) = snd (execute s).
Proof. exact execute_again_same. Qed.
Print Assumptions C17_execute_again_same.

(* ------------------------------------------------------------------ the code before the repairs *)

Theorem C17_pinned_drops_ordered_form :
  exists cf ord b,
    form_plan_of_pinned [] cf ord = FBody b /\
    values_of (bs "z") (pair_up ord) = [bs "1"] /\
    values_of (bs "z") (parse_form b) = [] /\
    exists b', form_plan_of [] cf ord = FBody b' /\ values_of (bs "z") (parse_form b') = [bs "1"].
Proof. exact pinned_drops_ordered_form. Qed.
Print Assumptions C17_pinned_drops_ordered_form.

Theorem C17_pinned_drops_client_form_in_multipart :
  exists q, q_multipart q = true /\ lookup (bs "b") (q_cform q) = [bs "x"] /\
    values_of (bs "b") (multipart_fields_pinned q) = [] /\
    values_of (bs "b") (multipart_fields q) = [bs "x"].
Proof. exact pinned_drops_client_form_in_multipart. Qed.
Print Assumptions C17_pinned_drops_client_form_in_multipart.

(* ------------------------------------------------------------------ non-vacuity *)

Example C17_nonvacuous :
  let m := [(bs "b k", [bs "1&2"; bs "=%"]); (bs "a", [bs "x y"])] in
  NoDup (map fst m) /\
  encode_form m = bs "a=x+y&b+k=1%262&b+k=%3D%25" /\
  encode_ordered [bs "z"; bs "1"; bs "a"; bs "2"] = Some (bs "z=1&a=2").
Proof.
  cbn zeta. split; [|split; vm_compute; reflexivity].
  repeat constructor; cbn; intuition discriminate.
Qed.

(* the multipart hypotheses are met by a request with fields, quoting-needing names, two files *)
Example C17_multipart_nonvacuous :
  let sniff := fun _ : bytes => bs "application/octet-stream" in
  let is_print := fun r : N => N.eqb r 233 in   (* U+00E9 *)
  let b := bs "XyZ" in
  let fields := [(bs "k ""q""", bs "v1"); (bs "", bs "--XyZ")] in
  let files := [ {| f_param := bs "file"; f_name := bs "a""b\c.txt"; f_ctype := []; f_extra := [];
                    f_content := bs "hello"; f_first := 5 |};
                 {| f_param := bs "file"; f_name := bs "é.bin"; f_ctype := bs "text/plain";
                    f_extra := [(bs "x-id", bs "7""")];
                    f_content := []; f_first := 0 |} ] in
  boundary_chars b = true /\ forallb (field_ok b) fields = true /\
  forallb (file_ok is_print sniff b) files = true /\
  parse_form_parts b (multipart_body is_print sniff b fields files) =
  Some (map field_view fields ++ map (file_view sniff) files).
Proof. cbn zeta. repeat split; vm_compute; reflexivity. Qed.

Example C17_progress_nonvacuous :
  run_writer 1536 1000 (w0 0) [(512, 10); (0, 20); (512, 30); (512, 2000)]%Z = [1536]%Z /\
  run_reader 0 (r0 0) [(512, false, 1); (100, false, 2); (0, true, 3)]%Z = [512; 612]%Z /\
  run_reader 1000 (r0 0) [(512, false, 1); (100, false, 2); (0, true, 3)]%Z = [612]%Z.
Proof. repeat split; vm_compute; reflexivity. Qed.
