(* Properties/C17.v - Form, multipart and marshalled bodies round-trip; progress callbacks truthful.
   Only statements, `exact`, and Print Assumptions.
   Model: Model/Form.v, Model/ReqBody.v. *)
From ReqV Require Import Lib.Bytes Model.Form Model.ReqBody Proofs.FormProofs.

(* QueryUnescape inverts QueryEscape on every byte string *)
Theorem C17_unescape_escape : forall s, query_unescape (query_escape s) = Some s.
Proof. exact unescape_escape. Qed.
Print Assumptions C17_unescape_escape.

(* plain form data: the server-side parser accepts the body and sees, as a multimap, exactly the
   caller's map - for ALL byte strings as keys and values *)
Theorem C17_form_roundtrip : forall m,
  NoDup (map fst m) ->
  snd (parse_query (encode_form m)) = false /\
  forall k, values_of k (parse_form (encode_form m)) = lookup k m.
Proof. exact form_roundtrip. Qed.
Print Assumptions C17_form_roundtrip.

(* ... and the pairs arrive with the keys sorted, the values of a key in the caller's order *)
Theorem C17_form_pairs_exact : forall m,
  parse_query (encode_form m) = (flatten (sort_form m), false) /\ keys_sorted (sort_form m).
Proof. exact form_pairs_exact. Qed.
Print Assumptions C17_form_pairs_exact.

(* client-level and request-level form data both arrive *)
Theorem C17_merged_form_roundtrip : forall rf cf,
  NoDup (map fst rf) ->
  snd (parse_query (encode_form (merge_form rf cf))) = false /\
  forall k, values_of k (parse_form (encode_form (merge_form rf cf))) = lookup k rf ++ lookup k cf.
Proof. exact merged_form_roundtrip. Qed.
Print Assumptions C17_merged_form_roundtrip.

(* ordered form data: the exact list of pairs, in order *)
Theorem C17_ordered_roundtrip : forall kvs body,
  encode_ordered kvs = Some body ->
  parse_query body = (pair_up kvs, false) /\
  flat_map (fun p => [fst p; snd p]) (pair_up kvs) = kvs.
Proof. exact ordered_roundtrip. Qed.
Print Assumptions C17_ordered_roundtrip.

Theorem C17_ordered_refused_iff_odd : forall kvs,
  encode_ordered kvs = None <-> Nat.odd (length kvs) = true.
Proof. exact ordered_refused_iff_odd. Qed.
Print Assumptions C17_ordered_refused_iff_odd.

Example C17_nonvacuous :
  let m := [(bs "b k", [bs "1&2"; bs "=%"]); (bs "a", [bs "x y"])] in
  NoDup (map fst m) /\
  encode_form m = bs "a=x+y&b+k=1%262&b+k=%3D%25" /\
  encode_ordered [bs "z"; bs "1"; bs "a"; bs "2"] = Some (bs "z=1&a=2").
Proof.
  cbn zeta. split; [|split; vm_compute; reflexivity].
  repeat constructor; cbn; intuition discriminate.
Qed.
