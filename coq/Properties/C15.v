(* Properties/C15.v - Charset auto-decoding never corrupts text.
   Only statements, `exact`, and Print Assumptions.  Model: Model/Charset.v (decision of
   Transport.autoDecodeResponseBody + state machine of autoDecodeReadCloser after fix 0f7aacc).
   Every theorem quantifies over ALL decoders (enc, dec_all, dec_stream), detection functions
   (find_encoding = charsets.FindEncoding), Content-Type parsers and label tables; the only
   hypothesis is [decoder_ok]: x/text's streaming reader fed with the body in any pieces delivers
   what Decoder.Bytes makes of the whole body.  [respond ... = (o, EEOF)] reads: the caller, reading
   with buffers of the given sizes, reached io.EOF and received o in total. *)
From ReqV Require Import Lib.Bytes Model.Charset Model.CharsetFind Proofs.CharsetProofs Proofs.CharsetTermination
     Proofs.CharsetFindProofs Proofs.CharsetPinned Proofs.CharsetToyStream Proofs.CharsetInterleave
     Model.CharsetConfig Proofs.CharsetConfigProofs Proofs.CharsetConfigPins Gen.DecodeSetters
     Proofs.CharsetLabels Gen.WhatwgLabels.

(* for every body, every split into network reads, every sequence of caller buffer sizes and every
   hand-out schedule of the x/text reader: the delivered body is the original bytes or the
   transcoding of the WHOLE original body - nothing added, lost or replaced *)
Theorem C15_two_results_only :
  forall (enc : Type) (dec_all : enc -> bytes -> bytes) (dec_stream dec_partial : enc -> list bytes -> bytes)
         (find_encoding : bytes -> option enc) (parse_ct : bytes -> ct_parse)
         (lookup_charset : bytes -> option enc),
    decoder_ok dec_all dec_stream ->
    forall disable sel resp_ce ct chunks eof_last fail takes sizes o,
      respond dec_stream dec_partial find_encoding parse_ct lookup_charset
              disable sel resp_ce ct chunks eof_last fail takes sizes = (o, EEOF) ->
      o = concat chunks \/ exists e, o = dec_all e (concat chunks).
Proof. exact two_results_only. Qed.
Print Assumptions C15_two_results_only.

(* ... and exactly which one: by the installed reader; for the sniffing reader by what FindEncoding
   says about the first non-empty read *)
Theorem C15_respond_exact :
  forall (enc : Type) (dec_all : enc -> bytes -> bytes) (dec_stream dec_partial : enc -> list bytes -> bytes)
         (find_encoding : bytes -> option enc) (parse_ct : bytes -> ct_parse)
         (lookup_charset : bytes -> option enc),
    decoder_ok dec_all dec_stream ->
    forall disable sel resp_ce ct chunks eof_last fail takes sizes o,
      respond dec_stream dec_partial find_encoding parse_ct lookup_charset
              disable sel resp_ce ct chunks eof_last fail takes sizes = (o, EEOF) ->
      o = match decide parse_ct lookup_charset disable sel resp_ce ct with
          | IRaw => concat chunks
          | IHeader e => dec_all e (concat chunks)
          | ISniff => result_of dec_all (sniffed find_encoding sizes (fresh_net chunks eof_last fail)) (concat chunks)
          end.
Proof. exact respond_exact. Qed.
Print Assumptions C15_respond_exact.

(* a supported non-UTF-8 charset in Content-Type is applied whatever the split and the caller sizes *)
Theorem C15_header_charset_always_applied :
  forall (enc : Type) (dec_all : enc -> bytes -> bytes) (dec_stream dec_partial : enc -> list bytes -> bytes)
         (find_encoding : bytes -> option enc) (parse_ct : bytes -> ct_parse)
         (lookup_charset : bytes -> option enc),
    decoder_ok dec_all dec_stream ->
    forall disable sel resp_ce ct v e chunks eof_last fail takes sizes o,
      should_decode disable sel resp_ce ct = true ->
      parse_ct ct = PCharset v ->
      is_utf8_label (to_lower v) = false ->
      lookup_charset (to_lower v) = Some e ->
      respond dec_stream dec_partial find_encoding parse_ct lookup_charset
              disable sel resp_ce ct chunks eof_last fail takes sizes = (o, EEOF) ->
      o = dec_all e (concat chunks).
Proof. exact header_charset_always_applied. Qed.
Print Assumptions C15_header_charset_always_applied.

(* utf-8 or an unsupported label in Content-Type: original bytes (the body is not sniffed either) *)
Theorem C15_header_utf8_or_unknown_left :
  forall (enc : Type) (dec_all : enc -> bytes -> bytes) (dec_stream dec_partial : enc -> list bytes -> bytes)
         (find_encoding : bytes -> option enc) (parse_ct : bytes -> ct_parse)
         (lookup_charset : bytes -> option enc),
    decoder_ok dec_all dec_stream ->
    forall disable sel resp_ce ct v chunks eof_last fail takes sizes o,
      parse_ct ct = PCharset v ->
      is_utf8_label (to_lower v) = true \/ lookup_charset (to_lower v) = None ->
      respond dec_stream dec_partial find_encoding parse_ct lookup_charset
              disable sel resp_ce ct chunks eof_last fail takes sizes = (o, EEOF) ->
      o = concat chunks.
Proof. exact header_utf8_or_unknown_left. Qed.
Print Assumptions C15_header_utf8_or_unknown_left.

(* splits and caller reads can only change the outcome through detection: with a charset in
   Content-Type, or whenever FindEncoding answers the same on the two first reads, the delivered
   bodies are identical *)
Theorem C15_split_only_affects_detection :
  forall (enc : Type) (dec_all : enc -> bytes -> bytes) (dec_stream dec_partial : enc -> list bytes -> bytes)
         (find_encoding : bytes -> option enc) (parse_ct : bytes -> ct_parse)
         (lookup_charset : bytes -> option enc),
    decoder_ok dec_all dec_stream ->
    forall disable sel resp_ce ct chunks1 eof1 fail1 takes1 sizes1 o1 chunks2 eof2 fail2 takes2 sizes2 o2,
      concat chunks1 = concat chunks2 ->
      respond dec_stream dec_partial find_encoding parse_ct lookup_charset
              disable sel resp_ce ct chunks1 eof1 fail1 takes1 sizes1 = (o1, EEOF) ->
      respond dec_stream dec_partial find_encoding parse_ct lookup_charset
              disable sel resp_ce ct chunks2 eof2 fail2 takes2 sizes2 = (o2, EEOF) ->
      (decide parse_ct lookup_charset disable sel resp_ce ct <> ISniff \/
       sniffed find_encoding sizes1 (fresh_net chunks1 eof1 fail1) =
       sniffed find_encoding sizes2 (fresh_net chunks2 eof2 fail2)) ->
      o1 = o2.
Proof. exact split_only_affects_detection. Qed.
Print Assumptions C15_split_only_affects_detection.

(* detection never looks at anything but a non-empty prefix of the body (no stale buffer bytes) *)
Theorem C15_detection_sees_a_prefix_of_the_body :
  forall sizes n b,
    first_read sizes n = Some b -> b <> [] /\ exists rest, concat (n_chunks n) = b ++ rest.
Proof. exact first_read_prefix. Qed.
Print Assumptions C15_detection_sees_a_prefix_of_the_body.

(* content types not selected (or auto-decode off, or a body still content-encoded):
   the body object is left in place, every read is the network's own read *)
Theorem C15_unselected_untouched :
  forall (enc : Type) (dec_all : enc -> bytes -> bytes) (dec_stream dec_partial : enc -> list bytes -> bytes)
         (find_encoding : bytes -> option enc) (parse_ct : bytes -> ct_parse)
         (lookup_charset : bytes -> option enc),
    decoder_ok dec_all dec_stream ->
    forall disable sel resp_ce ct chunks eof_last fail takes,
      should_decode disable sel resp_ce ct = false ->
      open_body dec_stream dec_partial (decide parse_ct lookup_charset disable sel resp_ce ct) chunks eof_last fail takes
        = BRaw (fresh_net chunks eof_last fail) /\
      forall sizes o,
        respond dec_stream dec_partial find_encoding parse_ct lookup_charset
                disable sel resp_ce ct chunks eof_last fail takes sizes = (o, EEOF) ->
        o = concat chunks.
Proof. exact unselected_untouched. Qed.
Print Assumptions C15_unselected_untouched.

(* a body that is STILL content-encoded when it reaches the charset stage (Content-Encoding left on the
   response: unsupported coding, decompression off) counts as not selected: untouched *)
Theorem C15_still_encoded_untouched :
  forall (enc : Type) (dec_all : enc -> bytes -> bytes) (dec_stream dec_partial : enc -> list bytes -> bytes)
         (find_encoding : bytes -> option enc) (parse_ct : bytes -> ct_parse)
         (lookup_charset : bytes -> option enc),
    decoder_ok dec_all dec_stream ->
    forall disable sel resp_ce ct chunks eof_last fail takes,
      resp_ce <> [] ->
      open_body dec_stream dec_partial (decide parse_ct lookup_charset disable sel resp_ce ct) chunks eof_last fail takes
        = BRaw (fresh_net chunks eof_last fail) /\
      forall sizes o,
        respond dec_stream dec_partial find_encoding parse_ct lookup_charset
                disable sel resp_ce ct chunks eof_last fail takes sizes = (o, EEOF) ->
        o = concat chunks.
Proof. exact still_encoded_untouched. Qed.
Print Assumptions C15_still_encoded_untouched.

Theorem C15_should_decode_iff :
  forall disable sel resp_ce ct,
    should_decode disable sel resp_ce ct = true <->
    disable = false /\ resp_ce = [] /\ selected sel ct = true.
Proof. exact should_decode_iff. Qed.
Print Assumptions C15_should_decode_iff.

(* Byte-order marks (FindEncoding's table regenerated from internal/charsets/charsets.go; hypotheses:
   decoder_ok, the HTML prescan finds nothing in <= 2 bytes, and what htmlcharset.Lookup answers for
   the table's labels).  UTF-8 BOM: never transcoded, however the body is split and read ... *)
Theorem C15_bom_utf8_never_transcoded :
  forall (enc : Type) (dec_all : enc -> bytes -> bytes) (dec_stream dec_partial : enc -> list bytes -> bytes)
         (parse_ct : bytes -> ct_parse) (lookup_charset : bytes -> option enc)
         (lookup_name prescan : bytes -> option (enc * bytes)),
    decoder_ok dec_all dec_stream ->
    (forall b, length b <= 2 -> prescan b = None) ->
    forall disable sel resp_ce ct chunks eof_last fail takes sizes o rest0 e8 n8,
      lookup_name (bs "utf-8") = Some (e8, n8) -> is_utf8_name n8 = true ->
      decide parse_ct lookup_charset disable sel resp_ce ct = ISniff ->
      concat chunks = [xef; xbb; xbf] ++ rest0 ->
      respond dec_stream dec_partial (find_encoding_m lookup_name prescan) parse_ct lookup_charset
              disable sel resp_ce ct chunks eof_last fail takes sizes = (o, EEOF) ->
      o = concat chunks.
Proof. exact bom_utf8_never_transcoded. Qed.
Print Assumptions C15_bom_utf8_never_transcoded.

(* ... UTF-16 BOM: transcoded from that UTF-16 flavour when the first non-empty read holds the two
   bytes of the mark, left alone when it holds only one; no third outcome *)
Theorem C15_bom_utf16_decided_by_first_read :
  forall (enc : Type) (dec_all : enc -> bytes -> bytes) (dec_stream dec_partial : enc -> list bytes -> bytes)
         (parse_ct : bytes -> ct_parse) (lookup_charset : bytes -> option enc)
         (lookup_name prescan : bytes -> option (enc * bytes)),
    decoder_ok dec_all dec_stream ->
    (forall b, length b <= 2 -> prescan b = None) ->
    forall disable sel resp_ce ct chunks eof_last fail takes sizes o mark label rest0 e n b,
      In (mark, label) [([xff; xfe], bs "utf-16le"); ([xfe; xff], bs "utf-16be")] ->
      lookup_name label = Some (e, n) -> is_utf8_name n = false ->
      decide parse_ct lookup_charset disable sel resp_ce ct = ISniff ->
      concat chunks = mark ++ rest0 ->
      first_read sizes (fresh_net chunks eof_last fail) = Some b ->
      respond dec_stream dec_partial (find_encoding_m lookup_name prescan) parse_ct lookup_charset
              disable sel resp_ce ct chunks eof_last fail takes sizes = (o, EEOF) ->
      (2 <= length b -> o = dec_all e (concat chunks)) /\ (length b = 1 -> o = concat chunks).
Proof. exact bom_utf16_decided_by_first_read. Qed.
Print Assumptions C15_bom_utf16_decided_by_first_read.

(* the default selection table and the utf-8 test as in the source (tables regenerated by gosync) *)
Theorem C15_default_selection :
  forall ct,
    selected SelDefault ct = true <->
    exists f, In f [bs "text"; bs "json"; bs "xml"; bs "html"; bs "java"] /\ contains_sub f ct = true.
Proof. exact default_selection. Qed.
Print Assumptions C15_default_selection.

Theorem C15_utf8_label :
  forall v, is_utf8_label v = contains_sub (bs "utf-8") v || contains_sub (bs "utf8") v.
Proof. exact is_utf8_label_spec. Qed.
Print Assumptions C15_utf8_label.

(* caller buffer sizes do not matter beyond the size of the very first non-empty read *)
Theorem C15_read_size_independent :
  forall (enc : Type) (dec_all : enc -> bytes -> bytes) (dec_stream dec_partial : enc -> list bytes -> bytes)
         (find_encoding : bytes -> option enc) (parse_ct : bytes -> ct_parse)
         (lookup_charset : bytes -> option enc),
    decoder_ok dec_all dec_stream ->
    forall disable sel resp_ce ct chunks eof_last fail takes1 sizes1 o1 takes2 sizes2 o2,
      respond dec_stream dec_partial find_encoding parse_ct lookup_charset
              disable sel resp_ce ct chunks eof_last fail takes1 sizes1 = (o1, EEOF) ->
      respond dec_stream dec_partial find_encoding parse_ct lookup_charset
              disable sel resp_ce ct chunks eof_last fail takes2 sizes2 = (o2, EEOF) ->
      (decide parse_ct lookup_charset disable sel resp_ce ct <> ISniff \/
       first_read sizes1 (fresh_net chunks eof_last fail) = first_read sizes2 (fresh_net chunks eof_last fail)) ->
      o1 = o2.
Proof. exact read_size_independent. Qed.
Print Assumptions C15_read_size_independent.

Theorem C15_read_size_independent_first_chunk :
  forall (enc : Type) (dec_all : enc -> bytes -> bytes) (dec_stream dec_partial : enc -> list bytes -> bytes)
         (find_encoding : bytes -> option enc) (parse_ct : bytes -> ct_parse)
         (lookup_charset : bytes -> option enc),
    decoder_ok dec_all dec_stream ->
    forall disable sel resp_ce ct c rest eof_last fail takes1 k1 r1 o1 takes2 k2 r2 o2,
      c <> [] -> length c <= k1 -> length c <= k2 ->
      respond dec_stream dec_partial find_encoding parse_ct lookup_charset
              disable sel resp_ce ct (c :: rest) eof_last fail takes1 (k1 :: r1) = (o1, EEOF) ->
      respond dec_stream dec_partial find_encoding parse_ct lookup_charset
              disable sel resp_ce ct (c :: rest) eof_last fail takes2 (k2 :: r2) = (o2, EEOF) ->
      o1 = o2.
Proof. exact read_size_independent_first_chunk. Qed.
Print Assumptions C15_read_size_independent_first_chunk.

(* the premise "reached io.EOF" is always met (on a network that does not fail): every reading ends -
   with io.EOF or the network's error - within a bounded number of reads, whatever the split, the (positive) buffer sizes and the reader's schedule *)
Theorem C15_terminates :
  forall (enc : Type) (dec_all : enc -> bytes -> bytes) (dec_stream dec_partial : enc -> list bytes -> bytes)
         (find_encoding : bytes -> option enc) (parse_ct : bytes -> ct_parse)
         (lookup_charset : bytes -> option enc),
    forall disable sel resp_ce ct chunks eof_last fail takes sizes N,
      Forall (fun k => 1 <= k) sizes ->
      (forall en cs, concat cs = concat chunks -> length (stream_out dec_stream dec_partial en cs fail) <= N) ->
      length chunks + length (concat chunks) + N + 1 < length sizes ->
      snd (respond dec_stream dec_partial find_encoding parse_ct lookup_charset
                   disable sel resp_ce ct chunks eof_last fail takes sizes) <> ENone.
Proof. exact terminates. Qed.
Print Assumptions C15_terminates.

(* peek is never set by the repaired peekRead: peekDrain is unreachable, nothing is carried over
   outside the streaming decoder *)
Theorem C15_peek_never_set :
  forall (enc : Type) (dec_stream dec_partial : enc -> list bytes -> bytes) (find_encoding : bytes -> option enc)
         sizes b,
    peek_clear b -> Forall (fun x => peek_clear (snd x)) (run dec_stream dec_partial find_encoding sizes b).
Proof. exact peek_never_set. Qed.
Print Assumptions C15_peek_never_set.

(* the per-call trace evaluated by Model/C15Run.v and the delivered body the theorems speak about
   are the same computation *)
Theorem C15_read_all_is_the_trace :
  forall (enc : Type) (dec_stream dec_partial : enc -> list bytes -> bytes) (find_encoding : bytes -> option enc)
         sizes b,
    read_all dec_stream dec_partial find_encoding sizes b =
      (concat (map (fun x => fst (fst x)) (run dec_stream dec_partial find_encoding sizes b)),
       last (map (fun x => snd (fst x)) (run dec_stream dec_partial find_encoding sizes b)) ENone).
Proof. exact read_all_run. Qed.
Print Assumptions C15_read_all_is_the_trace.

(* A network error in mid-body always reaches the caller (never a clean io.EOF) ... *)
Theorem C15_net_error_surfaces :
  forall (enc : Type) (dec_stream dec_partial : enc -> list bytes -> bytes)
         (find_encoding : bytes -> option enc) (parse_ct : bytes -> ct_parse)
         (lookup_charset : bytes -> option enc),
    forall disable sel resp_ce ct chunks eof_last takes sizes o e,
      respond dec_stream dec_partial find_encoding parse_ct lookup_charset
              disable sel resp_ce ct chunks eof_last true takes sizes = (o, e) -> e <> EEOF.
Proof. exact net_error_surfaces. Qed.
Print Assumptions C15_net_error_surfaces.

(* ... and the bytes delivered before it are a prefix of one of the two permitted bodies of the COMPLETE
   response, whatever would have followed (hypothesis: what a transform.Reader delivers before
   surfacing a source error is a prefix of the transcoding of any completion of its input) *)
Theorem C15_net_error_prefix :
  forall (enc : Type) (dec_all : enc -> bytes -> bytes) (dec_stream dec_partial : enc -> list bytes -> bytes)
         (find_encoding : bytes -> option enc) (parse_ct : bytes -> ct_parse)
         (lookup_charset : bytes -> option enc),
    forall disable sel resp_ce ct chunks eof_last takes sizes o,
      (forall e cs rest, exists tail, dec_all e (concat cs ++ rest) = dec_partial e cs ++ tail) ->
      respond dec_stream dec_partial find_encoding parse_ct lookup_charset
              disable sel resp_ce ct chunks eof_last true takes sizes = (o, EFail) ->
      forall rest,
        (exists tail, concat chunks ++ rest = o ++ tail) \/
        (exists en tail, dec_all en (concat chunks ++ rest) = o ++ tail).
Proof. exact net_error_prefix. Qed.
Print Assumptions C15_net_error_prefix.

(* every way a reading can end *)
Theorem C15_respond_outcome :
  forall (enc : Type) (dec_stream dec_partial : enc -> list bytes -> bytes)
         (find_encoding : bytes -> option enc) (parse_ct : bytes -> ct_parse)
         (lookup_charset : bytes -> option enc),
    forall disable sel resp_ce ct chunks eof_last fail takes sizes o e,
      respond dec_stream dec_partial find_encoding parse_ct lookup_charset
              disable sel resp_ce ct chunks eof_last fail takes sizes = (o, e) -> e <> ENone ->
      e = (if fail then EFail else EEOF) /\
      match decide parse_ct lookup_charset disable sel resp_ce ct with
      | IRaw => o = concat chunks
      | IHeader en => o = stream_out dec_stream dec_partial en chunks fail
      | ISniff => sniff_out dec_stream dec_partial (sniffed find_encoding sizes (fresh_net chunks eof_last fail))
                            (fresh_net chunks eof_last fail) o
      end.
Proof. exact respond_outcome. Qed.
Print Assumptions C15_respond_outcome.

(* Several responses alive at the same time, read in ANY interleaving (each has its own decoder object,
   no decoder state - e.g. the shift state of iso-2022-jp - is shared): every reader delivers, call for
   call, what it delivers when read alone with its own sub-sequence of buffer sizes *)
Theorem C15_interleaving_independent :
  forall (enc : Type) (dec_stream dec_partial : enc -> list bytes -> bytes) (find_encoding : bytes -> option enc)
         (sched : list (nat * nat)) (f : nat -> breader) (i : nat),
    trace_of i (run_many dec_stream dec_partial find_encoding sched f) =
    steps dec_stream dec_partial find_encoding (sizes_of i sched) (f i).
Proof. exact interleaving_independent. Qed.
Print Assumptions C15_interleaving_independent.

Theorem C15_interleaved_reader_is_the_single_reader :
  forall (enc : Type) (dec_stream dec_partial : enc -> list bytes -> bytes) (find_encoding : bytes -> option enc)
         (sched : list (nat * nat)) (f : nat -> breader) (i : nat),
    until_eof (trace_of i (run_many dec_stream dec_partial find_encoding sched f)) =
    map (fun x => (fst (fst x), snd (fst x))) (run dec_stream dec_partial find_encoding (sizes_of i sched) (f i)).
Proof. exact interleaved_reader_is_the_single_reader. Qed.
Print Assumptions C15_interleaved_reader_is_the_single_reader.

(* Configurations over time (Model/CharsetConfig.v: the five setters, Transport.Clone / Client.Clone, the
   caller re-using the slice it passed): a configuration is a value.  An operation that is not addressed
   to transport j leaves j's configuration alone ... *)
Theorem C15_config_frame :
  forall st op j,
    j < length st -> targets j op = false -> nth_error (apply_op st op) j = nth_error st j.
Proof. exact apply_op_frame. Qed.
Print Assumptions C15_config_frame.

(* ... a clone starts with exactly its source's configuration and keeps it whatever the original - or
   any other transport - is told afterwards; the original keeps its own whatever the clone is told *)
Theorem C15_clone_independent :
  forall st i d ops,
    nth_error st i = Some d ->
    forallb (fun op => negb (targets (length st) op)) ops = true ->
    nth_error (run_ops (apply_op st (OpClone i)) ops) (length st) = Some d.
Proof. exact clone_independent. Qed.
Print Assumptions C15_clone_independent.

Theorem C15_clone_source_independent :
  forall st i d ops,
    nth_error st i = Some d ->
    forallb (fun op => negb (targets i op)) ops = true ->
    nth_error (run_ops (apply_op st (OpClone i)) ops) i = Some d.
Proof. exact source_independent. Qed.
Print Assumptions C15_clone_source_independent.

(* ... hence the reader a transport installs for a response (and with it, by the theorems above, every
   byte it delivers) depends on the operations addressed to that transport only *)
Theorem C15_decide_depends_on_own_configuration :
  forall (enc : Type) (parse_ct : bytes -> ct_parse) (lookup_charset : bytes -> option enc)
         st ops j resp_ce ct,
    j < length st -> forallb (fun op => negb (targets j op)) ops = true ->
    decide_of parse_ct lookup_charset (run_ops st ops) j resp_ce ct =
    decide_of parse_ct lookup_charset st j resp_ce ct.
Proof. exact (@decide_frame). Qed.
Print Assumptions C15_decide_depends_on_own_configuration.

(* the model of configurations was written against exactly these source texts (gosync) *)
Theorem C15_configuration_code_pinned :
  exists body, In (bs "Clone:key-values", body) decode_setters /\
               body = bs "disableAutoDecode: t.disableAutoDecode; autoDecodeContentType: t.autoDecodeContentType".
Proof. exact clone_key_values_pinned. Qed.
Print Assumptions C15_configuration_code_pinned.

(* The decoder is installed at exactly one place, once per response (Transport.RoundTrip ->
   handleResponseBody -> autoDecodeResponseBody, above the transport-middleware chain and the download
   callback's wrapper), and Response.ToBytes reads the decoded body to io.EOF (source texts pinned by
   gosync); both matter: *)
Theorem C15_decoder_installed_once_pinned :
  In (bs "callers:autoDecodeResponseBody", bs "handleResponseBody:1") decode_setters /\
  In (bs "callers:handleResponseBody", bs "RoundTrip:1") decode_setters /\
  In (bs "callers:newAutoDecodeReadCloser", bs "autoDecodeResponseBody:1") decode_setters /\
  In (bs "Response.ToBytes:reads", bs "body, err = io.ReadAll(r.Body)") decode_setters.
Proof. exact decoder_installed_once_pinned. Qed.
Print Assumptions C15_decoder_installed_once_pinned.

(* ... transcoding twice, or stopping at the undecoded (declared) length, is a third result *)
Theorem C15_decode_twice_or_cut_is_a_third_result :
  exists (enc : Type) (dec_all : enc -> bytes -> bytes) (dec_stream : enc -> list bytes -> bytes) (e : enc) (body : bytes),
    decoder_ok dec_all dec_stream /\
    dec_all e (dec_all e body) <> body /\ dec_all e (dec_all e body) <> dec_all e body /\
    length body < length (dec_all e body) /\
    firstn (length body) (dec_all e body) <> body /\ firstn (length body) (dec_all e body) <> dec_all e body.
Proof. exact decode_twice_or_cut_is_a_third_result. Qed.
Print Assumptions C15_decode_twice_or_cut_is_a_third_result.

(* The response status and a Location header play no part in the decision (the page of a redirect that
   is not followed - NoRedirectPolicy, Transport.RoundTrip used directly, a 307 to an unreplayable body -
   is delivered like any other body) *)
Theorem C15_status_and_location_irrelevant :
  forall (enc : Type) (parse_ct : bytes -> ct_parse) (lookup_charset : bytes -> option enc)
         s1 l1 s2 l2 disable sel resp_ce ct,
    decide_resp parse_ct lookup_charset s1 l1 disable sel resp_ce ct =
    decide_resp parse_ct lookup_charset s2 l2 disable sel resp_ce ct.
Proof. exact (@decide_resp_independent). Qed.
Print Assumptions C15_status_and_location_irrelevant.

(* Protocol x content coding: a body the transport HAS decompressed (transparent gzip or AutoDecompression,
   h1 / h2 / h3 alike: every site deletes Content-Encoding when it decodes - pinned) is selected exactly
   like a body that was never compressed; one nobody decompressed is not selected (and so untouched) *)
Theorem C15_decompressed_is_like_plain :
  forall p ce disable sel ct,
    should_decode disable sel (ce_at_charset_stage p true ce) ct = should_decode disable sel [] ct.
Proof. exact decompressed_is_like_plain. Qed.
Print Assumptions C15_decompressed_is_like_plain.

Theorem C15_decompression_stack_independent :
  forall p1 p2 d ce disable sel ct,
    should_decode disable sel (ce_at_charset_stage p1 d ce) ct =
    should_decode disable sel (ce_at_charset_stage p2 d ce) ct.
Proof. exact decompression_stack_independent. Qed.
Print Assumptions C15_decompression_stack_independent.

Theorem C15_not_decompressed_not_selected :
  forall p ce disable sel ct,
    ce <> [] -> should_decode disable sel (ce_at_charset_stage p false ce) ct = false.
Proof. exact not_decompressed_not_selected. Qed.
Print Assumptions C15_not_decompressed_not_selected.

Theorem C15_decode_guards_pinned :
  In (bs "autoDecodeResponseBody:guards",
      bs "if t.disableAutoDecode || res.Header.Get(""Content-Encoding"") != """" { return }") decode_setters /\
  exists sites, In (bs "Content-Encoding:deleted-by", sites) decode_setters /\
    sites = bs "transport.go:readLoop:2; internal/http2/transport.go:handleResponse:2; internal/http3/http_stream.go:ReadResponse:2".
Proof. exact decode_guards_pinned. Qed.
Print Assumptions C15_decode_guards_pinned.

(* Over the COMPLETE table of WHATWG encoding labels (228, regenerated from x/text htmlindex): the
   "already UTF-8, leave it" short-cut on the Content-Type charset fires exactly for the labels of UTF-8,
   however the label is cased - not for unicode / unicodefeff / unicodefffe / csunicode (UTF-16) *)
Theorem C15_utf8_shortcut_exactly_for_utf8_labels :
  forall l id, In (l, id) whatwg_labels ->
    (is_utf8_label l = true <-> id = bs "utf8") /\
    (is_utf8_label (to_lower (to_upper l)) = true <-> id = bs "utf8").
Proof. exact utf8_shortcut_exactly_for_utf8_labels. Qed.
Print Assumptions C15_utf8_shortcut_exactly_for_utf8_labels.

Theorem C15_utf16_labels_in_the_table :
  In (bs "unicode", bs "utf16le") whatwg_labels /\ In (bs "unicodefeff", bs "utf16le") whatwg_labels /\
  In (bs "unicodefffe", bs "utf16be") whatwg_labels /\ In (bs "csunicode", bs "utf16le") whatwg_labels.
Proof. exact utf16_labels_present. Qed.
Print Assumptions C15_utf16_labels_in_the_table.

Theorem C15_utf8_test_pinned :
  In (bs "autoDecodeResponseBody:utf8-test",
      bs "strings.Contains(charset, ""utf-8"") || strings.Contains(charset, ""utf8"")") decode_setters.
Proof. exact utf8_test_pinned. Qed.
Print Assumptions C15_utf8_test_pinned.

(* The pinned (pre-fix) peekRead violates two_results_only in three ways; witnesses kept checked
   (toy two-byte charset so that they are closed and computable). *)
Theorem C15_two_results_only_pinned_refuted :
  exists (enc : Type) (dec_all : enc -> bytes -> bytes) (dec_stream dec_partial : enc -> list bytes -> bytes)
         (find_encoding : bytes -> option enc),
    decoder_ok dec_all dec_stream /\
    (exists chunks bufs o,
        read_all_pinned dec_all dec_stream dec_partial find_encoding bufs (fresh_adrc chunks false false []) = (o, EEOF) /\
        o <> concat chunks /\ (forall e, o <> dec_all e (concat chunks)) /\
        exists e, o = dec_all e (concat chunks) ++ [x00; x00; x00]) /\
    (exists chunks bufs o,
        read_all_pinned dec_all dec_stream dec_partial find_encoding bufs (fresh_adrc chunks false false []) = (o, EEOF) /\
        o <> concat chunks /\ (forall e, o <> dec_all e (concat chunks))) /\
    (exists chunks bufs o,
        read_all_pinned dec_all dec_stream dec_partial find_encoding bufs (fresh_adrc chunks false false []) = (o, EEOF) /\
        (forall b, find_encoding b <> None -> forall rest, concat chunks <> b ++ rest) /\
        o <> concat chunks /\ (forall e, o <> dec_all e (concat chunks))).
Proof. exact two_results_only_pinned_refuted. Qed.
Print Assumptions C15_two_results_only_pinned_refuted.

(* The pinned guard looked at the RESPONSE header Accept-Encoding instead of Content-Encoding: (a) a
   response carrying Accept-Encoding (RFC 9110 12.5.3) kept its declared charset unapplied, (b) a body
   still content-encoded was transcoded.  Witnesses kept checked (toy charset). *)
Theorem C15_guard_pinned_refuted :
  exists (enc : Type) (dec_all : enc -> bytes -> bytes) (dec_stream dec_partial : enc -> list bytes -> bytes)
         (find_encoding : bytes -> option enc) (parse_ct : bytes -> ct_parse)
         (lookup_charset : bytes -> option enc),
    decoder_ok dec_all dec_stream /\
    exists ct v e chunks sizes,
      parse_ct ct = PCharset v /\ is_utf8_label (to_lower v) = false /\ lookup_charset (to_lower v) = Some e /\
      selected SelDefault ct = true /\
      (exists resp_ae o,
          resp_ae <> [] /\
          respond dec_stream dec_partial find_encoding parse_ct lookup_charset false SelDefault [] ct chunks false false [] sizes
            = (dec_all e (concat chunks), EEOF) /\
          read_all dec_stream dec_partial find_encoding sizes
            (open_body dec_stream dec_partial (decide_pinned parse_ct lookup_charset false SelDefault resp_ae ct) chunks false false [])
            = (o, EEOF) /\
          o = concat chunks /\ o <> dec_all e (concat chunks)) /\
      (exists resp_ce o,
          resp_ce <> [] /\
          respond dec_stream dec_partial find_encoding parse_ct lookup_charset false SelDefault resp_ce ct chunks false false [] sizes
            = (concat chunks, EEOF) /\
          read_all dec_stream dec_partial find_encoding sizes
            (open_body dec_stream dec_partial (decide_pinned parse_ct lookup_charset false SelDefault [] ct) chunks false false [])
            = (o, EEOF) /\
          o <> concat chunks).
Proof. exact guard_pinned_refuted. Qed.
Print Assumptions C15_guard_pinned_refuted.

(* the hypothesis decoder_ok is satisfiable by a genuinely stateful streaming decoder (pending lead
   byte carried across chunks, "?" flushed for a truncated character at end of input): for the toy
   two-byte charset, chunk-by-chunk decoding equals one-shot decoding for EVERY split *)
Theorem C15_stateful_decoder_meets_the_hypothesis :
  decoder_ok toy_dec_all toy_dec_stream_stateful.
Proof. exact toy_stateful_decoder_ok. Qed.
Print Assumptions C15_stateful_decoder_meets_the_hypothesis.

(* ... and so is the hypothesis of C15_net_error_prefix (toy decoder: complete characters only before
   a source error) *)
Theorem C15_partial_hypothesis_satisfiable :
  forall (e : unit) cs rest, exists tail,
    toy_dec_all e (concat cs ++ rest) = toy_dec_partial e cs ++ tail.
Proof. exact toy_partial_ok. Qed.
Print Assumptions C15_partial_hypothesis_satisfiable.

(* non-vacuity: a concrete decoder satisfies decoder_ok, and on concrete bodies the repaired machine
   reaches io.EOF with each of the two results (declared -> transcoded, also when the first read cuts
   a two-byte character; undeclared -> original), where the pinned machine produced a third one *)
Example C15_nonvacuous :
  decoder_ok toy_dec_all toy_dec_stream /\
  repaired_run w1_chunks [8; 8; 8] = (bs "<m>ab", EEOF) /\
  repaired_run w2_chunks [4; 4; 4] = (bs "<m>Wz", EEOF) /\
  repaired_run w3_chunks [8; 8; 8] = ("a"%byte :: [xe4; xb8], EEOF).
Proof. split; [exact toy_decoder_ok | exact repaired_w123]. Qed.
