(* Properties/C16.v - Header sets are preserved and a requested header order is respected.
   Only statements, `exact`, and Print Assumptions.  Model: Model/HeaderOrder.v. *)
From ReqV Require Import Lib.Bytes Model.HeaderOrder Proofs.HeaderOrderProofs.
From Coq Require Import Permutation Sorting.Sorted.

(* specifying an order never adds, drops or duplicates a field *)
Theorem C16_sort_is_permutation : forall kvs order,
  Permutation (sort_key_values kvs order) kvs.
Proof. exact sort_is_permutation. Qed.
Print Assumptions C16_sort_is_permutation.

(* For header sets of ANY size and ANY order list (subset, superset, permuted, duplicated, any
   case): if oi is at index i and oj at index j > i of the order list - these being the deciding
   (last) occurrences of those names up to canonicalisation - then every field named oi is
   written before every field named oj. *)
Theorem C16_listed_in_listed_order : forall kvs order i j oi oj,
  i < j -> nth_error order i = Some oi -> nth_error order j = Some oj ->
  (forall m o', i < m -> nth_error order m = Some o' -> canonical_key o' <> canonical_key oi) ->
  (forall m o', j < m -> nth_error order m = Some o' -> canonical_key o' <> canonical_key oj) ->
  forall p q a b,
  nth_error (sort_key_values kvs order) p = Some a ->
  nth_error (sort_key_values kvs order) q = Some b ->
  canonical_key (fst a) = canonical_key oi -> canonical_key (fst b) = canonical_key oj ->
  p < q.
Proof. exact listed_in_listed_order. Qed.
Print Assumptions C16_listed_in_listed_order.

Theorem C16_listed_in_listed_order_nodup : forall kvs order i j oi oj,
  NoDup (map canonical_key order) ->
  i < j -> nth_error order i = Some oi -> nth_error order j = Some oj ->
  forall p q a b,
  nth_error (sort_key_values kvs order) p = Some a ->
  nth_error (sort_key_values kvs order) q = Some b ->
  canonical_key (fst a) = canonical_key oi -> canonical_key (fst b) = canonical_key oj ->
  p < q.
Proof. exact listed_in_listed_order_nodup. Qed.
Print Assumptions C16_listed_in_listed_order_nodup.

(* the order list matches names case-insensitively *)
Theorem C16_order_list_case_insensitive : forall s t,
  forallb is_tchar s = true -> to_lower s = to_lower t -> canonical_key s = canonical_key t.
Proof. exact canonical_key_case_insensitive. Qed.
Print Assumptions C16_order_list_case_insensitive.

Theorem C16_pseudo_order_list_case_insensitive : forall s t,
  is_pseudo_name s = true -> to_lower s = to_lower t -> canonical_key s = canonical_key t.
Proof. exact canonical_key_pseudo_case_insensitive. Qed.
Print Assumptions C16_pseudo_order_list_case_insensitive.

Theorem C16_listed_before_unlisted : forall kvs order p q a b,
  nth_error (sort_key_values kvs order) p = Some a ->
  nth_error (sort_key_values kvs order) q = Some b ->
  listed order (fst a) = true -> listed order (fst b) = false -> p < q.
Proof. exact listed_before_unlisted. Qed.
Print Assumptions C16_listed_before_unlisted.

Theorem C16_unlisted_keep_relative_order : forall kvs order,
  unlisted_part order (sort_key_values kvs order) = unlisted_part order kvs.
Proof. exact unlisted_keep_relative_order. Qed.
Print Assumptions C16_unlisted_keep_relative_order.

(* stability: fields of equal rank (same listed name) keep their collection order *)
Theorem C16_sort_stable : forall kvs order n,
  filter (fun x => rank order (fst x) =? n) (sort_key_values kvs order) =
  filter (fun x => rank order (fst x) =? n) kvs.
Proof. exact sort_stable. Qed.
Print Assumptions C16_sort_stable.

(* a stable sort under a total preorder has exactly one output, so the insertion sort of the
   model is an exact model of sort.Stable whatever algorithm it runs *)
Theorem C16_sort_output_unique : forall kvs order out,
  StronglySorted (le_r (kv_rank order)) out ->
  (forall n, filter (fun x => rank order (fst x) =? n) out =
             filter (fun x => rank order (fst x) =? n) kvs) ->
  out = sort_key_values kvs order.
Proof. exact sort_output_unique. Qed.
Print Assumptions C16_sort_output_unique.

(* the comparator of the pinned code answers differently for the same two elements depending
   on where they currently sit in the slice: not an order on the elements at all *)
Theorem C16_less_pinned_position_dependent :
  exists order x y,
    less_pinned order [x; y] 0 1 = false /\ less_pinned order [x; y] 1 0 = false /\
    less_pinned order [y; x] 0 1 = true.
Proof. exact less_pinned_position_dependent. Qed.

Example C16_nonvacuous :
  let order := [bs "x-b"; bs "COOKIE"; bs "x-a"; bs "x-b"] in
  let kvs := [(bs "Z", [bs "0"]); (bs "X-A", [bs "1"]); (bs "cookie", [bs "2"]);
              (bs "X-B", [bs "3"]); (bs "Y", [bs "4"]); (bs "Cookie", [bs "5"])] in
  map fst (sort_key_values kvs order) = [bs "cookie"; bs "Cookie"; bs "X-A"; bs "X-B"; bs "Z"; bs "Y"] /\
  NoDup (map canonical_key [bs "x-b"; bs "COOKIE"; bs "x-a"]).
Proof.
  split; [vm_compute; reflexivity|].
  repeat constructor; cbn; intuition discriminate.
Qed.
