(* Properties/C16.v - Header sets are preserved and a requested header order is respected.
   Only statements, `exact`, and Print Assumptions.
   Model: Model/HeaderOrder.v (header.SortKeyValues, CanonicalMIMEHeaderKey) and
   Model/HeaderCollect.v (the HTTP/1.1, HTTP/2 and HTTP/3 request-header collectors; a request
   [q : creq] is what the protocol writer receives, [c_hdr q] its http.Header as an association
   list whose order stands for Go's unspecified map iteration order).  The specification-side
   definitions used below (h1_user_lines, h1_auto, h2_user_lines, h23_forbidden, rank_le,
   pseudo_selections, pseudo_expected, ...) are at the top of Proofs/HeaderCollectProofs.v and
   Proofs/HeaderWireProofs.v. *)
From ReqV Require Import Lib.Bytes Model.HeaderOrder Model.HeaderCollect
  Model.HeaderMerge Model.HeaderSeq Model.HeaderResend Model.HeaderShared Model.HeaderFrag Model.HeaderRedirect Model.HeaderAbandon Model.HeaderKeepAlive Model.HeaderCloneHdr
  Proofs.HeaderOrderProofs Proofs.HeaderCollectProofs Proofs.HeaderWireProofs Proofs.HeaderSyncProofs
  Proofs.HeaderMergeProofs Proofs.HeaderKeySortProofs Proofs.HeaderSeqProofs Proofs.HeaderResendProofs Proofs.HeaderSharedProofs Proofs.HeaderFragProofs Proofs.HeaderRedirectProofs Proofs.HeaderAbandonProofs Proofs.HeaderKeepAliveProofs Proofs.HeaderCloneHdrProofs Gen.HeaderSrc.
From Coq Require Import NArith.
From Coq Require Import Permutation Sorting.Sorted.

(* ===================== part 1: header.SortKeyValues ===================== *)

(* specifying an order never adds, drops or duplicates a field *)
Theorem C16_sort_is_permutation : forall kvs order,
  Permutation (sort_key_values kvs order) kvs.
Proof. exact sort_is_permutation. Qed.
Print Assumptions C16_sort_is_permutation.

(* For header sets of ANY size and ANY order list (subset, superset, permuted, duplicated, any
   case): if oi is at index i and oj at index j > i of the order list - these being the deciding
   (last) occurrences of those names up to canonicalisation - then every field named oi is
   written before every field named oj. *)
Theorem C16_listed_in_listed_order : forall kvs order i j oi oj,
  i < j -> nth_error order i = Some oi -> nth_error order j = Some oj ->
  (forall m o', i < m -> nth_error order m = Some o' -> canonical_key o' <> canonical_key oi) ->
  (forall m o', j < m -> nth_error order m = Some o' -> canonical_key o' <> canonical_key oj) ->
  forall p q a b,
  nth_error (sort_key_values kvs order) p = Some a ->
  nth_error (sort_key_values kvs order) q = Some b ->
  canonical_key (fst a) = canonical_key oi -> canonical_key (fst b) = canonical_key oj ->
  p < q.
Proof. exact listed_in_listed_order. Qed.
Print Assumptions C16_listed_in_listed_order.

Theorem C16_listed_in_listed_order_nodup : forall kvs order i j oi oj,
  NoDup (map canonical_key order) ->
  i < j -> nth_error order i = Some oi -> nth_error order j = Some oj ->
  forall p q a b,
  nth_error (sort_key_values kvs order) p = Some a ->
  nth_error (sort_key_values kvs order) q = Some b ->
  canonical_key (fst a) = canonical_key oi -> canonical_key (fst b) = canonical_key oj ->
  p < q.
Proof. exact listed_in_listed_order_nodup. Qed.
Print Assumptions C16_listed_in_listed_order_nodup.

(* the order list matches names case-insensitively *)
Theorem C16_order_list_case_insensitive : forall s t,
  forallb is_tchar s = true -> to_lower s = to_lower t -> canonical_key s = canonical_key t.
Proof. exact canonical_key_case_insensitive. Qed.
Print Assumptions C16_order_list_case_insensitive.

Theorem C16_pseudo_order_list_case_insensitive : forall s t,
  is_pseudo_name s = true -> to_lower s = to_lower t -> canonical_key s = canonical_key t.
Proof. exact canonical_key_pseudo_case_insensitive. Qed.
Print Assumptions C16_pseudo_order_list_case_insensitive.

Theorem C16_listed_before_unlisted : forall kvs order p q a b,
  nth_error (sort_key_values kvs order) p = Some a ->
  nth_error (sort_key_values kvs order) q = Some b ->
  listed order (fst a) = true -> listed order (fst b) = false -> p < q.
Proof. exact listed_before_unlisted. Qed.
Print Assumptions C16_listed_before_unlisted.

Theorem C16_unlisted_keep_relative_order : forall kvs order,
  unlisted_part order (sort_key_values kvs order) = unlisted_part order kvs.
Proof. exact unlisted_keep_relative_order. Qed.
Print Assumptions C16_unlisted_keep_relative_order.

(* stability: fields of equal rank (same listed name) keep their collection order *)
Theorem C16_sort_stable : forall kvs order n,
  filter (fun x => rank order (fst x) =? n) (sort_key_values kvs order) =
  filter (fun x => rank order (fst x) =? n) kvs.
Proof. exact sort_stable. Qed.
Print Assumptions C16_sort_stable.

(* a stable sort under a total preorder has exactly one output, so the insertion sort of the
   model is an exact model of sort.Stable whatever algorithm it runs *)
Theorem C16_sort_output_unique : forall kvs order out,
  StronglySorted (le_r (kv_rank order)) out ->
  (forall n, filter (fun x => rank order (fst x) =? n) out =
             filter (fun x => rank order (fst x) =? n) kvs) ->
  out = sort_key_values kvs order.
Proof. exact sort_output_unique. Qed.
Print Assumptions C16_sort_output_unique.

(* the complete functional description: the output is the entries named by order[0] (in input
   order), then those named by order[1], ..., finally the unlisted ones in input order *)
Theorem C16_sort_is_bucket_layout : forall kvs order,
  sort_key_values kvs order =
  flat_map (fun i => filter (fun x => rank order (fst x) =? i) kvs) (seq 0 (S (length order))).
Proof. exact sort_key_values_bucket_layout. Qed.
Print Assumptions C16_sort_is_bucket_layout.

(* the comparator of the pinned code answers differently for the same two elements depending
   on where they currently sit in the slice: not an order on the elements at all *)
Theorem C16_less_pinned_position_dependent :
  exists order x y,
    less_pinned order [x; y] 0 1 = false /\ less_pinned order [x; y] 1 0 = false /\
    less_pinned order [y; x] 0 1 = true.
Proof. exact less_pinned_position_dependent. Qed.
Print Assumptions C16_less_pinned_position_dependent.

(* ===================== part 2: the three collectors ===================== *)

(* ---- every header exactly once per value (with or without an order list) ---- *)

(* HTTP/1.1: for EVERY request the wire lines are, as a multiset, the automatic lines (Host,
   User-Agent default/override/blank, Content-Length, Accept-Encoding: gzip) plus, for every entry
   of the header map that is not a writer-handled/bookkeeping key or an invalid name, one line per
   value under the key exactly as spelled in the map. *)
Theorem C16_h1_each_value_exactly_once : forall q,
  Permutation (h1_lines q) (h1_auto q ++ flat_map h1_user_lines (c_hdr q)).
Proof. exact h1_each_value_exactly_once. Qed.
Print Assumptions C16_h1_each_value_exactly_once.

(* HTTP/2: the four pseudo-header fields, what every map entry contributes (h2_user_lines), and the
   automatic tail (content-length, accept-encoding: gzip, default user-agent), names lower-cased *)
Theorem C16_h2_each_value_exactly_once : forall q,
  Permutation (h2_lines q)
    (lower_lines (flatten (pseudo_kvs q) ++ flat_map h2_user_lines (c_hdr q) ++ flatten (auto_tail q))).
Proof. exact h2_each_value_exactly_once. Qed.
Print Assumptions C16_h2_each_value_exactly_once.

Theorem C16_h3_each_value_exactly_once : forall q,
  Permutation (h3_lines q)
    (lower_lines (flatten (pseudo_kvs q) ++ flat_map h3_user_lines (c_hdr q) ++ flatten (auto_tail q))).
Proof. exact h3_each_value_exactly_once. Qed.
Print Assumptions C16_h3_each_value_exactly_once.

(* what one map entry (k, vs) contributes on HTTP/2 and HTTP/3: an ordinary field all its values
   verbatim; a forbidden/bookkeeping name nothing; User-Agent its first value (none when blank);
   Cookie (HTTP/2) its cookie pairs *)
Theorem C16_h2_ordinary_entry : forall k vs,
  is_excluded k = false -> is_ua k = false -> equal_fold k (bs "cookie") = false ->
  h2_user_lines (k, vs) = map (fun v => (k, v)) vs.
Proof. exact h2_user_lines_ordinary. Qed.
Print Assumptions C16_h2_ordinary_entry.

Theorem C16_h3_ordinary_entry : forall k vs,
  is_excluded k = false -> is_ua k = false -> h3_user_lines (k, vs) = map (fun v => (k, v)) vs.
Proof. exact h3_user_lines_ordinary. Qed.
Print Assumptions C16_h3_ordinary_entry.

Theorem C16_h23_excluded_entry : forall k vs,
  is_excluded k = true -> h2_user_lines (k, vs) = [] /\ h3_user_lines (k, vs) = [].
Proof. exact h23_user_lines_excluded. Qed.
Print Assumptions C16_h23_excluded_entry.

Theorem C16_h23_user_agent_entry : forall k vs,
  is_excluded k = false -> is_ua k = true ->
  h2_user_lines (k, vs) = h3_user_lines (k, vs) /\
  h2_user_lines (k, vs) = match vs with v :: _ => if is_nil v then [] else [(k, v)] | [] => [] end.
Proof. exact h23_user_lines_ua. Qed.
Print Assumptions C16_h23_user_agent_entry.

Theorem C16_h2_cookie_entry : forall k vs,
  is_excluded k = false -> is_ua k = false -> equal_fold k (bs "cookie") = true ->
  h2_user_lines (k, vs) = map (fun c => (bs "cookie", c)) (flat_map crumbs vs).
Proof. exact h2_user_lines_cookie. Qed.
Print Assumptions C16_h2_cookie_entry.

(* the Cookie header Request.AddCookie builds ("p1; p2; ...; pn") is split into exactly p1..pn *)
Theorem C16_cookie_pairs_preserved : forall ps,
  forallb crumb_ok ps = true -> ps <> [] -> crumbs (join_with semi_sp ps) = ps.
Proof. exact crumbs_of_cookie_header. Qed.
Print Assumptions C16_cookie_pairs_preserved.

(* ---- HTTP/1.1 keeps the caller's spelling and the exact value ---- *)
Theorem C16_h1_spelling_preserved : forall q k vs v,
  In (k, vs) (c_hdr q) -> In v vs ->
  mem_bytes k h1_exclude = false -> valid_field_name k = true ->
  In (k, sanitize v) (h1_lines q).
Proof. exact h1_spelling_preserved. Qed.
Print Assumptions C16_h1_spelling_preserved.

Theorem C16_h1_value_exact : forall v, clean_value v = true -> sanitize v = v.
Proof. exact sanitize_clean. Qed.
Print Assumptions C16_h1_value_exact.

(* ---- bookkeeping keys never on the wire; forbidden fields omitted, whatever their spelling ---- *)
Theorem C16_h1_bookkeeping_never_emitted : forall q l,
  In l (h1_lines q) -> fst l <> header_order_key /\ fst l <> pseudo_header_order_key.
Proof. exact h1_bookkeeping_never_emitted. Qed.
Print Assumptions C16_h1_bookkeeping_never_emitted.

(* h23_forbidden = connection, proxy-connection, keep-alive, transfer-encoding, upgrade, host and
   the two bookkeeping keys (the latter read from the Go source by gosync) *)
Theorem C16_h2_forbidden_never_emitted : forall q l,
  In l (h2_lines q) -> mem_bytes (fst l) h23_forbidden = false.
Proof. exact h2_forbidden_never_emitted. Qed.
Print Assumptions C16_h2_forbidden_never_emitted.

Theorem C16_h3_forbidden_never_emitted : forall q l,
  In l (h3_lines q) -> mem_bytes (fst l) h23_forbidden = false.
Proof. exact h3_forbidden_never_emitted. Qed.
Print Assumptions C16_h3_forbidden_never_emitted.

Theorem C16_forbidden_any_spelling : forall k,
  In (to_lower k) h23_forbidden -> is_excluded k = true.
Proof. exact forbidden_excluded_any_spelling. Qed.
Print Assumptions C16_forbidden_any_spelling.

(* ---- a requested order is respected on the wire ---- *)

(* with an order list the lines on the wire are sorted by rank in that list *)
Theorem C16_h1_wire_sorted : forall q,
  is_nil (order_list (c_hdr q)) = false ->
  StronglySorted (rank_le (order_list (c_hdr q))) (h1_lines q).
Proof. exact h1_wire_sorted. Qed.
Print Assumptions C16_h1_wire_sorted.

(* names_are_tokens is what validateHeaders enforces before anything is written *)
Theorem C16_h2_wire_sorted : forall q,
  names_are_tokens (c_hdr q) -> is_nil (order_list (c_hdr q)) = false ->
  StronglySorted (rank_le (order_list (c_hdr q))) (lower_lines (h2_regular_lines q)).
Proof. exact h2_wire_sorted. Qed.
Print Assumptions C16_h2_wire_sorted.

Theorem C16_h3_wire_sorted : forall q,
  names_are_tokens (c_hdr q) -> is_nil (order_list (c_hdr q)) = false ->
  StronglySorted (rank_le (order_list (c_hdr q))) (lower_lines (h3_regular_lines q)).
Proof. exact h3_wire_sorted. Qed.
Print Assumptions C16_h3_wire_sorted.

(* ... hence listed fields are in list order, whatever else is present (instantiate [ls] with any of
   the three sorted wire lists above) *)
Theorem C16_lines_listed_in_listed_order : forall order ls i j oi oj,
  StronglySorted (rank_le order) ls ->
  i < j -> nth_error order i = Some oi -> nth_error order j = Some oj ->
  (forall m o', i < m -> nth_error order m = Some o' -> canonical_key o' <> canonical_key oi) ->
  (forall m o', j < m -> nth_error order m = Some o' -> canonical_key o' <> canonical_key oj) ->
  forall p q a b,
  nth_error ls p = Some a -> nth_error ls q = Some b ->
  canonical_key (fst a) = canonical_key oi -> canonical_key (fst b) = canonical_key oj ->
  p < q.
Proof. exact lines_listed_in_listed_order. Qed.
Print Assumptions C16_lines_listed_in_listed_order.

Theorem C16_lines_listed_before_unlisted : forall order ls p q a b,
  StronglySorted (rank_le order) ls ->
  nth_error ls p = Some a -> nth_error ls q = Some b ->
  listed order (fst a) = true -> listed order (fst b) = false -> p < q.
Proof. exact lines_listed_before_unlisted. Qed.
Print Assumptions C16_lines_listed_before_unlisted.

(* ---- the pseudo-header block ---- *)

(* the wire list = pseudo-header block ++ regular block; the first holds only pseudo-header
   fields, the second none *)
Theorem C16_h2_pseudo_block_first : forall q,
  h2_lines q = lower_lines (pseudo_lines q) ++ lower_lines (h2_regular_lines q) /\
  (forall l, In l (lower_lines (pseudo_lines q)) -> is_pseudo l = true) /\
  (names_are_tokens (c_hdr q) -> forall l, In l (lower_lines (h2_regular_lines q)) -> is_pseudo l = false).
Proof.
  exact (fun q => conj (h2_lines_split q) (conj (pseudo_lines_all_pseudo q)
          (fun H l => h2_regular_not_pseudo q l H))).
Qed.
Print Assumptions C16_h2_pseudo_block_first.

Theorem C16_h3_pseudo_block_first : forall q,
  h3_lines q = lower_lines (pseudo_lines q) ++ lower_lines (h3_regular_lines q) /\
  (forall l, In l (lower_lines (pseudo_lines q)) -> is_pseudo l = true) /\
  (names_are_tokens (c_hdr q) -> forall l, In l (lower_lines (h3_regular_lines q)) -> is_pseudo l = false).
Proof.
  exact (fun q => conj (h3_lines_split q) (conj (pseudo_lines_all_pseudo q)
          (fun H l => h3_regular_not_pseudo q l H))).
Qed.
Print Assumptions C16_h3_pseudo_block_first.

(* whatever the pseudo-header order list: the four fields, each once, with their values *)
Theorem C16_pseudo_block_is_the_four : forall q,
  Permutation (pseudo_lines q)
    [(bs ":authority", c_host q); (bs ":method", c_method q); (bs ":path", c_path q); (bs ":scheme", c_scheme q)].
Proof. exact pseudo_block_is_the_four. Qed.
Print Assumptions C16_pseudo_block_is_the_four.

(* pseudo_selections: the 65 duplicate-free lists over the four names (24 of them permutations) *)
Theorem C16_pseudo_selections_facts :
  length pseudo_selections = 65 /\
  length (filter (fun p => length p =? 4) pseudo_selections) = 24 /\
  forallb (fun p => forallb (fun n => mem_bytes n pseudo4) p) pseudo_selections = true.
Proof. exact pseudo_selections_facts. Qed.
Print Assumptions C16_pseudo_selections_facts.

(* for every request and every pseudo-header order that is - in any letter case - one of the 24
   permutations or one of the 40 partial lists: the block is the listed names in list order, then
   the remaining ones in the default order *)
Theorem C16_pseudo_order_respected : forall q,
  let po := porder_list (c_hdr q) in
  is_nil po = false -> In (map to_lower po) pseudo_selections ->
  map fst (pseudo_lines q) = pseudo_expected (map to_lower po).
Proof. exact pseudo_order_respected. Qed.
Print Assumptions C16_pseudo_order_respected.

Theorem C16_pseudo_default : forall q,
  is_nil (porder_list (c_hdr q)) = true -> map fst (pseudo_lines q) = pseudo4.
Proof. exact pseudo_default. Qed.
Print Assumptions C16_pseudo_default.

(* ---- independence of Go's map iteration order ---- *)
Theorem C16_h1_order_independent_of_map_iteration : forall q h',
  NoDup (map fst (c_hdr q)) -> Permutation (c_hdr q) h' ->
  Permutation (h1_lines (set_hdr q h')) (h1_lines q) /\
  (is_nil (order_list (c_hdr q)) = false ->
   map (line_rank (order_list (c_hdr q))) (h1_lines (set_hdr q h')) =
   map (line_rank (order_list (c_hdr q))) (h1_lines q)).
Proof. exact h1_order_independent_of_map_iteration. Qed.
Print Assumptions C16_h1_order_independent_of_map_iteration.

(* without an order list HTTP/1.1 writes the map sorted by key: the lines are the same, line by
   line, for every iteration order *)
Theorem C16_h1_no_order_deterministic : forall q h',
  NoDup (map fst (c_hdr q)) -> Permutation (c_hdr q) h' ->
  is_nil (order_list (c_hdr q)) = true ->
  h1_lines (set_hdr q h') = h1_lines q.
Proof. exact h1_no_order_deterministic. Qed.
Print Assumptions C16_h1_no_order_deterministic.

Theorem C16_h2_order_independent_of_map_iteration : forall q h',
  NoDup (map fst (c_hdr q)) -> Permutation (c_hdr q) h' ->
  pseudo_lines (set_hdr q h') = pseudo_lines q /\
  Permutation (h2_lines (set_hdr q h')) (h2_lines q) /\
  (is_nil (order_list (c_hdr q)) = false ->
   map (line_rank (order_list (c_hdr q))) (h2_regular_lines (set_hdr q h')) =
   map (line_rank (order_list (c_hdr q))) (h2_regular_lines q)).
Proof. exact h2_order_independent_of_map_iteration. Qed.
Print Assumptions C16_h2_order_independent_of_map_iteration.

Theorem C16_h3_order_independent_of_map_iteration : forall q h',
  NoDup (map fst (c_hdr q)) -> Permutation (c_hdr q) h' ->
  pseudo_lines (set_hdr q h') = pseudo_lines q /\
  Permutation (h3_lines (set_hdr q h')) (h3_lines q) /\
  (is_nil (order_list (c_hdr q)) = false ->
   map (line_rank (order_list (c_hdr q))) (h3_regular_lines (set_hdr q h')) =
   map (line_rank (order_list (c_hdr q))) (h3_regular_lines q)).
Proof. exact h3_order_independent_of_map_iteration. Qed.
Print Assumptions C16_h3_order_independent_of_map_iteration.

(* ===================== part 2b: from the caller's API calls to the wire ===================== *)
(* Model/HeaderMerge.v: the setters (apply_ops), parseRequestHeader (merge_client), AddCookie, the
   client-level order wrappers (run_wrappers); transport_hdr = the map the protocol writer gets. *)

Theorem C16_setters_build_a_map : forall ops, NoDup (map fst (apply_ops ops)).
Proof. exact apply_ops_nodup. Qed.
Print Assumptions C16_setters_build_a_map.

Theorem C16_set_header_replaces : forall ops k v,
  hvals (apply_ops (ops ++ [OpSet k v])) (mime_key k) = [v].
Proof. exact set_header_replaces. Qed.
Print Assumptions C16_set_header_replaces.

Theorem C16_set_header_non_canonical_appends : forall ops k v,
  hvals (apply_ops (ops ++ [OpNC k v])) k = hvals (apply_ops ops) k ++ [v] /\
  forall k', k' <> k -> hvals (apply_ops (ops ++ [OpNC k v])) k' = hvals (apply_ops ops) k'.
Proof. exact set_header_non_canonical_appends. Qed.
Print Assumptions C16_set_header_non_canonical_appends.

(* through the canonicalising setters every letter-case spelling of a bookkeeping key IS the
   bookkeeping key, which no collector emits *)
Theorem C16_bookkeeping_spelling_via_set_header : forall k,
  (to_lower k = to_lower header_order_key -> mime_key k = header_order_key) /\
  (to_lower k = to_lower pseudo_header_order_key -> mime_key k = pseudo_header_order_key).
Proof. exact bookkeeping_spelling_via_set_header. Qed.
Print Assumptions C16_bookkeeping_spelling_via_set_header.

(* request level wins per exact key; client level fills the keys the request has no value for;
   nothing is invented *)
Theorem C16_merge_keeps_request_level : forall ch rh k vs,
  NoDup (map fst rh) -> In (k, vs) rh -> vs <> [] -> In (k, vs) (merge_client rh ch).
Proof. exact merge_keeps_request_level. Qed.
Print Assumptions C16_merge_keeps_request_level.

Theorem C16_merge_adds_client_level : forall ch rh k vs,
  NoDup (map fst ch) -> In (k, vs) ch -> hvals rh k = [] -> hvals (merge_client rh ch) k = vs.
Proof. exact merge_adds_client_level. Qed.
Print Assumptions C16_merge_adds_client_level.

Theorem C16_merge_client_ignored : forall ch rh k,
  hvals rh k <> [] -> hvals (merge_client rh ch) k = hvals rh k.
Proof. exact merge_client_ignored. Qed.
Print Assumptions C16_merge_client_ignored.

Theorem C16_merge_no_invention : forall ch rh x, In x (merge_client rh ch) -> In x rh \/ In x ch.
Proof. exact merge_no_invention. Qed.
Print Assumptions C16_merge_no_invention.

(* cookies and order lists touch only their own keys; the map stays a map *)
Theorem C16_transport_hdr_other : forall rh ch cookies ro rp k vs,
  k <> cookie_key -> k <> header_order_key -> k <> pseudo_header_order_key ->
  (In (k, vs) (transport_hdr rh ch cookies ro rp) <-> In (k, vs) (merge_client rh ch)).
Proof. exact transport_hdr_other. Qed.
Print Assumptions C16_transport_hdr_other.

Theorem C16_transport_hdr_nodup : forall rh ch cookies ro rp,
  NoDup (map fst rh) -> NoDup (map fst (transport_hdr rh ch cookies ro rp)).
Proof. exact transport_hdr_nodup. Qed.
Print Assumptions C16_transport_hdr_nodup.

(* which order list is in force: the client-level one registered first REPLACES the request's
   (as the code does); with none, the request-level list *)
Theorem C16_client_order_in_force : forall rh ch cookies o ro rp,
  order_list (transport_hdr rh ch cookies (o :: ro) rp) = o.
Proof. exact transport_order_client. Qed.
Print Assumptions C16_client_order_in_force.

Theorem C16_client_pseudo_order_in_force : forall rh ch cookies ro o rp,
  porder_list (transport_hdr rh ch cookies ro (o :: rp)) = o.
Proof. exact transport_porder_client. Qed.
Print Assumptions C16_client_pseudo_order_in_force.

Theorem C16_request_order_in_force : forall rh ch cookies rp,
  order_list (transport_hdr rh ch cookies [] rp) = hvals (merge_client rh ch) header_order_key.
Proof. exact transport_order_request. Qed.
Print Assumptions C16_request_order_in_force.

(* a header the caller set reaches the wire, whatever else (client level, cookies, order lists,
   presets) is configured *)
Theorem C16_api_h1_request_level : forall m host path scheme clen cmp rh ch cookies ro rp k vs v,
  NoDup (map fst rh) -> In (k, vs) rh -> In v vs ->
  mem_bytes k h1_exclude = false -> valid_field_name k = true -> k <> cookie_key ->
  In (k, sanitize v) (h1_lines (req_of m host path scheme (transport_hdr rh ch cookies ro rp) clen cmp)).
Proof. exact api_h1_request_level. Qed.
Print Assumptions C16_api_h1_request_level.

Theorem C16_api_h1_client_level : forall m host path scheme clen cmp rh ch cookies ro rp k vs v,
  NoDup (map fst rh) -> NoDup (map fst ch) -> In (k, vs) ch -> hvals rh k = [] -> In v vs ->
  mem_bytes k h1_exclude = false -> valid_field_name k = true -> k <> cookie_key ->
  In (k, sanitize v) (h1_lines (req_of m host path scheme (transport_hdr rh ch cookies ro rp) clen cmp)).
Proof. exact api_h1_client_level. Qed.
Print Assumptions C16_api_h1_client_level.

Theorem C16_api_h2_request_level : forall m host path scheme clen cmp rh ch cookies ro rp k vs v,
  NoDup (map fst rh) -> In (k, vs) rh -> In v vs ->
  is_excluded k = false -> is_ua k = false -> equal_fold k (bs "cookie") = false ->
  In (to_lower k, v) (h2_lines (req_of m host path scheme (transport_hdr rh ch cookies ro rp) clen cmp)).
Proof. exact api_h2_request_level. Qed.
Print Assumptions C16_api_h2_request_level.

Theorem C16_api_h3_request_level : forall m host path scheme clen cmp rh ch cookies ro rp k vs v,
  NoDup (map fst rh) -> In (k, vs) rh -> In v vs ->
  is_excluded k = false -> is_ua k = false -> k <> cookie_key ->
  In (to_lower k, v) (h3_lines (req_of m host path scheme (transport_hdr rh ch cookies ro rp) clen cmp)).
Proof. exact api_h3_request_level. Qed.
Print Assumptions C16_api_h3_request_level.

(* cookies added with SetCookies / SetCommonCookies (no hand-written Cookie header): on HTTP/2 one
   `cookie` field per cookie, in order, nothing else; on HTTP/1.1 and HTTP/3 the single field
   "p1; ...; pn" *)
Theorem C16_api_h2_cookies : forall rh ch p ps ro rp,
  hvals (merge_client rh ch) cookie_key = [] -> forallb crumb_ok (p :: ps) = true ->
  let h := transport_hdr rh ch (p :: ps) ro rp in
  In (cookie_key, hvals h cookie_key) h /\
  h2_user_lines (cookie_key, hvals h cookie_key) = map (fun c => (bs "cookie", c)) (p :: ps).
Proof. exact api_h2_cookies. Qed.
Print Assumptions C16_api_h2_cookies.

Theorem C16_api_h1_h3_cookies : forall rh ch p ps ro rp,
  hvals (merge_client rh ch) cookie_key = [] -> p <> [] ->
  let h := transport_hdr rh ch (p :: ps) ro rp in
  In (cookie_key, hvals h cookie_key) h /\
  h3_user_lines (cookie_key, hvals h cookie_key) = [(cookie_key, join_with semi_sp (p :: ps))] /\
  h1_user_lines (cookie_key, hvals h cookie_key) = [(cookie_key, sanitize (join_with semi_sp (p :: ps)))].
Proof. exact api_h3_cookies. Qed.
Print Assumptions C16_api_h1_h3_cookies.

(* ===================== part 2c: nothing is carried from one exchange to the next ===================== *)
(* Model/HeaderSeq.v.  HTTP/2: [enc]/[dec] are ANY header codec with connection state (HPACK and its
   dynamic table) that is lossless while the decoder sees every block the encoder produced. *)

(* for every sequence of requests on one connection - any mix of accepted ones and ones refused for
   exceeding the peer's SETTINGS_MAX_HEADER_LIST_SIZE, any starting table - the peer decodes, block
   by block, exactly the field lists of the accepted requests *)
Theorem C16_h2_session_history_independent :
  forall (T B : Type) (enc : T -> list line -> B * T) (dec : T -> B -> option (list line) * T),
  (forall t ls, dec t (fst (enc t ls)) = (Some ls, snd (enc t ls))) ->
  forall max qs t,
  h2_session dec (h2_client_step enc) max t t qs =
  map (fun q => Some (h2_lines q)) (filter (fun q => negb (h2_refused max q)) qs).
Proof. exact (@h2_session_history_independent). Qed.
Print Assumptions C16_h2_session_history_independent.

Theorem C16_h2_refused_leaves_table :
  forall (T B : Type) (enc : T -> list line -> B * T) max t q,
  h2_refused max q = true -> h2_client_step enc max t q = (None, t).
Proof. exact (@h2_refused_leaves_table). Qed.
Print Assumptions C16_h2_refused_leaves_table.

(* the hypothesis is satisfiable (a codec that numbers its blocks), and with the counting pass merged
   into the encoding pass the request after a refused one is no longer decoded as itself *)
Theorem C16_h2_merged_pass_refuted :
  (forall t ls, num_dec t (fst (num_enc t ls)) = (Some ls, snd (num_enc t ls))) /\
  let qs := [small_req (bs "1"); small_req (rep "B"%byte 400); small_req (bs "2")] in
  h2_session num_dec (h2_client_step num_enc) (Some 300%N) 0 0 qs =
    [Some (h2_lines (small_req (bs "1"))); Some (h2_lines (small_req (bs "2")))] /\
  h2_session num_dec (h2_client_step_merged num_enc) (Some 300%N) 0 0 qs =
    [Some (h2_lines (small_req (bs "1"))); None].
Proof. exact (conj num_sync h2_merged_pass_refuted). Qed.
Print Assumptions C16_h2_merged_pass_refuted.

(* HTTP/1.1 without an order list: for every sequence of requests drawn through the sorter pool -
   completed, or cut short by a connection fault after any number of lines - and every stale
   content of the pooled sorter, what each request writes is a function of that request alone ... *)
Theorem C16_h1_pool_session_independent : forall reqs stale,
  h1_pool_session pooled_sorted stale reqs =
  map (fun rc => cut_lines (snd rc) (h1_lines_pooled pooled_sorted [] (fst rc))) reqs.
Proof. exact h1_pool_session_independent. Qed.
Print Assumptions C16_h1_pool_session_independent.

(* ... namely the h1_lines of the collector theorems *)
Theorem C16_h1_lines_pooled_is_h1_lines : forall q,
  is_nil (order_list (c_hdr q)) = true -> h1_lines_pooled pooled_sorted [] q = h1_lines q.
Proof. exact h1_lines_pooled_is_h1_lines. Qed.
Print Assumptions C16_h1_lines_pooled_is_h1_lines.

(* taking the pooled slice as it is: the request after a failed one carries the failed one's headers *)
Theorem C16_h1_pooled_stale_refuted :
  let q1 := mk_creq (bs "GET") (bs "h") (bs "/") (bs "http") [(bs "Authorization", [bs "secret"]); (bs "X-A", [bs "1"])] 0%Z false in
  let q2 := mk_creq (bs "GET") (bs "other") (bs "/") (bs "http") [(bs "X-B", [bs "2"])] 0%Z false in
  nth 1 (h1_pool_session pooled_sorted [] [(q1, Some 2); (q2, None)]) [] = h1_lines q2 /\
  In (bs "Authorization", bs "secret") (nth 1 (h1_pool_session pooled_sorted_stale [] [(q1, Some 2); (q2, None)]) []) /\
  ~ In (bs "Authorization", bs "secret") (h1_lines q2).
Proof. exact h1_pooled_stale_refuted. Qed.
Print Assumptions C16_h1_pooled_stale_refuted.

(* families of clients made with Clone(): for every later sequence of operations - clones of it,
   clones of clones, registrations on any OTHER member - a member's registrations (header order,
   pseudo-header order, other transport middleware) do not change *)
Theorem C16_clone_later_ops_do_not_reach : forall ops2 s j,
  j < length s -> forallb (fun o => negb (writes o j)) ops2 = true ->
  nth j (fold_left fam_step ops2 s) [] = nth j s [].
Proof. exact fam_later_ops_do_not_reach. Qed.
Print Assumptions C16_clone_later_ops_do_not_reach.

Theorem C16_clone_inherits_in_force : forall s w,
  let regs := nth (length s) (fam_step s (FClone w)) [] in
  in_force header_order_key (regs_order regs) = in_force header_order_key (regs_order (nth w s [])) /\
  in_force pseudo_header_order_key (regs_porder regs) = in_force pseudo_header_order_key (regs_porder (nth w s [])).
Proof. exact clone_inherits_in_force. Qed.
Print Assumptions C16_clone_inherits_in_force.

Theorem C16_clone_own_order_when_none_inherited : forall regs k,
  regs_order regs = [] -> in_force header_order_key (regs_order (regs ++ [ROrder k])) = k.
Proof. exact own_order_when_none_inherited. Qed.
Print Assumptions C16_clone_own_order_when_none_inherited.

Theorem C16_clone_inherited_order_stays : forall regs k,
  regs_order regs <> [] ->
  in_force header_order_key (regs_order (regs ++ [ROrder k])) = in_force header_order_key (regs_order regs).
Proof. exact inherited_order_stays. Qed.
Print Assumptions C16_clone_inherited_order_stays.

(* ===================== part 2d: re-execution, overlapping requests, other spellings ===================== *)

(* ONE Request object executed again (Model/HeaderResend.v: an entry of Request.Headers is flagged
   while it is still the very copy the last execution merged from the client).  What an execution
   sends is the merge of the caller's OWN entries with the client's headers of that moment ... *)
Theorem C16_rexec_is_fresh_merge : forall s ch,
  rwf s -> strip (rexec s ch) = merge_client (rown s) ch.
Proof. exact rexec_is_fresh_merge. Qed.
Print Assumptions C16_rexec_is_fresh_merge.

(* ... and it leaves the caller's own entries as they are *)
Theorem C16_rexec_keeps_own : forall s ch,
  rwf s -> chwf ch -> rwf (rexec s ch) /\ rown (rexec s ch) = rown s.
Proof. exact rexec_keeps_own. Qed.
Print Assumptions C16_rexec_keeps_own.

(* a header pinned on the request with SetHeader is what the next execution sends under that name -
   whatever earlier executions merged there, whatever value it has, whatever the client holds now *)
Theorem C16_pinned_header_is_sent : forall s k v ch,
  hvals (strip (rexec (rapply_op s (OpSet k v)) ch)) (mime_key k) = [v].
Proof. exact pinned_header_is_sent. Qed.
Print Assumptions C16_pinned_header_is_sent.

(* retries (fix df72f46): an attempt after the first does not merge the client's headers again *)
Theorem C16_retry_sends_first_attempt : forall s ch ch' n,
  rmerge_attempt (S n) (rmerge_attempt 0 s ch) ch' = rmerge_attempt 0 s ch.
Proof. exact retry_sends_first_attempt. Qed.
Print Assumptions C16_retry_sends_first_attempt.

(* recognising the merged copy by its VALUES instead of its identity sends the client's new value *)
Theorem C16_unmerge_by_value_refuted :
  let K := bs "X-Token" in
  let s1 := rexec [] [(K, [bs "v"])] in
  let s2 := rapply_op s1 (OpSet K (bs "v")) in
  hvals (strip (rexec s2 [(K, [bs "w"])])) K = [bs "v"] /\
  hvals (strip (rexec_by_value [(K, [bs "v"])] s2 [(K, [bs "w"])])) K = [bs "w"].
Proof. exact unmerge_by_value_refuted. Qed.
Print Assumptions C16_unmerge_by_value_refuted.

(* requests overlapping on one connection's header writer (Model/HeaderShared.v: small-step, any
   number of requests, a scheduler, a mutex): for ANY schedule, whatever a stream has received is
   the field section of its own request *)
Theorem C16_shared_writer_any_interleaving : forall pays sched i t,
  nth_error (ths (run_sched step_locked sched (start pays))) i = Some t ->
  nth_error pays i = Some (pay t) /\ (out t = None \/ out t = Some (pay t)).
Proof. exact shared_writer_any_interleaving. Qed.
Print Assumptions C16_shared_writer_any_interleaving.

(* writing a slice of the shared buffer after the mutex is released: a schedule exists in which a
   stream receives the other request's field section *)
Theorem C16_shared_writer_alias_refuted :
  let pays := [bs "AAAA"; bs "BBBB"] in
  let sched := [0; 0; 0; 0; 0; 1; 1; 0; 1; 1; 1; 1] in
  map out (ths (run_sched step_locked sched (start pays))) = [Some (bs "AAAA"); Some (bs "BBBB")] /\
  map out (ths (run_sched step_alias sched (start pays))) = [Some (bs "BBBB"); Some (bs "BBBB")].
Proof. exact shared_writer_alias_refuted. Qed.
Print Assumptions C16_shared_writer_alias_refuted.

(* HTTP/1.1: any OTHER spelling of a name the writer handles itself (user-agent, HOST,
   content-length, ...) is the caller's own field: written once per value, as spelled *)
Theorem C16_h1_noncanonical_writer_name_kept : forall q k vs v,
  In (k, vs) (c_hdr q) -> In v vs ->
  In (to_lower k) (map to_lower h1_writer_handled) -> ~ In k h1_writer_handled -> valid_field_name k = true ->
  In (k, sanitize v) (h1_lines q).
Proof. exact h1_noncanonical_writer_name_kept. Qed.
Print Assumptions C16_h1_noncanonical_writer_name_kept.

(* ===================== part 2e: header blocks of any size, hops after a redirect ===================== *)

(* HTTP/2 (Model/HeaderFrag.v): whatever the size of the header block, the peer's MAX_FRAME_SIZE (> 5)
   and the HEADERS priority setting: the peer reassembles exactly the block, no frame payload
   (fragment + priority bytes) exceeds the limit, END_HEADERS sits on the last frame and on no other *)
Theorem C16_write_headers_correct : forall prio max hdrs,
  5 < max ->
  reassemble (write_headers prio max hdrs) = hdrs /\
  (forall f, In f (write_headers prio max hdrs) -> payload_len f <= max) /\
  (hdrs <> [] -> exists init lastf, write_headers prio max hdrs = init ++ [lastf] /\
     f_end lastf = true /\ forall f, In f init -> f_end f = false).
Proof. exact write_headers_correct. Qed.
Print Assumptions C16_write_headers_correct.

Theorem C16_end_headers_early_refuted :
  let hdrs := bs "0123456789ABCDEFGH" in
  reassemble (write_headers true 20 hdrs) = hdrs /\
  reassemble (split_block_early 18 true true 20 hdrs) = bs "0123456789ABCDE" /\
  map payload_len (split_block_early 18 true true 20 hdrs) = [20; 3].
Proof. exact end_headers_early_refuted. Qed.
Print Assumptions C16_end_headers_early_refuted.

(* a hop after a redirect (Model/HeaderRedirect.v): for every list of names given to
   AlwaysCopyHeaderRedirectPolicy - any spelling, repeated, unknown - every name holds on the hop
   exactly the initial request's values or nothing: never doubled, never altered *)
Theorem C16_hop_never_doubles : forall initial names strip,
  NoDup (map fst initial) ->
  forall k, hvals (hop_hdr initial names strip) k = hvals initial k \/ hvals (hop_hdr initial names strip) k = [].
Proof. exact hop_never_doubles. Qed.
Print Assumptions C16_hop_never_doubles.

(* a header the policy names reaches the hop with exactly the initial values, also when net/http
   stripped it on leaving the initial domain *)
Theorem C16_named_header_on_every_hop : forall initial names strip n,
  NoDup (map fst initial) -> In n names -> hvals initial (mime_key n) <> [] ->
  hvals (hop_hdr initial names strip) (mime_key n) = hvals initial (mime_key n).
Proof. exact named_header_on_every_hop. Qed.
Print Assumptions C16_named_header_on_every_hop.

Theorem C16_policy_step_any_spelling : forall initial hop n n',
  forallb is_tchar n = true -> to_lower n = to_lower n' -> policy_step initial hop n = policy_step initial hop n'.
Proof. exact policy_step_any_spelling. Qed.
Print Assumptions C16_policy_step_any_spelling.

Theorem C16_policy_exact_spelling_refuted :
  let initial := [(bs "Authorization", [bs "Bearer abc"]); (bs "X-A", [bs "1"])] in
  hvals (hop_hdr initial [bs "authorization"] false) (bs "Authorization") = [bs "Bearer abc"] /\
  hvals (fold_left (policy_step_exact initial) [bs "authorization"] (copy_headers false initial)) (bs "Authorization")
    = [bs "Bearer abc"; bs "Bearer abc"].
Proof. exact policy_exact_spelling_refuted. Qed.
Print Assumptions C16_policy_exact_spelling_refuted.

(* ===================== part 2f: a request given up, or whose stream fails, and the ones after it ===================== *)

(* HTTP/2 (Model/HeaderAbandon.v): for every sequence of requests on one connection - sent, refused
   for their size, given up before their headers are encoded, in any mix - any starting table and any
   stateful codec that is lossless while the decoder sees every block: the encoder's table and the
   peer's table are equal at the end, and the peer decoded exactly the field lists of the requests
   that were sent *)
Theorem C16_h2_tables_agree :
  forall (T B : Type) (enc : T -> list line -> B * T) (dec : T -> B -> option (list line) * T),
  (forall t ls, dec t (fst (enc t ls)) = (Some ls, snd (enc t ls))) ->
  forall max qfs t,
  exists t', h2_run dec (h2_step_fate enc) max t t qfs =
             (map (fun qf => Some (h2_lines (fst qf))) (filter (delivered max) qfs), t', t').
Proof. exact (@h2_tables_agree). Qed.
Print Assumptions C16_h2_tables_agree.

(* with the cancel check behind encodeHeaders the tables differ after a request given up there and
   the request that follows is not decoded *)
Theorem C16_h2_cancel_after_encode_refuted :
  let qfs := [(small_req (bs "1"), false); (small_req (bs "2"), true); (small_req (bs "3"), false)] in
  h2_run num_dec (h2_step_fate num_enc) (@None N) 0 0 qfs =
    ([Some (h2_lines (small_req (bs "1"))); Some (h2_lines (small_req (bs "3")))], 2, 2) /\
  h2_run num_dec (h2_step_fate_late num_enc) (@None N) 0 0 qfs =
    ([Some (h2_lines (small_req (bs "1"))); None], 3, 1).
Proof. exact h2_cancel_after_encode_refuted. Qed.
Print Assumptions C16_h2_cancel_after_encode_refuted.

(* HTTP/3: for every sequence of requests on one connection's request writer, whichever of them lose
   their stream while the HEADERS frame is written, every frame that is written is the frame of its
   own request's field section *)
Theorem C16_h3w_session_clean : forall (sec : creq -> bytes) (frame : bytes -> bytes) reqs,
  h3w_session (h3w_step sec frame) [] reqs =
  map (fun qo : creq * bool => if snd qo then Some (frame (sec (fst qo))) else None) reqs.
Proof. exact h3w_session_clean. Qed.
Print Assumptions C16_h3w_session_clean.

Theorem C16_h3w_leaky_refuted :
  let sec := fun q : creq => c_path q in
  let frame := fun b : bytes => b in
  let q1 := small_req (bs "1") in
  h3w_session (h3w_step sec frame) [] [(q1, false); (q1, true)] = [None; Some (bs "/")] /\
  h3w_session (h3w_step_leaky sec frame) [] [(q1, false); (q1, true)] = [None; Some (bs "//")].
Proof. exact h3w_leaky_refuted. Qed.
Print Assumptions C16_h3w_leaky_refuted.

(* ===================== part 2g: the transport's own Connection: close (HTTP/1.1, keep-alives disabled) ===================== *)

Theorem C16_h1_lines_ka_off : forall q, h1_lines_ka false q = h1_lines q.
Proof. exact h1_lines_ka_off. Qed.
Print Assumptions C16_h1_lines_ka_off.

(* the caller asked for close himself (any letter case, alone or within a token list): the transport
   adds nothing - the caller's field goes out once *)
Theorem C16_h1_lines_ka_caller_close : forall dka q,
  req_wants_close (c_hdr q) = true -> h1_lines_ka dka q = h1_lines q.
Proof. exact h1_lines_ka_caller_close. Qed.
Print Assumptions C16_h1_lines_ka_caller_close.

(* otherwise exactly one line Connection: close is added and every other line stays *)
Theorem C16_h1_lines_ka_adds_one : forall q,
  req_wants_close (c_hdr q) = false ->
  Permutation (h1_lines_ka true q) ((bs "Connection", bs "close") :: h1_lines q).
Proof. exact h1_lines_ka_adds_one. Qed.
Print Assumptions C16_h1_lines_ka_adds_one.

Theorem C16_conn_close_blind_refuted :
  let q := mk_creq (bs "GET") (bs "h") (bs "/") (bs "http") [(bs "Connection", [bs "Close"])] 0%Z false in
  h1_lines_ka true q = [(bs "Host", bs "h"); (bs "User-Agent", default_user_agent); (bs "Connection", bs "Close")] /\
  flatten (h1_kvs_ka conn_close_kv_blind true q) =
    [(bs "Host", bs "h"); (bs "User-Agent", default_user_agent); (bs "Connection", bs "Close"); (bs "Connection", bs "close")].
Proof. exact conn_close_blind_refuted. Qed.
Print Assumptions C16_conn_close_blind_refuted.

Theorem C16_round7_go_as_modelled :
  src_h1_conn_close_cond = bs "pc.t.DisableKeepAlives && !reqWantsClose(req.Request) && !isProtocolSwitchHeader(req.Header)".
Proof. exact h1_conn_close_cond_go_as_modelled. Qed.
Print Assumptions C16_round7_go_as_modelled.

(* ===================== part 2h: common headers in a family of cloned clients ===================== *)

(* for every later sequence of operations on OTHER members (clones of it, clones of clones, values added
   or set on parent, sibling, child): a member's common headers do not change *)
Theorem C16_hfam_later_ops_do_not_reach : forall ops2 s j,
  j < length s -> forallb (fun o => negb (hwrites o j)) ops2 = true ->
  nth j (fold_left hfam_step ops2 s) [] = nth j s [].
Proof. exact hfam_later_ops_do_not_reach. Qed.
Print Assumptions C16_hfam_later_ops_do_not_reach.

(* clone, then one more value under the same name on the clone AND on the original, in either order:
   each side ends with the inherited values followed by its OWN value *)
Theorem C16_clone_then_append_both_sides : forall s w k a b,
  w < length s ->
  let kid := length s in
  let s1 := fold_left hfam_step [HClone w; HAdd kid k a; HAdd w k b] s in
  let s2 := fold_left hfam_step [HClone w; HAdd w k b; HAdd kid k a] s in
  hvals (nth kid s1 []) k = hvals (nth w s []) k ++ [a] /\ hvals (nth w s1 []) k = hvals (nth w s []) k ++ [b] /\
  hvals (nth kid s2 []) k = hvals (nth w s []) k ++ [a] /\ hvals (nth w s2 []) k = hvals (nth w s []) k ++ [b].
Proof. exact clone_then_append_both_sides. Qed.
Print Assumptions C16_clone_then_append_both_sides.

(* a SHALLOW copy of the map (value slices shared, len 3 / cap 4): the original's append overwrites the
   clone's in the shared slot *)
Theorem C16_shallow_clone_lost_update :
  let k := bs "X-Common" in
  let hp0 := mk_sheap [] in
  let '(hp1, m1) := sappend hp0 [] k (bs "a") in
  let '(hp2, m2) := sappend hp1 m1 k (bs "b") in
  let '(hp3, orig) := sappend hp2 m2 k (bs "c") in
  let clone := orig in
  let '(hp4, clone') := sappend hp3 clone k (bs "clone-only") in
  let '(hp5, orig') := sappend hp4 orig k (bs "orig-only") in
  smap_vals hp4 clone' k = [bs "a"; bs "b"; bs "c"; bs "clone-only"] /\
  smap_vals hp5 clone' k = [bs "a"; bs "b"; bs "c"; bs "orig-only"] /\
  smap_vals hp5 orig' k = [bs "a"; bs "b"; bs "c"; bs "orig-only"].
Proof. exact shallow_clone_lost_update. Qed.
Print Assumptions C16_shallow_clone_lost_update.

Theorem C16_round8_go_as_modelled : src_clone_headers = bs "t.Headers.Clone()".
Proof. exact clone_headers_go_as_modelled. Qed.
Print Assumptions C16_round8_go_as_modelled.

(* ===================== part 3: the source the model transcribes ===================== *)
(* Gen/HeaderSrc.v is regenerated from the working tree on every run; these statements pin the text
   of the small functions the model was written from and the names the collectors write. *)
Theorem C16_sort_go_as_modelled :
  src_canonicalKey = bs "{ if strings.HasPrefix(key, "":"") { return strings.ToLower(key) } return textproto.CanonicalMIMEHeaderKey(key) }" /\
  src_sorter_rank = bs "{ if index, ok := s.order[canonicalKey(s.kvs[i].Key)]; ok { return index } return s.unlisted }" /\
  src_sorter_Less = bs "{ return s.rank(i) < s.rank(j) }" /\
  src_sorter_Swap = bs "{ s.kvs[i], s.kvs[j] = s.kvs[j], s.kvs[i] }" /\
  src_SortKeyValues = bs "{ order := make(map[string]int) for i, key := range orderedKeys { order[canonicalKey(key)] = i } s := &sorter{order: order, unlisted: len(orderedKeys), kvs: kvs} sort.Stable(s) }".
Proof. exact sort_go_as_modelled. Qed.
Print Assumptions C16_sort_go_as_modelled.

Theorem C16_is_excluded_go_as_modelled :
  src_IsExcluded = bs "{ if reqWriteExcludeHeader[strings.ToLower(key)] { return true } return false }".
Proof. exact is_excluded_go_as_modelled. Qed.
Print Assumptions C16_is_excluded_go_as_modelled.

Theorem C16_writer_names_as_modelled :
  h1_writer_names = [bs "Host"; bs "User-Agent"] /\
  h2_writer_names = [bs ":authority"; bs ":method"; bs ":path"; bs ":scheme"; bs "trailer"; bs "cookie";
                     bs "content-length"; bs "accept-encoding"; bs "user-agent"] /\
  h3_writer_names = [bs ":authority"; bs ":method"; bs ":path"; bs ":scheme"; bs ":protocol"; bs "trailer";
                     bs "content-length"; bs "accept-encoding"; bs "user-agent"].
Proof. exact writer_names_as_modelled. Qed.
Print Assumptions C16_writer_names_as_modelled.

Theorem C16_pseudo_default_order_from_source : forall q,
  map fst (pseudo_kvs q) = firstn 4 h2_writer_names /\ map fst (pseudo_kvs q) = firstn 4 h3_writer_names.
Proof. exact pseudo_default_order_from_source. Qed.
Print Assumptions C16_pseudo_default_order_from_source.

Theorem C16_carried_state_go_as_modelled :
  src_headerSortedKeyValues = bs "{ hs = headerSorterPool.Get().(*headerSorter) if cap(hs.kvs) < len(h) { hs.kvs = make([]header.KeyValues, 0, len(h)) } kvs = hs.kvs[:0] for k, vv := range h { if !exclude[k] { kvs = append(kvs, header.KeyValues{k, vv}) } } hs.kvs = kvs sort.Sort(hs) return kvs, hs }" /\
  (h2_src_refuse_offset <? h2_src_encode_offset)%N = true /\
  src_clone_wrappers = bs "cloneSlice(t.httpRoundTripWrappers)".
Proof.
  exact (conj header_sorted_key_values_go_as_modelled
          (conj h2_counting_pass_precedes_encoding clone_copies_wrappers_go_as_modelled)).
Qed.
Print Assumptions C16_carried_state_go_as_modelled.

Theorem C16_round4_go_as_modelled :
  src_h3_writeHeaders = bs "{ w.mutex.Lock() defer w.mutex.Unlock() defer w.encoder.Close() defer w.headerBuf.Reset() if err := w.encodeHeaders(req, gzip, """", actualContentLength(req), dumps); err != nil { return err } b := make([]byte, 0, 128) b = (&headersFrame{Length: uint64(w.headerBuf.Len())}).Append(b) if _, err := wr.Write(b); err != nil { return err } _, err := wr.Write(w.headerBuf.Bytes()) return err }" /\
  src_unmerge_headers = bs "for k, vs := range m.headers { if cur := r.Headers[k]; len(vs) > 0 && len(cur) == len(vs) && &cur[0] == &vs[0] { delete(r.Headers, k) } }" /\
  src_h1_write_subset_call = bs "headerWriteSubset(r.Header, reqWriteExcludeHeader, writeHeader, sort)".
Proof.
  exact (conj h3_write_headers_go_as_modelled (conj (proj2 resend_go_as_modelled) h1_write_subset_call_go_as_modelled)).
Qed.
Print Assumptions C16_round4_go_as_modelled.

Theorem C16_round5_go_as_modelled :
  src_AlwaysCopyHeaderRedirectPolicy = bs "{ return func(req *http.Request, via []*http.Request) error { for _, header := range headers { if len(req.Header.Values(header)) > 0 { continue } vals := via[0].Header.Values(header) for _, val := range vals { req.Header.Add(header, val) } } return nil } }" /\
  src_h2_writeHeaders = bs "{ first := true for len(hdrs) > 0 && cc.werr == nil { chunk := hdrs max := maxFrameSize if first && !cc.t.HeaderPriority.IsZero() && max > 5 { max -= 5 } if len(chunk) > max { chunk = chunk[:max] } hdrs = hdrs[len(chunk):] endHeaders := len(hdrs) == 0 if first { cc.fr.WriteHeaders(HeadersFrameParam{StreamID: streamID, BlockFragment: chunk, EndStream: endStream, EndHeaders: endHeaders, Priority: cc.t.HeaderPriority}) first = false } else { cc.fr.WriteContinuation(streamID, endHeaders, chunk) } } cc.bw.Flush() return cc.werr }".
Proof. exact (conj always_copy_go_as_modelled h2_write_headers_go_as_modelled). Qed.
Print Assumptions C16_round5_go_as_modelled.

Theorem C16_round6_go_as_modelled :
  (h2_src_cancel_check_offset <? h2_src_encode_call_offset)%N = true /\
  src_h3_WriteRequestHeader = bs "{ buf := &bytes.Buffer{} if err := w.writeHeaders(buf, req, gzip, dumps); err != nil { return err } _, err := str.Write(buf.Bytes()) return err }".
Proof. exact (conj h2_cancel_check_precedes_encoding h3_write_request_header_go_as_modelled). Qed.
Print Assumptions C16_round6_go_as_modelled.

Example C16_nonvacuous :
  let order := [bs "x-b"; bs "COOKIE"; bs "x-a"; bs "x-b"] in
  let kvs := [(bs "Z", [bs "0"]); (bs "X-A", [bs "1"]); (bs "cookie", [bs "2"]);
              (bs "X-B", [bs "3"]); (bs "Y", [bs "4"]); (bs "Cookie", [bs "5"])] in
  map fst (sort_key_values kvs order) = [bs "cookie"; bs "Cookie"; bs "X-A"; bs "X-B"; bs "Z"; bs "Y"] /\
  NoDup (map canonical_key [bs "x-b"; bs "COOKIE"; bs "x-a"]).
Proof.
  split; [vm_compute; reflexivity|].
  repeat constructor; cbn; intuition discriminate.
Qed.

(* a request with an order list, a pseudo-header order in capitals, a forbidden field spelled in
   lower case, names differing only in case, a multi-valued field and a cookie header: the
   hypotheses of the collector theorems hold and the three wire lists are what one expects *)
Definition c16_example : creq :=
  mk_creq (bs "POST") (bs "example.com") (bs "/p?x=1") (bs "https")
    [(bs "x-b", [bs "1"; bs "2"]); (bs "X-B", [bs "3"]); (bs "connection", [bs "keep-alive"]);
     (bs "Cookie", [bs "a=1; b=2"]); (bs "X-A", [bs "4"]);
     (bs "__header_order__", [bs "X-A"; bs "cookie"; bs "x-b"]);
     (bs "__pseudo_header_order__", [bs ":SCHEME"; bs ":path"])] 3%Z true.

Example C16_collectors_nonvacuous :
  NoDup (map fst (c_hdr c16_example)) /\ names_are_tokens (c_hdr c16_example) /\
  is_nil (order_list (c_hdr c16_example)) = false /\
  In (map to_lower (porder_list (c_hdr c16_example))) pseudo_selections /\
  h1_lines c16_example =
    [(bs "X-A", bs "4"); (bs "Cookie", bs "a=1; b=2"); (bs "x-b", bs "1"); (bs "x-b", bs "2"); (bs "X-B", bs "3");
     (bs "Host", bs "example.com"); (bs "User-Agent", default_user_agent); (bs "Content-Length", bs "3");
     (bs "connection", bs "keep-alive"); (bs "Accept-Encoding", bs "gzip")] /\
  h2_lines c16_example =
    [(bs ":scheme", bs "https"); (bs ":path", bs "/p?x=1"); (bs ":authority", bs "example.com"); (bs ":method", bs "POST");
     (bs "x-a", bs "4"); (bs "cookie", bs "a=1"); (bs "cookie", bs "b=2");
     (bs "x-b", bs "1"); (bs "x-b", bs "2"); (bs "x-b", bs "3");
     (bs "content-length", bs "3"); (bs "accept-encoding", bs "gzip"); (bs "user-agent", default_user_agent)] /\
  h3_lines c16_example =
    [(bs ":scheme", bs "https"); (bs ":path", bs "/p?x=1"); (bs ":authority", bs "example.com"); (bs ":method", bs "POST");
     (bs "x-a", bs "4"); (bs "cookie", bs "a=1; b=2");
     (bs "x-b", bs "1"); (bs "x-b", bs "2"); (bs "x-b", bs "3");
     (bs "content-length", bs "3"); (bs "accept-encoding", bs "gzip"); (bs "user-agent", default_user_agent)].
Proof.
  split; [apply (NoDup_map_inv (fun k => k)); rewrite map_id;
          apply (proj1 (nodupb_spec _)); vm_compute; reflexivity|].
  split; [intros x Hx; cbn in Hx; repeat (destruct Hx as [<-|Hx]; [vm_compute; reflexivity|]); destruct Hx|].
  split; [vm_compute; reflexivity|].
  split; [vm_compute; tauto|].
  repeat split; vm_compute; reflexivity.
Qed.

(* the API-level statements are about real configurations: request-level calls (a canonicalising
   setter, the non-canonical one twice, an order list), client-level calls (one overridden name, one
   not, a name differing only in case), two cookies and two client-level order registrations *)
Example C16_api_nonvacuous :
  let rh := apply_ops [OpSet (bs "x-a") (bs "1"); OpNC (bs "x-b") (bs "2"); OpNC (bs "x-b") (bs "3");
                       OpOrder [bs "x-b"; bs "cookie"]] in
  let ch := apply_ops [OpSet (bs "X-A") (bs "client"); OpSet (bs "x-c") (bs "4"); OpNC (bs "X-B") (bs "5")] in
  let h := transport_hdr rh ch [bs "a=1"; bs "b=2"] [[bs "x-c"; bs "x-a"]; [bs "ignored"]] [] in
  NoDup (map fst rh) /\ NoDup (map fst ch) /\
  order_list h = [bs "x-c"; bs "x-a"] /\
  h1_lines (req_of (bs "GET") (bs "example.com") (bs "/") (bs "http") h 0%Z false) =
    [(bs "X-C", bs "4"); (bs "X-A", bs "1"); (bs "Host", bs "example.com"); (bs "User-Agent", default_user_agent);
     (bs "x-b", bs "2"); (bs "x-b", bs "3"); (bs "X-B", bs "5"); (bs "Cookie", bs "a=1; b=2")] /\
  h2_lines (req_of (bs "GET") (bs "example.com") (bs "/") (bs "http") h 0%Z false) =
    [(bs ":authority", bs "example.com"); (bs ":method", bs "GET"); (bs ":path", bs "/"); (bs ":scheme", bs "http");
     (bs "x-c", bs "4"); (bs "x-a", bs "1"); (bs "x-b", bs "2"); (bs "x-b", bs "3"); (bs "x-b", bs "5");
     (bs "cookie", bs "a=1"); (bs "cookie", bs "b=2"); (bs "user-agent", default_user_agent)].
Proof.
  split; [apply apply_ops_nodup|]. split; [apply apply_ops_nodup|].
  repeat split; vm_compute; reflexivity.
Qed.
