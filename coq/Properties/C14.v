(* Properties/C14.v - Content decoding returns the original payload or leaves the response alone.
   Only statements, `exact`, and Print Assumptions.  Model: Model/Decode.v (the three call sites
   transport.go readLoop / http2 handleResponse / http3 ReadResponse after fixes 4ac0921, b03ea4e,
   c31eb6d; compress.NewCompressReader with its switch labels regenerated into Gen/CompressLabels.v)
   and Model/DecodeSession.v (several response bodies alive at once: heap of decompressor objects,
   interleaved ReadFull/Close operations; allocation discipline tied to Gen/CompressReaders.v).
   The codecs are universally quantified functions with the single hypothesis
   `dec e (compress e p) = (p, EOF)`. *)
From ReqV Require Import Lib.Bytes Gen.CompressLabels Gen.CompressReaders Gen.DecodeSites Model.Decode
  Model.DecodeSession Model.DecodeAttempts Model.DecodeLive Proofs.DecodeProofs Proofs.DecodeSessionProofs
  Proofs.DecodeAttemptsProofs Proofs.DecodeLiveProofs.

(* the transport asks for gzip exactly when compression is not disabled, the caller set neither
   Accept-Encoding nor Range, and the method is not HEAD - on all three stacks *)
Theorem C14_asked_gzip_iff : forall st c,
  asked_gzip st c = true <->
  q_disable c = false /\ q_ae c = [] /\ q_range c = [] /\ q_head c = false.
Proof. exact asked_gzip_iff. Qed.
Print Assumptions C14_asked_gzip_iff.

(* the supported codings are exactly the labels of the switch in compress.NewCompressReader,
   and those are gzip, deflate, br, zstd *)
Theorem C14_supported_is_the_codes_set : forall ce,
  (exists e, new_compress_reader ce = Some e) <-> In ce supported_encodings.
Proof. exact new_compress_reader_supported. Qed.
Print Assumptions C14_supported_is_the_codes_set.

Theorem C14_supported_exact :
  supported_encodings = [bs "gzip"; bs "deflate"; bs "br"; bs "zstd"].
Proof. exact supported_exact. Qed.
Print Assumptions C14_supported_exact.

(* whenever the decision is to decode (transport asked for gzip and the coding is gzip, or
   AutoDecompression and a supported coding) the caller reads exactly the original payload -
   for every schedule of positive read sizes - and the headers no longer claim a coding or a
   length; nothing else about the response changes *)
Theorem C14_decoded_is_original :
  forall (compress : enc -> bytes -> bytes) (dec : codec),
  (forall e p, dec e (compress e p) = {| s_data := p; s_end := EOF |}) ->
  forall st c auto r e p sizes,
  r_cl r <> 0%Z ->
  wants_decode c auto (content_encoding (r_ce r)) = Some e ->
  r_body r = Raw (compress e p) -> r_short r = false ->
  Forall (fun n => 0 < n) sizes -> length p < length sizes ->
  let r' := respond st c auto false r in
  fst (drain dec sizes (open_resp r')) = (p, Some EOF) /\
  r_ce r' = [] /\ r_clh r' = [] /\ r_cl r' = (-1)%Z /\ r_unc r' = true /\
  r_other r' = r_other r.
Proof. exact decoded_is_original. Qed.
Print Assumptions C14_decoded_is_original.

(* in every other case the response (headers, ContentLength, Uncompressed, body) is returned
   exactly as received *)
Theorem C14_otherwise_untouched : forall st c auto ended r,
  q_head c = true
  \/ (auto = false /\ q_ae c <> [])
  \/ (auto = false /\ q_range c <> [])
  \/ (auto = false /\ q_disable c = true)
  \/ r_ce r = []
  \/ (new_compress_reader (content_encoding (r_ce r)) = None /\
      equal_fold (content_encoding (r_ce r)) tok_gzip = false)
  \/ (auto = false /\ equal_fold (content_encoding (r_ce r)) tok_gzip = false)
  ->
  respond st c auto ended r = r.
Proof. exact otherwise_untouched. Qed.
Print Assumptions C14_otherwise_untouched.

(* the two theorems above are exhaustive: the response is rewritten iff wants_decode says so *)
Theorem C14_decode_iff_wanted : forall st c auto r,
  r_cl r <> 0%Z ->
  respond st c auto false r = delivered r (wants_decode c auto (content_encoding (r_ce r))).
Proof. exact respond_spec. Qed.
Print Assumptions C14_decode_iff_wanted.

Theorem C14_nothing_wanted_nothing_touched : forall st c auto ended r,
  wants_decode c auto (content_encoding (r_ce r)) = None -> respond st c auto ended r = r.
Proof. exact respond_none. Qed.
Print Assumptions C14_nothing_wanted_nothing_touched.

(* the outcome does not depend on the HTTP version *)
Theorem C14_stacks_agree : forall c auto r,
  r_cl r <> 0%Z ->
  respond H1 c auto false r = respond H2 c auto false r /\
  respond H2 c auto false r = respond H3 c auto false r.
Proof. exact stacks_agree. Qed.
Print Assumptions C14_stacks_agree.

Theorem C14_head_untouched_on_every_stack : forall st c auto ended r,
  q_head c = true -> respond st c auto ended r = r.
Proof. exact respond_head. Qed.
Print Assumptions C14_head_untouched_on_every_stack.

(* nor on read sizes: every schedule of positive sizes long enough to reach the end yields the
   same bytes and the same terminal status *)
Theorem C14_read_size_independent : forall dec r sizes,
  Forall (fun n => 0 < n) sizes -> length (s_data (stream_of dec r)) < length sizes ->
  fst (drain dec sizes r) = (s_data (stream_of dec r), Some (s_end (stream_of dec r))).
Proof. exact read_size_independent. Qed.
Print Assumptions C14_read_size_independent.

(* a decoder error reaches the caller (it ends the reads of every schedule) ... *)
Theorem C14_decode_error_surfaces : forall (dec : codec) st c auto r e sizes,
  r_cl r <> 0%Z ->
  wants_decode c auto (content_encoding (r_ce r)) = Some e ->
  r_short r = false ->
  Forall (fun n => 0 < n) sizes ->
  length (s_data (dec e (wire_of (r_body r)))) < length sizes ->
  fst (drain dec sizes (open_resp (respond st c auto false r))) =
    (s_data (dec e (wire_of (r_body r))), Some (s_end (dec e (wire_of (r_body r))))).
Proof. exact decode_error_surfaces. Qed.
Print Assumptions C14_decode_error_surfaces.

(* ... and is sticky: once a read returned an error every later read returns no data and the
   same error *)
Theorem C14_sticky_error : forall dec n r b e r',
  rd_read dec n r = (b, Some e, r') ->
  b = [] /\ forall m, rd_read dec m r' = ([], Some e, r').
Proof. exact read_sticky. Qed.
Print Assumptions C14_sticky_error.

Theorem C14_sticky_after_drain : forall dec sizes r b e r',
  drain dec sizes r = (b, Some e, r') -> forall m, rd_read dec m r' = ([], Some e, r').
Proof. exact drain_sticky. Qed.
Print Assumptions C14_sticky_after_drain.

(* what goes on the wire: "gzip" when the transport asks, otherwise exactly the caller's value *)
Theorem C14_accept_encoding_on_the_wire : forall st c,
  sent_accept_encoding st c = if transport_asked c then bs "gzip" else q_ae c.
Proof. exact sent_accept_encoding_spec. Qed.
Print Assumptions C14_accept_encoding_on_the_wire.

(* a response without a body on the wire (HEAD, Content-Length: 0 on HTTP/1, END_STREAM on the HEADERS
   frame on HTTP/2) is never touched, whatever its headers say *)
Theorem C14_bodiless_untouched : forall c auto ended r,
  (q_head c = true \/ r_cl r = 0%Z -> respond H1 c auto ended r = r) /\
  (q_head c = true \/ ended = true -> respond H2 c auto ended r = r).
Proof. exact bodiless_untouched. Qed.
Print Assumptions C14_bodiless_untouched.

(* several Content-Encoding header lines are one list (RFC 9110 5.3; compress.ContentEncoding joins
   them, fix c31eb6d): such a response is returned as received, whatever the lines say *)
Theorem C14_multi_line_is_a_list : forall st c auto ended r,
  2 <= length (r_ce r) -> respond st c auto ended r = r.
Proof. exact multi_line_untouched. Qed.
Print Assumptions C14_multi_line_is_a_list.

(* before that fix the decision looked at the first line and the rewrite deleted all lines: a body
   encoded twice was delivered once-decoded under headers naming no coding *)
Theorem C14_first_line_refuted : forall (compress : enc -> bytes -> bytes) (p : bytes),
  let c := {| q_disable := false; q_ae := []; q_range := []; q_head := false |} in
  let r := {| r_ce := [bs "gzip"; bs "gzip"]; r_clh := []; r_other := []; r_cl := (-1)%Z; r_unc := false;
              r_body := Raw (compress Gzip (compress Gzip p)); r_short := false |} in
  forall st,
  (r_ce (respond_first_line st c false false r) = [] /\
   r_body (respond_first_line st c false false r) = Lazy Gzip (compress Gzip (compress Gzip p))) /\
  respond st c false false r = r.
Proof. exact first_line_refuted. Qed.
Print Assumptions C14_first_line_refuted.

(* ---------- a body that ends (cleanly) short of its declared Content-Length ---------- *)

(* the framing layer's length check survives every decision, on every stack: decoding a body does not
   switch it off *)
Theorem C14_length_check_survives_decoding : forall st c auto ended r,
  r_short (respond st c auto ended r) = r_short r.
Proof. exact length_check_survives. Qed.
Print Assumptions C14_length_check_survives_decoding.

(* a decoded body that ends short: for every coding (every reader waits for the end of the message below
   it: withMessageEnd, gzip multistream) every read schedule ends with an error, never a clean io.EOF, after
   exactly what is decodable from the bytes that arrived; wherever the cut falls (also on a member
   boundary, also before the first byte), on every stack *)
Theorem C14_short_decoded_is_error : forall (dec : codec) st c auto r e sizes,
  r_cl r <> 0%Z ->
  wants_decode c auto (content_encoding (r_ce r)) = Some e ->
  r_short r = true ->
  Forall (fun n => 0 < n) sizes ->
  length (s_data (dec e (wire_of (r_body r)))) < length sizes ->
  exists x, x <> EOF /\
    fst (drain dec sizes (open_resp (respond st c auto false r))) =
      (s_data (dec e (wire_of (r_body r))), Some x).
Proof. exact short_decoded_is_error. Qed.
Print Assumptions C14_short_decoded_is_error.

(* an untouched body that ends short: the bytes that arrived, then the framing error *)
Theorem C14_short_untouched_is_error : forall (dec : codec) st c auto ended r w sizes,
  wants_decode c auto (content_encoding (r_ce r)) = None ->
  r_body r = Raw w -> r_short r = true ->
  Forall (fun n => 0 < n) sizes -> length w < length sizes ->
  fst (drain dec sizes (open_resp (respond st c auto ended r))) = (w, Some ErrShort).
Proof. exact short_untouched_is_error. Qed.
Print Assumptions C14_short_untouched_is_error.

(* every reader waits for the end of the message below it *)
Theorem C14_every_reader_meets_the_message_end : forall e, probes_past_end e = true.
Proof. exact every_reader_meets_the_message_end. Qed.
Print Assumptions C14_every_reader_meets_the_message_end.

(* ... which is what the source says (table regenerated on every run): each constructor named by
   compress.NewCompressReader returns its reader wrapped in withMessageEnd *)
Theorem C14_readers_wrapped_with_message_end :
  reader_constructors =
  [ (bs "NewBrotliReader", bs "withMessageEnd(&BrotliReader{Body: body})");
    (bs "NewDeflateReader", bs "withMessageEnd(&DeflateReader{Body: body})");
    (bs "NewGzipReader", bs "withMessageEnd(&GzipReader{Body: body})");
    (bs "NewZstdReader", bs "withMessageEnd(&ZstdReader{Body: body})") ].
Proof. exact readers_wait_for_the_message_end. Qed.
Print Assumptions C14_readers_wrapped_with_message_end.

(* a rewrite that stops measuring decoded bodies against the declared length (NOT the code) hands out
   the first gzip member of a body cut on the member boundary with a clean io.EOF; the code: ErrShort *)
Theorem C14_unchecked_rewrite_refuted :
  let c := {| q_disable := false; q_ae := []; q_range := []; q_head := false |} in
  fst (drain id_codec0 [9; 9] (open_resp (rewrite_unchecked r_cut_example (Lazy Gzip (bs "aaaa"))))) =
    (bs "aaaa", Some EOF) /\
  fst (drain id_codec0 [9; 9] (open_resp (respond H2 c false false r_cut_example))) =
    (bs "aaaa", Some ErrShort).
Proof. exact unchecked_rewrite_refuted. Qed.
Print Assumptions C14_unchecked_rewrite_refuted.

(* http2: the length check is armed once, from the declared length, before the decode branch, and only
   counted down afterwards (table regenerated from internal/http2/transport.go on every run) *)
Theorem C14_h2_length_check_armed_once :
  h2_bytes_remain_assignments =
  [(bs "handleResponse", bs "=", bs "bodyLength"); (bs "Read", bs "-=", bs "int64(n)")].
Proof. exact h2_length_check_armed_once. Qed.
Print Assumptions C14_h2_length_check_armed_once.

(* ---------- one request, several attempts (Model/DecodeAttempts.v) ---------- *)

(* a transport-level re-send, or the caller sending the same request object again: any number of
   attempts, each asks (or not) and sends exactly what the first does, the caller's request is unchanged *)
Theorem C14_every_attempt_is_a_first_attempt : forall st n c,
  run_attempts (attempt st) n c = (repeat (asked_gzip st c, sent_accept_encoding st c) n, c).
Proof. exact attempts_stable. Qed.
Print Assumptions C14_every_attempt_is_a_first_attempt.

(* so the answer to attempt k is decoded or left alone exactly like the answer to a first attempt *)
Theorem C14_answer_to_a_retry_treated_alike : forall st n c auto ended r,
  respond st (snd (run_attempts (attempt st) n c)) auto ended r = respond st c auto ended r.
Proof. exact attempts_respond. Qed.
Print Assumptions C14_answer_to_a_retry_treated_alike.

(* what `attempt` assumes is what the source says: the only Accept-Encoding written into a header map
   goes into the per-attempt extra headers (table regenerated on every run) *)
Theorem C14_accept_encoding_written_per_attempt :
  accept_encoding_header_writes = [(bs "transport.go", bs "roundTrip", bs "req.extraHeaders()")].
Proof. exact accept_encoding_written_per_attempt. Qed.
Print Assumptions C14_accept_encoding_written_per_attempt.

(* writing it into the caller's header map (NOT the code): the second attempt does not ask and its gzip
   answer comes back undecoded, Content-Encoding still set *)
Theorem C14_own_header_write_refuted :
  fst (run_attempts (attempt_own_header H1) 2 c_default) = [(true, bs "gzip"); (false, bs "gzip")] /\
  snd (run_attempts (attempt_own_header H1) 1 c_default) <> c_default /\
  respond H1 (snd (run_attempts (attempt_own_header H1) 1 c_default)) false false r_gzip = r_gzip /\
  r_body (respond H1 (snd (run_attempts (attempt H1) 1 c_default)) false false r_gzip) = Lazy Gzip (bs "zzzz").
Proof. exact own_header_refuted. Qed.
Print Assumptions C14_own_header_write_refuted.

(* ---------- settings changed between exchanges on live connections (Model/DecodeLive.v) ---------- *)

(* any connection - opened under any settings, any number of exchanges old - and any list of exchanges,
   each made under the settings current at its time: every exchange is answered exactly as `respond`
   under the settings of that moment; nothing of the history, nothing of the settings at opening time *)
Theorem C14_decision_reads_the_settings_of_the_moment : forall st steps lc,
  live_run (live_exchange st) lc steps =
  map (fun x : live_step =>
         let '(cur, q, ended, r) := x in respond st (cfg_under cur q) (set_auto cur) ended r) steps.
Proof. exact live_run_current. Qed.
Print Assumptions C14_decision_reads_the_settings_of_the_moment.

Theorem C14_live_connection_history_independent : forall st steps lc1 lc2,
  live_run (live_exchange st) lc1 steps = live_run (live_exchange st) lc2 steps.
Proof. exact live_run_history_independent. Qed.
Print Assumptions C14_live_connection_history_independent.

(* so the stacks agree on live connections too, whatever each connection was opened under *)
Theorem C14_live_stacks_agree : forall lc1 lc2 lc3 cur q r,
  r_cl r <> 0%Z ->
  fst (live_exchange H1 lc1 cur q false r) = fst (live_exchange H2 lc2 cur q false r) /\
  fst (live_exchange H2 lc2 cur q false r) = fst (live_exchange H3 lc3 cur q false r).
Proof. exact live_stacks_agree. Qed.
Print Assumptions C14_live_stacks_agree.

(* what `live_exchange` assumes is what the source says: every read of AutoDecompression /
   DisableCompression in the three stacks goes to the shared options where it is used (table
   regenerated on every run) *)
Theorem C14_settings_read_where_used :
  decompression_setting_reads =
  [ (bs "transport.go", bs "readLoop", bs "pc.t.AutoDecompression");
    (bs "transport.go", bs "roundTrip", bs "pc.t.DisableCompression");
    (bs "internal/http2/transport.go", bs "roundTrip", bs "cc.t.DisableCompression");
    (bs "internal/http2/transport.go", bs "handleResponse", bs "cs.cc.t.AutoDecompression");
    (bs "internal/http3/client.go", bs "roundTrip", bs "c.DisableCompression");
    (bs "internal/http3/client.go", bs "OpenRequestStream", bs "c.DisableCompression");
    (bs "internal/http3/http_stream.go", bs "SendRequestHeader", bs "s.DisableCompression");
    (bs "internal/http3/http_stream.go", bs "SendRequestHeader", bs "s.disableCompression");
    (bs "internal/http3/http_stream.go", bs "ReadResponse", bs "s.AutoDecompression") ].
Proof. exact settings_read_where_used. Qed.
Print Assumptions C14_settings_read_where_used.

(* HTTP/2 deciding on AutoDecompression as it was when the connection was opened (NOT the code) *)
Theorem C14_settings_snapshot_refuted :
  let opened_off := {| lc_opened := s_off; lc_exchanges := 1 |} in
  let opened_on := {| lc_opened := s_on; lc_exchanges := 1 |} in
  fst (live_exchange_snapshot H2 opened_off s_on q_plain false r_deflate) = r_deflate /\
  r_body (fst (live_exchange_snapshot H1 opened_off s_on q_plain false r_deflate)) = Lazy Deflate (bs "dddd") /\
  r_body (fst (live_exchange H2 opened_off s_on q_plain false r_deflate)) = Lazy Deflate (bs "dddd") /\
  r_body (fst (live_exchange_snapshot H2 opened_on s_off q_plain false r_deflate)) = Lazy Deflate (bs "dddd") /\
  fst (live_exchange H2 opened_on s_off q_plain false r_deflate) = r_deflate.
Proof. exact snapshot_refuted. Qed.
Print Assumptions C14_settings_snapshot_refuted.

(* http3: RequestStream.Read and res.Body hand out one and the same reader (table regenerated from
   ReadResponse on every run) *)
Theorem C14_h3_one_reader_for_both_ways :
  h3_read_response_body_assignments =
  [ (bs "s.responseBody", bs "=", bs "respBody");
    (bs "s.responseBody", bs "=", bs "compress.NewGzipReader(respBody)");
    (bs "s.responseBody", bs "=", bs "cr");
    (bs "res.Body", bs "=", bs "s.responseBody") ].
Proof. exact h3_one_reader_for_both_ways. Qed.
Print Assumptions C14_h3_one_reader_for_both_ways.

(* ---------- what went before on the connection (bodiless answers, other request kinds) ---------- *)

(* whatever exchanges went before on a connection - answered with or without a body, asked for gzip or
   not - an exchange is answered from its own request and the settings of its moment *)
Theorem C14_previous_exchanges_irrelevant : forall st pre1 pre2 lc1 lc2 cur q ended r,
  last (live_run (live_exchange st) lc1 (pre1 ++ [(cur, q, ended, r)])) r =
  last (live_run (live_exchange st) lc2 (pre2 ++ [(cur, q, ended, r)])) r.
Proof. exact live_run_prefix_irrelevant. Qed.
Print Assumptions C14_previous_exchanges_irrelevant.

(* HTTP/1: the asked-gzip flag travels with the request (table regenerated from transport.go) *)
Theorem C14_added_gzip_travels_with_the_request :
  h1_added_gzip_sites =
  [ (bs "readLoop", bs "use", bs "rc.addedGzip");
    (bs "roundTrip", bs "set", bs "addedGzip: requestedGzip") ].
Proof. exact added_gzip_travels_with_the_request. Qed.
Print Assumptions C14_added_gzip_travels_with_the_request.

(* the flag kept on the connection and taken only where a body is built (NOT the code): after a 204 the
   next answer on the connection is gunzipped although the caller asked for gzip itself *)
Theorem C14_connection_flag_refuted :
  let steps := [(s_off, q_plain, false, r_no_content); (s_off, q_caller_gzip, false, r_gz)] in
  h1_run_connflag {| pc_added := false |} steps =
    [r_no_content; rewrite r_gz (Lazy Gzip (bs "zzzz"))] /\
  live_run (live_exchange H1) {| lc_opened := s_off; lc_exchanges := 0 |} steps = [r_no_content; r_gz] /\
  h1_run_connflag {| pc_added := false |} [(s_off, q_plain, false, r_deflate); (s_off, q_caller_gzip, false, r_gz)] =
    [r_deflate; r_gz].
Proof. exact connflag_refuted. Qed.
Print Assumptions C14_connection_flag_refuted.

(* ---------- the charset step (auto-decode) after the decoding decision ---------- *)

(* if what the stack returned still names a coding, the charset step does not touch it: with
   `C14_nothing_wanted_nothing_touched` an unsupported / undecoded coding is delivered byte for byte
   whatever the Content-Type and its charset say *)
Theorem C14_charset_step_skips_coded : forall dis st c auto ended r,
  header_get (r_ce (respond st c auto ended r)) <> [] ->
  charset_step_applies dis (respond st c auto ended r) = false.
Proof. exact charset_step_skips_coded. Qed.
Print Assumptions C14_charset_step_skips_coded.

(* a decoded response names no coding any more: the charset step sees the original text *)
Theorem C14_charset_step_sees_decoded : forall dis st c auto r e,
  r_cl r <> 0%Z -> wants_decode c auto (content_encoding (r_ce r)) = Some e ->
  charset_step_applies dis (respond st c auto false r) = negb dis.
Proof. exact charset_step_sees_decoded. Qed.
Print Assumptions C14_charset_step_sees_decoded.

(* the guard is what the source says (table regenerated from transport.go on every run) *)
Theorem C14_charset_guard_as_modelled :
  charset_step_guard =
  [ (bs "autoDecodeResponseBody",
     bs "t.disableAutoDecode || res.Header.Get(""Content-Encoding"") != """"", bs "return") ].
Proof. exact charset_guard_as_modelled. Qed.
Print Assumptions C14_charset_guard_as_modelled.

(* a guard that only knows an enumerated list of codings (NOT the code) runs the charset decoder over
   an lz4 body that every stack left untouched *)
Theorem C14_listed_guard_refuted :
  forall st, respond st (cfg_under s_on q_plain) true false r_lz4 = r_lz4 /\
  charset_step_applies false (respond st (cfg_under s_on q_plain) true false r_lz4) = false /\
  charset_step_applies_listed false (respond st (cfg_under s_on q_plain) true false r_lz4) = true.
Proof. exact listed_guard_refuted. Qed.
Print Assumptions C14_listed_guard_refuted.

(* ---------- Range spellings; body wrappers (round 8) ---------- *)

(* any Range value at all - whatever unit, letter case, spacing - and the transport does not ask for gzip,
   on every stack; without AutoDecompression the response is returned as received *)
Theorem C14_any_range_value_is_a_range_request : forall st c auto ended r,
  q_range c <> [] ->
  asked_gzip st c = false /\ (auto = false -> respond st c auto ended r = r).
Proof. exact any_range_value_is_a_range_request. Qed.
Print Assumptions C14_any_range_value_is_a_range_request.

(* the three conditions `asked_gzip` transcribes, as they stand in the source (regenerated every run) *)
Theorem C14_asked_gzip_conditions_as_modelled :
  asked_gzip_conditions =
  [ (bs "transport.go", bs "roundTrip",
     bs "!pc.t.DisableCompression && req.Header.Get(""Accept-Encoding"") == """" && req.Header.Get(""Range"") == """" && req.Method != ""HEAD""");
    (bs "internal/http2/transport.go", bs "roundTrip",
     bs "!cc.t.DisableCompression && req.Header.Get(""Accept-Encoding"") == """" && req.Header.Get(""Range"") == """" && !cs.isHead");
    (bs "internal/http3/http_stream.go", bs "SendRequestHeader",
     bs "!s.DisableCompression && !s.disableCompression && req.Method != http.MethodHead && req.Header.Get(""Accept-Encoding"") == """" && req.Header.Get(""Range"") == """"") ].
Proof. exact asked_gzip_conditions_as_modelled. Qed.
Print Assumptions C14_asked_gzip_conditions_as_modelled.

(* a response whose body got a byte-preserving wrapper (download callback, dump) is read exactly like
   the unwrapped one *)
Theorem C14_wrapped_reads_alike : forall dec sizes st c auto ended r,
  drain dec sizes (open_resp (with_body (respond st c auto ended r) (wrap_body (r_body (respond st c auto ended r))))) =
  drain dec sizes (open_resp (respond st c auto ended r)).
Proof. exact wrapped_reads_alike. Qed.
Print Assumptions C14_wrapped_reads_alike.

(* the wrappers go below the decoder (table regenerated from transport.go wrapResponseBody) *)
Theorem C14_wrappers_go_below_the_decoder :
  wrap_response_body_cases =
  [ (bs "wrapResponseBody", bs "*gzipReader", bs "b.body.body = wrap(b.body.body)");
    (bs "wrapResponseBody", bs "compress.CompressReader", bs "b.SetUnderlyingBody(wrap(b.GetUnderlyingBody()))");
    (bs "wrapResponseBody", bs "default", bs "res.Body = wrap(res.Body)") ].
Proof. exact wrappers_go_below_the_decoder. Qed.
Print Assumptions C14_wrappers_go_below_the_decoder.

(* the wrapper put in the decoder's place (NOT the code): coded bytes under rewritten headers *)
Theorem C14_wrapper_replacing_decoder_refuted :
  let r' := respond H1 (cfg_under s_off q_plain) false false r_gz in
  r_ce r' = [] /\ r_unc r' = true /\
  fst (drain id_codec0 [9; 9] (open_resp (with_body r' (wrap_replacing_decoder (r_body r'))))) =
    (bs "zzzz", Some EOF) /\
  open_resp (with_body r' (wrap_replacing_decoder (r_body r'))) = RPlain (bs "zzzz") /\
  open_resp r' = RLazy Gzip (bs "zzzz").
Proof. exact wrapper_replacing_decoder_refuted. Qed.
Print Assumptions C14_wrapper_replacing_decoder_refuted.

(* ---------- several clients (Client.Clone) ---------- *)

(* what client k gets depends on client k's own settings only, whatever the original and the other
   clones are set to *)
Theorem C14_clients_independent : forall st cs1 cs2 k q ended r,
  nth_error cs1 k = nth_error cs2 k ->
  client_exchange st cs1 k q ended r = client_exchange st cs2 k q ended r.
Proof. exact clients_independent. Qed.
Print Assumptions C14_clients_independent.

Theorem C14_client_exchange_is_respond : forall st cs k s q ended r,
  nth_error cs k = Some s ->
  client_exchange st cs k q ended r = Some (respond st (cfg_under s q) (set_auto s) ended r).
Proof. exact client_exchange_is_respond. Qed.
Print Assumptions C14_client_exchange_is_respond.

(* Transport.Clone builds the clone's HTTP/2 transport field by field - its own connection pool
   (table regenerated from transport.go on every run) *)
Theorem C14_clone_gets_its_own_h2_transport :
  clone_h2_transport_assignments =
  [ (bs "tt.t2", bs "=",
     bs "&h2internal.Transport{Options,AllowHTTP,MaxHeaderListSize,StrictMaxConcurrentStreams,ReadIdleTimeout,PingTimeout,WriteByteTimeout,ConnectionFlow,Settings,HeaderPriority,PriorityFrames}") ].
Proof. exact clone_gets_its_own_h2_transport. Qed.
Print Assumptions C14_clone_gets_its_own_h2_transport.

(* clones sharing the original's HTTP/2 connection pool (NOT the code) *)
Theorem C14_shared_pool_refuted :
  client_exchange_shared_h2_pool H2 [s_off; s_on] 1 q_plain false r_deflate = Some r_deflate /\
  option_map r_body (client_exchange_shared_h2_pool H1 [s_off; s_on] 1 q_plain false r_deflate) =
    Some (Lazy Deflate (bs "dddd")) /\
  option_map r_body (client_exchange H2 [s_off; s_on] 1 q_plain false r_deflate) =
    Some (Lazy Deflate (bs "dddd")) /\
  client_exchange_shared_h2_pool H2 [s_off; s_on] 1 q_plain false r_deflate <>
  client_exchange_shared_h2_pool H2 [s_on; s_on] 1 q_plain false r_deflate.
Proof. exact shared_pool_refuted. Qed.
Print Assumptions C14_shared_pool_refuted.

(* ---------- several responses alive at the same time (Model/DecodeSession.v) ---------- *)

(* the reader state is per response: in ANY interleaving of ReadFull and Close operations over ANY
   set of response bodies (heap of decompressor objects, every first Read allocates a new one), what
   response i's caller sees - bytes and status of each of its operations - is what it would see with
   that response alone: a function of body i and of the operations addressed to i *)
Theorem C14_session_independence : forall dec bodies ops i b,
  nth_error bodies i = Some b ->
  results_of i ops (fst (sess_run dec ops (sess_open bodies))) =
  fst (crd_run dec (project i ops) (COpen (open_body b))).
Proof. exact session_independence. Qed.
Print Assumptions C14_session_independence.

(* hence two sessions that agree on response i's body and on the operations addressed to it agree on
   everything response i delivers, whatever the other responses are and whatever is done to them
   (closed twice, read concurrently, corrupt, ...) *)
Theorem C14_reader_depends_on_own_input_only : forall dec bodies1 bodies2 ops1 ops2 i b,
  nth_error bodies1 i = Some b -> nth_error bodies2 i = Some b ->
  project i ops1 = project i ops2 ->
  results_of i ops1 (fst (sess_run dec ops1 (sess_open bodies1))) =
  results_of i ops2 (fst (sess_run dec ops2 (sess_open bodies2))).
Proof. exact session_own_input_only. Qed.
Print Assumptions C14_reader_depends_on_own_input_only.

(* a response the decision decodes delivers exactly its own original payload and then io.EOF when
   read through ReadFull operations of any positive sizes, interleaved in any way with any operations
   on any other responses *)
Theorem C14_interleaved_decoded_is_original :
  forall (compress : enc -> bytes -> bytes) (dec : codec),
  (forall e p, dec e (compress e p) = {| s_data := p; s_end := EOF |}) ->
  forall bodies ops i st c auto r e p sizes,
  r_cl r <> 0%Z ->
  wants_decode c auto (content_encoding (r_ce r)) = Some e ->
  r_body r = Raw (compress e p) ->
  nth_error bodies i = Some (r_body (respond st c auto false r)) ->
  project i ops = map OReadFull sizes ->
  Forall (fun n => 0 < n) sizes -> length p < length sizes ->
  let res := results_of i ops (fst (sess_run dec ops (sess_open bodies))) in
  delivered_bytes res = p /\ last (map snd res) StOk = StEnd EOF.
Proof. exact interleaved_decoded_is_original. Qed.
Print Assumptions C14_interleaved_decoded_is_original.

(* damaged streams: whatever the decoder makes of response i's body - data, then its terminal status -
   is what response i's caller gets in any interleaving; a decode error is not lost, moved to another
   response, or turned into data *)
Theorem C14_interleaved_error_surfaces : forall dec bodies ops i e w sizes,
  nth_error bodies i = Some (Lazy e w) ->
  project i ops = map OReadFull sizes ->
  Forall (fun n => 0 < n) sizes -> length (s_data (dec e w)) < length sizes ->
  let res := results_of i ops (fst (sess_run dec ops (sess_open bodies))) in
  delivered_bytes res = s_data (dec e w) /\ last (map snd res) StOk = StEnd (s_end (dec e w)).
Proof. exact interleaved_reader_stream. Qed.
Print Assumptions C14_interleaved_error_surfaces.

(* ... and it is sticky whatever is interleaved: once an operation of response i reported a terminal
   status (io.EOF or an error) every later ReadFull of response i reports no data and the same status *)
Theorem C14_session_sticky : forall dec bodies ops i b sizes k e,
  nth_error bodies i = Some b ->
  project i ops = map OReadFull sizes ->
  let res := results_of i ops (fst (sess_run dec ops (sess_open bodies))) in
  nth_error (map snd res) k = Some (StEnd e) ->
  forall j, k < j -> j < length sizes -> nth_error res j = Some ([], StEnd e).
Proof. exact session_sticky. Qed.
Print Assumptions C14_session_sticky.

(* the allocation discipline of `sess_step` is what the source says (tables regenerated by gosync on
   every run): no package-level variable in internal/compress, and each reader's decoder field is
   assigned only in Read, only from the codec's constructor on the reader's own body *)
Theorem C14_readers_allocate_their_own_decoder :
  compress_pkg_vars = [] /\
  filter is_decoder_field reader_field_assignments =
  [ (bs "BrotliReader", bs "Read", bs "br", bs "brotli.NewReader(br.Body)");
    (bs "DeflateReader", bs "Read", bs "dr", bs "flate.NewReader(df.Body)");
    (bs "GzipReader", bs "Read", bs "zr", bs "gzip.NewReader(gz.Body)");
    (bs "ZstdReader", bs "Read", bs "src", bs "&bodyErrReader{r: zr.Body}");
    (bs "ZstdReader", bs "Read", bs "zr", bs "zstd.NewReader(zr.src)");
    (bs "gzipReader", bs "Read", bs "zr", bs "gzip.NewReader(gz.body)") ].
Proof. exact readers_allocate. Qed.
Print Assumptions C14_readers_allocate_their_own_decoder.

(* the independence is a property of the allocation discipline, not of the way the model is written:
   the same session with decompressors recycled through a free list that a repeated Close feeds twice
   (the shape of a sync.Pool recycling bug) splices response 2's bytes into response 1 without an
   error, in a schedule where the code delivers response 1's own bytes *)
Theorem C14_recycled_decompressors_refuted :
  results_of 1 pooled_ops (fst (sess_run_pooled id_codec pooled_ops (psess_open pooled_bodies))) =
    [(bs "bb", StOk); (bs "cccccc", StEnd EOF)] /\
  results_of 1 pooled_ops (fst (sess_run_pooled id_codec pooled_ops (psess_open pooled_bodies))) <>
    fst (crd_run id_codec (project 1 pooled_ops) (COpen (open_body (Lazy Gzip (bs "bbbbbbbb"))))) /\
  results_of 1 pooled_ops (fst (sess_run id_codec pooled_ops (sess_open pooled_bodies))) =
    [(bs "bb", StOk); (bs "bbbbbb", StEnd EOF)].
Proof. exact pooled_refuted. Qed.
Print Assumptions C14_recycled_decompressors_refuted.

(* the code as pinned violated "otherwise untouched": witness kept checked *)
Theorem C14_pinned_refuted :
  (let r' := apply_action_pinned (decide_h1_pinned false 5%Z false true (bs "identity")) r_example in
   r_body r' = NilBody /\ r_ce r' = [] /\ r_clh r' = [] /\ r' <> r_example) /\
  (forall asked ce, asked = false ->
     r_body (apply_action_pinned (decide_h3_pinned asked true ce) r_example) = NilBody) /\
  (forall st c, q_head c = false -> respond st c true false r_example = r_example).
Proof. exact pinned_refuted. Qed.
Print Assumptions C14_pinned_refuted.

(* non-vacuity: the codec hypothesis of the theorems above is satisfiable *)
Theorem C14_roundtrip_hypothesis_satisfiable :
  exists (compress : enc -> bytes -> bytes) (dec : codec),
    forall e p, dec e (compress e p) = {| s_data := p; s_end := EOF |}.
Proof. exact roundtrip_satisfiable. Qed.
Print Assumptions C14_roundtrip_hypothesis_satisfiable.

(* non-vacuity: a concrete decoded exchange and a concrete untouched one *)
Example C14_nonvacuous :
  let c := {| q_disable := false; q_ae := []; q_range := []; q_head := false |} in
  let r := {| r_ce := [bs "GZip"]; r_clh := [bs "33"]; r_other := [(bs "Content-Type", bs "text/plain")];
              r_cl := 33%Z; r_unc := false; r_body := Raw (bs "...."); r_short := false |} in
  wants_decode c false (content_encoding (r_ce r)) = Some Gzip /\
  wants_decode c true (bs "br") = Some Br /\
  wants_decode c true (bs "Br") = None /\
  wants_decode {| q_disable := false; q_ae := bs "gzip"; q_range := []; q_head := false |} false (bs "gzip") = None /\
  r_ce (respond H3 c false false r) = [] /\ r_body (respond H3 c false false r) = Lazy Gzip (bs "....").
Proof. vm_compute. repeat split. Qed.
