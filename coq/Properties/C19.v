(* Properties/C19.v - Settings are scoped correctly and cloned clients are independent.
   Only statements, `exact`, and Print Assumptions.
   Model: Model/Settings.v (reference heap + value model), Gen/CloneTable.v (per-field treatment
   in Client.Clone / Transport.Clone, regenerated from the Go source). *)
From Coq Require Import List Arith Bool.
From ReqV Require Import Model.Settings Gen.CloneTable Proofs.SettingsHeap Proofs.SettingsValue Proofs.C19Top.
Import ListNotations.

(* the Clone code, as read from the source by gosync, deep-copies every reference field the model tracks *)
Theorem C19_clone_table_is_deep : gen_tbl = deep_tbl.
Proof. exact gen_tbl_deep. Qed.
Print Assumptions C19_clone_table_is_deep.

(* Go's append through one slice writes only cells owned by that slice's owner: every foreign cell
   is framed, the result reads as old ++ new, for every growth function *)
Theorem C19_append_frames_foreign_cells : forall grow A oA t s vs A' s',
  length oA = length A -> sl_ok A oA t s -> sl_append grow A s vs = (A', s') ->
  exists e, length (oA ++ e) = length A' /\ sl_ok A' (oA ++ e) t s' /\
            sl_read A' s' = sl_read A s ++ vs /\ frame [] (eq t) A oA A'.
Proof. exact sl_append_spec. Qed.
Print Assumptions C19_append_frames_foreign_cells.

(* request scope: a request-level setter changes that request and no other object *)
Theorem C19_request_scope_value : forall vs r s id,
  id <> OR r -> vget id (vstep vs (OSet (OR r) s)) = vget id vs.
Proof. exact v_request_scope. Qed.
Print Assumptions C19_request_scope_value.

(* client scope: a client-level setter is seen by every later Exec of that client ... *)
Theorem C19_client_scope_later_requests_value : forall vs c s vc,
  vget (OC c) vs = Some vc ->
  vprobe (vstep vs (OSet (OC c) s)) c = Some (describe (vapply vc s) (vnew_req c (vapply vc s))).
Proof. exact v_client_scope_probe. Qed.
Print Assumptions C19_client_scope_later_requests_value.

Theorem C19_client_scope_existing_requests_value : forall vs c s vc r vr,
  vget (OC c) vs = Some vc -> vget (OR r) vs = Some vr -> v_par vr = c ->
  vexec (vstep vs (OSet (OC c) s)) r = Some (describe (vapply vc s) vr).
Proof. exact v_client_scope_exec. Qed.
Print Assumptions C19_client_scope_existing_requests_value.

(* ... and by no other object *)
Theorem C19_client_scope_nobody_else_value : forall vs c s id,
  id <> OC c -> vget id (vstep vs (OSet (OC c) s)) = vget id vs.
Proof. exact v_client_scope_others. Qed.
Print Assumptions C19_client_scope_nobody_else_value.

(* non-interference for every program: what the objects in R look like at the end is computed by
   the backwards slice alone - every operation on an object that is neither in R nor an ancestor
   (before cloning) of one in R can be erased *)
Theorem C19_clone_noninterference_value : forall p R vs vs',
  (forall id, In id (snd (pslice p R)) -> vget id vs = vget id vs') ->
  forall id, In id R -> vget id (vrun p vs) = vget id (vrun (fst (pslice p R)) vs').
Proof. exact v_noninterference. Qed.
Print Assumptions C19_clone_noninterference_value.

(* the code as pinned (wrapper slices shared by Clone) violates independence; witness kept checked *)
Theorem C19_pinned_clone_refuted :
  exists p c, Forall op_api p /\ Forall op_nojar p /\
    probe (run go_grow8 pinned_tbl p init_state) c <> vprobe (vrun p []) c.
Proof. exact pinned_refuted. Qed.
Print Assumptions C19_pinned_clone_refuted.

Example C19_nonvacuous :
  let p := [ONewClient 0; OSet (OC 0) (SWrap [1;2;3]); OClone 0 1; OSet (OC 0) (SWrap [4]);
            OSet (OC 1) (SWrap [5]); OClone 0 2] in
  Forall op_api p /\ Forall op_nojar p /\
  probe (run go_grow8 deep_tbl p init_state) 2 = vprobe (vrun p []) 2 /\
  fst (pslice p [OC 1]) = [ONewClient 0; OSet (OC 0) (SWrap [1;2;3]); OClone 0 1; OSet (OC 1) (SWrap [5])].
Proof. exact nonvacuous_witness. Qed.
