(* Properties/C19.v - Settings are scoped correctly and cloned clients are independent.
   Only statements, `exact`, and Print Assumptions.

   Model: Model/Settings.v - `run grow tbl p init_state` is the REFERENCE-HEAP model (backing arrays with
   Go's append, maps, *retryOption records, boxes for cookie jars / *DumpOptions / *tls.Config; Clone
   field by field with the per-field treatment `tbl`); `view st id` reads an object through its
   references; `probe` / `exec` describe the request a client emits.  It is the model Model/C19Run.v
   evaluates on every program the harness runs on the real library, with tbl := gen_tbl regenerated
   from Client.Clone / Transport.Clone / Options.Clone by gosync and grow := go_grow8.
   `vrun` is the value model (every object a plain value, Clone = copy).
   op_nojar excludes only SetCookieJar without a factory (the documented shared jar);
   op_api excludes appending to the wrapper lists behind WrapRoundTrip's back (no API does). *)
From Coq Require Import List Arith Bool.
From ReqV Require Import Model.Settings Model.ReExec Model.LiveSel Model.Handshake Model.PoolKey Model.DumpCtx Model.ConnectHdr Gen.CloneTable Proofs.SettingsHeap Proofs.SettingsValue Proofs.SettingsSim Proofs.ReExecProofs Proofs.PoolKeyProofs Proofs.C19Top.
Import ListNotations.

(* the Clone code, as read from the source by gosync, deep-copies every reference the model tracks,
   carries every value-typed setting over, re-makes the factory jar and re-wires the cloned Dumper *)
Theorem C19_clone_table_is_deep : gen_tbl = deep_tbl.
Proof. exact gen_tbl_deep. Qed.
Print Assumptions C19_clone_table_is_deep.

(* every field of Transport / http2 Transport is named by Transport.Clone or is connection state;
   every reference-typed field of Client is deep-copied by Client.Clone; Options has exactly three
   reference-typed fields, all three cloned by Options.Clone; the TLS fingerprint handshake is installed anew on
   the clone; the only *tls.Config fields package req writes in place are the three the clone gets its own copy
   of - a field added to one of the structs, or a new in-place TLS setter, breaks this proof *)
Theorem C19_clone_field_inventory :
  covered (gen_transport_clone_fields ++ transport_runtime_fields) gen_transport_fields = true /\
  covered (gen_t2_clone_fields ++ t2_unset_fields) gen_t2_fields = true /\
  covered (gen_client_deep_fields ++ client_ref_special) gen_client_ref_fields = true /\
  gen_options_ref_fields = options_ref_fields /\
  covered gen_options_deep_fields gen_options_ref_fields = true /\
  gen_fingerprint_reinstalled = true /\
  covered tls_fields_cloned gen_tls_written_fields = true.
Proof. exact clone_field_inventory. Qed.
Print Assumptions C19_clone_field_inventory.

(* Go's append through one slice writes only cells owned by that slice's owner *)
Theorem C19_append_frames_foreign_cells : forall grow A oA t s vs A' s',
  length oA = length A -> sl_ok A oA t s -> sl_append grow A s vs = (A', s') ->
  exists e, length (oA ++ e) = length A' /\ sl_ok A' (oA ++ e) t s' /\
            sl_read A' s' = sl_read A s ++ vs /\ frame [] (eq t) A oA A'.
Proof. exact sl_append_spec. Qed.
Print Assumptions C19_append_frames_foreign_cells.

(* REFINEMENT: on every program of API calls, for every append growth function, every object of the
   reference-heap model reads exactly as in the value model *)
Theorem C19_heap_refines_value : forall grow p, Forall op_nojar p ->
  abs_state (run grow deep_tbl p init_state) = vrun p [].
Proof. exact heap_refines_value. Qed.
Print Assumptions C19_heap_refines_value.

(* request scope: a request-level setter changes that request - as the setter prescribes - and no
   other object: not its client, not another request, not another client *)
Theorem C19_request_scope : forall grow p r s id,
  Forall op_nojar (p ++ [OSet (OR r) s]) -> id <> OR r ->
  view (run grow gen_tbl (p ++ [OSet (OR r) s]) init_state) id = view (run grow gen_tbl p init_state) id.
Proof. exact h_request_scope. Qed.
Print Assumptions C19_request_scope.

Theorem C19_request_scope_self : forall grow p r s vr,
  Forall op_nojar (p ++ [OSet (OR r) s]) -> view (run grow gen_tbl p init_state) (OR r) = Some vr ->
  view (run grow gen_tbl (p ++ [OSet (OR r) s]) init_state) (OR r) = Some (vapply vr s).
Proof. exact h_request_scope_self. Qed.
Print Assumptions C19_request_scope_self.

(* client scope: a client-level setter is seen by every later request of that client - fresh ... *)
Theorem C19_client_scope_later_requests : forall grow p c s vc,
  Forall op_nojar (p ++ [OSet (OC c) s]) -> view (run grow gen_tbl p init_state) (OC c) = Some vc ->
  probe (run grow gen_tbl (p ++ [OSet (OC c) s]) init_state) c
    = Some (describe (vapply vc s) (vnew_req c (vapply vc s))).
Proof. exact h_client_scope_probe. Qed.
Print Assumptions C19_client_scope_later_requests.

(* ... or created before the change and executed after it (its own settings unchanged) *)
Theorem C19_client_scope_existing_requests : forall grow p c s vc r vr,
  Forall op_nojar (p ++ [OSet (OC c) s]) ->
  view (run grow gen_tbl p init_state) (OC c) = Some vc -> view (run grow gen_tbl p init_state) (OR r) = Some vr ->
  v_par vr = c ->
  exec (run grow gen_tbl (p ++ [OSet (OC c) s]) init_state) r = Some (describe (vapply vc s) vr).
Proof. exact h_client_scope_exec. Qed.
Print Assumptions C19_client_scope_existing_requests.

(* ... and by no other object *)
Theorem C19_client_scope_nobody_else : forall grow p c s id,
  Forall op_nojar (p ++ [OSet (OC c) s]) -> id <> OC c ->
  view (run grow gen_tbl (p ++ [OSet (OC c) s]) init_state) id = view (run grow gen_tbl p init_state) id.
Proof. exact h_client_scope_others. Qed.
Print Assumptions C19_client_scope_nobody_else.

(* right after Clone the clone describes EVERY request exactly as the original does (but for a jar
   made by a factory, which starts empty), and Clone changes no other object *)
Theorem C19_clone_initially_equal : forall grow p src dst vc,
  Forall op_api p -> Forall op_nojar p -> view (run grow gen_tbl p init_state) (OC src) = Some vc ->
  exists vk, view (run grow gen_tbl (p ++ [OClone src dst]) init_state) (OC dst) = Some vk /\
    (forall r, describe vk r = describe (vset_jar vc (if v_fact vc then Some [] else v_jar vc) (v_fact vc)) r) /\
    (forall id, id <> OC dst ->
       view (run grow gen_tbl (p ++ [OClone src dst]) init_state) id = view (run grow gen_tbl p init_state) id).
Proof. exact h_clone_initially_equal. Qed.
Print Assumptions C19_clone_initially_equal.

(* non-interference for every program (any interleaving of setters, clones incl. clone of clone,
   R() and executions on any clients): what the objects in R look like at the end is computed by the
   backwards slice alone - every operation on an object that is neither in R nor an ancestor (before
   cloning) of one in R can be erased *)
Theorem C19_clone_noninterference : forall grow p R,
  Forall op_nojar p -> forall id, In id R ->
  view (run grow gen_tbl p init_state) id = view (run grow gen_tbl (fst (pslice p R)) init_state) id.
Proof. exact h_noninterference. Qed.
Print Assumptions C19_clone_noninterference.

(* the same over arbitrary initial value states *)
Theorem C19_clone_noninterference_value : forall p R vs vs',
  (forall id, In id (snd (pslice p R)) -> vget id vs = vget id vs') ->
  forall id, In id R -> vget id (vrun p vs) = vget id (vrun (fst (pslice p R)) vs').
Proof. exact v_noninterference. Qed.
Print Assumptions C19_clone_noninterference_value.

(* the code as pinned violates independence (wrapper slices shared by Clone) ... *)
Theorem C19_pinned_clone_refuted :
  exists p c, Forall op_api p /\ Forall op_nojar p /\
    probe (run go_grow8 pinned_tbl p init_state) c <> vprobe (vrun p []) c.
Proof. exact pinned_refuted. Qed.
Print Assumptions C19_pinned_clone_refuted.

(* ... and "initially identical" (cloned Dumper not wired to the clone's dumpOptions) *)
Theorem C19_pinned_dump_clone_refuted :
  Forall op_api witness_dump /\ Forall op_nojar witness_dump /\
  probe (run go_grow8 unlinked_tbl witness_dump init_state) 1 <> vprobe (vrun witness_dump []) 1.
Proof. exact pinned_dump_refuted. Qed.
Print Assumptions C19_pinned_dump_clone_refuted.

(* ---------- one Request object executed again (Model/ReExec.v: the prologue of Request.do) ---------- *)
(* Request.do starts with unmergeClientSettings, which has no fast path around its resets (from the source) *)
Theorem C19_reexec_prologue : gen_prologue = good_prologue.
Proof. reflexivity. Qed.
Print Assumptions C19_reexec_prologue.

(* for EVERY history of one Request object - request-level setters, executions under any client settings with
   any retry budget and any number of failed attempts - every attempt of the next execution carries exactly
   the request-level cookies followed by the client's cookies of that moment, once *)
Theorem C19_reexec_cookies_every_attempt : forall h c b f,
  Forall (fun s => snd (fst s) = q_cookies (fresh_with h) ++ c_cookies c)
         (snd (rexec gen_prologue c b f (hrun gen_prologue h rq0))).
Proof. exact reexec_cookies_every_attempt. Qed.
Print Assumptions C19_reexec_cookies_every_attempt.

(* ... and the retry budget is the request's own again, whatever happened in earlier executions *)
Theorem C19_reexec_attempts : forall h c b f,
  length (snd (rexec gen_prologue c b f (hrun gen_prologue h rq0))) = S (Nat.min f b).
Proof. exact reexec_attempts. Qed.
Print Assumptions C19_reexec_attempts.

(* execution k of one Request object = execution 1 of a fresh request with the same request-level settings,
   under the client settings of that moment (cookies of every attempt, number of attempts) *)
Theorem C19_reexec_as_fresh_cookies_and_attempts : forall h c b f,
  map (fun s => snd (fst s)) (snd (rexec gen_prologue c b f (hrun gen_prologue h rq0))) =
  map (fun s => snd (fst s)) (snd (rexec gen_prologue c b f (fresh_with h))).
Proof. exact reexec_as_fresh_cookies_and_attempts. Qed.
Print Assumptions C19_reexec_as_fresh_cookies_and_attempts.

(* a fast path that returns before the resets when the previous execution merged nothing is refuted *)
Theorem C19_reexec_fastpath_refuted :
  let h := [HExec bare_client 1 1] in
  map (fun s => snd (fst s)) (snd (rexec fast_prologue cookie_client 1 1 (hrun fast_prologue h rq0))) = [[]] /\
  map (fun s => snd (fst s)) (snd (rexec good_prologue cookie_client 1 1 (hrun good_prologue h rq0))) = [[5]; [5]].
Proof. exact fastpath_refuted. Qed.
Print Assumptions C19_reexec_fastpath_refuted.

(* ---------- client-level transport settings changed AFTER use (Model/LiveSel.v) ---------- *)
(* a forced HTTP version governs every later request whatever connection the client cached before
   (the guard around the cached-connection lookup is read from Transport.roundTrip by gosync) *)
Theorem C19_force_version_governs_regardless_of_cached_connection : forall cached,
  live_sel gen_guard 1 cached = Some 1 /\ live_sel gen_guard 2 cached = Some 2.
Proof. exact force_governs_regardless_of_cache. Qed.
Print Assumptions C19_force_version_governs_regardless_of_cached_connection.

Theorem C19_unguarded_cached_lookup_refuted : live_sel {| g_h1guard := false |} 1 true = Some 2.
Proof. exact unguarded_refuted. Qed.
Print Assumptions C19_unguarded_cached_lookup_refuted.

(* ---------- the TLS handshake option and Clone (Model/Handshake.v) ---------- *)
(* the two setters and Transport.Clone are written as the model assumes (from the source) *)
Theorem C19_handshake_setters_as_modelled : gen_hs = good_hs.
Proof. reflexivity. Qed.
Print Assumptions C19_handshake_setters_as_modelled.

(* for EVERY order of SetTLSFingerprint* / SetTLSHandshake calls: a clone handshakes with exactly what the
   original handshakes with - the caller's function, or the same fingerprint (installed anew, bound to the clone) *)
Theorem C19_clone_keeps_handshake : forall ops,
  let s := fold_left (happly gen_hs) ops hstate0 in
  hs_fn (hclone gen_hs s) = hs_fn s /\ hs_inv (hclone gen_hs s).
Proof. exact clone_keeps_handshake. Qed.
Print Assumptions C19_clone_keeps_handshake.

Theorem C19_stale_fingerprint_hook_refuted :
  let t := {| h_custom_clears_hook := false; h_finger_sets_hook := true; h_clone_runs_hook := true |} in
  let s := fold_left (happly t) [HSetFinger 1; HSetCustom 7] hstate0 in
  hs_fn s = HCustom 7 /\ hs_fn (hclone t s) = HFinger 1.
Proof. exact stale_hook_refuted. Qed.
Print Assumptions C19_stale_fingerprint_hook_refuted.

(* ---------- the proxy setting changed after use: HTTP/1.1 pool key (Model/PoolKey.v) ---------- *)
Theorem C19_pool_key_as_modelled : gen_key = good_key.
Proof. reflexivity. Qed.
Print Assumptions C19_pool_key_as_modelled.

(* for EVERY history of proxy settings (host, user, password, none) and requests of a client: the next request
   announces the credentials of the client's CURRENT proxy setting, whatever connections earlier settings left
   in the pool *)
Theorem C19_proxy_setting_governs_pooled_connections : forall h,
  snd (preq gen_key (fold_left pstep1 h pclient0)) = pauth (pc_cur (fold_left pstep1 h pclient0)).
Proof. exact proxy_setting_governs. Qed.
Print Assumptions C19_proxy_setting_governs_pooled_connections.

Theorem C19_redacted_pool_key_refuted :
  let t := {| k_pw_in_key := false |} in
  let c1 := fst (preq t {| pc_cur := {| ps_host := 1; ps_user := 1; ps_pw := 1 |}; pc_idle := [] |}) in
  snd (preq t {| pc_cur := {| ps_host := 1; ps_user := 1; ps_pw := 2 |}; pc_idle := pc_idle c1 |}) = (1, 1).
Proof. exact redacted_key_refuted. Qed.
Print Assumptions C19_redacted_pool_key_refuted.

(* ---------- request-level dump and inherited contexts (Model/DumpCtx.v) ---------- *)
(* a request that enables its own dump is dumped by its own dumper, whatever context it inherited *)
Theorem C19_own_request_dump_governs : forall inherited own, deffective (denable gen_dump inherited own) = own.
Proof. exact own_dump_governs. Qed.
Print Assumptions C19_own_request_dump_governs.

Theorem C19_early_return_dump_refuted : deffective (denable {| d_always_pushes := false |} [7] 3) = 7.
Proof. exact early_return_dump_refuted. Qed.
Print Assumptions C19_early_return_dump_refuted.

(* ---------- ProxyConnectHeader and the CONNECT credentials (Model/ConnectHdr.v) ---------- *)
Theorem C19_connect_header_as_modelled : gen_ch = good_ch.
Proof. reflexivity. Qed.
Print Assumptions C19_connect_header_as_modelled.

(* for EVERY history of SetProxyConnectHeader calls and tunnels under any proxy credentials: the client-level
   option never keeps credentials, and the next CONNECT carries exactly those of the proxy URL in force *)
Theorem C19_connect_credentials_govern : forall h auth,
  let o := fold_left (ch_step gen_ch) h chopt0 in
  ch_stuck o = (0, 0) /\ snd (ch_dial gen_ch o auth) = (if no_auth auth then (0, 0) else auth).
Proof. exact connect_credentials_govern. Qed.
Print Assumptions C19_connect_credentials_govern.

Theorem C19_connect_write_through_refuted :
  let t := {| ch_clone_before_auth := false |} in
  let o := fold_left (ch_step t) [ChSetHeader 1; ChDial (1, 1)] chopt0 in
  snd (ch_dial t o (0, 0)) = (1, 1).
Proof. exact connect_write_through_refuted. Qed.
Print Assumptions C19_connect_write_through_refuted.

Example C19_nonvacuous :
  Forall op_api witness /\ Forall op_nojar witness /\
  probe (run go_grow8 gen_tbl witness init_state) 2 = vprobe (vrun witness []) 2 /\
  fst (pslice witness [OC 1]) = [ONewClient 0; OSet (OC 0) (SWrap [1;2;3]); OClone 0 1; OSet (OC 1) (SWrap [5])] /\
  probe (run go_grow8 gen_tbl witness_dump init_state) 1 = vprobe (vrun witness_dump []) 1 /\
  probe (run go_grow8 gen_tbl witness_dump init_state) 1 <> probe (run go_grow8 gen_tbl witness_dump init_state) 0.
Proof. exact nonvacuous_witness. Qed.
