(* Proofs/RespAPIProofs.v - C02: the read modes of the Response API agree (reader algebra). *)
From ReqV Require Import Lib.Bytes Lib.BytesFacts Model.RespAPI.
From Coq Require Import Lia.

Definition positive_sizes (sizes : list nat) : Prop := Forall (fun n => 0 < n) sizes.

(* For EVERY schedule of positive buffer sizes that is long enough to reach the end, a Read
   loop returns exactly the remaining bytes, then the reader's terminal condition. *)
Lemma drain_all sizes : forall r,
  positive_sizes sizes -> length (rd_rem r) < length sizes ->
  drain sizes r = (rd_rem r, Some (rd_end r), exhausted r).
Proof.
  induction sizes as [|n ns IH]; intros [rem e] Hpos Hlen; cbn [rd_rem rd_end] in *.
  - cbn in Hlen. lia.
  - inversion Hpos as [|? ? Hn Hns]; subst. cbn [drain]. unfold rd_read. cbn [rd_rem rd_end].
    destruct rem as [|x rem']; [reflexivity|].
    rewrite IH; [|assumption|].
    + cbn [rd_rem rd_end exhausted]. rewrite firstn_skipn. reflexivity.
    + cbn [rd_rem]. rewrite skipn_length. cbn [length] in *. lia.
Qed.

(* a shorter schedule returns a prefix and no terminal condition yet *)
Lemma drain_prefix sizes : forall r d e r',
  drain sizes r = (d, e, r') -> exists t, rd_rem r = d ++ t.
Proof.
  induction sizes as [|n ns IH]; intros [rem en] d e r' H; cbn [drain] in H.
  - inversion H; subst. exists rem. reflexivity.
  - unfold rd_read in H. cbn [rd_rem rd_end] in *. destruct rem as [|x rem'].
    + inversion H; subst. exists []. reflexivity.
    + destruct (drain ns {| rd_rem := skipn n (x :: rem'); rd_end := en |}) as [[d' e'] r''] eqn:E.
      inversion H; subst. destruct (IH _ _ _ _ E) as [t Ht]. cbn [rd_rem] in Ht.
      exists t. rewrite <- app_assoc, <- Ht. now rewrite firstn_skipn.
Qed.

Section Modes.
  Variable code : Z.
  Variable sizes : list nat.
  Variable d : bytes.              (* what the transport's body reader delivers *)
  Hypothesis Hcode : (199 < code)%Z.
  Hypothesis Hpos : positive_sizes sizes.
  Hypothesis Hlen : length d < length sizes.

  Let ok_body : reader := {| rd_rem := d; rd_end := BEof |}.

  Lemma code_gt : (199 <? code)%Z = true.
  Proof. apply Z.ltb_lt. exact Hcode. Qed.

  (* auto-read: Bytes() = d; the restored Body read with ANY positive buffer sizes = d then
     io.EOF; ToBytes again = d *)
  Theorem auto_read_mode :
    run_mode MAuto code sizes ok_body =
      {| o_err := false; o_bytes := Some d; o_stream := d; o_stream_end := Some BEof;
         o_again := d; o_again_ok := true; o_out := [] |}.
  Proof.
    unfold run_mode, after_do, flags_of. cbn [f_disable_auto f_save negb andb]. rewrite code_gt.
    unfold to_bytes at 1. cbn [s_err s_cache s_body read_all ok_body rd_rem rd_end bend_eqb negb].
    unfold mem_reader. rewrite drain_all; [|assumption|cbn [rd_rem]; assumption].
    cbn [rd_rem rd_end]. unfold to_bytes, bytes_of. cbn. reflexivity.
  Qed.

  (* DisableAutoReadResponse + caller's Read loop *)
  Theorem stream_mode :
    run_mode MStream code sizes ok_body =
      {| o_err := false; o_bytes := None; o_stream := d; o_stream_end := Some BEof;
         o_again := []; o_again_ok := true; o_out := [] |}.
  Proof.
    unfold run_mode, after_do, flags_of. cbn [f_disable_auto f_save negb andb s_body].
    rewrite drain_all; [|assumption|cbn [rd_rem ok_body]; assumption]. reflexivity.
  Qed.

  (* DisableAutoReadResponse + ToBytes, twice: read once, cached *)
  Theorem tobytes_mode :
    run_mode MToBytes code sizes ok_body =
      {| o_err := false; o_bytes := None; o_stream := d; o_stream_end := Some BEof;
         o_again := d; o_again_ok := true; o_out := [] |}.
  Proof. reflexivity. Qed.

  (* SetOutput / SetOutputFile: the writer receives d, nothing is cached *)
  Theorem output_mode :
    run_mode MOutput code sizes ok_body =
      {| o_err := false; o_bytes := None; o_stream := []; o_stream_end := None;
         o_again := []; o_again_ok := true; o_out := d |}.
  Proof. reflexivity. Qed.

  (* the four ways to obtain the body agree *)
  Theorem read_modes_agree :
    o_bytes (run_mode MAuto code sizes ok_body) = Some d /\
    o_stream (run_mode MAuto code sizes ok_body) = d /\
    o_again (run_mode MAuto code sizes ok_body) = d /\
    o_stream (run_mode MStream code sizes ok_body) = d /\
    o_stream (run_mode MToBytes code sizes ok_body) = d /\
    o_again (run_mode MToBytes code sizes ok_body) = d /\
    o_out (run_mode MOutput code sizes ok_body) = d.
  Proof.
    rewrite auto_read_mode, stream_mode, tobytes_mode, output_mode. cbn. repeat split; reflexivity.
  Qed.

  (* a body that fails after d: every mode reports the failure and delivers exactly d *)
  Let bad_body : reader := {| rd_rem := d; rd_end := BFail |}.

  Theorem failure_surfaces_in_every_mode :
    (let o := run_mode MAuto code sizes bad_body in o_err o = true /\ o_bytes o = Some d /\ o_again_ok o = false) /\
    (let o := run_mode MStream code sizes bad_body in o_stream o = d /\ o_stream_end o = Some BFail) /\
    (let o := run_mode MToBytes code sizes bad_body in o_stream o = d /\ o_stream_end o = Some BFail /\ o_again_ok o = false) /\
    (let o := run_mode MOutput code sizes bad_body in o_err o = true /\ o_out o = d).
  Proof.
    assert (A : after_do (flags_of MAuto) code bad_body =
                ({| s_err := true; s_cache := Some d; s_body := mem_reader d |}, [])).
    { unfold after_do, flags_of. cbn [f_disable_auto f_save negb andb]. rewrite code_gt. reflexivity. }
    split; [|split; [|split]].
    - unfold run_mode. rewrite A. cbn [s_body]. unfold mem_reader.
      rewrite drain_all; [|assumption|cbn [rd_rem]; assumption].
      cbn. repeat split; reflexivity.
    - unfold run_mode, after_do, flags_of. cbn [f_disable_auto f_save negb andb s_body].
      rewrite drain_all; [|assumption|cbn [rd_rem bad_body]; assumption]. cbn. split; reflexivity.
    - cbn. repeat split; reflexivity.
    - cbn. split; reflexivity.
  Qed.
End Modes.
