(* Proofs/RespAPIProofs.v - C02: the read modes of the Response API agree (reader algebra). *)
From ReqV Require Import Lib.Bytes Lib.BytesFacts Model.RespAPI.
From Coq Require Import Lia.

Definition positive_sizes (sizes : list nat) : Prop := Forall (fun n => 0 < n) sizes.

(* For EVERY schedule of positive buffer sizes that is long enough to reach the end, a Read
   loop returns exactly the remaining bytes, then the reader's terminal condition. *)
Lemma drain_all sizes : forall r,
  positive_sizes sizes -> length (rd_rem r) < length sizes ->
  drain sizes r = (rd_rem r, Some (rd_end r), exhausted r).
Proof.
  induction sizes as [|n ns IH]; intros [rem e] Hpos Hlen; cbn [rd_rem rd_end] in *.
  - cbn in Hlen. lia.
  - inversion Hpos as [|? ? Hn Hns]; subst. cbn [drain]. unfold rd_read. cbn [rd_rem rd_end].
    destruct rem as [|x rem']; [reflexivity|].
    rewrite IH; [|assumption|].
    + cbn [rd_rem rd_end exhausted]. rewrite firstn_skipn. reflexivity.
    + cbn [rd_rem]. rewrite skipn_length. cbn [length] in *. lia.
Qed.

(* a shorter schedule returns a prefix and no terminal condition yet *)
Lemma drain_prefix sizes : forall r d e r',
  drain sizes r = (d, e, r') -> exists t, rd_rem r = d ++ t.
Proof.
  induction sizes as [|n ns IH]; intros [rem en] d e r' H; cbn [drain] in H.
  - inversion H; subst. exists rem. reflexivity.
  - unfold rd_read in H. cbn [rd_rem rd_end] in *. destruct rem as [|x rem'].
    + inversion H; subst. exists []. reflexivity.
    + destruct (drain ns {| rd_rem := skipn n (x :: rem'); rd_end := en |}) as [[d' e'] r''] eqn:E.
      inversion H; subst. destruct (IH _ _ _ _ E) as [t Ht]. cbn [rd_rem] in Ht.
      exists t. rewrite <- app_assoc, <- Ht. now rewrite firstn_skipn.
Qed.

Section Modes.
  Variable code : Z.
  Variable sizes : list nat.
  Variable d : bytes.              (* what the transport's body reader delivers *)
  Hypothesis Hcode : (199 < code)%Z.
  Hypothesis Hpos : positive_sizes sizes.
  Hypothesis Hlen : length d < length sizes.

  Let ok_body : reader := {| rd_rem := d; rd_end := BEof |}.

  Lemma code_gt : (199 <? code)%Z = true.
  Proof. apply Z.ltb_lt. exact Hcode. Qed.

  (* auto-read: Bytes() = d; the restored Body read with ANY positive buffer sizes = d then
     io.EOF; ToBytes again = d *)
  Theorem auto_read_mode :
    run_mode MAuto code sizes ok_body =
      {| o_err := false; o_bytes := Some d; o_stream := d; o_stream_end := Some BEof;
         o_again := d; o_again_ok := true; o_out := [] |}.
  Proof.
    unfold run_mode, after_do, flags_of. cbn [f_disable_auto f_save negb andb]. rewrite code_gt.
    unfold to_bytes at 1. cbn [s_err s_cache s_body read_all ok_body rd_rem rd_end bend_eqb negb].
    unfold mem_reader. rewrite drain_all; [|assumption|cbn [rd_rem]; assumption].
    cbn [rd_rem rd_end]. unfold to_bytes, bytes_of. cbn. reflexivity.
  Qed.

  (* DisableAutoReadResponse + caller's Read loop *)
  Theorem stream_mode :
    run_mode MStream code sizes ok_body =
      {| o_err := false; o_bytes := None; o_stream := d; o_stream_end := Some BEof;
         o_again := []; o_again_ok := true; o_out := [] |}.
  Proof.
    unfold run_mode, after_do, flags_of. cbn [f_disable_auto f_save negb andb s_body].
    rewrite drain_all; [|assumption|cbn [rd_rem ok_body]; assumption]. reflexivity.
  Qed.

  (* DisableAutoReadResponse + ToBytes, twice: read once, cached *)
  Theorem tobytes_mode :
    run_mode MToBytes code sizes ok_body =
      {| o_err := false; o_bytes := None; o_stream := d; o_stream_end := Some BEof;
         o_again := d; o_again_ok := true; o_out := [] |}.
  Proof. reflexivity. Qed.

  (* SetOutput / SetOutputFile: the writer receives d, nothing is cached *)
  Theorem output_mode :
    run_mode MOutput code sizes ok_body =
      {| o_err := false; o_bytes := None; o_stream := []; o_stream_end := None;
         o_again := []; o_again_ok := true; o_out := d |}.
  Proof. reflexivity. Qed.

  (* the four ways to obtain the body agree *)
  Theorem read_modes_agree :
    o_bytes (run_mode MAuto code sizes ok_body) = Some d /\
    o_stream (run_mode MAuto code sizes ok_body) = d /\
    o_again (run_mode MAuto code sizes ok_body) = d /\
    o_stream (run_mode MStream code sizes ok_body) = d /\
    o_stream (run_mode MToBytes code sizes ok_body) = d /\
    o_again (run_mode MToBytes code sizes ok_body) = d /\
    o_out (run_mode MOutput code sizes ok_body) = d.
  Proof.
    rewrite auto_read_mode, stream_mode, tobytes_mode, output_mode. cbn. repeat split; reflexivity.
  Qed.

  (* a body that fails after d: every mode reports the failure and delivers exactly d *)
  Let bad_body : reader := {| rd_rem := d; rd_end := BFail |}.

  Theorem failure_surfaces_in_every_mode :
    (let o := run_mode MAuto code sizes bad_body in o_err o = true /\ o_bytes o = Some d /\ o_again_ok o = false) /\
    (let o := run_mode MStream code sizes bad_body in o_stream o = d /\ o_stream_end o = Some BFail) /\
    (let o := run_mode MToBytes code sizes bad_body in o_stream o = d /\ o_stream_end o = Some BFail /\ o_again_ok o = false) /\
    (let o := run_mode MOutput code sizes bad_body in o_err o = true /\ o_out o = d).
  Proof.
    assert (A : after_do (flags_of MAuto) code bad_body =
                ({| s_err := true; s_cache := Some d; s_body := mem_reader d |}, [])).
    { unfold after_do, flags_of. cbn [f_disable_auto f_save negb andb]. rewrite code_gt. reflexivity. }
    split; [|split; [|split]].
    - unfold run_mode. rewrite A. cbn [s_body]. unfold mem_reader.
      rewrite drain_all; [|assumption|cbn [rd_rem]; assumption].
      cbn. repeat split; reflexivity.
    - unfold run_mode, after_do, flags_of. cbn [f_disable_auto f_save negb andb s_body].
      rewrite drain_all; [|assumption|cbn [rd_rem bad_body]; assumption]. cbn. split; reflexivity.
    - cbn. repeat split; reflexivity.
    - cbn. split; reflexivity.
  Qed.
End Modes.

(* ====================================================================== *)
(* Round 2: caching, restored Body, transformer, output writer, callback  *)
(* ====================================================================== *)

Definition view (tf : option transformer) (d : bytes) : option bytes :=
  match tf with None => Some d | Some f => f d end.

Definition auto_cfg (tf : option transformer) : cfg :=
  {| c_disable_auto := false; c_save := false; c_cap := None; c_callback := false;
     c_result := false; c_tf := tf |}.

(* auto-read of a clean body: the cache holds the (transformed) body, Body is a fresh reader
   over the cache, no error *)
Theorem auto_read_caches tf code d b :
  (199 < code)%Z -> view tf d = Some b ->
  finish (auto_cfg tf) code {| rd_rem := d; rd_end := BEof |} =
    {| a_state := {| s_err := false; s_cache := Some b; s_body := mem_reader b |};
       a_out := []; a_callbacks := []; a_unmarshal := None |}.
Proof.
  intros Hc Hv. unfold finish, auto_cfg. cbn [c_disable_auto c_save c_result c_tf negb andb].
  apply Z.ltb_lt in Hc. rewrite Hc.
  unfold to_bytes_t. cbn [s_err s_cache s_body read_all rd_rem rd_end bend_eqb].
  unfold view in Hv. destruct tf as [f|]; [rewrite Hv|inversion Hv; subst]; reflexivity.
Qed.

(* a failing transformer fails the call and leaves nothing cached *)
Theorem transformer_failure_surfaces f code d :
  (199 < code)%Z -> f d = None ->
  let r := finish (auto_cfg (Some f)) code {| rd_rem := d; rd_end := BEof |} in
  s_err (a_state r) = true /\ s_cache (a_state r) = None.
Proof.
  intros Hc Hv. unfold finish, auto_cfg. cbn [c_disable_auto c_save c_result c_tf negb andb].
  apply Z.ltb_lt in Hc. rewrite Hc.
  unfold to_bytes_t. cbn [s_err s_cache s_body read_all rd_rem rd_end bend_eqb]. rewrite Hv.
  cbn. split; reflexivity.
Qed.

Definition op_sees (b : bytes) (o : op_out) : Prop :=
  match o with
  | OutBytes x => x = Some b
  | OutToBytes x ok => x = b /\ ok = true
  | OutUnmarshal i => i = Some b
  | OutRead _ _ => True
  end.

Fixpoint reads_of (l : list op_out) : bytes :=
  match l with
  | [] => []
  | OutRead d _ :: r => d ++ reads_of r
  | _ :: r => reads_of r
  end.

(* Once the body is cached: for ANY sequence of Bytes / String / ToBytes / ToString /
   UnmarshalJson / Read loops with any buffer sizes, any number of times, every view of the
   body is the cached bytes (also the bytes handed to the unmarshaller), and what the Read
   loops return, concatenated, is a prefix of what Body held. *)
Theorem cached_ops_stable tf ops : forall s b,
  s_err s = false -> s_cache s = Some b ->
  Forall (op_sees b) (run_ops tf ops s) /\
  exists t, rd_rem (s_body s) = reads_of (run_ops tf ops s) ++ t.
Proof.
  induction ops as [|o ops IH]; intros s b He Hc.
  - split; [constructor|]. exists (rd_rem (s_body s)). reflexivity.
  - destruct o; cbn [run_ops].
    + destruct (IH s b He Hc) as [F [t Ht]]. split; [constructor; [exact Hc|exact F]|].
      exists t. exact Ht.
    + unfold to_bytes_t. rewrite He, Hc. destruct (IH s b He Hc) as [F [t Ht]].
      split; [constructor; [split; reflexivity|exact F]|]. exists t. exact Ht.
    + destruct (drain sizes (s_body s)) as [[d e] rd'] eqn:E.
      destruct (IH {| s_err := s_err s; s_cache := s_cache s; s_body := rd' |} b He Hc) as [F [t Ht]].
      split; [constructor; [exact I|exact F]|].
      cbn [reads_of]. cbn [s_body] in Ht.
      assert (G : forall sz r d0 e0 r0, drain sz r = (d0, e0, r0) -> rd_rem r = d0 ++ rd_rem r0).
      { clear. induction sz as [|n ns IHs]; intros [rem en] d0 e0 r0 H; cbn [drain] in H.
        - inversion H; subst. reflexivity.
        - unfold rd_read in H. cbn [rd_rem rd_end] in *. destruct rem as [|x rem'].
          + inversion H; subst. reflexivity.
          + destruct (drain ns {| rd_rem := skipn n (x :: rem'); rd_end := en |}) as [[d1 e1] r1] eqn:E1.
            inversion H; subst. rewrite <- app_assoc, <- (IHs _ _ _ _ E1). cbn [rd_rem].
            now rewrite firstn_skipn. }
      exists t. rewrite (G _ _ _ _ _ E), Ht. now rewrite app_assoc.
    + unfold to_bytes_t. rewrite He, Hc. destruct (IH s b He Hc) as [F [t Ht]].
      split; [constructor; [reflexivity|exact F]|]. exists t. exact Ht.
Qed.

(* ... and a Read loop that is long enough returns all of it, exactly once: a second loop
   gets io.EOF and nothing else *)
Theorem restored_body_read_once tf b sizes1 sizes2 :
  positive_sizes sizes1 -> length b < length sizes1 -> sizes2 <> [] ->
  run_ops tf [OpRead sizes1; OpRead sizes2; OpToBytes]
    {| s_err := false; s_cache := Some b; s_body := mem_reader b |} =
  [OutRead b (Some BEof); OutRead [] (Some BEof); OutToBytes b true].
Proof.
  intros Hp Hl Hn. cbn [run_ops s_body s_err s_cache]. unfold mem_reader.
  rewrite drain_all; [|assumption|cbn [rd_rem]; assumption].
  cbn [exhausted rd_rem rd_end]. destruct sizes2 as [|n ns]; [contradiction|]. reflexivity.
Qed.

(* DisableAutoReadResponse, a manual Read loop of any length, then ToBytes: together they
   deliver the body exactly once (ToBytes returns what the loop had not read yet) *)
Theorem manual_reads_then_tobytes d sizes :
  exists d1 e d2,
    run_ops None [OpRead sizes; OpToBytes]
      {| s_err := false; s_cache := None; s_body := {| rd_rem := d; rd_end := BEof |} |} =
    [OutRead d1 e; OutToBytes d2 true] /\ d1 ++ d2 = d.
Proof.
  cbn [run_ops s_body s_err s_cache].
  destruct (drain sizes {| rd_rem := d; rd_end := BEof |}) as [[d1 e] rd'] eqn:E.
  assert (G : forall sz r d0 e0 r0, drain sz r = (d0, e0, r0) -> rd_rem r = d0 ++ rd_rem r0 /\ rd_end r0 = rd_end r).
  { clear. induction sz as [|n ns IHs]; intros [rem en] d0 e0 r0 H; cbn [drain] in H.
    - inversion H; subst. split; reflexivity.
    - unfold rd_read in H. cbn [rd_rem rd_end] in *. destruct rem as [|x rem'].
      + inversion H; subst. split; reflexivity.
      + destruct (drain ns {| rd_rem := skipn n (x :: rem'); rd_end := en |}) as [[d1 e1] r1] eqn:E1.
        inversion H; subst. destruct (IHs _ _ _ _ E1) as [A B]. cbn [rd_rem rd_end] in *.
        split; [|exact B]. rewrite <- app_assoc, <- A. now rewrite firstn_skipn. }
  destruct (G _ _ _ _ _ E) as [A B]. cbn [rd_rem rd_end] in A, B.
  unfold to_bytes_t. cbn [s_err s_cache s_body read_all]. rewrite B. cbn [bend_eqb].
  exists d1, e, (rd_rem rd'). split; [reflexivity|]. symmetry. exact A.
Qed.

Definition save_cfg (cap : option nat) (cb : bool) : cfg :=
  {| c_disable_auto := false; c_save := true; c_cap := cap; c_callback := cb;
     c_result := false; c_tf := None |}.

(* SetOutput / SetOutputFile with a writer that may fail after accepting some bytes: the
   writer receives a prefix of the body; if the call reports no error it received ALL of it
   (no silent truncation); a writer that cannot take everything makes the call fail; the
   download callback reports the full size once *)
Theorem download_no_silent_truncation code d cap cb :
  let r := finish (save_cfg cap cb) code {| rd_rem := d; rd_end := BEof |} in
  (exists t, d = a_out r ++ t) /\
  (s_err (a_state r) = false -> a_out r = d) /\
  (match cap with Some n => n < length d | None => False end -> s_err (a_state r) = true) /\
  (cap = None -> cb = true -> d <> [] -> a_callbacks r = [length d]) /\
  s_cache (a_state r) = None.
Proof.
  unfold finish, save_cfg. cbn [c_disable_auto c_save c_result c_tf c_cap c_callback negb andb s_cache s_err s_body].
  unfold copy_capped. cbn [rd_rem rd_end bend_eqb].
  destruct cap as [n|].
  - destruct (Nat.leb_spec (length d) n) as [L|L]; cbn [a_out a_state s_err s_cache a_callbacks orb negb].
    + repeat split; try reflexivity; try (exists []; now rewrite app_nil_r); try lia; discriminate.
    + repeat split; try reflexivity; try discriminate.
      exists (skipn n d). now rewrite firstn_skipn.
  - cbn [a_out a_state s_err s_cache a_callbacks orb negb].
    repeat split; try reflexivity; try (exists []; now rewrite app_nil_r); try contradiction.
    intros _ -> Hd. destruct d; [contradiction|reflexivity].
Qed.

(* a body stream that fails: SetOutput reports it *)
Theorem download_source_failure_surfaces code d cb :
  s_err (a_state (finish (save_cfg None cb) code {| rd_rem := d; rd_end := BFail |})) = true.
Proof. reflexivity. Qed.

(* SetSuccessResult with SetOutput: the unmarshaller gets the body, the writer gets the same
   bytes from the cache *)
Theorem result_then_download code d :
  success_state code = true -> code <> 204%Z ->
  let c := {| c_disable_auto := false; c_save := true; c_cap := None; c_callback := false;
              c_result := true; c_tf := None |} in
  let r := finish c code {| rd_rem := d; rd_end := BEof |} in
  a_unmarshal r = Some d /\ a_out r = d /\ s_cache (a_state r) = Some d /\ s_err (a_state r) = false.
Proof.
  intros Hs Hn. cbn [finish c_disable_auto c_save c_result c_tf c_cap c_callback negb andb]. unfold finish.
  cbn [c_disable_auto c_save c_result c_tf c_cap c_callback negb andb]. rewrite Hs.
  destruct (Z.eqb_spec code 204); [contradiction|]. cbn [negb andb].
  unfold to_bytes_t. cbn. repeat split; reflexivity.
Qed.

(* ====================================================================== *)
(* SetOutputFile: the file holds the body, whatever it held before        *)
(* ====================================================================== *)

Lemma store_get_put_same p c st : store_get p (store_put p c st) = Some c.
Proof.
  induction st as [|[q c0] st IH]; cbn [store_put store_get].
  - now rewrite bytes_eqb_refl.
  - destruct (bytes_eqb p q) eqn:E; cbn [store_get]; rewrite E; [reflexivity|exact IH].
Qed.

Lemma store_get_put_other p q c st : bytes_eqb q p = false -> store_get q (store_put p c st) = store_get q st.
Proof.
  intros H. induction st as [|[q0 c0] st IH]; cbn [store_put store_get].
  - now rewrite H.
  - destruct (bytes_eqb p q0) eqn:E; cbn [store_get].
    + apply bytes_eqb_eq in E. subst q0. now rewrite H.
    + destruct (bytes_eqb q q0); [reflexivity|exact IH].
Qed.

(* "saved to a file" = the body: for EVERY previous state of the file system (the file may exist
   and be longer), every output directory / file name, after the exchange the file holds
   exactly the body, and no other file changed *)
Theorem output_file_equals_body st dir file code d :
  let r := finish (save_cfg None false) code {| rd_rem := d; rd_end := BEof |} in
  let st' := download_to_file st dir file (a_out r) in
  store_get (output_path dir file) st' = Some d /\
  (forall q, bytes_eqb q (output_path dir file) = false -> store_get q st' = store_get q st) /\
  s_err (a_state r) = false.
Proof.
  cbn zeta. unfold download_to_file. split; [|split].
  - rewrite store_get_put_same. reflexivity.
  - intros q Hq. now apply store_get_put_other.
  - reflexivity.
Qed.

(* the same path reused across exchanges: the last body wins, in full *)
Theorem output_file_last_write_wins st dir file c1 d1 c2 d2 :
  match download_all st dir [(file, c1, d1); (file, c2, d2)] with
  | [_; st2] => store_get (output_path dir file) st2 = Some d2
  | _ => False
  end.
Proof. cbn [download_all]. unfold download_to_file. apply store_get_put_same. Qed.
