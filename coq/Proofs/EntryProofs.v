(* Proofs/EntryProofs.v - the generated table of entry points (C18) *)
From ReqV Require Import Lib.Bytes Model.Pipeline Model.Entry Proofs.PipelineProofs.

(* finite domain: the table regenerated from the source; re-checked whenever it changes *)
Lemma entry_table_resolves : table_resolves entry_table = true.
Proof. vm_compute. reflexivity. Qed.

Lemma entry_table_complete : table_complete entry_table = true.
Proof. vm_compute. reflexivity. Qed.

Lemma entry_kind_verb : forall name pkg sh, In (name, pkg, sh) entry_table ->
  kind_of entry_table name pkg = Some ESend \/ kind_of entry_table name pkg = Some EMust.
Proof.
  intros name pkg sh I. pose proof entry_table_resolves as R. unfold table_resolves in R.
  rewrite forallb_forall in R. specialize (R _ I). cbn [fst snd] in R.
  destruct (kind_of entry_table name pkg) as [[| |]|]; try discriminate; auto.
Qed.

(* the contract for every entry point of the table: a response, the returned error is the
   recorded one, the hook runs once iff the call ends in error; Must-style ones panic instead *)
Lemma entry_points_contract : forall name pkg sh k, In (name, pkg, sh) entry_table ->
  kind_of entry_table name pkg = Some k ->
  forall fl cfg atts,
  let p := mkProg k cfg atts in
  k <> EDo /\
  (forall ro e ls h, run fl p = Returned ro e ls h -> ro <> None /\ e = resp_err ro /\ (k = EMust -> e = None)) /\
  hooks_of (run fl p) = (if ends_in_error fl p && is_some (c_onerror cfg) then 1 else 0)%nat.
Proof.
  intros name pkg sh k I K fl cfg atts p.
  assert (k <> EDo) as N by (destruct (entry_kind_verb _ _ _ I) as [E|E]; rewrite E in K; inversion K; discriminate).
  split; [exact N|]. split.
  - intros ro e ls h R. split; [eapply resp_never_nil; eauto|]. split; [eapply err_equals_resp_err; eauto|].
    intro M. pose proof (must_panics_with_resp_err fl p M) as X. rewrite R in X. apply X.
  - pose proof (on_error_exactly_once fl p) as H. cbn [p_entry p_cfg p] in H. destruct k; [contradiction|exact H|exact H].
Qed.
