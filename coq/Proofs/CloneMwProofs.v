(* Proofs/CloneMwProofs.v - what a client carries is its own (C18) *)
From Coq Require Import Lia.
From ReqV Require Import Lib.Bytes Model.CloneMw.

Lemma update_length : forall {A} n (f : A -> A) l, length (update n f l) = length l.
Proof. induction n; intros f l; destruct l; cbn; auto. Qed.

Lemma update_nth_other : forall {A} n k (f : A -> A) l d, n <> k -> nth k (update n f l) d = nth k l d.
Proof.
  induction n; intros k f l d N; destruct l; cbn; auto.
  - destruct k; [contradiction|reflexivity].
  - destruct k; [reflexivity|]. apply IHn. lia.
Qed.

Lemma update_nth_same : forall {A} n (f : A -> A) l d, n < length l -> nth n (update n f l) d = f (nth n l d).
Proof.
  induction n; intros f l d L; destruct l; cbn in *; try lia; auto. apply IHn. lia.
Qed.

Definition touches (c : nat) (o : cop) : bool :=
  match o with CReg c' _ _ | CErrType c' _ => Nat.eqb c c' | CClone _ => false end.

(* one operation that is not a registration / setting on client c leaves what c carries as it is *)
Lemma step_other_unchanged : forall s o c, c < length s -> touches c o = false ->
  nth c (step s o) cl0 = nth c s cl0 /\ c < length (step s o).
Proof.
  intros s o c L T. destruct o as [c' k m|c' t|src]; cbn in *.
  - apply PeanoNat.Nat.eqb_neq in T. rewrite update_nth_other by auto. rewrite update_length. auto.
  - apply PeanoNat.Nat.eqb_neq in T. rewrite update_nth_other by auto. rewrite update_length. auto.
  - rewrite app_nth1 by exact L. rewrite app_length. cbn. split; [reflexivity|lia].
Qed.

(* after the last registration / setting on a client, nothing that is registered on, set on or
   cloned from any other client changes what that client carries - response middleware, request
   middleware, round-trip wrappers and common error type alike *)
Lemma later_ops_on_others_irrelevant : forall ops s c, c < length s ->
  forallb (fun o => negb (touches c o)) ops = true ->
  nth c (fold_left step ops s) cl0 = nth c s cl0.
Proof.
  induction ops as [|o rest IH]; intros s c L F; cbn in *; [reflexivity|].
  apply andb_prop in F. destruct F as [F1 F2]. apply Bool.negb_true_iff in F1.
  destruct (step_other_unchanged s o c L F1) as [E L']. rewrite IH by auto. exact E.
Qed.

(* a clone starts with a copy of everything its source carries at that moment ... *)
Lemma clone_copies : forall s src, nth (length s) (step s (CClone src)) cl0 = nth src s cl0.
Proof. intros s src. cbn. rewrite app_nth2 by lia. rewrite PeanoNat.Nat.sub_diag. reflexivity. Qed.

(* ... and a registration appends to the registering client's list of that kind only *)
Lemma reg_appends : forall s c k m, c < length s ->
  nth c (step s (CReg c k m)) cl0 = reg k m (nth c s cl0).
Proof. intros s c k m L. cbn. rewrite update_nth_same by exact L. reflexivity. Qed.

Lemma errtype_sets_own : forall s c t, c < length s ->
  cl_et (nth c (step s (CErrType c t)) cl0) = t /\
  cl_resp (nth c (step s (CErrType c t)) cl0) = cl_resp (nth c s cl0) /\
  cl_wraps (nth c (step s (CErrType c t)) cl0) = cl_wraps (nth c s cl0).
Proof. intros s c t L. cbn. rewrite update_nth_same by exact L. cbn. auto. Qed.
