(* Proofs/C04RunProofs.v - C04: the comparators of the correspondence checker (Model/C04Run.v)
   mean what they are used for: a `true` from hmap_eqb is equality of the two header maps as
   multimaps (same keys, same value lists in order), not an artefact of the encoding. *)
From ReqV Require Import Lib.Bytes Lib.BytesFacts Model.H1Resp Model.C04Run.
From Coq Require Import Lia.

Lemma list_eqb_bytes_eq (a b : list bytes) : list_eqb bytes_eqb a b = true -> a = b.
Proof.
  revert b. induction a as [|x a IH]; intros [|y b]; cbn [list_eqb]; try discriminate; [reflexivity|].
  intros H. apply andb_true_iff in H as [H1 H2]. apply bytes_eqb_eq in H1. subst y. f_equal. now apply IH.
Qed.

Lemma hget_in k m vs : hget k m = Some vs -> In k (map fst m).
Proof.
  induction m as [|[k' v'] r IH]; [discriminate|]. cbn [hget map fst In].
  destruct (bytes_eqb k k') eqn:E; [apply bytes_eqb_eq in E; auto|auto].
Qed.

Lemma hget_notin k m : ~ In k (map fst m) -> hget k m = None.
Proof.
  induction m as [|[k' v'] r IH]; [reflexivity|]. cbn [hget map fst In]. intros H.
  destruct (bytes_eqb k k') eqn:E; [apply bytes_eqb_eq in E; subst; tauto|]. apply IH. tauto.
Qed.

Lemma hget_of_in k vs m : NoDup (map fst m) -> In (k, vs) m -> hget k m = Some vs.
Proof.
  induction m as [|[k' v'] r IH]; [intros _ []|]. cbn [map fst hget In]. intros Hn [H|H].
  - inversion H; subst. now rewrite bytes_eqb_refl.
  - inversion Hn; subst. destruct (bytes_eqb k k') eqn:E.
    + apply bytes_eqb_eq in E. subst k'. exfalso. apply H2. apply (in_map fst) in H. exact H.
    + now apply IH.
Qed.

(* hmap_eqb on maps with unique keys (a Go map on one side, an accepted header map on the
   other) decides equality as multimaps *)
Theorem hmap_eqb_sound a b :
  NoDup (map fst a) -> NoDup (map fst b) -> hmap_eqb a b = true -> forall k, hget k a = hget k b.
Proof.
  intros Na Nb H k. unfold hmap_eqb in H. apply andb_true_iff in H as [Hl Hf].
  apply Nat.eqb_eq in Hl.
  assert (Hsub : forall k vs, In (k, vs) a -> hget k b = Some vs).
  { intros k0 vs Hin. pose proof (proj1 (forallb_forall _ _) Hf (k0, vs) Hin) as Hk. cbn [fst snd] in Hk.
    destruct (hget k0 b) as [vs'|]; [|discriminate]. apply list_eqb_bytes_eq in Hk. now subst. }
  assert (Hincl : incl (map fst a) (map fst b)).
  { intros k0 Hk. apply in_map_iff in Hk as ([k1 vs] & <- & Hin). cbn [fst].
    eapply hget_in. exact (Hsub _ _ Hin). }
  assert (Hincl' : incl (map fst b) (map fst a)).
  { apply NoDup_length_incl; [assumption| |assumption]. rewrite !map_length. lia. }
  destruct (hget k a) as [vs|] eqn:Ea.
  - assert (Hin : In (k, vs) a).
    { clear - Ea. induction a as [|[k' v'] r IH]; [discriminate|]. cbn [hget] in Ea.
      destruct (bytes_eqb k k') eqn:E; [apply bytes_eqb_eq in E; inversion Ea; subst; now left|right; now apply IH]. }
    symmetry. now apply Hsub.
  - symmetry. apply hget_notin. intros Hin. apply Hincl' in Hin.
    apply in_map_iff in Hin as ([k1 vs] & E & Hin). cbn [fst] in E. subst k1.
    rewrite (hget_of_in _ _ _ Na Hin) in Ea. discriminate.
Qed.

(* ---------- the model's header map always has unique keys ---------- *)
From ReqV Require Import Model.H1Render Model.H1RenderHead Proofs.H1RespProofs Proofs.H1HeadProofs
  Proofs.H1MimeProofs Proofs.H1TransferProofs.

Lemma hdel_in k m x : In x (map fst (hdel k m)) -> In x (map fst m).
Proof.
  induction m as [|[k' v'] r IH]; [intros []|]. cbn [hdel].
  destruct (bytes_eqb k k'); cbn [map fst In]; [auto|]. intros [H|H]; auto.
Qed.

Lemma hdel_nodup k m : NoDup (map fst m) -> NoDup (map fst (hdel k m)).
Proof.
  induction m as [|[k' v'] r IH]; [intros _; constructor|]. cbn [hdel map fst]. intros H.
  inversion H; subst. destruct (bytes_eqb k k'); [now apply IH|]. cbn [map fst].
  constructor; [|now apply IH]. intros Hin. apply hdel_in in Hin. contradiction.
Qed.

Lemma hadd_nodup k v m : NoDup (map fst m) -> NoDup (map fst (hadd k v m)).
Proof.
  induction m as [|[k' vs] r IH]; cbn [hadd map fst]; intros Hn.
  - constructor; [intros []|constructor].
  - inversion Hn as [|? ? Hnot Hr]; subst. destruct (bytes_eqb k k') eqn:E; cbn [map fst].
    + constructor; assumption.
    + constructor; [|now apply IH]. intros Hin. apply hadd_fst_in in Hin as [->|Hin].
      * rewrite bytes_eqb_refl in E. discriminate.
      * contradiction.
Qed.

Lemma hset_fst_in k v m x : In x (map fst (hset k v m)) -> x = k \/ In x (map fst m).
Proof.
  induction m as [|[k' vs] r IH]; cbn [hset map fst In].
  - intros [H|[]]; auto.
  - destruct (bytes_eqb k k'); cbn [map fst In]; intros [H|H]; auto. destruct (IH H); auto.
Qed.

Lemma hset_nodup k v m : NoDup (map fst m) -> NoDup (map fst (hset k v m)).
Proof.
  induction m as [|[k' vs] r IH]; cbn [hset map fst]; intros Hn.
  - constructor; [intros []|constructor].
  - inversion Hn as [|? ? Hnot Hr]; subst. destruct (bytes_eqb k k') eqn:E; cbn [map fst].
    + constructor; assumption.
    + constructor; [|now apply IH]. intros Hin. apply hset_fst_in in Hin as [->|Hin].
      * rewrite bytes_eqb_refl in E. discriminate.
      * contradiction.
Qed.

Lemma fix_length_nodup code meth h ch n h' :
  NoDup (map fst h) -> fix_length code meth h ch = inr (n, h') -> NoDup (map fst h').
Proof.
  intros Hn. unfold fix_length.
  destruct (match hget K_CL h with Some v => v | None => [] end) as [|c0 [|c1 r]].
  - cbn [is_nil]. destruct (is_head meth); [intros H; inversion H; subst; assumption|].
    destruct (_ =? 1)%Z; [intros H; inversion H; subst; assumption|].
    destruct (_ || _); [intros H; inversion H; subst; assumption|].
    destruct ch; intros H; inversion H; subst; now apply hdel_nodup.
  - cbn [is_nil]. destruct (parse_content_length [c0]); [|discriminate].
    destruct (is_head meth); [intros H; inversion H; subst; assumption|].
    destruct (_ =? 1)%Z; [intros H; inversion H; subst; assumption|].
    destruct (_ || _); [intros H; inversion H; subst; assumption|].
    destruct ch; intros H; inversion H; subst; [now apply hdel_nodup|assumption].
  - destruct (forallb _ (c1 :: r)); [|discriminate]. cbn [is_nil].
    assert (Hd : NoDup (map fst (hadd K_CL (trim_string c0) (hdel K_CL h)))) by (apply hadd_nodup, hdel_nodup; assumption).
    destruct (parse_content_length [trim_string c0]); [|discriminate].
    destruct (is_head meth); [intros H; inversion H; subst; assumption|].
    destruct (_ =? 1)%Z; [intros H; inversion H; subst; assumption|].
    destruct (_ || _); [intros H; inversion H; subst; assumption|].
    destruct ch; intros H; inversion H; subst; [now apply hdel_nodup|assumption].
Qed.

(* every accepted response's header map has unique keys, so (with the Go side being a map)
   hmap_eqb in c04_check compares header maps exactly *)
Theorem accepted_header_unique meth bufsize s r rest :
  read_response_head meth bufsize s = inr (r, rest) -> NoDup (map fst (r_header r)).
Proof.
  unfold read_response_head.
  destruct (read_line bufsize s) as [[line s1]|]; [|discriminate].
  destruct (parse_status_line line) as [e|sl]; [discriminate|].
  destruct (read_mime_header bufsize s1) as [e|[h s2]] eqn:Em; [discriminate|].
  apply mime_header_accepted_ok in Em as [_ Hn].
  assert (Hp : NoDup (map fst (fix_pragma_cache_control h))).
  { unfold fix_pragma_cache_control. destruct (hget K_PRAGMA h) as [[|v vs]|]; try assumption.
    destruct (bytes_eqb v (bs "no-cache")); [|assumption].
    destruct (hget K_CACHE h); [assumption|now apply hset_nodup]. }
  destruct (read_transfer meth sl (fix_pragma_cache_control h)) as [e|r0] eqn:Et; [discriminate|].
  intros H. inversion H; subst; clear H.
  destruct (read_transfer_inv _ _ _ _ Et) as (ch & h2 & rl & h3 & cl & tr & h4 & Hinv).
  rewrite should_close_table in Hinv.
  assert (Hsc : forall c h1, (if (sl_major sl <? 1)%Z then (true, fix_pragma_cache_control h)
                 else if (sl_major sl =? 1)%Z && (sl_minor sl =? 0)%Z
                      then (has_close (fix_pragma_cache_control h) || negb (has_keep_alive (fix_pragma_cache_control h)), fix_pragma_cache_control h)
                      else if has_close (fix_pragma_cache_control h) then (true, hdel K_CONNECTION (fix_pragma_cache_control h))
                           else (false, fix_pragma_cache_control h)) = (c, h1) -> NoDup (map fst h1)).
  { intros c h1. destruct (_ <? 1)%Z; [intros E; inversion E; subst; assumption|].
    destruct (_ && _); [intros E; inversion E; subst; assumption|].
    destruct (has_close _); intros E; inversion E; subst; [now apply hdel_nodup|assumption]. }
  destruct (if (sl_major sl <? 1)%Z then _ else _) as [c0 h1] eqn:Esc.
  specialize (Hsc _ _ eq_refl).
  destruct Hinv as (Hte & Hfl & _ & Htr & _ & Hh & _).
  rewrite Hh.
  assert (N2 : NoDup (map fst h2)).
  { rewrite transfer_encoding_table in Hte. destruct (hget K_TE h1) as [raw|].
    - destruct (negb (proto_at_least_1_1 _ _)); [inversion Hte; subst; now apply hdel_nodup|].
      destruct raw as [|v [|w t]]; try discriminate.
      destruct (bytes_eqb _ _); [inversion Hte; subst; now apply hdel_nodup|discriminate].
    - inversion Hte; subst. assumption. }
  assert (N3 : NoDup (map fst h3)) by (eapply fix_length_nodup; eauto).
  rewrite fix_trailer_table in Htr. destruct (hget K_TRAILER h3) as [vv|].
  - destruct (negb ch); [inversion Htr; subst; assumption|].
    destruct (existsb _ _); [discriminate|]. inversion Htr; subst. now apply hdel_nodup.
  - inversion Htr; subst. assumption.
Qed.
