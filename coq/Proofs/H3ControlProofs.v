(* Proofs/H3ControlProofs.v - the control-stream guard lets one stream through, whatever the
   interleaving (C07) *)
From ReqV Require Import Lib.Bytes Model.H3Control.
From Coq Require Import Lia.

Definition cinv (s : cstate) : Prop :=
  length (c_passed s) + c_closes s <= 1 /\
  (c_flag s = false -> c_passed s = [] /\ c_closes s = 0).

Lemma remove_nat_length x : forall l, mem_nat x l = true -> S (length (remove_nat x l)) = length l.
Proof.
  induction l as [|y r IH]; cbn; [discriminate|]. destruct (Nat.eqb x y); cbn; [reflexivity|].
  intros H. now rewrite IH.
Qed.

Lemma cstep_inv s ev : cinv s -> cinv (cstep true s ev).
Proof.
  intros [H1 H2]. destruct ev as [i|i]; cbn [cstep].
  - destruct (c_flag s) eqn:F; split; cbn; try assumption; try discriminate.
    destruct (H2 eq_refl) as [-> ->]. cbn. lia.
  - destruct (mem_nat i (c_passed s)) eqn:M; [|split; assumption].
    split; cbn; [|discriminate]. pose proof (remove_nat_length i _ M). lia.
Qed.

Lemma crun_inv : forall evs s, cinv s -> cinv (fold_left (cstep true) evs s).
Proof. induction evs as [|ev r IH]; intros s H; cbn; [assumption|]. apply IH. now apply cstep_inv. Qed.

(* for EVERY interleaving of the events of any number of streams that announce themselves as
   control streams: at most one passes the guard, so close(c.receivedSettings) runs at most once *)
Theorem control_guard_single evs : c_closes (crun true evs) <= 1.
Proof.
  destruct (crun_inv evs cstate0) as [H _]; [split; cbn; [lia|auto]|]. unfold crun. lia.
Qed.

(* ... and every further stream that reaches the guard is answered with the connection error *)
Theorem control_guard_second_refused pre i j post :
  c_dup (crun true (pre ++ CType i :: CType j :: post)) = true.
Proof.
  unfold crun. rewrite fold_left_app. cbn [fold_left].
  set (s := fold_left (cstep true) pre cstate0).
  assert (D : forall evs t, c_dup t = true -> c_dup (fold_left (cstep true) evs t) = true).
  { induction evs as [|ev r IH]; intros t H; cbn; [assumption|]. apply IH.
    destruct ev; cbn [cstep]; [destruct (c_flag t)|destruct (mem_nat _ _)]; cbn; auto. }
  apply D. cbn [cstep]. destruct (c_flag s); cbn; reflexivity.
Qed.

(* check-then-act: two streams whose types are read before either SETTINGS frame both pass, and the
   channel is closed twice *)
Theorem control_guard_check_then_act_refuted :
  c_closes (crun false [CType 0; CType 1; CSettings 0; CSettings 1]) = 2 /\
  c_closes (crun true [CType 0; CType 1; CSettings 0; CSettings 1]) = 1 /\
  c_closes (crun false [CType 0; CSettings 0; CType 1; CSettings 1]) = 1.
Proof. repeat split. Qed.
