(* Proofs/LifecycleThms.v - the C08 statements about the HTTP/1.1 machine in Prop form, derived
   from the boolean facts decided on the closed reachable set (Proofs/LifecycleProofs.v). *)
From Coq Require Import List Bool Arith Lia.
From ReqV Require Import Model.Lifecycle Proofs.Reach Proofs.LifecycleProofs.
Import ListNotations.

(* ---------- the statements in Prop form ---------- *)

Lemma user_ctx_spec : forall s, user_ctx s = true <-> exists cs, ctx s = CtxUser cs.
Proof. intros s. unfold user_ctx. destruct (ctx s); split; intros H; try discriminate; eauto; destruct H; discriminate. Qed.

Theorem h1_errors_identify : forall c s, reach1 c s -> failed s = false ->
  (forall e, ret s = Some (CErr e) ->
     (exists cs, ctx s = CtxUser cs /\ e = ECause cs) \/ (e = EHdrTimeout /\ c_hdr_timeout c = true)) /\
  (forall e, bres s = BErr e -> exists cs, ctx s = CtxUser cs /\ e = ECause cs).
Proof.
  intros c s R F. pose proof (inv1 ident_b ident_all c s R) as H.
  unfold ident_b in H. rewrite F in H. cbn in H. apply andb_prop in H as [H1 H2]. split.
  - intros e E. rewrite E in H1. destruct e as [cs| | |].
    + left. apply is_cause_spec in H1 as [x [A B]]. exists x. auto.
    + right. auto.
    + cbn in H1. destruct (ctx s) as [|[]|]; discriminate.
    + cbn in H1. destruct (ctx s) as [|[]|]; discriminate.
  - intros e E. rewrite E in H2. apply is_cause_spec in H2 as [x [A B]]. exists x. auto.
Qed.

Theorem h1_cancel_progress : forall c s, reach1 c s -> user_ctx s = true -> at_ s <> LDone ->
  exists l, In l caller_labels /\ step1 c s l <> None.
Proof.
  intros c s R U D. pose proof (inv1 progress_b progress_all c s R) as H.
  unfold progress_b in H. rewrite U in H. cbn [negb orb] in H.
  assert (is_done s = false) as ND by (unfold is_done; destruct (at_ s); auto; congruence).
  rewrite ND in H. cbn [negb orb] in H. apply existsb_exists in H as [l [I E]].
  exists l. split; [exact I|]. unfold enabled1 in E. destruct (step1 c s l); [discriminate|discriminate].
Qed.

Theorem h1_cancel_variant : forall c s l s', reach1 c s -> user_ctx s = true -> step1 c s l = Some s' ->
  user_ctx s' = true /\ mu1 s' <= mu1 s /\ (is_caller l = true -> mu1 s' < mu1 s).
Proof.
  intros c s l s' R U HS.
  pose proof (inv1T variant_b variant_all c s l s' R HS) as V.
  pose proof (inv1T user_stays_b user_stays_all c s l s' R HS) as W.
  unfold variant_b in V. unfold user_stays_b in W. rewrite U in V, W. cbn in V, W.
  split; [exact W|]. destruct (is_caller l).
  - apply Nat.ltb_lt in V. split; [lia|auto].
  - apply Nat.leb_le in V. split; [exact V|discriminate].
Qed.

Fixpoint count_caller (ls : list label) : nat :=
  match ls with [] => 0 | l :: r => (if is_caller l then 1 else 0) + count_caller r end.

Lemma mu1_le_5 : forall s, mu1 s <= 5.
Proof. intros s. unfold mu1. destruct (at_ s); try lia. destruct (closed s && _); destruct (werr s); destruct (wl s); cbn; lia. Qed.

(* after the context has ended the caller of RoundTrip takes at most mu1 s <= 5 more steps,
   whatever the environment and the other goroutines do in between *)
Theorem h1_returns_within : forall c ls s s', reach1 c s -> user_ctx s = true ->
  run1 c s ls = Some s' -> count_caller ls <= mu1 s /\ mu1 s <= 5.
Proof.
  intros c ls. induction ls as [|l r IH]; intros s s' R U HR; cbn in *.
  - split; [lia|apply mu1_le_5].
  - destruct (step1 c s l) as [s1|] eqn:E; [|discriminate].
    destruct (h1_cancel_variant c s l s1 R U E) as [U1 [LE LT]].
    destruct (IH s1 s' (reach1_step _ _ _ _ R E) U1 HR) as [A _].
    split; [|apply mu1_le_5]. destruct (is_caller l); [specialize (LT eq_refl); lia|lia].
Qed.

Theorem h1_body_read_returns : forall c s, reach1 c s -> user_ctx s = true -> body_pending s = true ->
  step1 c s IRlCtx <> None /\
  forall l s', In l [IRlBody; IRlCtx; IRlClosed] -> step1 c s l = Some s' -> body_pending s' = false.
Proof.
  intros c s R U B. pose proof (inv1 body_progress_b body_progress_all c s R) as H.
  unfold body_progress_b in H. rewrite U, B in H. cbn [andb negb orb] in H.
  apply andb_prop in H as [E A]. split.
  - unfold enabled1 in E. destruct (step1 c s IRlCtx); discriminate.
  - intros l s' I HS. rewrite forallb_forall in A. specialize (A l I). rewrite HS in A.
    destruct (body_pending s'); [discriminate|reflexivity].
Qed.

Theorem h1_pool_only_after_complete_exchange : forall c s, reach1 c s -> in_pool s = true ->
  wrote_ok s = true /\ (rl s = RIdle \/ rl s = RSend (RvResp false)) /\ (bres s = BNone \/ bres s = BEOF).
Proof.
  intros c s R P. pose proof (inv1 pool_b pool_all c s R) as H. unfold pool_b in H. rewrite P in H. cbn in H.
  apply andb_prop in H as [H H3]. apply andb_prop in H as [H1 H2]. split; [exact H1|]. split.
  - destruct (rl s) as [|[[]|]| | |]; try discriminate; auto.
  - destruct (bres s); try discriminate; auto.
Qed.

Theorem h1_residue : forall c s, reach1 c s -> settled1 c s = true -> loops_gone s = true /\ body_closed s = true.
Proof.
  intros c s R S. pose proof (inv1 residue_b residue_all c s R) as H. unfold residue_b in H. rewrite S in H.
  cbn in H. apply andb_prop in H. exact H.
Qed.

Theorem h1_no_retry_after_cancel : forall c s l s', reach1 c s -> user_ctx s = true ->
  step1 c s l = Some s' -> attempt s' = attempt s.
Proof.
  intros c s l s' R U HS. pose proof (inv1T no_retry_b no_retry_all c s l s' R HS) as H.
  unfold no_retry_b in H. rewrite U in H. cbn in H. apply Nat.eqb_eq in H. exact H.
Qed.

(* cancel_anywhere: wherever in ANY event/schedule sequence the context ended, once things have
   settled the outcome is an error identifying the cause (or the header timeout that fired), or
   the response that raced it / whose body read fails with that cause; the connection is not
   in the idle pool after an error; no loop is left; the request body is closed *)
Definition outcome_ok (c : cfg1) (s : h1) : Prop :=
  match ret s with
  | Some (CErr EHdrTimeout) => c_hdr_timeout c = true
  | Some (CErr e) => (exists cs, ctx s = CtxUser cs /\ e = ECause cs) /\ in_pool s = false
  | Some (CResp b) =>
      match bres s with
      | BErr e => (exists cs, ctx s = CtxUser cs /\ e = ECause cs) /\ in_pool s = false
      | BEOF | BClosed => True
      | BNone => b = false
      | _ => False
      end
  | None => False
  end.

Theorem h1_cancel_anywhere : forall c s, reach1 c s -> user_ctx s = true -> settled1 c s = true ->
  failed s = false -> outcome_ok c s /\ loops_gone s = true /\ body_closed s = true.
Proof.
  intros c s R U S F. pose proof (inv1 anywhere_b anywhere_all c s R) as H.
  unfold anywhere_b in H. rewrite U, S, F in H. cbn [andb negb orb] in H.
  apply andb_prop in H as [H B]. apply andb_prop in H as [H L]. split; [|auto].
  unfold outcome_ok. destruct (ret s) as [[b|e]|]; [| |discriminate].
  - destruct (bres s) as [| | | | | |e]; try discriminate; auto.
    + destruct b; [discriminate|reflexivity].
    + apply andb_prop in H as [H1 H2]. apply is_cause_spec in H1 as [x [A E]].
      split; [exists x; auto|]. destruct (in_pool s); [discriminate|reflexivity].
  - destruct e as [cs| | |]; auto.
    + apply andb_prop in H as [H1 H2]. apply is_cause_spec in H1 as [x [A E]].
      split; [exists x; auto|]. destruct (in_pool s); [discriminate|reflexivity].
    + apply andb_prop in H as [H1 _]. cbn in H1. destruct (ctx s) as [|[]|]; discriminate.
    + apply andb_prop in H as [H1 _]. cbn in H1. destruct (ctx s) as [|[]|]; discriminate.
Qed.

(* non-vacuity: a cancellation while waiting for response headers, resolved by the scheduler *)
Example h1_nonvacuous :
  let c := mkCfg1 false true true in
  exists s, run1 c (init1 c) [XDialDone true; IConnResult; XWrote; ISelWrite; XCancel CCanceled; ISelCtx; ISelResc] = Some s /\
            ret s = Some (CErr (ECause CCanceled)) /\ settled1 c s = true /\ failed s = false /\
            closed s = true /\ in_pool s = false.
Proof. eexists. vm_compute. repeat split. Qed.
