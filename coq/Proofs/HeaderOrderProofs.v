(* Proofs/HeaderOrderProofs.v - C16: lemmas about Model/HeaderOrder.v (the sort). *)
From ReqV Require Import Lib.Bytes Lib.BytesFacts Model.HeaderOrder.
From Coq Require Import Lia Permutation Sorting.Sorted.

(* ---------- generic facts about the stable insertion sort ---------- *)
Section StableSort.
  Context {A : Type} (r : A -> nat).

  Definition le_r (a b : A) : Prop := r a <= r b.

  Lemma insert_perm x l : Permutation (insert_by r x l) (x :: l).
  Proof.
    induction l as [|y t IH]; cbn [insert_by]; [reflexivity|].
    destruct (r x <=? r y); [reflexivity|].
    rewrite IH. apply perm_swap.
  Qed.

  Lemma sort_perm l : Permutation (stable_sort_by r l) l.
  Proof.
    induction l as [|x t IH]; cbn [stable_sort_by]; [reflexivity|].
    rewrite insert_perm. now constructor.
  Qed.

  Lemma insert_sorted x l :
    StronglySorted le_r l -> StronglySorted le_r (insert_by r x l).
  Proof.
    induction 1 as [|y t Hs IH Hy]; cbn [insert_by].
    - constructor; constructor.
    - destruct (r x <=? r y) eqn:E.
      + apply Nat.leb_le in E. constructor.
        * constructor; assumption.
        * constructor; [exact E|].
          rewrite Forall_forall in *. intros z Hz. specialize (Hy z Hz). unfold le_r in *. lia.
      + apply Nat.leb_gt in E. constructor; [exact IH|].
        rewrite Forall_forall in *. intros z Hz.
        apply (Permutation_in _ (insert_perm x t)) in Hz. destruct Hz as [<-|Hz].
        * unfold le_r. lia.
        * auto.
  Qed.

  Lemma sort_sorted l : StronglySorted le_r (stable_sort_by r l).
  Proof.
    induction l as [|x t IH]; cbn [stable_sort_by]; [constructor|].
    now apply insert_sorted.
  Qed.

  Definition at_rank (n : nat) (x : A) : bool := r x =? n.

  Lemma filter_insert n x l :
    filter (at_rank n) (insert_by r x l) =
    if at_rank n x then x :: filter (at_rank n) l else filter (at_rank n) l.
  Proof.
    induction l as [|y t IH]; cbn [insert_by filter]; [reflexivity|].
    destruct (r x <=? r y) eqn:E; cbn [filter]; [reflexivity|].
    rewrite IH. apply Nat.leb_gt in E. unfold at_rank.
    destruct (r x =? n) eqn:Ex; destruct (r y =? n) eqn:Ey; try reflexivity.
    apply Nat.eqb_eq in Ex, Ey. lia.
  Qed.

  (* stability: elements of equal rank keep their original relative order *)
  Lemma sort_stable_rank n l :
    filter (at_rank n) (stable_sort_by r l) = filter (at_rank n) l.
  Proof.
    induction l as [|x t IH]; cbn [stable_sort_by filter]; [reflexivity|].
    rewrite filter_insert, IH. reflexivity.
  Qed.

  (* sortedness in positional form *)
  Lemma strongly_sorted_nth l :
    StronglySorted le_r l ->
    forall p q a b, p < q -> nth_error l p = Some a -> nth_error l q = Some b -> r a <= r b.
  Proof.
    induction 1 as [|y t Hs IH Hy]; intros p q a b Hpq Ha Hb.
    - destruct p; discriminate.
    - destruct q as [|q]; [lia|]. cbn [nth_error] in Hb. destruct p as [|p].
      + cbn in Ha. injection Ha as <-. rewrite Forall_forall in Hy.
        apply Hy. eapply nth_error_In; eassumption.
      + cbn [nth_error] in Ha. eapply IH; [|eassumption..]. lia.
  Qed.

  (* A stable sort under a total preorder has a unique output: any list that is sorted by
     rank and keeps, for every rank, the original sub-sequence of that rank, IS the output
     of the insertion sort.  (So the algorithm sort.Stable actually runs does not matter.) *)
  Lemma sorted_head_min y t :
    StronglySorted le_r (y :: t) -> forall z, In z (y :: t) -> r y <= r z.
  Proof.
    intros H z [<-|Hz]; [lia|]. inversion H as [|? ? _ Hy]; subst.
    rewrite Forall_forall in Hy. now apply Hy.
  Qed.

  Lemma at_rank_refl x : at_rank (r x) x = true.
  Proof. unfold at_rank. apply Nat.eqb_refl. Qed.

  Lemma in_filter_rank z l : In z l -> In z (filter (at_rank (r z)) l).
  Proof. intros H. apply filter_In. split; [assumption|]. unfold at_rank. apply Nat.eqb_refl. Qed.

  Lemma stable_sorted_unique l1 :
    forall l2, StronglySorted le_r l1 -> StronglySorted le_r l2 ->
    (forall n, filter (at_rank n) l1 = filter (at_rank n) l2) -> l1 = l2.
  Proof.
    induction l1 as [|x t1 IH]; intros l2 H1 H2 HF.
    - destruct l2 as [|y t2]; [reflexivity|]. exfalso.
      specialize (HF (r y)). cbn [filter] in HF. rewrite at_rank_refl in HF. discriminate.
    - destruct l2 as [|y t2].
      { exfalso. specialize (HF (r x)). cbn [filter] in HF. rewrite at_rank_refl in HF. discriminate. }
      assert (Hxy : r x = r y).
      { assert (In x (y :: t2)) as Hx.
        { pose proof (in_filter_rank x (x :: t1) (or_introl eq_refl)) as Hin.
          rewrite HF in Hin. now apply filter_In in Hin. }
        assert (In y (x :: t1)) as Hy.
        { pose proof (in_filter_rank y (y :: t2) (or_introl eq_refl)) as Hin.
          rewrite <- HF in Hin. now apply filter_In in Hin. }
        pose proof (sorted_head_min _ _ H1 _ Hy). pose proof (sorted_head_min _ _ H2 _ Hx). lia. }
      assert (x = y) as ->.
      { specialize (HF (r x)). cbn [filter] in HF. rewrite at_rank_refl in HF.
        rewrite Hxy, at_rank_refl in HF. now injection HF. }
      f_equal. apply IH.
      + now inversion H1.
      + now inversion H2.
      + intros n. specialize (HF n). cbn [filter] in HF.
        destruct (at_rank n y); [now injection HF|exact HF].
  Qed.

  Lemma stable_sort_unique l out :
    StronglySorted le_r out ->
    (forall n, filter (at_rank n) out = filter (at_rank n) l) ->
    out = stable_sort_by r l.
  Proof.
    intros Hs Hf. apply stable_sorted_unique; [assumption|apply sort_sorted|].
    intros n. now rewrite Hf, sort_stable_rank.
  Qed.
End StableSort.

(* ---------- canonical_key ---------- *)
Lemma canon_go_length u s : length (canon_go u s) = length s.
Proof. revert u. induction s as [|c s IH]; intros u; cbn [canon_go length]; [reflexivity|]. now rewrite IH. Qed.

Lemma lower_upper_byte b : to_lower [upper_byte b] = to_lower [b].
Proof. destruct b; vm_compute; reflexivity. Qed.

Lemma lower_lower_byte b : lower_byte (lower_byte b) = lower_byte b.
Proof. apply lower_byte_idem. Qed.

(* canonicalisation only changes letter case *)
Lemma canon_go_lower u s : to_lower (canon_go u s) = to_lower s.
Proof.
  revert u. induction s as [|c s IH]; intros u; cbn [canon_go]; [reflexivity|].
  change (to_lower (?x :: ?y)) with (lower_byte x :: to_lower y). rewrite IH. f_equal.
  destruct u.
  - pose proof (lower_upper_byte c) as H. cbn in H. now injection H.
  - apply lower_byte_idem.
Qed.

Lemma canonical_key_lower s : to_lower (canonical_key s) = to_lower s.
Proof.
  unfold canonical_key, mime_key. destruct (is_pseudo_name s); [apply to_lower_idem|].
  destruct (forallb is_tchar s); [apply canon_go_lower|reflexivity].
Qed.

Lemma is_tchar_case b : is_tchar (lower_byte b) = is_tchar b /\ is_tchar (upper_byte b) = is_tchar b.
Proof. destruct b; vm_compute; split; reflexivity. Qed.

Lemma upper_of_lower b : upper_byte (lower_byte b) = upper_byte b.
Proof. destruct b; vm_compute; reflexivity. Qed.

Lemma canon_go_case_insensitive s : forall t u,
  to_lower s = to_lower t -> canon_go u s = canon_go u t.
Proof.
  induction s as [|c s IH]; intros [|d t] u H; try discriminate; [reflexivity|].
  change (to_lower (?x :: ?y)) with (lower_byte x :: to_lower y) in H.
  injection H as Hc Hs. cbn [canon_go].
  assert (E : (if u then upper_byte c else lower_byte c) = (if u then upper_byte d else lower_byte d)).
  { destruct u; [|exact Hc]. rewrite <- (upper_of_lower c), <- (upper_of_lower d). now rewrite Hc. }
  rewrite E. f_equal. now apply IH.
Qed.

Lemma forallb_tchar_lower s : forallb is_tchar (to_lower s) = forallb is_tchar s.
Proof.
  induction s as [|c s IH]; [reflexivity|].
  change (to_lower (c :: s)) with (lower_byte c :: to_lower s). cbn [forallb].
  rewrite IH. now rewrite (proj1 (is_tchar_case c)).
Qed.

Lemma tchar_not_pseudo s : forallb is_tchar s = true -> is_pseudo_name s = false.
Proof.
  destruct s as [|c s]; [reflexivity|]. cbn [forallb is_pseudo_name]. intros H.
  apply andb_true_iff in H as [H _]. destruct (beqb c colon_b) eqn:E; [|reflexivity].
  apply beqb_eq in E. subst c. discriminate.
Qed.

(* header names that are tokens are matched case-insensitively by the order list *)
Lemma canonical_key_case_insensitive s t :
  forallb is_tchar s = true -> to_lower s = to_lower t -> canonical_key s = canonical_key t.
Proof.
  intros Hs H. unfold canonical_key, mime_key.
  assert (forallb is_tchar t = true) as Ht.
  { rewrite <- forallb_tchar_lower, <- H, forallb_tchar_lower. exact Hs. }
  rewrite (tchar_not_pseudo s Hs), (tchar_not_pseudo t Ht).
  rewrite Hs, Ht. now apply canon_go_case_insensitive.
Qed.

(* pseudo-header names are matched case-insensitively too *)
Lemma canonical_key_pseudo_case_insensitive s t :
  is_pseudo_name s = true -> to_lower s = to_lower t -> canonical_key s = canonical_key t.
Proof.
  intros Hs H. unfold canonical_key.
  assert (is_pseudo_name t = true) as Ht.
  { destruct s as [|c s]; [discriminate|]. destruct t as [|d t]; [discriminate|].
    change (to_lower (?x :: ?y)) with (lower_byte x :: to_lower y) in H. injection H as Hc _.
    cbn in *. apply beqb_eq in Hs. subst c. revert Hc. clear. destruct d; vm_compute; congruence. }
  now rewrite Hs, Ht.
Qed.

(* ---------- rank ---------- *)
Lemma rank_in_bounds co : forall i ck j,
  rank_in i co ck = Some j -> i <= j < i + length co.
Proof.
  induction co as [|o r IH]; intros i ck j H; cbn [rank_in] in H; [discriminate|].
  destruct (rank_in (S i) r ck) eqn:E.
  - injection H as <-. apply IH in E. cbn [length]. lia.
  - destruct (bytes_eqb o ck); [|discriminate]. injection H as <-. cbn [length]. lia.
Qed.

Lemma rank_in_none co : forall i ck,
  (forall m, nth_error co m <> Some ck) -> rank_in i co ck = None.
Proof.
  induction co as [|o r IH]; intros i ck H; cbn [rank_in]; [reflexivity|].
  rewrite IH by (intros m; apply (H (S m))).
  destruct (bytes_eqb o ck) eqn:E; [|reflexivity].
  apply bytes_eqb_eq in E. exfalso. apply (H 0). cbn. now f_equal.
Qed.

(* a listed name does occur in the order list (up to canonicalisation) *)
Lemma rank_in_some co : forall i ck j,
  rank_in i co ck = Some j -> i <= j /\ nth_error co (j - i) = Some ck.
Proof.
  induction co as [|o r IH]; intros i ck j H; cbn [rank_in] in H; [discriminate|].
  destruct (rank_in (S i) r ck) eqn:E.
  - injection H as <-. apply IH in E as [Hle Hn]. split; [lia|].
    replace (n - i) with (S (n - S i)) by lia. exact Hn.
  - destruct (bytes_eqb o ck) eqn:Eo; [|discriminate]. injection H as <-.
    apply bytes_eqb_eq in Eo. split; [lia|]. rewrite Nat.sub_diag. cbn. now f_equal.
Qed.

(* the index is that of the LAST entry of the order list with that canonical name *)
Lemma rank_in_last co : forall i ck d,
  nth_error co d = Some ck ->
  (forall m, d < m -> nth_error co m <> Some ck) ->
  rank_in i co ck = Some (i + d).
Proof.
  induction co as [|o r IH]; intros i ck d Hd Hlast.
  - destruct d; discriminate.
  - cbn [rank_in]. destruct d as [|d].
    + rewrite rank_in_none by (intros m; apply (Hlast (S m)); lia).
      cbn in Hd. injection Hd as Hd. rewrite Hd, bytes_eqb_refl. f_equal. lia.
    + cbn [nth_error] in Hd. rewrite (IH (S i) ck d Hd).
      * f_equal. lia.
      * intros m Hm. apply (Hlast (S m)). lia.
Qed.

Lemma rank_listed order k : listed order k = true -> rank order k < length order.
Proof.
  unfold listed, rank, rank_c. destruct (rank_in 0 (map canonical_key order) (canonical_key k)) eqn:E; [|discriminate].
  intros _. apply rank_in_bounds in E. rewrite map_length in E. lia.
Qed.

Lemma rank_unlisted order k : listed order k = false <-> rank order k = length order.
Proof.
  unfold listed, rank, rank_c. destruct (rank_in 0 (map canonical_key order) (canonical_key k)) eqn:E.
  - apply rank_in_bounds in E. rewrite map_length in E. split; [discriminate|lia].
  - tauto.
Qed.

(* a listed field's name really is in the order list, up to letter case of token names *)
Lemma listed_in_list order k :
  listed order k = true -> exists o, In o order /\ canonical_key o = canonical_key k.
Proof.
  unfold listed. destruct (rank_in 0 (map canonical_key order) (canonical_key k)) eqn:E; [|discriminate].
  intros _. apply rank_in_some in E as [_ E]. apply nth_error_In in E.
  apply in_map_iff in E as (o & Ho & Hin). now exists o.
Qed.

Lemma rank_of_last_occurrence order k o d :
  nth_error order d = Some o -> canonical_key k = canonical_key o ->
  (forall m o', d < m -> nth_error order m = Some o' -> canonical_key o' <> canonical_key o) ->
  rank order k = d /\ listed order k = true.
Proof.
  intros Hd Hk Hlast. unfold rank, rank_c, listed. rewrite Hk.
  rewrite (rank_in_last (map canonical_key order) 0 (canonical_key o) d).
  - split; reflexivity.
  - rewrite nth_error_map, Hd. reflexivity.
  - intros m Hm. rewrite nth_error_map. destruct (nth_error order m) eqn:E; [|discriminate].
    cbn. intros [= C]. eapply Hlast; eassumption.
Qed.

(* ---------- decorate / sort / undecorate = plain sort ---------- *)
Lemma insert_decorated {A} (f : A -> nat) x (dl : list (nat * A)) :
  Forall (fun d => fst d = f (snd d)) dl ->
  map snd (insert_by fst (f x, x) dl) = insert_by f x (map snd dl).
Proof.
  induction 1 as [|d t Hd Ht IH]; cbn [insert_by map]; [reflexivity|].
  cbn [fst]. rewrite Hd. destruct (f x <=? f (snd d)); cbn [map snd]; [reflexivity|].
  now rewrite IH.
Qed.

Lemma insert_decorated_inv {A} (f : A -> nat) x (dl : list (nat * A)) :
  Forall (fun d => fst d = f (snd d)) dl ->
  Forall (fun d => fst d = f (snd d)) (insert_by fst (f x, x) dl).
Proof.
  intros H. eapply Permutation_Forall; [symmetry; apply insert_perm|].
  constructor; [reflexivity|assumption].
Qed.

Lemma sort_decorated {A} (f : A -> nat) (l : list A) :
  map snd (stable_sort_by fst (map (fun x => (f x, x)) l)) = stable_sort_by f l /\
  Forall (fun d => fst d = f (snd d)) (stable_sort_by fst (map (fun x => (f x, x)) l)).
Proof.
  induction l as [|x t [IH1 IH2]]; cbn [map stable_sort_by]; [split; [reflexivity|constructor]|].
  split.
  - rewrite insert_decorated by assumption. now rewrite IH1.
  - now apply insert_decorated_inv.
Qed.

Lemma sort_key_values_spec kvs order :
  sort_key_values kvs order = stable_sort_by (kv_rank order) kvs.
Proof.
  unfold sort_key_values. cbv zeta.
  apply (proj1 (sort_decorated (kv_rank order) kvs)).
Qed.

(* ---------- SortKeyValues ---------- *)

(* an order list never adds, drops or duplicates a field *)
Lemma sort_is_permutation kvs order : Permutation (sort_key_values kvs order) kvs.
Proof. rewrite sort_key_values_spec. apply sort_perm. Qed.

Lemma sort_ranks_ascending kvs order p q a b :
  p < q -> nth_error (sort_key_values kvs order) p = Some a ->
  nth_error (sort_key_values kvs order) q = Some b ->
  rank order (fst a) <= rank order (fst b).
Proof.
  rewrite sort_key_values_spec.
  intros. eapply (strongly_sorted_nth (kv_rank order)); [apply sort_sorted|eassumption..].
Qed.

(* the field ranked strictly earlier comes out strictly earlier *)
Lemma sort_lower_rank_first kvs order p q a b :
  nth_error (sort_key_values kvs order) p = Some a ->
  nth_error (sort_key_values kvs order) q = Some b ->
  rank order (fst a) < rank order (fst b) -> p < q.
Proof.
  intros Ha Hb Hr. destruct (Nat.lt_trichotomy p q) as [H|[->|H]]; [exact H| |].
  - rewrite Ha in Hb. injection Hb as ->. lia.
  - pose proof (sort_ranks_ascending kvs order q p b a H Hb Ha). lia.
Qed.

(* listed_in_listed_order: kvs of ANY length, ANY order list.  If name oi sits at index i and
   name oj at index j > i of the order list (these being the deciding - last - occurrences of
   those names up to case), every field named oi precedes every field named oj in the output. *)
Lemma listed_in_listed_order kvs order i j oi oj :
  i < j -> nth_error order i = Some oi -> nth_error order j = Some oj ->
  (forall m o', i < m -> nth_error order m = Some o' -> canonical_key o' <> canonical_key oi) ->
  (forall m o', j < m -> nth_error order m = Some o' -> canonical_key o' <> canonical_key oj) ->
  forall p q a b,
  nth_error (sort_key_values kvs order) p = Some a ->
  nth_error (sort_key_values kvs order) q = Some b ->
  canonical_key (fst a) = canonical_key oi -> canonical_key (fst b) = canonical_key oj ->
  p < q.
Proof.
  intros Hij Hi Hj Li Lj p q a b Ha Hb Ca Cb.
  destruct (rank_of_last_occurrence order (fst a) oi i Hi Ca Li) as [Ra _].
  destruct (rank_of_last_occurrence order (fst b) oj j Hj Cb Lj) as [Rb _].
  eapply sort_lower_rank_first; [exact Ha|exact Hb|]. lia.
Qed.

(* duplicate-free order list: plain positions decide *)
Lemma nodup_last (l : list bytes) : NoDup (map canonical_key l) ->
  forall i o, nth_error l i = Some o ->
  forall m o', i < m -> nth_error l m = Some o' -> canonical_key o' <> canonical_key o.
Proof.
  intros Hnd i o Hi m o' Hm Ho' C.
  assert (nth_error (map canonical_key l) i = nth_error (map canonical_key l) m) as E.
  { rewrite !nth_error_map, Hi, Ho'. cbn. now f_equal. }
  apply NoDup_nth_error in E; [lia|assumption|].
  rewrite map_length. apply nth_error_Some. congruence.
Qed.

Lemma listed_in_listed_order_nodup kvs order i j oi oj :
  NoDup (map canonical_key order) ->
  i < j -> nth_error order i = Some oi -> nth_error order j = Some oj ->
  forall p q a b,
  nth_error (sort_key_values kvs order) p = Some a ->
  nth_error (sort_key_values kvs order) q = Some b ->
  canonical_key (fst a) = canonical_key oi -> canonical_key (fst b) = canonical_key oj ->
  p < q.
Proof.
  intros Hnd Hij Hi Hj. eapply listed_in_listed_order; try eassumption.
  - now apply nodup_last.
  - now apply nodup_last.
Qed.

(* every listed field precedes every unlisted one *)
Lemma listed_before_unlisted kvs order p q a b :
  nth_error (sort_key_values kvs order) p = Some a ->
  nth_error (sort_key_values kvs order) q = Some b ->
  listed order (fst a) = true -> listed order (fst b) = false -> p < q.
Proof.
  intros Ha Hb La Lb. eapply sort_lower_rank_first; [exact Ha|exact Hb|].
  apply rank_listed in La. apply rank_unlisted in Lb. lia.
Qed.

(* fields of the same rank (same listed name, or all the unlisted ones) keep their order *)
Lemma sort_stable kvs order n :
  filter (fun x => rank order (fst x) =? n) (sort_key_values kvs order) =
  filter (fun x => rank order (fst x) =? n) kvs.
Proof. rewrite sort_key_values_spec. apply (sort_stable_rank (kv_rank order)). Qed.

Lemma unlisted_keep_relative_order kvs order :
  unlisted_part order (sort_key_values kvs order) = unlisted_part order kvs.
Proof.
  unfold unlisted_part.
  rewrite !(filter_ext (fun x => negb (listed order (fst x)))
                       (fun x => rank order (fst x) =? length order)).
  - apply sort_stable.
  - intros x. destruct (listed order (fst x)) eqn:E; cbn.
    + apply rank_listed in E. symmetry. apply Nat.eqb_neq. lia.
    + apply rank_unlisted in E. symmetry. now apply Nat.eqb_eq.
  - intros x. destruct (listed order (fst x)) eqn:E; cbn.
    + apply rank_listed in E. symmetry. apply Nat.eqb_neq. lia.
    + apply rank_unlisted in E. symmetry. now apply Nat.eqb_eq.
Qed.

(* the output is THE stable sort: any rank-sorted list that keeps every rank class in input
   order equals it *)
Lemma sort_output_unique kvs order out :
  StronglySorted (le_r (kv_rank order)) out ->
  (forall n, filter (fun x => rank order (fst x) =? n) out =
             filter (fun x => rank order (fst x) =? n) kvs) ->
  out = sort_key_values kvs order.
Proof. intros Hs Hf. rewrite sort_key_values_spec. now apply stable_sort_unique. Qed.

(* ---------- the pinned comparator is not a relation on the elements ---------- *)
Lemma less_pinned_position_dependent :
  exists order x y,
    less_pinned order [x; y] 0 1 = false /\ less_pinned order [x; y] 1 0 = false /\
    less_pinned order [y; x] 0 1 = true.
Proof.
  exists [bs "B"], (bs "A", [bs "1"]), (bs "B", [bs "2"]). vm_compute. repeat split.
Qed.
