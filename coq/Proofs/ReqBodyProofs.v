(* Proofs/ReqBodyProofs.v - the body dispatch of parseRequestBody (C17). *)
From Coq Require Import Lia Permutation.
From ReqV Require Import Lib.Bytes Lib.BytesFacts Model.Form Model.Multipart Model.ReqBody
  Proofs.FormProofs Proofs.MultipartProofs Gen.PayloadForbid Gen.ContentTypes.

(* ---------- methods that must not carry a payload ---------- *)

(* the regenerated table says: HEAD, OPTIONS always; GET unless the caller allowed it *)
Lemma payload_forbidden_spec m allow :
  payload_forbidden m allow =
  (bytes_eqb (bs "GET") m && negb allow) || bytes_eqb (bs "HEAD") m || bytes_eqb (bs "OPTIONS") m.
Proof.
  unfold payload_forbidden, payload_forbid_table. cbn [existsb fst snd].
  now rewrite Bool.orb_false_r, !Bool.andb_true_r, Bool.orb_assoc.
Qed.

Theorem forbidden_methods_send_nothing is_print sniff q :
  payload_forbidden (q_method q) (q_allow_get q) = true -> plan_of is_print sniff q = PNone.
Proof. intro H. unfold plan_of. now rewrite H. Qed.

Corollary head_options_get_send_nothing is_print sniff q :
  q_method q = bs "HEAD" \/ q_method q = bs "OPTIONS" \/
  (q_method q = bs "GET" /\ q_allow_get q = false) ->
  plan_of is_print sniff q = PNone.
Proof.
  intro H. apply forbidden_methods_send_nothing. rewrite payload_forbidden_spec.
  destruct H as [H|[H|[H A]]]; rewrite H, ?A; cbn; now rewrite ?Bool.orb_true_r.
Qed.

(* every other method is allowed to carry what the caller described *)
Lemma other_methods_not_forbidden m allow :
  m <> bs "HEAD" -> m <> bs "OPTIONS" -> (m = bs "GET" -> allow = true) ->
  payload_forbidden m allow = false.
Proof.
  intros H1 H2 H3. rewrite payload_forbidden_spec.
  destruct (bytes_eqb (bs "HEAD") m) eqn:A; [apply bytes_eqb_eq in A; congruence|].
  destruct (bytes_eqb (bs "OPTIONS") m) eqn:B; [apply bytes_eqb_eq in B; congruence|].
  destruct (bytes_eqb (bs "GET") m) eqn:C; [|reflexivity].
  apply bytes_eqb_eq in C. rewrite (H3 (eq_sym C)). reflexivity.
Qed.

(* ---------- url-encoded forms, all combinations ---------- *)

Lemma merged_form_lookup k rf cf :
  NoDup (map fst rf) -> lookup k (merged_form rf cf) = lookup k rf ++ lookup k cf.
Proof.
  intro ND. unfold merged_form. destruct cf as [|e cf].
  - cbn. now rewrite app_nil_r.
  - now apply merge_form_lookup.
Qed.

Lemma merged_form_nodup rf cf : NoDup (map fst rf) -> NoDup (map fst (merged_form rf cf)).
Proof. intro ND. unfold merged_form. destruct cf; [exact ND|now apply merge_form_nodup]. Qed.

(* whatever form data the caller supplied at either level, in either style, the body parses
   without error to: the ordered pairs in order, then the plain data (keys sorted) *)
Theorem form_body_pairs rf cf ord b :
  form_plan_of rf cf ord = FBody b ->
  parse_query b = (pair_up ord ++ flatten (sort_form (merged_form rf cf)), false).
Proof.
  unfold form_plan_of. destruct ord as [|o ord].
  - destruct (merged_form rf cf) eqn:E; [discriminate|]. intro H. inversion H; subst.
    unfold encode_form. cbn [pair_up app]. apply parse_encode_pairs.
  - destruct (Nat.even (length (o :: ord))); [|discriminate]. intro H. inversion H; subst.
    apply parse_encode_pairs.
Qed.

(* ... so as a multimap the server sees, for every key, the ordered values, the request-level
   values and the client-level values - nothing supplied is lost, nothing is invented *)
Theorem form_body_roundtrip rf cf ord b :
  NoDup (map fst rf) ->
  form_plan_of rf cf ord = FBody b ->
  snd (parse_query b) = false /\
  forall k, values_of k (parse_form b) =
            values_of k (pair_up ord) ++ lookup k rf ++ lookup k cf.
Proof.
  intros ND H. unfold parse_form. rewrite (form_body_pairs _ _ _ _ H). split; [reflexivity|].
  intro k. cbn [fst]. rewrite values_of_app, values_of_flatten.
  rewrite sort_form_lookup by now apply merged_form_nodup.
  now rewrite merged_form_lookup.
Qed.

Theorem form_refused_iff rf cf ord :
  form_plan_of rf cf ord = FBadOrdered <-> Nat.odd (length ord) = true.
Proof.
  unfold form_plan_of. rewrite <- Nat.negb_even. destruct ord as [|o ord].
  - cbn. destruct (merged_form rf cf); split; discriminate.
  - destruct (Nat.even (length (o :: ord))); cbn; split; intro; congruence.
Qed.

(* ---------- Content-Type matches the body ---------- *)

Lemma effective_boundary_valid custom random :
  valid_boundary random = true -> valid_boundary (effective_boundary custom random) = true.
Proof.
  intro H. unfold effective_boundary. destruct custom; [exact H|].
  destruct (valid_boundary (b :: custom)) eqn:E; [exact E|exact H].
Qed.

Lemma valid_boundary_chars b : valid_boundary b = true -> boundary_chars b = true.
Proof. unfold valid_boundary. intro H. now apply andb_prop in H as (_ & H). Qed.

(* a prepared body comes with the Content-Type that describes it: the form content type for a
   body that the form parser accepts, or multipart/form-data naming exactly the boundary the
   body is framed with *)
Theorem content_type_matches_body is_print sniff q ct body :
  valid_boundary (q_random_boundary q) = true ->
  plan_of is_print sniff q = PBody ct body ->
  (q_multipart q = false /\ ct = form_ct /\ snd (parse_query body) = false) \/
  (q_multipart q = true /\
   let b := effective_boundary (q_custom_boundary q) (q_random_boundary q) in
   parse_boundary_param ct = Some b /\
   forallb (fun kv => field_name_ok (fst kv)) (multipart_fields q) = true /\
   body = multipart_body is_print sniff b (multipart_fields q) (q_files q)).
Proof.
  intros Hb. unfold plan_of.
  destruct (payload_forbidden _ _); [discriminate|].
  destruct (q_multipart q).
  - destruct (Nat.odd _); [discriminate|].
    destruct (forallb (fun kv => field_name_ok (fst kv)) (multipart_fields q)) eqn:FN; [|discriminate].
    cbn [negb]. destruct (q_file_fail q); [discriminate|].
    intro H. inversion H; subst. right. split; [reflexivity|]. cbn zeta. split; [|split; reflexivity].
    apply content_type_names_boundary, effective_boundary_valid, Hb.
  - destruct (form_plan_of _ _ _) eqn:E; try discriminate.
    + destruct (q_marshal q); [destruct (choose_marshaller _ _); discriminate|].
      destruct (q_raw q); [discriminate|]. destruct (q_stream q); discriminate.
    + intro H. inversion H; subst. left. repeat split.
      now rewrite (form_body_pairs _ _ _ _ E).
Qed.

(* the multipart body of a request is read back as the fields and files supplied.  Nothing is
   asked of the field NAMES: a request whose field names the part header cannot carry is refused
   (PError), so every prepared body has names that arrive exactly *)
Definition value_ok (b : bytes) (kv : bytes * bytes) : bool := negb (occurs (delimiter b) (snd kv)).

Theorem multipart_request_roundtrip is_print sniff q ct body :
  valid_boundary (q_random_boundary q) = true ->
  plan_of is_print sniff q = PBody ct body -> q_multipart q = true ->
  let b := effective_boundary (q_custom_boundary q) (q_random_boundary q) in
  forallb (value_ok b) (multipart_fields q) = true ->
  forallb (file_ok is_print sniff b) (q_files q) = true ->
  parse_boundary_param ct = Some b /\
  parse_form_parts b body =
  Some (map field_view (multipart_fields q) ++ map (file_view sniff) (q_files q)).
Proof.
  intros Hb Hp Hm b Hf Hg.
  destruct (content_type_matches_body is_print sniff q ct body Hb Hp) as [(A & _)|(_ & B & N & C)]; [congruence|].
  split; [exact B|]. cbn zeta in C. rewrite C. apply multipart_roundtrip; try assumption.
  - apply valid_boundary_chars, effective_boundary_valid, Hb.
  - fold b. clear -N Hf. induction (multipart_fields q) as [|kv l IH]; [reflexivity|].
    cbn [forallb] in *. apply andb_prop in N as (N1 & N2). apply andb_prop in Hf as (F1 & F2).
    unfold field_ok at 1. unfold value_ok in F1. rewrite N1, F1. cbn [andb]. now apply IH.
Qed.

(* a request with a field name the part header cannot carry is refused, whatever else it holds *)
Theorem bad_field_name_refused is_print sniff q :
  payload_forbidden (q_method q) (q_allow_get q) = false -> q_multipart q = true ->
  forallb (fun kv => field_name_ok (fst kv)) (multipart_fields q) = false ->
  plan_of is_print sniff q = PError.
Proof.
  intros F M N. unfold plan_of. rewrite F, M, N. destruct (Nat.odd _); reflexivity.
Qed.

(* SetFiles: the files are attached in Go's map iteration order - whatever the order, the server
   receives the same multiset of parts *)
Theorem files_any_order is_print sniff b fields files files' :
  boundary_chars b = true ->
  forallb (field_ok b) fields = true ->
  forallb (file_ok is_print sniff b) files = true ->
  Permutation files files' ->
  exists vs vs',
    parse_form_parts b (multipart_body is_print sniff b fields files) = Some vs /\
    parse_form_parts b (multipart_body is_print sniff b fields files') = Some vs' /\
    Permutation vs vs'.
Proof.
  intros Hb Hf Hg P.
  assert (forallb (file_ok is_print sniff b) files' = true) as Hg'.
  { apply forallb_forall. intros x Hx. rewrite forallb_forall in Hg. apply Hg.
    eapply Permutation_in; [apply Permutation_sym, P|exact Hx]. }
  exists (map field_view fields ++ map (file_view sniff) files),
         (map field_view fields ++ map (file_view sniff) files').
  split; [now apply multipart_roundtrip|]. split; [now apply multipart_roundtrip|].
  apply Permutation_app_head, Permutation_map, P.
Qed.

(* ---------- marshalled values ---------- *)

Lemma json_ct_not_xml : is_xml_type json_ct = false.
Proof. vm_compute. reflexivity. Qed.

(* XML iff the effective Content-Type says xml; a Content-Type is only set (to JSON's) when the
   caller gave none, and then the body is JSON *)
Theorem marshaller_matches_content_type rct cct m ct :
  choose_marshaller rct cct = (m, ct) ->
  let preset := match rct with [] => cct | _ => rct end in
  let eff := match ct with Some c => c | None => preset end in
  (m = MXml <-> is_xml_type eff = true) /\
  (ct = None <-> preset <> []) /\
  (forall c, ct = Some c -> c = json_ct /\ m = MJson).
Proof.
  unfold choose_marshaller. cbn zeta.
  destruct (match rct with [] => cct | _ => rct end) as [|x p] eqn:E; intro H; inversion H; subst.
  - rewrite json_ct_not_xml. split; [split; discriminate|]. split.
    + split; [discriminate|]. intro N. now contradiction N.
    + intros c Hc. inversion Hc. now split.
  - split; [|split].
    + destruct (is_xml_type (x :: p)); split; congruence.
    + split; [discriminate|reflexivity].
    + discriminate.
Qed.

(* ---------- the code before the repairs violated the statement ---------- *)

Theorem pinned_drops_ordered_form :
  exists cf ord b,
    form_plan_of_pinned [] cf ord = FBody b /\
    values_of (bs "z") (pair_up ord) = [bs "1"] /\
    values_of (bs "z") (parse_form b) = [] /\
    (* the repaired code carries it *)
    exists b', form_plan_of [] cf ord = FBody b' /\ values_of (bs "z") (parse_form b') = [bs "1"].
Proof.
  exists [(bs "b", [bs "x"])], [bs "z"; bs "1"], (bs "b=x").
  repeat split; try (vm_compute; reflexivity).
  exists (bs "z=1&b=x"). split; vm_compute; reflexivity.
Qed.

Theorem pinned_drops_client_form_in_multipart :
  exists q, q_multipart q = true /\ lookup (bs "b") (q_cform q) = [bs "x"] /\
    values_of (bs "b") (multipart_fields_pinned q) = [] /\
    values_of (bs "b") (multipart_fields q) = [bs "x"].
Proof.
  exists {| q_method := bs "POST"; q_allow_get := false; q_multipart := true; q_rform := [];
            q_cform := [(bs "b", [bs "x"])]; q_ordered := []; q_key_order := [bs "b"]; q_files := [];
            q_file_fail := false; q_custom_boundary := []; q_random_boundary := bs "r";
            q_marshal := false; q_raw := None; q_stream := None; q_rct := []; q_cct := [] |}.
  repeat split; vm_compute; reflexivity.
Qed.
