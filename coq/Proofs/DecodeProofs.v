(* Proofs/DecodeProofs.v - lemmas about Model/Decode.v (C14) *)
From ReqV Require Import Lib.Bytes Lib.BytesFacts Gen.CompressLabels Model.Decode.
From Coq Require Import Lia.

(* ---------- the request side ---------- *)

(* the property's notion: the transport, not the caller, asked for gzip *)
Definition transport_asked (c : reqcfg) : bool :=
  negb (q_disable c) && is_empty (q_ae c) && is_empty (q_range c) && negb (q_head c).

Lemma asked_gzip_spec st c : asked_gzip st c = transport_asked c.
Proof.
  unfold asked_gzip, transport_asked.
  destruct st, (q_disable c), (q_head c), (is_empty (q_ae c)), (is_empty (q_range c)); reflexivity.
Qed.

Lemma asked_gzip_iff st c :
  asked_gzip st c = true <->
  q_disable c = false /\ q_ae c = [] /\ q_range c = [] /\ q_head c = false.
Proof.
  rewrite asked_gzip_spec. unfold transport_asked, is_empty.
  destruct (q_disable c), (q_head c), (q_ae c), (q_range c); simpl;
    split; try discriminate; try tauto; intros (A & B & C & D); try discriminate.
Qed.

(* ---------- the set of supported codings is the code's switch ---------- *)

Definition token (e : enc) : bytes :=
  match e with Gzip => bs "gzip" | Deflate => bs "deflate" | Br => bs "br" | Zstd => bs "zstd" end.

Lemma supported_exact :
  supported_encodings = [token Gzip; token Deflate; token Br; token Zstd].
Proof. reflexivity. Qed.

Lemma new_compress_reader_token e : new_compress_reader (token e) = Some e.
Proof. destruct e; vm_compute; reflexivity. Qed.

Lemma new_compress_reader_iff ce e : new_compress_reader ce = Some e <-> ce = token e.
Proof.
  split; [|intros ->; apply new_compress_reader_token].
  unfold new_compress_reader, compress_reader_labels. cbn [lookup_label].
  destruct (bytes_eqb (bs "gzip") ce) eqn:E1.
  { apply bytes_eqb_eq in E1. subst. vm_compute. intros [= <-]. reflexivity. }
  destruct (bytes_eqb (bs "deflate") ce) eqn:E2.
  { apply bytes_eqb_eq in E2. subst. vm_compute. intros [= <-]. reflexivity. }
  destruct (bytes_eqb (bs "br") ce) eqn:E3.
  { apply bytes_eqb_eq in E3. subst. vm_compute. intros [= <-]. reflexivity. }
  destruct (bytes_eqb (bs "zstd") ce) eqn:E4.
  { apply bytes_eqb_eq in E4. subst. vm_compute. intros [= <-]. reflexivity. }
  discriminate.
Qed.

Lemma new_compress_reader_supported ce :
  (exists e, new_compress_reader ce = Some e) <-> In ce supported_encodings.
Proof.
  rewrite supported_exact. split.
  - intros [e H]. apply new_compress_reader_iff in H. subst. destruct e; simpl; tauto.
  - simpl. intros [H|[H|[H|[H|[]]]]]; subst;
      [exists Gzip|exists Deflate|exists Br|exists Zstd]; vm_compute; reflexivity.
Qed.

Lemma new_compress_reader_empty : new_compress_reader [] = None.
Proof. reflexivity. Qed.

(* the asked-gzip path accepts the token in any letter case; the auto path is exact *)
Lemma equal_fold_iff a b : equal_fold a b = true <-> to_lower a = to_lower b.
Proof. unfold equal_fold. apply bytes_eqb_eq. Qed.

(* ---------- what the property text says should be decoded ---------- *)

Definition wants_decode (c : reqcfg) (auto : bool) (ce : bytes) : option enc :=
  if q_head c then None
  else if transport_asked c && equal_fold ce tok_gzip then Some Gzip
  else if auto then new_compress_reader ce
  else None.

Definition delivered (r : resp) (d : option enc) : resp :=
  match d with
  | Some e => rewrite r (Lazy e (wire_of (r_body r)))
  | None => r
  end.

Lemma apply_auto_action r ce :
  apply_action (auto_action ce) r = delivered r (new_compress_reader ce).
Proof. unfold auto_action. destruct (new_compress_reader ce); reflexivity. Qed.

Lemma transport_asked_head c : q_head c = true -> transport_asked c = false.
Proof. unfold transport_asked. intros ->. now rewrite !andb_false_r. Qed.

(* the three stacks implement exactly that, whenever the response has a body on the wire *)
Lemma respond_spec st c auto r :
  r_cl r <> 0%Z ->
  respond st c auto false r = delivered r (wants_decode c auto (content_encoding (r_ce r))).
Proof.
  intros Hcl. unfold respond, decide, decide_on, wants_decode. rewrite asked_gzip_spec.
  assert (Hz : (r_cl r =? 0)%Z = false) by (apply Z.eqb_neq; exact Hcl).
  destruct st.
  - unfold decide_h1. rewrite Hz.
    destruct (q_head c) eqn:Hh; simpl; [reflexivity|].
    destruct (transport_asked c && equal_fold (content_encoding (r_ce r)) tok_gzip); [reflexivity|].
    destruct auto; [apply apply_auto_action|reflexivity].
  - unfold decide_h2.
    destruct (q_head c) eqn:Hh; simpl; [reflexivity|].
    destruct (transport_asked c && equal_fold (content_encoding (r_ce r)) tok_gzip); [reflexivity|].
    destruct auto; [apply apply_auto_action|reflexivity].
  - unfold decide_h3.
    destruct (q_head c) eqn:Hh.
    + rewrite (transport_asked_head c Hh). simpl. now rewrite andb_false_r.
    + destruct (transport_asked c && equal_fold (content_encoding (r_ce r)) tok_gzip); [reflexivity|].
      destruct auto; simpl; [apply apply_auto_action|reflexivity].
Qed.

(* and a response without a body on the wire (HEAD, Content-Length: 0, END_STREAM on HEADERS) is
   never touched by HTTP/1 and HTTP/2 *)
Lemma respond_bodiless_h1 c auto ended r :
  q_head c = true \/ r_cl r = 0%Z -> respond H1 c auto ended r = r.
Proof.
  intros H. unfold respond, decide, decide_on, decide_h1.
  destruct H as [-> | ->]; simpl; [reflexivity|]. now rewrite andb_false_r.
Qed.

Lemma respond_bodiless_h2 c auto ended r :
  q_head c = true \/ ended = true -> respond H2 c auto ended r = r.
Proof.
  intros H. unfold respond, decide, decide_on, decide_h2.
  destruct H as [-> | ->]; simpl; [reflexivity|]. now destruct (q_head c).
Qed.

Lemma respond_head st c auto ended r : q_head c = true -> respond st c auto ended r = r.
Proof.
  intros Hh. destruct st.
  - apply respond_bodiless_h1; now left.
  - apply respond_bodiless_h2; now left.
  - unfold respond, decide, decide_on, decide_h3. rewrite asked_gzip_spec, (transport_asked_head c Hh), Hh.
    simpl. now rewrite andb_false_r.
Qed.

(* when nothing is to be decoded the response is returned as received - with or without a body *)
Lemma respond_none st c auto ended r :
  wants_decode c auto (content_encoding (r_ce r)) = None -> respond st c auto ended r = r.
Proof.
  intros H. unfold wants_decode in H.
  destruct (q_head c) eqn:Hh; [now apply respond_head|].
  destruct (transport_asked c && equal_fold (content_encoding (r_ce r)) tok_gzip) eqn:Hg; [discriminate|].
  unfold respond, decide, decide_on. rewrite asked_gzip_spec.
  assert (Ha : apply_action (if auto then auto_action (content_encoding (r_ce r)) else Untouched) r = r).
  { destruct auto; [|reflexivity]. rewrite apply_auto_action, H. reflexivity. }
  destruct st.
  - unfold decide_h1. rewrite Hh, Hg. simpl.
    destruct (r_cl r =? 0)%Z; simpl; [reflexivity|]. destruct auto; exact Ha.
  - unfold decide_h2. rewrite Hh, Hg. destruct ended; [reflexivity|]. destruct auto; exact Ha.
  - unfold decide_h3. rewrite Hh, Hg. simpl. rewrite andb_true_r. destruct auto; exact Ha.
Qed.

(* the cases the property text lists *)
Lemma otherwise_untouched st c auto ended r :
  q_head c = true                                                  (* HEAD *)
  \/ (auto = false /\ q_ae c <> [])                                (* caller set Accept-Encoding *)
  \/ (auto = false /\ q_range c <> [])                             (* Range request *)
  \/ (auto = false /\ q_disable c = true)                          (* compression disabled *)
  \/ r_ce r = []                                                   (* no Content-Encoding *)
  \/ (new_compress_reader (content_encoding (r_ce r)) = None /\
      equal_fold (content_encoding (r_ce r)) tok_gzip = false)           (* unsupported coding *)
  \/ (auto = false /\ equal_fold (content_encoding (r_ce r)) tok_gzip = false) (* not the coding asked for *)
  ->
  respond st c auto ended r = r.
Proof.
  intros H. apply respond_none. unfold wants_decode.
  destruct (q_head c) eqn:Hh; [reflexivity|].
  destruct H as [H|[H|[H|[H|[H|[H|H]]]]]].
  - discriminate.
  - destruct H as [-> Hae]. unfold transport_asked.
    destruct (q_ae c); [contradiction|]. simpl. now rewrite !andb_false_r.
  - destruct H as [-> Hr]. unfold transport_asked.
    destruct (q_range c); [contradiction|]. simpl. now rewrite !andb_false_r.
  - destruct H as [-> Hd]. unfold transport_asked. rewrite Hd. reflexivity.
  - rewrite H. simpl. unfold equal_fold. simpl. rewrite andb_false_r. now destruct auto.
  - destruct H as [-> ->]. rewrite andb_false_r. now destruct auto.
  - destruct H as [-> ->]. now rewrite andb_false_r.
Qed.

Lemma stacks_agree c auto r :
  r_cl r <> 0%Z ->
  respond H1 c auto false r = respond H2 c auto false r /\
  respond H2 c auto false r = respond H3 c auto false r.
Proof. intros H. rewrite !respond_spec by exact H. split; reflexivity. Qed.

Lemma sent_accept_encoding_spec st c :
  sent_accept_encoding st c = if transport_asked c then bs "gzip" else q_ae c.
Proof. unfold sent_accept_encoding. now rewrite asked_gzip_spec. Qed.

Lemma bodiless_untouched c auto ended r :
  (q_head c = true \/ r_cl r = 0%Z -> respond H1 c auto ended r = r) /\
  (q_head c = true \/ ended = true -> respond H2 c auto ended r = r).
Proof. split; [apply respond_bodiless_h1 | apply respond_bodiless_h2]. Qed.

(* the hypothesis of the codec theorems is satisfiable (identity coding) *)
Lemma roundtrip_satisfiable :
  exists (compress : enc -> bytes -> bytes) (dec : codec),
    forall e p, dec e (compress e p) = {| s_data := p; s_end := EOF |}.
Proof. exists (fun _ p => p), (fun _ w => {| s_data := w; s_end := EOF |}). reflexivity. Qed.

(* ---------- several Content-Encoding lines are one list ---------- *)

Lemma content_encoding_single v : content_encoding [v] = v.
Proof. reflexivity. Qed.

Lemma content_encoding_none : content_encoding [] = [].
Proof. reflexivity. Qed.

Definition comma : byte := x2c.

Lemma join_has_comma a b rest : In comma (content_encoding (a :: b :: rest)).
Proof.
  unfold content_encoding. cbn [join_comma]. apply in_or_app. right.
  change (bs ", ") with [x2c; x20]. left. reflexivity.
Qed.

Lemma token_no_comma e : ~ In comma (token e).
Proof. destruct e; vm_compute; intuition discriminate. Qed.

Lemma comma_not_gzip ce : In comma ce -> equal_fold ce tok_gzip = false.
Proof.
  intros H. destruct (equal_fold ce tok_gzip) eqn:E; [|reflexivity].
  apply equal_fold_iff in E.
  assert (Hin : In (lower_byte comma) (to_lower ce)) by (unfold to_lower; now apply in_map).
  rewrite E in Hin. vm_compute in Hin. intuition discriminate.
Qed.

Lemma comma_not_supported ce : In comma ce -> new_compress_reader ce = None.
Proof.
  intros H. destruct (new_compress_reader ce) as [e|] eqn:E; [|reflexivity].
  apply new_compress_reader_iff in E. subst. now apply token_no_comma in H.
Qed.

Lemma wants_decode_list c auto ce : In comma ce -> wants_decode c auto ce = None.
Proof.
  intros H. unfold wants_decode. rewrite (comma_not_gzip _ H), (comma_not_supported _ H).
  rewrite andb_false_r. destruct (q_head c), auto; reflexivity.
Qed.

(* two or more Content-Encoding lines: the response is returned as received, whatever the lines say *)
Lemma multi_line_untouched st c auto ended r :
  2 <= length (r_ce r) -> respond st c auto ended r = r.
Proof.
  intros H. apply respond_none. apply wants_decode_list.
  destruct (r_ce r) as [|a [|b rest]]; simpl in H; try lia. apply join_has_comma.
Qed.

(* the code before the fix decided on the first line and deleted all: a body encoded twice
   (Content-Encoding: gzip / Content-Encoding: gzip) was delivered once-decoded - still gzip data -
   under headers that no longer name any coding *)
Lemma first_line_refuted (compress : enc -> bytes -> bytes) (p : bytes) :
  let c := {| q_disable := false; q_ae := []; q_range := []; q_head := false |} in
  let r := {| r_ce := [bs "gzip"; bs "gzip"]; r_clh := []; r_other := []; r_cl := (-1)%Z; r_unc := false;
              r_body := Raw (compress Gzip (compress Gzip p)); r_short := false |} in
  forall st,
  (r_ce (respond_first_line st c false false r) = [] /\
   r_body (respond_first_line st c false false r) = Lazy Gzip (compress Gzip (compress Gzip p))) /\
  respond st c false false r = r.
Proof.
  cbv zeta. intros st. split.
  - destruct st; vm_compute; split; reflexivity.
  - apply multi_line_untouched. simpl. lia.
Qed.

(* ---------- readers ---------- *)

Definition stream_of (dec : codec) (r : rd) : stream :=
  match r with
  | RPlain rem => {| s_data := rem; s_end := EOF |}
  | RLazy e w => dec e w
  | RLazyCut e w => cut_stream e (dec e w)
  | RRun rem fin => {| s_data := rem; s_end := fin |}
  | RNil => {| s_data := []; s_end := ErrNilBody |}
  end.

Lemma drain_run dec sizes : forall rem fin,
  Forall (fun n => 0 < n) sizes -> length rem < length sizes ->
  drain dec sizes (RRun rem fin) = (rem, Some fin, RRun [] fin).
Proof.
  induction sizes as [|n rest IH]; intros rem fin Hpos Hlen; simpl in Hlen; [lia|].
  inversion Hpos as [|? ? Hn Hrest]; subst.
  cbn [drain rd_read]. unfold run_read. destruct rem as [|x rem']; [reflexivity|].
  rewrite IH; [|exact Hrest|].
  - now rewrite firstn_skipn.
  - rewrite skipn_length. cbn [length] in *. lia.
Qed.

Lemma rd_read_as_run dec n r :
  r <> RNil ->
  rd_read dec n r = rd_read dec n (RRun (s_data (stream_of dec r)) (s_end (stream_of dec r))).
Proof. destruct r; simpl; try reflexivity. congruence. Qed.

Lemma read_size_independent dec r sizes :
  Forall (fun n => 0 < n) sizes -> length (s_data (stream_of dec r)) < length sizes ->
  fst (drain dec sizes r) = (s_data (stream_of dec r), Some (s_end (stream_of dec r))).
Proof.
  intros Hpos Hlen. destruct sizes as [|n rest]; [simpl in Hlen; lia|].
  destruct r as [rem|e w|e w|rem fin|].
  - change (drain dec (n :: rest) (RPlain rem)) with (drain dec (n :: rest) (RRun rem EOF)).
    rewrite drain_run by assumption. reflexivity.
  - change (drain dec (n :: rest) (RLazy e w))
      with (drain dec (n :: rest) (RRun (s_data (dec e w)) (s_end (dec e w)))).
    rewrite drain_run by assumption. reflexivity.
  - change (drain dec (n :: rest) (RLazyCut e w))
      with (drain dec (n :: rest) (RRun (s_data (cut_stream e (dec e w))) (s_end (cut_stream e (dec e w))))).
    rewrite drain_run by assumption. reflexivity.
  - rewrite drain_run by assumption. reflexivity.
  - reflexivity.
Qed.

Lemma read_sticky dec n r b e r' :
  rd_read dec n r = (b, Some e, r') ->
  b = [] /\ forall m, rd_read dec m r' = ([], Some e, r').
Proof.
  assert (Hrun : forall rem fin, run_read n rem fin = (b, Some e, r') ->
                 b = [] /\ forall m, rd_read dec m r' = ([], Some e, r')).
  { intros rem fin. unfold run_read. destruct rem; [|discriminate].
    intros [= <- <- <-]. split; reflexivity. }
  destruct r; simpl; eauto.
  intros [= <- <- <-]. split; reflexivity.
Qed.

Lemma drain_sticky dec sizes : forall r b e r',
  drain dec sizes r = (b, Some e, r') -> forall m, rd_read dec m r' = ([], Some e, r').
Proof.
  induction sizes as [|n rest IH]; intros r b e r' H; simpl in H; [discriminate|].
  destruct (rd_read dec n r) as [[b1 [e1|]] r1] eqn:E.
  - injection H as <- <- <-. apply (read_sticky _ _ _ _ _ _ E).
  - destruct (drain dec rest r1) as [[b2 e2] r2] eqn:E2. injection H as Hb He Hr. subst.
    eapply IH. exact E2.
Qed.

(* ---------- the two halves of the property, with the codecs as parameters ---------- *)

Section Codec.
  Variable compress : enc -> bytes -> bytes.
  Variable dec : codec.
  Hypothesis roundtrip : forall e p, dec e (compress e p) = {| s_data := p; s_end := EOF |}.

  Lemma decoded_is_original st c auto r e p sizes :
    r_cl r <> 0%Z ->
    wants_decode c auto (content_encoding (r_ce r)) = Some e ->
    r_body r = Raw (compress e p) -> r_short r = false ->
    Forall (fun n => 0 < n) sizes -> length p < length sizes ->
    let r' := respond st c auto false r in
    fst (drain dec sizes (open_resp r')) = (p, Some EOF) /\
    r_ce r' = [] /\ r_clh r' = [] /\ r_cl r' = (-1)%Z /\ r_unc r' = true /\
    r_other r' = r_other r.
  Proof.
    intros Hcl Hw Hb Hs Hpos Hlen. cbv zeta. rewrite respond_spec by exact Hcl. rewrite Hw.
    unfold open_resp.
    cbn [delivered rewrite r_body r_ce r_clh r_cl r_unc r_other r_short open_body]. rewrite Hb, Hs.
    cbn [wire_of].
    repeat split.
    rewrite read_size_independent; cbn [stream_of]; rewrite ?roundtrip; cbn [s_data s_end]; auto.
  Qed.

  (* corrupt data: whatever the decoder reports at the end is what the caller's reads end with *)
  Lemma decode_error_surfaces st c auto r e sizes :
    r_cl r <> 0%Z ->
    wants_decode c auto (content_encoding (r_ce r)) = Some e ->
    r_short r = false ->
    Forall (fun n => 0 < n) sizes ->
    length (s_data (dec e (wire_of (r_body r)))) < length sizes ->
    fst (drain dec sizes (open_resp (respond st c auto false r))) =
      (s_data (dec e (wire_of (r_body r))), Some (s_end (dec e (wire_of (r_body r))))).
  Proof.
    intros Hcl Hw Hs Hpos Hlen. rewrite respond_spec by exact Hcl. rewrite Hw.
    unfold open_resp. cbn [delivered rewrite r_body r_short open_body]. rewrite Hs.
    rewrite read_size_independent; cbn [stream_of]; auto.
  Qed.
End Codec.

(* ---------- a body that ends short of its declared Content-Length ---------- *)

(* the length check of the framing layer survives every decision *)
Lemma length_check_survives st c auto ended r :
  r_short (respond st c auto ended r) = r_short r.
Proof.
  unfold respond. destruct (decide st c auto ended r); reflexivity.
Qed.

(* every reader waits for the end of the message below it (withMessageEnd / gzip multistream) *)
Lemma every_reader_meets_the_message_end e : probes_past_end e = true.
Proof. reflexivity. Qed.

Lemma cut_stream_end_probing e s :
  probes_past_end e = true -> s_end (cut_stream e s) <> EOF.
Proof.
  intros Hp. unfold cut_stream. destruct (s_end s) eqn:E; cbn [s_end]; try rewrite Hp; try rewrite E; discriminate.
Qed.

Lemma cut_stream_data e s : s_data (cut_stream e s) = s_data s.
Proof. unfold cut_stream. destruct (s_end s); reflexivity. Qed.

(* decoded + short: for every coding every read schedule ends with an error - never a clean io.EOF - after exactly the
   bytes decodable from what arrived; wherever the cut falls (also on a member boundary, also before
   the first byte) and on every stack *)
Lemma short_decoded_is_error (dec : codec) st c auto r e sizes :
  r_cl r <> 0%Z ->
  wants_decode c auto (content_encoding (r_ce r)) = Some e ->
  r_short r = true ->
  Forall (fun n => 0 < n) sizes ->
  length (s_data (dec e (wire_of (r_body r)))) < length sizes ->
  exists x, x <> EOF /\
    fst (drain dec sizes (open_resp (respond st c auto false r))) =
      (s_data (dec e (wire_of (r_body r))), Some x).
Proof.
  intros Hcl Hw Hs Hpos Hlen. pose proof (every_reader_meets_the_message_end e) as Hp.
  rewrite respond_spec by exact Hcl. rewrite Hw.
  unfold open_resp. cbn [delivered rewrite r_body r_short]. rewrite Hs.
  exists (s_end (cut_stream e (dec e (wire_of (r_body r))))). split.
  - now apply cut_stream_end_probing.
  - rewrite read_size_independent; cbn [stream_of]; rewrite ?cut_stream_data; auto.
Qed.

(* untouched + short: the bytes that arrived, then the framing error *)
Lemma short_untouched_is_error (dec : codec) st c auto ended r w sizes :
  wants_decode c auto (content_encoding (r_ce r)) = None ->
  r_body r = Raw w -> r_short r = true ->
  Forall (fun n => 0 < n) sizes -> length w < length sizes ->
  fst (drain dec sizes (open_resp (respond st c auto ended r))) = (w, Some ErrShort).
Proof.
  intros Hw Hb Hs Hpos Hlen. rewrite respond_none by exact Hw.
  unfold open_resp. rewrite Hs, Hb. rewrite read_size_independent; cbn [stream_of s_data s_end]; auto.
Qed.

(* a rewrite that switches the length check off for decoded bodies (NOT the code) hands out the
   first gzip member of a body cut on the member boundary with a clean io.EOF *)
Definition id_codec0 : codec := fun _ w => {| s_data := w; s_end := EOF |}.
Definition r_cut_example : resp :=
  {| r_ce := [bs "gzip"]; r_clh := [bs "8"]; r_other := []; r_cl := 8%Z; r_unc := false;
     r_body := Raw (bs "aaaa"); r_short := true |}.
Lemma unchecked_rewrite_refuted :
  let c := {| q_disable := false; q_ae := []; q_range := []; q_head := false |} in
  fst (drain id_codec0 [9; 9] (open_resp (rewrite_unchecked r_cut_example (Lazy Gzip (bs "aaaa"))))) =
    (bs "aaaa", Some EOF) /\
  fst (drain id_codec0 [9; 9] (open_resp (respond H2 c false false r_cut_example))) =
    (bs "aaaa", Some ErrShort).
Proof. vm_compute. split; reflexivity. Qed.

(* ---------- the pinned code ---------- *)

Definition r_example : resp :=
  {| r_ce := [bs "identity"]; r_clh := [bs "5"]; r_other := []; r_cl := 5%Z; r_unc := false;
     r_body := Raw (bs "hello"); r_short := false |}.

Lemma pinned_refuted :
  (* HTTP/1 (and HTTP/2, same text): unsupported coding under AutoDecompression *)
  (let r' := apply_action_pinned (decide_h1_pinned false 5%Z false true (bs "identity")) r_example in
   r_body r' = NilBody /\ r_ce r' = [] /\ r_clh r' = [] /\ r' <> r_example) /\
  (* HTTP/3: every response under AutoDecompression *)
  (forall asked ce, asked = false ->
     r_body (apply_action_pinned (decide_h3_pinned asked true ce) r_example) = NilBody) /\
  (* while the repaired code leaves that response alone *)
  (forall st c, q_head c = false -> respond st c true false r_example = r_example).
Proof.
  split; [|split].
  - cbv zeta. vm_compute. repeat split. discriminate.
  - intros asked ce ->. unfold decide_h3_pinned. simpl. destruct (is_empty ce); reflexivity.
  - intros st c Hh. apply otherwise_untouched. right. right. right. right. right. left.
    split; reflexivity.
Qed.
