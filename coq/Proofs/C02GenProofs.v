(* Proofs/C02GenProofs.v - C02: the guards and constants the models rely on are the ones in the
   source (coq/Gen/C02Consts.v is regenerated from /repo by harness/c02 gosync on every run; a
   changed guard or constant breaks a proof here). *)
From ReqV Require Import Lib.Bytes Model.RespAPI Model.H1Client Model.MuxResp.
From ReqV Require Gen.C02Consts.
From Coq Require Import ZArith String List Lia.
Import ListNotations.

Module G := Gen.C02Consts.

(* Client.roundTrip reads the body automatically under exactly the conjunction the model uses,
   with the status threshold of the source, and restores Body from the cache *)
Theorem auto_read_guard_agrees :
  G.fork_auto_read_conjuncts =
    ["resp.Err == nil"; "!c.disableAutoReadResponse"; "!r.isSaveResponse";
     "!r.disableAutoReadResponse"; "resp.StatusCode > 199"]%string /\
  G.fork_restores_body = true.
Proof. split; reflexivity. Qed.

Theorem finish_auto_guard c code body :
  c_result c = false -> c_save c = false ->
  a_state (finish c code body) =
    if (negb (c_disable_auto c) && (G.fork_auto_read_min_status <? code)%Z)%bool then
      let '(_, _, s) := to_bytes_t (c_tf c) {| s_err := false; s_cache := None; s_body := body |} in
      {| s_err := s_err s; s_cache := s_cache s;
         s_body := mem_reader (match s_cache s with Some b => b | None => [] end) |}
    else {| s_err := false; s_cache := None; s_body := body |}.
Proof.
  intros Hr Hs. unfold finish. rewrite Hr, Hs. cbn [negb andb]. rewrite Bool.andb_true_r.
  change G.fork_auto_read_min_status with 199%Z.
  destruct (negb (c_disable_auto c) && (199 <? code)%Z)%bool; reflexivity.
Qed.

(* Response.ToBytes: error first, then the cache, then the read; the transformer runs only after a
   successful read - the order the model's to_bytes_t follows *)
Theorem tobytes_guards_agree :
  G.fork_tobytes_guards = ["r.Err != nil"; "r.body != nil"; "r.Response == nil || r.Response.Body == nil"]%string /\
  G.fork_transformer_guard = "err == nil && r.Request.client.responseBodyTransformer != nil"%string.
Proof. split; reflexivity. Qed.

Theorem download_guards_agree :
  G.fork_download_guard = "r.Response == nil || !r.Request.isSaveResponse"%string /\
  G.fork_download_cache_guard = "r.body != nil"%string.
Proof. split; reflexivity. Qed.

Theorem success_state_agrees code :
  success_state code = ((G.fork_success_lo <? code)%Z && (code <? G.fork_success_hi)%Z)%bool.
Proof. reflexivity. Qed.

Theorem bounds_agree :
  Z.of_nat max_1xx = G.fork_max_1xx_h1 /\ G.fork_max_1xx_h2 = 5%Z /\ G.fork_max_1xx_h3 = 5%Z /\
  Z.of_nat br_size = G.fork_read_buffer.
Proof. repeat split; reflexivity. Qed.

From ReqV Require Import Model.ConnWindow.
Theorem min_refresh_agrees : min_refresh = G.fork_inflow_min_refresh.
Proof. reflexivity. Qed.
