(* Proofs/RetryProofs.v - lemmas about Model/Retry.v (C10). *)
From ReqV Require Import Lib.Bytes Lib.BytesFacts Model.Retry.
From Coq Require Import Lia ZifyBool ZifyNat.

(* ---------- association maps ---------- *)

Lemma hget_hset k k' vs m :
  hget k (hset k' vs m) = if bytes_eqb k k' then vs else hget k m.
Proof.
  induction m as [|[k0 v0] m IH]; cbn [hset hget].
  - destruct (bytes_eqb k k'); reflexivity.
  - destruct (bytes_eqb k' k0) eqn:E0; cbn [hget].
    + apply bytes_eqb_eq in E0. subst k0. destruct (bytes_eqb k k'); reflexivity.
    + destruct (bytes_eqb k k0) eqn:E1.
      * apply bytes_eqb_eq in E1. subst k0.
        destruct (bytes_eqb k k') eqn:E2; [|reflexivity].
        apply bytes_eqb_eq in E2. subst k'. rewrite bytes_eqb_refl in E0. discriminate.
      * apply IH.
Qed.

Definition heq (a b : amap) : Prop := forall k, hget k a = hget k b.

Lemma heq_refl a : heq a a. Proof. intro; reflexivity. Qed.
Lemma heq_sym a b : heq a b -> heq b a. Proof. intros H k; symmetry; apply H. Qed.
Lemma heq_trans a b c : heq a b -> heq b c -> heq a c.
Proof. intros H1 H2 k; rewrite H1; apply H2. Qed.

Lemma hset_heq k vs a b : heq a b -> heq (hset k vs a) (hset k vs b).
Proof. intros H k0. rewrite !hget_hset. destruct (bytes_eqb k0 k); [reflexivity|apply H]. Qed.

Lemma hfirst_heq k a b : heq a b -> hfirst k a = hfirst k b.
Proof. intros H. unfold hfirst. rewrite (H k). reflexivity. Qed.

(* value a key without own value receives from the client headers: the first non-empty
   client entry for it *)
Fixpoint first_nonempty (k : bytes) (ch : amap) : list bytes :=
  match ch with
  | [] => []
  | (k', vs) :: r => if bytes_eqb k k' && negb (length vs =? 0)%nat then vs else first_nonempty k r
  end.

Lemma hget_merge_headers ch : forall rh k,
  hget k (merge_headers ch rh) =
    if (length (hget k rh) =? 0)%nat then first_nonempty k ch else hget k rh.
Proof.
  unfold merge_headers.
  induction ch as [|[k0 vs0] ch IH]; intros rh k; cbn [fold_left first_nonempty].
  - destruct (length (hget k rh) =? 0)%nat eqn:E; [|reflexivity].
    destruct (hget k rh); [reflexivity|discriminate].
  - rewrite IH. unfold merge_header_step. cbn [fst snd].
    destruct (length (hget k0 rh) =? 0)%nat eqn:E0.
    + rewrite hget_hset. destruct (bytes_eqb k k0) eqn:E1; cbn [andb].
      * apply bytes_eqb_eq in E1. subst k0. rewrite E0.
        destruct (length vs0 =? 0)%nat eqn:E2; cbn [negb]; reflexivity.
      * reflexivity.
    + destruct (bytes_eqb k k0) eqn:E1; cbn [andb]; [|reflexivity].
      apply bytes_eqb_eq in E1. subst k0. rewrite E0. reflexivity.
Qed.

Lemma merge_headers_heq ch a b : heq a b -> heq (merge_headers ch a) (merge_headers ch b).
Proof. intros H k. rewrite !hget_merge_headers, (H k). reflexivity. Qed.

Lemma merge_headers_idem ch h : heq (merge_headers ch (merge_headers ch h)) (merge_headers ch h).
Proof.
  intro k. rewrite hget_merge_headers.
  destruct (length (hget k (merge_headers ch h)) =? 0)%nat eqn:E; [|reflexivity].
  rewrite hget_merge_headers in *.
  destruct (length (hget k h) =? 0)%nat eqn:E1; [reflexivity|].
  rewrite E in E1. discriminate.
Qed.

(* ---------- state equivalence: equal up to the representation of the header map ---------- *)

Definition seqv (a b : rstate) : Prop :=
  r_method a = r_method b /\ r_rawquery a = r_rawquery b /\ r_cookies a = r_cookies b /\
  r_form a = r_form b /\ r_query a = r_query b /\ r_body a = r_body b /\
  r_getbody a = r_getbody b /\ r_reader a = r_reader b /\ r_unreplayable a = r_unreplayable b /\
  r_attempt a = r_attempt b /\ r_path a = r_path b /\ r_pparams a = r_pparams b /\
  r_ordered a = r_ordered b /\ r_marshal a = r_marshal b /\ r_close a = r_close b /\
  heq (r_headers a) (r_headers b).

Lemma seqv_refl a : seqv a a.
Proof. unfold seqv. repeat split; apply heq_refl. Qed.
Lemma seqv_sym a b : seqv a b -> seqv b a.
Proof.
  unfold seqv. intros (?&?&?&?&?&?&?&?&?&?&?&?&?&?&?&H). repeat (split; [congruence|]). apply heq_sym, H.
Qed.
Lemma seqv_trans a b c : seqv a b -> seqv b c -> seqv a c.
Proof.
  unfold seqv. intros (?&?&?&?&?&?&?&?&?&?&?&?&?&?&?&Hx) (?&?&?&?&?&?&?&?&?&?&?&?&?&?&?&Hy).
  repeat (split; [congruence|]). eapply heq_trans; eassumption.
Qed.

Lemma seqv_wire c a b : seqv a b -> wire_same (wire_of c a) (wire_of c b).
Proof.
  unfold seqv, wire_same, wire_of, wire_query, wire_path, body_now.
  cbn [w_method w_path w_query w_cookies w_body w_headers w_close].
  intros (Hm & Hq & Hc & Hf & Hqq & Hb & Hg & Hr & Hu & Ha & Hpa & Hpp & Hod & Hms & Hcl & Hh).
  rewrite Hm, Hq, Hc, Hqq, Hg, Hr, Hpa, Hpp, Hcl. repeat split. exact Hh.
Qed.

Lemma wire_same_refl a : wire_same a a.
Proof. unfold wire_same. repeat split. Qed.
Lemma wire_same_sym a b : wire_same a b -> wire_same b a.
Proof. unfold wire_same. intuition congruence. Qed.
Lemma wire_same_trans a b c : wire_same a b -> wire_same b c -> wire_same a c.
Proof.
  unfold wire_same. intros (?&?&?&?&?&?&Hx) (?&?&?&?&?&?&Hy). repeat (split; [congruence|]).
  intro k. rewrite Hx. apply Hy.
Qed.

Ltac simp_r :=
  cbn [r_method r_rawquery r_headers r_cookies r_form r_query r_body r_getbody r_reader r_unreplayable r_attempt
       r_path r_pparams r_ordered r_marshal r_close
       set_headers set_cookies set_form set_body set_reader set_attempt set_marshal].

Ltac solve_seqv :=
  unfold seqv; simp_r;
  repeat (split; [first [assumption|reflexivity|congruence]|]);
  first [assumption | apply hset_heq; assumption | apply merge_headers_heq; assumption | apply heq_refl].

Lemma hget_hset_same k vs m : hget k (hset k vs m) = vs.
Proof. rewrite hget_hset, bytes_eqb_refl. reflexivity. Qed.

Lemma hfirst_hset_same k x m : hfirst k (hset k [x] m) = x.
Proof. unfold hfirst. rewrite hget_hset_same. reflexivity. Qed.

Lemma hset_known_heq k vs m : hget k m = vs -> heq (hset k vs m) m.
Proof.
  intros H k0. rewrite hget_hset. destruct (bytes_eqb k0 k) eqn:E; [|reflexivity].
  apply bytes_eqb_eq in E. subst k0. symmetry. exact H.
Qed.

Lemma json_ct_nonempty : nonempty json_content_type = true.
Proof. reflexivity. Qed.
Lemma json_ct_not_xml : is_xml_type json_content_type = false.
Proof. vm_compute. reflexivity. Qed.

Section Prepare.
Variable detect : bytes -> bytes.
Variable c : client.

Lemma prep_header_seqv a b : seqv a b -> seqv (prep_header c a) (prep_header c b).
Proof.
  intros H. pose proof H as (Hm & Hq & Hc & Hf & Hqq & Hb & Hg & Hr & Hu & Ha & Hpa & Hpp & Hod & Hms & Hcl & Hh).
  unfold prep_header. rewrite Ha. destruct (r_attempt b <=? 0)%Z; [solve_seqv|exact H].
Qed.

Lemma prep_cookie_seqv a b : seqv a b -> seqv (prep_cookie c a) (prep_cookie c b).
Proof.
  intros H. pose proof H as (Hm & Hq & Hc & Hf & Hqq & Hb & Hg & Hr & Hu & Ha & Hpa & Hpp & Hod & Hms & Hcl & Hh).
  unfold prep_cookie. rewrite Ha.
  destruct (nonempty (c_cookies c) && (r_attempt b <=? 0)%Z); [|exact H].
  rewrite Hc. solve_seqv.
Qed.

Lemma marshal_ct_seqv a b : seqv a b -> marshal_ct c a = marshal_ct c b.
Proof.
  intros H. destruct H as (_&_&_&_&_&_&_&_&_&_&_&_&_&_&_&Hh). unfold marshal_ct.
  rewrite (hfirst_heq content_type _ _ Hh). reflexivity.
Qed.

Lemma marshal_stage_seqv a b : seqv a b -> seqv (marshal_stage c a) (marshal_stage c b).
Proof.
  intros H. pose proof H as (Hm & Hq & Hc & Hf & Hqq & Hb & Hg & Hr & Hu & Ha & Hpa & Hpp & Hod & Hms & Hcl & Hh).
  unfold marshal_stage. rewrite Hms, (marshal_ct_seqv a b H).
  destruct (r_marshal b) as [m|] eqn:Emb; [|exact H].
  destruct (nonempty (marshal_ct c b)); [destruct (is_xml_type (marshal_ct c b))|]; solve_seqv.
Qed.

Lemma detect_stage_seqv a b : seqv a b -> seqv (detect_stage detect c a) (detect_stage detect c b).
Proof.
  intros H. pose proof H as (Hm & Hq & Hc & Hf & Hqq & Hb & Hg & Hr & Hu & Ha & Hpa & Hpp & Hod & Hms & Hcl & Hh).
  unfold detect_stage. rewrite Hb. destruct (r_body b) eqn:Ebb; [|exact H].
  destruct (nonempty (hfirst content_type (c_headers c))); [exact H|].
  rewrite (hfirst_heq content_type _ _ Hh).
  destruct (nonempty (hfirst content_type (r_headers b))); [exact H|solve_seqv].
Qed.

Lemma merge_form_seqv a b : seqv a b ->
  seqv (if nonempty (c_form c) && (r_attempt a <=? 0)%Z then set_form a (add_values (c_form c) (r_form a)) else a)
       (if nonempty (c_form c) && (r_attempt b <=? 0)%Z then set_form b (add_values (c_form c) (r_form b)) else b).
Proof.
  intros H. pose proof H as (Hm & Hq & Hc & Hf & Hqq & Hb & Hg & Hr & Hu & Ha & Hpa & Hpp & Hod & Hms & Hcl & Hh).
  rewrite Ha, Hf. destruct (nonempty (c_form c) && (r_attempt b <=? 0)%Z); [solve_seqv|exact H].
Qed.

Lemma prep_body_seqv a b : seqv a b -> seqv (prep_body detect c a) (prep_body detect c b).
Proof.
  intros H. pose proof H as (Hm & _).
  unfold prep_body, prep_body_gen. rewrite Hm. cbn [orb].
  destruct (payload_forbid c (r_method b)).
  { pose proof H as (_ & Hq & Hc & Hf & Hqq & Hb & Hg & Hr & Hu & Ha & Hpa & Hpp & Hod & Hms & Hcl & Hh). solve_seqv. }
  pose proof (merge_form_seqv a b H) as H1. cbv zeta.
  set (a1 := if nonempty (c_form c) && (r_attempt a <=? 0)%Z then _ else a) in *.
  set (b1 := if nonempty (c_form c) && (r_attempt b <=? 0)%Z then _ else b) in *.
  clearbody a1 b1.
  pose proof H1 as (Hm1 & Hq & Hc & Hf & Hqq & Hb & Hg & Hr & Hu & Ha & Hpa & Hpp & Hod & Hms & Hcl & Hh).
  rewrite Hod, Hf.
  destruct (nonempty (r_ordered b1)); [solve_seqv|].
  destruct (nonempty (r_form b1)); [solve_seqv|].
  apply detect_stage_seqv, marshal_stage_seqv, H1.
Qed.

Lemma prepare_seqv a b : seqv a b -> seqv (prepare detect c a) (prepare detect c b).
Proof. intros H. unfold prepare. apply prep_body_seqv, prep_cookie_seqv, prep_header_seqv, H. Qed.

(* the fields no stage of the middleware pass touches *)
Definition frame (s : rstate) :=
  (r_method s, r_rawquery s, r_query s, r_reader s, r_unreplayable s, r_attempt s, r_path s, r_pparams s, r_close s).

Lemma frame_marshal_stage s : frame (marshal_stage c s) = frame s.
Proof.
  unfold marshal_stage. destruct (r_marshal s); [|reflexivity].
  destruct (nonempty (marshal_ct c s)); [destruct (is_xml_type (marshal_ct c s))|]; reflexivity.
Qed.

Lemma frame_detect_stage s : frame (detect_stage detect c s) = frame s.
Proof.
  unfold detect_stage. destruct (r_body s); [|reflexivity].
  destruct (nonempty (hfirst content_type (c_headers c))); [reflexivity|].
  destruct (nonempty (hfirst content_type (r_headers s))); reflexivity.
Qed.

Lemma frame_prep_body s : frame (prep_body detect c s) = frame s.
Proof.
  unfold prep_body, prep_body_gen. destruct (payload_forbid c (r_method s)); [reflexivity|].
  cbv zeta.
  set (s1 := if nonempty (c_form c) && _ then _ else s).
  assert (H1 : frame s1 = frame s) by (unfold s1; destruct (nonempty (c_form c) && _); reflexivity).
  destruct (nonempty (r_ordered s1)); [exact H1|].
  destruct (nonempty (r_form s1)); [exact H1|].
  rewrite frame_detect_stage, frame_marshal_stage. exact H1.
Qed.

Lemma frame_prepare s : frame (prepare detect c s) = frame s.
Proof.
  unfold prepare. rewrite frame_prep_body. unfold prep_cookie, prep_header.
  destruct (r_attempt s <=? 0)%Z; destruct (nonempty (c_cookies c) && _); reflexivity.
Qed.

Lemma prepare_attempt s : r_attempt (prepare detect c s) = r_attempt s.
Proof. pose proof (frame_prepare s) as H. unfold frame in H. congruence. Qed.

Lemma prepare_method s : r_method (prepare detect c s) = r_method s.
Proof. pose proof (frame_prepare s) as H. unfold frame in H. congruence. Qed.

Lemma prepare_unreplayable s : r_unreplayable (prepare detect c s) = r_unreplayable s.
Proof. pose proof (frame_prepare s) as H. unfold frame in H. congruence. Qed.

Lemma prepare_url_fields s :
  r_query (prepare detect c s) = r_query s /\ r_rawquery (prepare detect c s) = r_rawquery s /\
  r_path (prepare detect c s) = r_path s /\ r_pparams (prepare detect c s) = r_pparams s.
Proof. pose proof (frame_prepare s) as H. unfold frame in H. repeat split; congruence. Qed.

Lemma prepare_close s : r_close (prepare detect c s) = r_close s.
Proof. pose proof (frame_prepare s) as H. unfold frame in H. congruence. Qed.

Lemma marshal_stage_not_reader s : r_getbody s <> GBReader -> r_getbody (marshal_stage c s) <> GBReader.
Proof.
  unfold marshal_stage. destruct (r_marshal s); [|auto].
  destruct (nonempty (marshal_ct c s)); [destruct (is_xml_type (marshal_ct c s))|]; simp_r; discriminate.
Qed.

Lemma detect_stage_getbody s : r_getbody (detect_stage detect c s) = r_getbody s.
Proof.
  unfold detect_stage. destruct (r_body s); [|reflexivity].
  destruct (nonempty (hfirst content_type (c_headers c))); [reflexivity|].
  destruct (nonempty (hfirst content_type (r_headers s))); reflexivity.
Qed.

Lemma prepare_not_reader s : r_getbody s <> GBReader -> r_getbody (prepare detect c s) <> GBReader.
Proof.
  intros Hg. unfold prepare.
  set (X := prep_cookie c (prep_header c s)).
  assert (HX : r_getbody X <> GBReader).
  { unfold X, prep_cookie, prep_header. destruct (r_attempt s <=? 0)%Z; destruct (nonempty (c_cookies c) && _); simp_r; exact Hg. }
  clearbody X. unfold prep_body, prep_body_gen.
  destruct (payload_forbid c (r_method X)); [simp_r; discriminate|]. cbv zeta.
  set (s1 := if nonempty (c_form c) && _ then _ else X).
  assert (H1 : r_getbody s1 <> GBReader) by (unfold s1; destruct (nonempty (c_form c) && _); simp_r; exact HX).
  destruct (nonempty (r_ordered s1)); [simp_r; discriminate|].
  destruct (nonempty (r_form s1)); [simp_r; discriminate|].
  rewrite detect_stage_getbody. apply marshal_stage_not_reader, H1.
Qed.

Lemma merge_hset_idem ch k0 x h :
  heq (merge_headers ch (hset k0 [x] (merge_headers ch h))) (hset k0 [x] (merge_headers ch h)).
Proof.
  intro k. rewrite hget_merge_headers, !hget_hset.
  destruct (bytes_eqb k k0); [reflexivity|].
  destruct (length (hget k (merge_headers ch h)) =? 0)%nat eqn:E; [|reflexivity].
  rewrite hget_merge_headers in *.
  destruct (length (hget k h) =? 0)%nat eqn:E1; [reflexivity|]. rewrite E in E1. discriminate.
Qed.

Lemma hset_hset_heq k v m : heq (hset k v (hset k v m)) (hset k v m).
Proof. intro k0. rewrite !hget_hset. destruct (bytes_eqb k0 k); reflexivity. Qed.

(* the header map a pass of the body stage leaves: unchanged, or with Content-Type set *)
Lemma marshal_stage_headers s :
  r_headers (marshal_stage c s) = r_headers s \/
  r_headers (marshal_stage c s) = hset content_type [json_content_type] (r_headers s).
Proof.
  unfold marshal_stage. destruct (r_marshal s); [|left; reflexivity].
  destruct (nonempty (marshal_ct c s)); [destruct (is_xml_type (marshal_ct c s)); left; reflexivity|].
  right. reflexivity.
Qed.

Lemma detect_stage_headers t :
  r_headers (detect_stage detect c t) = r_headers t \/
  (nonempty (hfirst content_type (r_headers t)) = false /\
   exists x, r_headers (detect_stage detect c t) = hset content_type [x] (r_headers t)).
Proof.
  unfold detect_stage. destruct (r_body t); [|left; reflexivity].
  destruct (nonempty (hfirst content_type (c_headers c))); [left; reflexivity|].
  destruct (nonempty (hfirst content_type (r_headers t))) eqn:E; [left; reflexivity|].
  right. split; [reflexivity|]. eexists. reflexivity.
Qed.

Lemma prep_body_headers_shape X :
  r_headers (prep_body detect c X) = r_headers X \/
  exists x, r_headers (prep_body detect c X) = hset content_type [x] (r_headers X).
Proof.
  unfold prep_body, prep_body_gen. destruct (payload_forbid c (r_method X)); [left; reflexivity|].
  cbv zeta.
  set (s1 := if nonempty (c_form c) && _ then _ else X).
  assert (H1 : r_headers s1 = r_headers X) by (unfold s1; destruct (nonempty (c_form c) && _); reflexivity).
  destruct (nonempty (r_ordered s1)); [right; eexists; simp_r; rewrite H1; reflexivity|].
  destruct (nonempty (r_form s1)); [right; eexists; simp_r; rewrite H1; reflexivity|].
  destruct (detect_stage_headers (marshal_stage c s1)) as [E|(En & x & E)]; rewrite E;
  destruct (marshal_stage_headers s1) as [E2|E2].
  - left. rewrite E2. exact H1.
  - right. eexists. rewrite E2, H1. reflexivity.
  - right. exists x. rewrite E2, H1. reflexivity.
  - rewrite E2, hfirst_hset_same in En. discriminate En.
Qed.

(* the header map the first pass of an execution leaves: the merged map, possibly with
   Content-Type set *)
Lemma prepare_headers_shape s :
  (r_attempt s <= 0)%Z ->
  let H0 := merge_headers (c_headers c) (r_headers s) in
  r_headers (prepare detect c s) = H0 \/ exists x, r_headers (prepare detect c s) = hset content_type [x] H0.
Proof.
  intros Ha. cbv zeta. unfold prepare.
  assert (HX : r_headers (prep_cookie c (prep_header c s)) = merge_headers (c_headers c) (r_headers s)).
  { unfold prep_cookie, prep_header. replace (r_attempt s <=? 0)%Z with true by lia.
    destruct (nonempty (c_cookies c) && _); reflexivity. }
  destruct (prep_body_headers_shape (prep_cookie c (prep_header c s))) as [E|[x E]]; rewrite E, HX.
  - left. reflexivity.
  - right. exists x. reflexivity.
Qed.

(* ---------- the body stage reproduces its own output ---------- *)

(* the stages after the form handling do not read the attempt counter *)
Lemma marshal_stage_set_attempt s b : marshal_stage c (set_attempt s b) = set_attempt (marshal_stage c s) b.
Proof.
  unfold marshal_stage. change (marshal_ct c (set_attempt s b)) with (marshal_ct c s). simp_r.
  destruct (r_marshal s); [|reflexivity].
  destruct (nonempty (marshal_ct c s)); [destruct (is_xml_type (marshal_ct c s))|]; reflexivity.
Qed.

Lemma detect_stage_set_attempt s b :
  detect_stage detect c (set_attempt s b) = set_attempt (detect_stage detect c s) b.
Proof.
  unfold detect_stage. simp_r. destruct (r_body s); [|reflexivity].
  destruct (nonempty (hfirst content_type (c_headers c))); [reflexivity|].
  destruct (nonempty (hfirst content_type (r_headers s))); reflexivity.
Qed.

Lemma seqv_set_attempt0 a b z : seqv a b -> seqv (set_attempt a z) (set_attempt b z).
Proof.
  unfold seqv. intros (?&?&?&?&?&?&?&?&?&?&?&?&?&?&?&H). simp_r.
  repeat (split; [first [assumption|reflexivity]|]). exact H.
Qed.

Lemma detect_stage_noop t :
  r_body t = None \/ nonempty (hfirst content_type (c_headers c)) = true \/
  nonempty (hfirst content_type (r_headers t)) = true ->
  detect_stage detect c t = t.
Proof.
  unfold detect_stage. intros [H|[H|H]].
  - rewrite H. reflexivity.
  - destruct (r_body t); [|reflexivity]. rewrite H. reflexivity.
  - destruct (r_body t); [|reflexivity].
    destruct (nonempty (hfirst content_type (c_headers c))); [reflexivity|]. rewrite H. reflexivity.
Qed.

Lemma detect_stage_idem s : seqv (detect_stage detect c (detect_stage detect c s)) (detect_stage detect c s).
Proof.
  destruct (r_body s) as [bd|] eqn:Eb.
  2:{ rewrite (detect_stage_noop s) by (left; exact Eb).
      rewrite (detect_stage_noop s) by (left; exact Eb). apply seqv_refl. }
  destruct (nonempty (hfirst content_type (c_headers c))) eqn:E1.
  { rewrite (detect_stage_noop s) by (right; left; exact E1).
    rewrite (detect_stage_noop s) by (right; left; exact E1). apply seqv_refl. }
  destruct (nonempty (hfirst content_type (r_headers s))) eqn:E2.
  { rewrite (detect_stage_noop s) by (right; right; exact E2).
    rewrite (detect_stage_noop s) by (right; right; exact E2). apply seqv_refl. }
  assert (Hd : detect_stage detect c s = set_headers s (hset content_type [detect bd] (r_headers s)))
    by (unfold detect_stage; rewrite Eb, E1, E2; reflexivity).
  rewrite Hd. unfold detect_stage. simp_r. rewrite Eb, E1, hfirst_hset_same.
  destruct (nonempty (detect bd)); [apply seqv_refl|].
  unfold seqv. simp_r. repeat (split; [reflexivity|]). apply hset_hset_heq.
Qed.

(* marshal + detection applied to their own output change nothing *)
Lemma tail_idem s :
  seqv (detect_stage detect c (marshal_stage c (detect_stage detect c (marshal_stage c s))))
       (detect_stage detect c (marshal_stage c s)).
Proof.
  destruct (r_marshal s) as [m|] eqn:Em.
  2:{ (* no marshal body *)
      assert (E0 : marshal_stage c s = s) by (unfold marshal_stage; rewrite Em; reflexivity).
      rewrite E0.
      assert (Em2 : r_marshal (detect_stage detect c s) = None).
      { unfold detect_stage. destruct (r_body s); [|exact Em].
        destruct (nonempty (hfirst content_type (c_headers c))); [exact Em|].
        destruct (nonempty (hfirst content_type (r_headers s))); simp_r; exact Em. }
      assert (E1 : marshal_stage c (detect_stage detect c s) = detect_stage detect c s)
        by (unfold marshal_stage; rewrite Em2; reflexivity).
      rewrite E1. apply detect_stage_idem. }
  destruct (nonempty (marshal_ct c s)) eqn:Ect.
  - (* a content type at request or client level: the body by type, headers untouched *)
    set (v := if is_xml_type (marshal_ct c s) then snd m else fst m).
    assert (Et : marshal_stage c s = set_body s (Some v) (GBStatic v)).
    { unfold marshal_stage, v. rewrite Em, Ect. destruct (is_xml_type (marshal_ct c s)); reflexivity. }
    rewrite Et. set (t := set_body s (Some v) (GBStatic v)).
    assert (Hct : marshal_ct c t = marshal_ct c s) by reflexivity.
    assert (Hno : nonempty (hfirst content_type (c_headers c)) = true \/
                  nonempty (hfirst content_type (r_headers t)) = true).
    { unfold marshal_ct in Ect. unfold t. simp_r.
      destruct (nonempty (hfirst content_type (r_headers s))) eqn:E; [right; reflexivity|left; exact Ect]. }
    assert (Hd : detect_stage detect c t = t) by (apply detect_stage_noop; right; exact Hno).
    rewrite Hd.
    assert (Et2 : marshal_stage c t = set_body t (Some v) (GBStatic v)).
    { unfold marshal_stage. replace (r_marshal t) with (Some m) by (unfold t; simp_r; symmetry; exact Em).
      rewrite Hct, Ect. unfold v. destruct (is_xml_type (marshal_ct c s)); reflexivity. }
    rewrite Et2.
    rewrite detect_stage_noop by (right; simp_r; exact Hno).
    unfold seqv, t. simp_r. repeat (split; [reflexivity|]). apply heq_refl.
  - (* none: JSON, with its content type set *)
    assert (Hreq : nonempty (hfirst content_type (r_headers s)) = false /\
                   nonempty (hfirst content_type (c_headers c)) = false).
    { unfold marshal_ct in Ect. destruct (nonempty (hfirst content_type (r_headers s))) eqn:E.
      - rewrite E in Ect. discriminate Ect.
      - split; [reflexivity|exact Ect]. }
    destruct Hreq as [Hr Hc].
    set (t := set_body (set_headers s (hset content_type [json_content_type] (r_headers s)))
                       (Some (fst m)) (GBStatic (fst m))).
    assert (Et : marshal_stage c s = t) by (unfold marshal_stage; rewrite Em, Ect; reflexivity).
    rewrite Et.
    assert (Hh : hfirst content_type (r_headers t) = json_content_type)
      by (unfold t; simp_r; apply hfirst_hset_same).
    assert (Hd : detect_stage detect c t = t).
    { apply detect_stage_noop. right; right. rewrite Hh. apply json_ct_nonempty. }
    rewrite Hd.
    assert (Hct : marshal_ct c t = json_content_type).
    { unfold marshal_ct. rewrite Hh, json_ct_nonempty. reflexivity. }
    assert (Et2 : marshal_stage c t = set_body t (Some (fst m)) (GBStatic (fst m))).
    { unfold marshal_stage. replace (r_marshal t) with (Some m) by (unfold t; simp_r; symmetry; exact Em).
      rewrite Hct, json_ct_nonempty, json_ct_not_xml. reflexivity. }
    rewrite Et2.
    rewrite detect_stage_noop by (right; right; simp_r; rewrite Hh; apply json_ct_nonempty).
    unfold seqv, t. simp_r. repeat (split; [reflexivity|]). apply heq_refl.
Qed.

(* what the body stage establishes about its own output *)
Definition body_settled (Y : rstate) : Prop :=
  if payload_forbid c (r_method Y) then r_body Y = None /\ r_getbody Y = GBNil /\ r_marshal Y = None
  else if nonempty (r_ordered Y) then
    r_body Y = Some (ordered_encode (r_ordered Y) (r_form Y)) /\
    r_getbody Y = GBStatic (ordered_encode (r_ordered Y) (r_form Y)) /\
    hget content_type (r_headers Y) = [form_content_type]
  else if nonempty (r_form Y) then
    r_body Y = Some (encode_values (r_form Y)) /\ r_getbody Y = GBStatic (encode_values (r_form Y)) /\
    hget content_type (r_headers Y) = [form_content_type]
  else seqv (detect_stage detect c (marshal_stage c Y)) Y.

(* fields the two tail stages leave alone *)
Definition frame2 (s : rstate) := (r_method s, r_form s, r_ordered s).
Lemma frame2_tail s : frame2 (detect_stage detect c (marshal_stage c s)) = frame2 s.
Proof.
  unfold detect_stage, marshal_stage.
  destruct (r_marshal s); [destruct (nonempty (marshal_ct c s)); [destruct (is_xml_type (marshal_ct c s))|]|];
  simp_r;
  repeat match goal with |- context [match ?b with Some _ => _ | None => _ end] => destruct b end;
  repeat match goal with |- context [if ?b then _ else _] => destruct b end; reflexivity.
Qed.

Lemma prep_body_settles X : body_settled (prep_body detect c X).
Proof.
  unfold body_settled, prep_body, prep_body_gen. cbn [orb].
  destruct (payload_forbid c (r_method X)) eqn:Ef.
  { simp_r. rewrite Ef. repeat split. }
  cbv zeta.
  set (s1 := if nonempty (c_form c) && _ then _ else X).
  assert (Hm1 : r_method s1 = r_method X) by (unfold s1; destruct (nonempty (c_form c) && _); reflexivity).
  clearbody s1.
  destruct (nonempty (r_ordered s1)) eqn:Eod.
  { simp_r. rewrite Hm1, Ef, Eod. repeat split. apply hget_hset_same. }
  destruct (nonempty (r_form s1)) eqn:Efm.
  { simp_r. rewrite Hm1, Ef, Eod, Efm. repeat split. apply hget_hset_same. }
  pose proof (frame2_tail s1) as Hf2. unfold frame2 in Hf2.
  injection Hf2 as Ha Hb Hc.
  rewrite Ha, Hb, Hc, Hm1, Ef, Eod, Efm. apply tail_idem.
Qed.

Lemma body_settled_fixed Y b :
  (1 <= b)%Z -> body_settled Y -> seqv (prep_body detect c (set_attempt Y b)) (set_attempt Y b).
Proof.
  intros Hb. assert (E1 : (b <=? 0)%Z = false) by lia.
  unfold body_settled, prep_body, prep_body_gen. simp_r. cbn [orb]. rewrite E1, andb_false_r. simp_r.
  destruct (payload_forbid c (r_method Y)) eqn:Ef.
  { intros (H1 & H2 & H3). unfold seqv. simp_r. rewrite H1, H2, H3.
    repeat (split; [reflexivity|]). apply heq_refl. }
  destruct (nonempty (r_ordered Y)) eqn:Eod.
  { intros (H1 & H2 & H3). unfold seqv. simp_r. rewrite H1, H2.
    repeat (split; [reflexivity|]). apply hset_known_heq, H3. }
  destruct (nonempty (r_form Y)) eqn:Efm.
  { intros (H1 & H2 & H3). unfold seqv. simp_r. rewrite H1, H2.
    repeat (split; [reflexivity|]). apply hset_known_heq, H3. }
  intros H. rewrite marshal_stage_set_attempt, detect_stage_set_attempt.
  apply seqv_set_attempt0, H.
Qed.

(* the body stage applied to its own output (any positive attempt number) changes nothing *)
Lemma prep_body_idem X b :
  (1 <= b)%Z ->
  seqv (prep_body detect c (set_attempt (prep_body detect c X) b)) (set_attempt (prep_body detect c X) b).
Proof.
  intros Hb. apply body_settled_fixed; [exact Hb|apply prep_body_settles].
Qed.

(* the second pass of the middlewares reproduces the state the first pass left *)
Lemma prepare_idem_first s b :
  (1 <= b)%Z ->
  seqv (prepare detect c (set_attempt (prepare detect c s) b)) (set_attempt (prepare detect c s) b).
Proof.
  intros Hb.
  set (s1 := set_attempt (prepare detect c s) b).
  assert (Hh : seqv (prep_header c s1) s1).
  { unfold prep_header, s1. cbn [set_attempt r_attempt]. replace (b <=? 0)%Z with false by lia. apply seqv_refl. }
  assert (Hc : forall t, (1 <= r_attempt t)%Z -> prep_cookie c t = t).
  { intros t Ht. unfold prep_cookie. assert (E : (r_attempt t <=? 0)%Z = false) by lia.
    rewrite E, andb_false_r. reflexivity. }
  unfold prepare at 1.
  eapply seqv_trans.
  - apply prep_body_seqv, prep_cookie_seqv, Hh.
  - rewrite Hc by (unfold s1; cbn; lia).
    unfold s1, prepare. apply prep_body_idem, Hb.
Qed.

End Prepare.
