(* Proofs/RetryProofs.v - lemmas about Model/Retry.v (C10). *)
From ReqV Require Import Lib.Bytes Lib.BytesFacts Model.Retry.
From Coq Require Import Lia ZifyBool ZifyNat.

(* ---------- association maps ---------- *)

Lemma hget_hset k k' vs m :
  hget k (hset k' vs m) = if bytes_eqb k k' then vs else hget k m.
Proof.
  induction m as [|[k0 v0] m IH]; cbn [hset hget].
  - destruct (bytes_eqb k k'); reflexivity.
  - destruct (bytes_eqb k' k0) eqn:E0; cbn [hget].
    + apply bytes_eqb_eq in E0. subst k0. destruct (bytes_eqb k k'); reflexivity.
    + destruct (bytes_eqb k k0) eqn:E1.
      * apply bytes_eqb_eq in E1. subst k0.
        destruct (bytes_eqb k k') eqn:E2; [|reflexivity].
        apply bytes_eqb_eq in E2. subst k'. rewrite bytes_eqb_refl in E0. discriminate.
      * apply IH.
Qed.

Definition heq (a b : amap) : Prop := forall k, hget k a = hget k b.

Lemma heq_refl a : heq a a. Proof. intro; reflexivity. Qed.
Lemma heq_sym a b : heq a b -> heq b a. Proof. intros H k; symmetry; apply H. Qed.
Lemma heq_trans a b c : heq a b -> heq b c -> heq a c.
Proof. intros H1 H2 k; rewrite H1; apply H2. Qed.

Lemma hset_heq k vs a b : heq a b -> heq (hset k vs a) (hset k vs b).
Proof. intros H k0. rewrite !hget_hset. destruct (bytes_eqb k0 k); [reflexivity|apply H]. Qed.

Lemma hfirst_heq k a b : heq a b -> hfirst k a = hfirst k b.
Proof. intros H. unfold hfirst. rewrite (H k). reflexivity. Qed.

(* value a key without own value receives from the client headers: the first non-empty
   client entry for it *)
Fixpoint first_nonempty (k : bytes) (ch : amap) : list bytes :=
  match ch with
  | [] => []
  | (k', vs) :: r => if bytes_eqb k k' && negb (length vs =? 0)%nat then vs else first_nonempty k r
  end.

Lemma hget_merge_headers ch : forall rh k,
  hget k (merge_headers ch rh) =
    if (length (hget k rh) =? 0)%nat then first_nonempty k ch else hget k rh.
Proof.
  unfold merge_headers.
  induction ch as [|[k0 vs0] ch IH]; intros rh k; cbn [fold_left first_nonempty].
  - destruct (length (hget k rh) =? 0)%nat eqn:E; [|reflexivity].
    destruct (hget k rh); [reflexivity|discriminate].
  - rewrite IH. unfold merge_header_step. cbn [fst snd].
    destruct (length (hget k0 rh) =? 0)%nat eqn:E0.
    + rewrite hget_hset. destruct (bytes_eqb k k0) eqn:E1; cbn [andb].
      * apply bytes_eqb_eq in E1. subst k0. rewrite E0.
        destruct (length vs0 =? 0)%nat eqn:E2; cbn [negb]; reflexivity.
      * reflexivity.
    + destruct (bytes_eqb k k0) eqn:E1; cbn [andb]; [|reflexivity].
      apply bytes_eqb_eq in E1. subst k0. rewrite E0. reflexivity.
Qed.

Lemma merge_headers_heq ch a b : heq a b -> heq (merge_headers ch a) (merge_headers ch b).
Proof. intros H k. rewrite !hget_merge_headers, (H k). reflexivity. Qed.

Lemma merge_headers_idem ch h : heq (merge_headers ch (merge_headers ch h)) (merge_headers ch h).
Proof.
  intro k. rewrite hget_merge_headers.
  destruct (length (hget k (merge_headers ch h)) =? 0)%nat eqn:E; [|reflexivity].
  rewrite hget_merge_headers in *.
  destruct (length (hget k h) =? 0)%nat eqn:E1; [reflexivity|].
  rewrite E in E1. discriminate.
Qed.

(* ---------- state equivalence: equal up to the representation of the header map ---------- *)

Definition seqv (a b : rstate) : Prop :=
  r_method a = r_method b /\ r_rawquery a = r_rawquery b /\ r_cookies a = r_cookies b /\
  r_form a = r_form b /\ r_query a = r_query b /\ r_body a = r_body b /\
  r_getbody a = r_getbody b /\ r_reader a = r_reader b /\ r_unreplayable a = r_unreplayable b /\
  r_attempt a = r_attempt b /\ r_path a = r_path b /\ r_pparams a = r_pparams b /\
  r_ordered a = r_ordered b /\ heq (r_headers a) (r_headers b).

Lemma seqv_refl a : seqv a a.
Proof. unfold seqv. repeat split; apply heq_refl. Qed.
Lemma seqv_sym a b : seqv a b -> seqv b a.
Proof.
  unfold seqv. intros (?&?&?&?&?&?&?&?&?&?&?&?&?&H). repeat (split; [congruence|]). apply heq_sym, H.
Qed.
Lemma seqv_trans a b c : seqv a b -> seqv b c -> seqv a c.
Proof.
  unfold seqv. intros (?&?&?&?&?&?&?&?&?&?&?&?&?&Hx) (?&?&?&?&?&?&?&?&?&?&?&?&?&Hy).
  repeat (split; [congruence|]). eapply heq_trans; eassumption.
Qed.

Lemma seqv_wire c a b : seqv a b -> wire_same (wire_of c a) (wire_of c b).
Proof.
  unfold seqv, wire_same, wire_of, wire_query, wire_path, body_now.
  cbn [w_method w_path w_query w_cookies w_body w_headers].
  intros (Hm & Hq & Hc & Hf & Hqq & Hb & Hg & Hr & Hu & Ha & Hpa & Hpp & Hod & Hh).
  rewrite Hm, Hq, Hc, Hqq, Hg, Hr, Hpa, Hpp. repeat split. exact Hh.
Qed.

Lemma wire_same_refl a : wire_same a a.
Proof. unfold wire_same. repeat split. Qed.
Lemma wire_same_sym a b : wire_same a b -> wire_same b a.
Proof. unfold wire_same. intuition congruence. Qed.
Lemma wire_same_trans a b c : wire_same a b -> wire_same b c -> wire_same a c.
Proof.
  unfold wire_same. intros (?&?&?&?&?&Hx) (?&?&?&?&?&Hy). repeat (split; [congruence|]).
  intro k. rewrite Hx. apply Hy.
Qed.

Ltac simp_r :=
  cbn [r_method r_rawquery r_headers r_cookies r_form r_query r_body r_getbody r_reader r_unreplayable r_attempt
       r_path r_pparams r_ordered
       set_headers set_cookies set_form set_body set_reader set_attempt].

Ltac solve_seqv :=
  unfold seqv; simp_r;
  repeat (split; [first [assumption|reflexivity|congruence]|]);
  first [assumption | apply hset_heq; assumption | apply merge_headers_heq; assumption | apply heq_refl].

Lemma hget_hset_same k vs m : hget k (hset k vs m) = vs.
Proof. rewrite hget_hset, bytes_eqb_refl. reflexivity. Qed.

Lemma hfirst_hset_same k x m : hfirst k (hset k [x] m) = x.
Proof. unfold hfirst. rewrite hget_hset_same. reflexivity. Qed.

Lemma hset_known_heq k vs m : hget k m = vs -> heq (hset k vs m) m.
Proof.
  intros H k0. rewrite hget_hset. destruct (bytes_eqb k0 k) eqn:E; [|reflexivity].
  apply bytes_eqb_eq in E. subst k0. symmetry. exact H.
Qed.

Section Prepare.
Variable detect : bytes -> bytes.
Variable c : client.

Lemma prep_header_seqv a b : seqv a b -> seqv (prep_header c a) (prep_header c b).
Proof.
  intros H. pose proof H as (Hm & Hq & Hc & Hf & Hqq & Hb & Hg & Hr & Hu & Ha & Hpa & Hpp & Hod & Hh).
  unfold prep_header. solve_seqv.
Qed.

Lemma prep_cookie_seqv a b : seqv a b -> seqv (prep_cookie c a) (prep_cookie c b).
Proof.
  intros H. pose proof H as (Hm & Hq & Hc & Hf & Hqq & Hb & Hg & Hr & Hu & Ha & Hpa & Hpp & Hod & Hh).
  unfold prep_cookie. rewrite Ha.
  destruct (nonempty (c_cookies c) && (r_attempt b <=? 0)%Z); [|exact H].
  rewrite Hc. solve_seqv.
Qed.

Lemma detect_stage_seqv a b : seqv a b -> seqv (detect_stage detect c a) (detect_stage detect c b).
Proof.
  intros H. pose proof H as (Hm & Hq & Hc & Hf & Hqq & Hb & Hg & Hr & Hu & Ha & Hpa & Hpp & Hod & Hh).
  unfold detect_stage. rewrite Hb. destruct (r_body b) eqn:Ebb; [|exact H].
  destruct (nonempty (hfirst content_type (c_headers c))); [exact H|].
  rewrite (hfirst_heq content_type _ _ Hh).
  destruct (nonempty (hfirst content_type (r_headers b))); [exact H|solve_seqv].
Qed.

Lemma merge_form_seqv a b : seqv a b ->
  seqv (if nonempty (c_form c) && (r_attempt a <=? 0)%Z then set_form a (add_values (c_form c) (r_form a)) else a)
       (if nonempty (c_form c) && (r_attempt b <=? 0)%Z then set_form b (add_values (c_form c) (r_form b)) else b).
Proof.
  intros H. pose proof H as (Hm & Hq & Hc & Hf & Hqq & Hb & Hg & Hr & Hu & Ha & Hpa & Hpp & Hod & Hh).
  rewrite Ha, Hf. destruct (nonempty (c_form c) && (r_attempt b <=? 0)%Z); [solve_seqv|exact H].
Qed.

Lemma prep_body_seqv a b : seqv a b -> seqv (prep_body detect c a) (prep_body detect c b).
Proof.
  intros H. pose proof H as (Hm & _).
  unfold prep_body, prep_body_gen. rewrite Hm. cbn [orb].
  destruct (payload_forbid c (r_method b)).
  { pose proof H as (_ & Hq & Hc & Hf & Hqq & Hb & Hg & Hr & Hu & Ha & Hpa & Hpp & Hod & Hh). solve_seqv. }
  pose proof (merge_form_seqv a b H) as H1. cbv zeta.
  set (a1 := if nonempty (c_form c) && (r_attempt a <=? 0)%Z then _ else a) in *.
  set (b1 := if nonempty (c_form c) && (r_attempt b <=? 0)%Z then _ else b) in *.
  clearbody a1 b1.
  pose proof H1 as (Hm1 & Hq & Hc & Hf & Hqq & Hb & Hg & Hr & Hu & Ha & Hpa & Hpp & Hod & Hh).
  rewrite Hod, Hf.
  destruct (nonempty (r_ordered b1)); [solve_seqv|].
  destruct (nonempty (r_form b1)); [solve_seqv|].
  apply detect_stage_seqv, H1.
Qed.

Lemma prepare_seqv a b : seqv a b -> seqv (prepare detect c a) (prepare detect c b).
Proof. intros H. unfold prepare. apply prep_body_seqv, prep_cookie_seqv, prep_header_seqv, H. Qed.

(* the fields no stage of the middleware pass touches *)
Definition frame (s : rstate) :=
  (r_method s, r_rawquery s, r_query s, r_reader s, r_unreplayable s, r_attempt s, r_path s, r_pparams s).

Lemma frame_detect_stage s : frame (detect_stage detect c s) = frame s.
Proof.
  unfold detect_stage. destruct (r_body s); [|reflexivity].
  destruct (nonempty (hfirst content_type (c_headers c))); [reflexivity|].
  destruct (nonempty (hfirst content_type (r_headers s))); reflexivity.
Qed.

Lemma frame_prep_body s : frame (prep_body detect c s) = frame s.
Proof.
  unfold prep_body, prep_body_gen. destruct (payload_forbid c (r_method s)); [reflexivity|].
  cbv zeta.
  set (s1 := if nonempty (c_form c) && _ then _ else s).
  assert (H1 : frame s1 = frame s) by (unfold s1; destruct (nonempty (c_form c) && _); reflexivity).
  destruct (nonempty (r_ordered s1)); [exact H1|].
  destruct (nonempty (r_form s1)); [exact H1|].
  rewrite frame_detect_stage. exact H1.
Qed.

Lemma frame_prepare s : frame (prepare detect c s) = frame s.
Proof.
  unfold prepare. rewrite frame_prep_body. unfold prep_cookie, prep_header.
  destruct (nonempty (c_cookies c) && _); reflexivity.
Qed.

Lemma prepare_attempt s : r_attempt (prepare detect c s) = r_attempt s.
Proof. pose proof (frame_prepare s) as H. unfold frame in H. congruence. Qed.

Lemma prepare_method s : r_method (prepare detect c s) = r_method s.
Proof. pose proof (frame_prepare s) as H. unfold frame in H. congruence. Qed.

Lemma prepare_unreplayable s : r_unreplayable (prepare detect c s) = r_unreplayable s.
Proof. pose proof (frame_prepare s) as H. unfold frame in H. congruence. Qed.

Lemma prepare_url_fields s :
  r_query (prepare detect c s) = r_query s /\ r_rawquery (prepare detect c s) = r_rawquery s /\
  r_path (prepare detect c s) = r_path s /\ r_pparams (prepare detect c s) = r_pparams s.
Proof. pose proof (frame_prepare s) as H. unfold frame in H. repeat split; congruence. Qed.

Lemma detect_stage_getbody s : r_getbody (detect_stage detect c s) = r_getbody s.
Proof.
  unfold detect_stage. destruct (r_body s); [|reflexivity].
  destruct (nonempty (hfirst content_type (c_headers c))); [reflexivity|].
  destruct (nonempty (hfirst content_type (r_headers s))); reflexivity.
Qed.

Lemma prepare_not_reader s : r_getbody s <> GBReader -> r_getbody (prepare detect c s) <> GBReader.
Proof.
  intros Hg. unfold prepare.
  set (X := prep_cookie c (prep_header c s)).
  assert (HX : r_getbody X <> GBReader).
  { unfold X, prep_cookie, prep_header. destruct (nonempty (c_cookies c) && _); simp_r; exact Hg. }
  clearbody X. unfold prep_body, prep_body_gen.
  destruct (payload_forbid c (r_method X)); [simp_r; discriminate|]. cbv zeta.
  set (s1 := if nonempty (c_form c) && _ then _ else X).
  assert (H1 : r_getbody s1 <> GBReader) by (unfold s1; destruct (nonempty (c_form c) && _); simp_r; exact HX).
  destruct (nonempty (r_ordered s1)); [simp_r; discriminate|].
  destruct (nonempty (r_form s1)); [simp_r; discriminate|].
  rewrite detect_stage_getbody. exact H1.
Qed.

Lemma merge_hset_idem ch k0 x h :
  heq (merge_headers ch (hset k0 [x] (merge_headers ch h))) (hset k0 [x] (merge_headers ch h)).
Proof.
  intro k. rewrite hget_merge_headers, !hget_hset.
  destruct (bytes_eqb k k0); [reflexivity|].
  destruct (length (hget k (merge_headers ch h)) =? 0)%nat eqn:E; [|reflexivity].
  rewrite hget_merge_headers in *.
  destruct (length (hget k h) =? 0)%nat eqn:E1; [reflexivity|]. rewrite E in E1. discriminate.
Qed.

Lemma hset_hset_heq k v m : heq (hset k v (hset k v m)) (hset k v m).
Proof. intro k0. rewrite !hget_hset. destruct (bytes_eqb k0 k); reflexivity. Qed.

(* the header map a pass of the body stage leaves: unchanged, or with Content-Type set *)
Lemma detect_stage_headers t :
  r_headers (detect_stage detect c t) = r_headers t \/
  (nonempty (hfirst content_type (r_headers t)) = false /\
   exists x, r_headers (detect_stage detect c t) = hset content_type [x] (r_headers t)).
Proof.
  unfold detect_stage. destruct (r_body t); [|left; reflexivity].
  destruct (nonempty (hfirst content_type (c_headers c))); [left; reflexivity|].
  destruct (nonempty (hfirst content_type (r_headers t))) eqn:E; [left; reflexivity|].
  right. split; [reflexivity|]. eexists. reflexivity.
Qed.

Lemma prep_body_headers_shape X :
  r_headers (prep_body detect c X) = r_headers X \/
  exists x, r_headers (prep_body detect c X) = hset content_type [x] (r_headers X).
Proof.
  unfold prep_body, prep_body_gen. destruct (payload_forbid c (r_method X)); [left; reflexivity|].
  cbv zeta.
  set (s1 := if nonempty (c_form c) && _ then _ else X).
  assert (H1 : r_headers s1 = r_headers X) by (unfold s1; destruct (nonempty (c_form c) && _); reflexivity).
  destruct (nonempty (r_ordered s1)); [right; eexists; simp_r; rewrite H1; reflexivity|].
  destruct (nonempty (r_form s1)); [right; eexists; simp_r; rewrite H1; reflexivity|].
  destruct (detect_stage_headers s1) as [E|(En & x & E)]; rewrite E.
  - left. exact H1.
  - right. exists x. rewrite H1. reflexivity.
Qed.

(* the header map the first pass leaves: the merged map, possibly with Content-Type set *)
Lemma prepare_headers_shape s :
  let H0 := merge_headers (c_headers c) (r_headers s) in
  r_headers (prepare detect c s) = H0 \/ exists x, r_headers (prepare detect c s) = hset content_type [x] H0.
Proof.
  cbv zeta. unfold prepare.
  assert (HX : r_headers (prep_cookie c (prep_header c s)) = merge_headers (c_headers c) (r_headers s)).
  { unfold prep_cookie, prep_header. destruct (nonempty (c_cookies c) && _); reflexivity. }
  destruct (prep_body_headers_shape (prep_cookie c (prep_header c s))) as [E|[x E]]; rewrite E, HX.
  - left. reflexivity.
  - right. exists x. reflexivity.
Qed.

(* ---------- the body stage reproduces its own output ---------- *)

(* what the body stage establishes about its own output *)
Definition body_settled (Y : rstate) : Prop :=
  if payload_forbid c (r_method Y) then r_body Y = None /\ r_getbody Y = GBNil
  else if nonempty (r_ordered Y) then
    r_body Y = Some (ordered_encode (r_ordered Y) (r_form Y)) /\
    r_getbody Y = GBStatic (ordered_encode (r_ordered Y) (r_form Y)) /\
    hget content_type (r_headers Y) = [form_content_type]
  else if nonempty (r_form Y) then
    r_body Y = Some (encode_values (r_form Y)) /\ r_getbody Y = GBStatic (encode_values (r_form Y)) /\
    hget content_type (r_headers Y) = [form_content_type]
  else match r_body Y with
       | None => True
       | Some bd => nonempty (hfirst content_type (c_headers c)) = true \/
                    nonempty (hfirst content_type (r_headers Y)) = true \/
                    hget content_type (r_headers Y) = [detect bd]
       end.

Lemma prep_body_settles X : body_settled (prep_body detect c X).
Proof.
  destruct X as [m rq h ck f q bd gb rd un at_ pa pp od].
  unfold body_settled, prep_body, prep_body_gen, detect_stage. simp_r. cbn [orb].
  destruct (payload_forbid c m) eqn:Ef; simp_r.
  { rewrite Ef. simp_r. repeat split. }
  destruct (nonempty (c_form c) && (at_ <=? 0)%Z); simp_r;
  [set (F := add_values (c_form c) f)|set (F := f)].
  all: destruct (nonempty od) eqn:Eod; simp_r;
       [rewrite Ef, Eod; simp_r; repeat split; apply hget_hset_same|].
  all: destruct (nonempty F) eqn:Efm; simp_r;
       [rewrite Ef, Eod, Efm; simp_r; repeat split; apply hget_hset_same|].
  all: destruct bd as [bd|]; simp_r; [|rewrite Ef, Eod, Efm; simp_r; exact I].
  all: destruct (nonempty (hfirst content_type (c_headers c))) eqn:E1; simp_r;
       [rewrite Ef, Eod, Efm; simp_r; left; first [reflexivity|exact E1]|].
  all: destruct (nonempty (hfirst content_type h)) eqn:E2; simp_r; rewrite Ef, Eod, Efm; simp_r;
       [right; left; first [reflexivity|exact E2]|right; right; apply hget_hset_same].
Qed.

Lemma body_settled_fixed Y b :
  (1 <= b)%Z -> body_settled Y -> seqv (prep_body detect c (set_attempt Y b)) (set_attempt Y b).
Proof.
  intros Hb. assert (E1 : (b <=? 0)%Z = false) by lia.
  destruct Y as [m rq h ck f q bd gb rd un at_ pa pp od].
  unfold body_settled, prep_body, prep_body_gen, detect_stage. simp_r. cbn [orb]. rewrite E1, andb_false_r.
  destruct (payload_forbid c m) eqn:Ef; simp_r.
  { intros (H1 & H2). subst bd gb. apply seqv_refl. }
  destruct (nonempty od) eqn:Eod; simp_r.
  { intros (H1 & H2 & H3). subst bd gb.
    unfold seqv. simp_r. repeat (split; [reflexivity|]). apply hset_known_heq, H3. }
  destruct (nonempty f) eqn:Efm; simp_r.
  { intros (H1 & H2 & H3). subst bd gb.
    unfold seqv. simp_r. repeat (split; [reflexivity|]). apply hset_known_heq, H3. }
  destruct bd as [bd|]; [|intros _; apply seqv_refl].
  destruct (nonempty (hfirst content_type (c_headers c))) eqn:E2; [intros _; apply seqv_refl|].
  destruct (nonempty (hfirst content_type h)) eqn:E3; [intros _; apply seqv_refl|].
  intros [H|[H|H]]; [discriminate H|discriminate H|].
  unfold seqv. simp_r. repeat (split; [reflexivity|]). apply hset_known_heq, H.
Qed.

(* the body stage applied to its own output (any positive attempt number) changes nothing *)
Lemma prep_body_idem X b :
  (1 <= b)%Z ->
  seqv (prep_body detect c (set_attempt (prep_body detect c X) b)) (set_attempt (prep_body detect c X) b).
Proof.
  intros Hb. apply body_settled_fixed; [exact Hb|apply prep_body_settles].
Qed.

(* the second pass of the middlewares reproduces the state the first pass left *)
Lemma prepare_idem_first s b :
  (1 <= b)%Z ->
  seqv (prepare detect c (set_attempt (prepare detect c s) b)) (set_attempt (prepare detect c s) b).
Proof.
  intros Hb.
  set (s1 := set_attempt (prepare detect c s) b).
  assert (Hh : seqv (prep_header c s1) s1).
  { unfold prep_header, s1. unfold seqv. simp_r.
    repeat (split; [reflexivity|]).
    destruct (prepare_headers_shape s) as [E|[x E]]; cbn zeta in E; rewrite E.
    - apply merge_headers_idem.
    - apply merge_hset_idem. }
  assert (Hc : forall t, (1 <= r_attempt t)%Z -> prep_cookie c t = t).
  { intros t Ht. unfold prep_cookie. assert (E : (r_attempt t <=? 0)%Z = false) by lia.
    rewrite E, andb_false_r. reflexivity. }
  unfold prepare at 1.
  eapply seqv_trans.
  - apply prep_body_seqv, prep_cookie_seqv, Hh.
  - rewrite Hc by (unfold s1; cbn; lia).
    unfold s1, prepare. apply prep_body_idem, Hb.
Qed.

End Prepare.
