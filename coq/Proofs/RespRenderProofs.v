(* Proofs/RespRenderProofs.v - C02: parsing inverts rendering (HTTP/1.1 header section,
   status line, trailer section, the three body framings). *)
From ReqV Require Import Lib.Bytes Lib.BytesFacts Model.H1Resp Model.H1Render Model.RespRender
  Proofs.H1RespProofs.
From Coq Require Import Lia ZifyBool ZifyNat ZifyN.

(* ====================================================================== *)
(* small list / byte facts                                                *)
(* ====================================================================== *)

Lemma is_nil_false_iff {A} (l : list A) : is_nil l = false <-> l <> [].
Proof. destruct l; cbn; split; intros; congruence. Qed.

Lemma bytes_eqb_sym' a b : bytes_eqb a b = bytes_eqb b a.
Proof.
  destruct (bytes_eqb a b) eqn:E.
  - apply bytes_eqb_eq in E. subst. symmetry. apply bytes_eqb_refl.
  - symmetry. apply bytes_eqb_neq. apply bytes_eqb_neq in E. congruence.
Qed.

Lemma drop_while_all f s : forallb f s = true -> drop_while f s = [].
Proof.
  induction s as [|x s IH]; cbn; [reflexivity|]. intros H.
  apply andb_true_iff in H as [H1 H2]. rewrite H1. auto.
Qed.

Lemma drop_while_app_all f a b : forallb f a = true -> drop_while f (a ++ b) = drop_while f b.
Proof.
  induction a as [|x a IH]; cbn; [reflexivity|]. intros H.
  apply andb_true_iff in H as [H1 H2]. rewrite H1. auto.
Qed.

Lemma drop_while_head f x s : f x = false -> drop_while f (x :: s) = x :: s.
Proof. intros H. cbn. now rewrite H. Qed.

Lemma trim_right_app_all f a b : forallb f b = true -> trim_right f (a ++ b) = trim_right f a.
Proof.
  intros H. unfold trim_right. rewrite rev_app_distr.
  rewrite drop_while_app_all; [reflexivity|].
  rewrite forallb_forall in *. intros x Hx. apply H. now apply in_rev.
Qed.

Lemma trim_right_last f a x : f x = false -> trim_right f (a ++ [x]) = a ++ [x].
Proof.
  intros H. unfold trim_right. rewrite rev_app_distr. cbn [rev app].
  rewrite drop_while_head by assumption.
  change (x :: rev a) with ([x] ++ rev a). rewrite rev_app_distr, rev_involutive. reflexivity.
Qed.

Lemma last_app_last {A} (l : list A) (x d : A) : last (l ++ [x]) d = x.
Proof. apply last_last. Qed.

Lemma exists_last' {A} (l : list A) : l <> [] -> exists l' x, l = l' ++ [x].
Proof. intros H. destruct (exists_last H) as (l' & x & E). eauto. Qed.

(* a value without blanks at its edges is a fixed point of both trims *)
Lemma no_edge_trim_left v : no_edge_ws v = true -> drop_while is_sp_tab v = v.
Proof.
  destruct v as [|x v]; [reflexivity|]. cbn [no_edge_ws]. intros H.
  apply andb_true_iff in H as [H1 _]. apply negb_true_iff in H1.
  now apply drop_while_head.
Qed.

Lemma no_edge_trim_right a v :
  v <> [] -> no_edge_ws v = true -> trim_right is_sp_tab (a ++ v) = a ++ v.
Proof.
  intros Hne H. destruct (exists_last' v Hne) as (v' & x & ->).
  rewrite app_assoc. apply trim_right_last.
  unfold no_edge_ws in H. destruct v' as [|y v']; cbn [app] in H.
  - cbn [last] in H. apply andb_true_iff in H as [_ H]. now apply negb_true_iff in H.
  - apply andb_true_iff in H as [_ H]. apply negb_true_iff in H.
    change (y :: v' ++ [x]) with ((y :: v') ++ [x]) in H. now rewrite last_last in H.
Qed.

Lemma forallb_app' {A} (f : A -> bool) a b : forallb f (a ++ b) = forallb f a && forallb f b.
Proof. apply forallb_app. Qed.

Lemma mem_byte_forall_false c (p : byte -> bool) s :
  p c = false -> forallb p s = true -> mem_byte c s = false.
Proof.
  intros Hc H. apply mem_byte_false_In. intros Hin.
  rewrite forallb_forall in H. rewrite (H _ Hin) in Hc. discriminate.
Qed.

Lemma tchar_not_colon : is_tchar COLON = false. Proof. reflexivity. Qed.
Lemma tchar_not_lf : is_tchar LF = false. Proof. reflexivity. Qed.
Lemma tchar_not_cr : is_tchar CR = false. Proof. reflexivity. Qed.
Lemma value_not_lf : valid_value_byte LF = false. Proof. reflexivity. Qed.
Lemma value_not_cr : valid_value_byte CR = false. Proof. reflexivity. Qed.
Lemma sptab_not_lf : is_sp_tab LF = false. Proof. reflexivity. Qed.
Lemma tchar_not_sptab b : is_tchar b = true -> is_sp_tab b = false.
Proof. destruct b; vm_compute; congruence. Qed.
Lemma sptab_valid b : is_sp_tab b = true -> valid_value_byte b = true.
Proof. destruct b; vm_compute; congruence. Qed.

Lemma strip_cr_app_cr l : strip_cr (l ++ [CR]) = l.
Proof.
  induction l as [|x l IH]; [reflexivity|].
  cbn [app]. destruct (l ++ [CR]) as [|y w] eqn:E; [destruct l; discriminate|].
  change (strip_cr (x :: y :: w)) with (x :: strip_cr (y :: w)). now rewrite IH.
Qed.

Lemma read_line_crlf bufsize l rest :
  mem_byte LF l = false -> read_line bufsize (l ++ CRLF ++ rest) = Some (l, rest).
Proof.
  intros H. cbn [CRLF app].
  replace (l ++ CR :: LF :: rest) with ((l ++ [CR]) ++ LF :: rest) by (now rewrite <- app_assoc).
  erewrite read_line_lf.
  2:{ apply cut_byte_app_hit. rewrite mem_byte_app, H. reflexivity. }
  now rewrite strip_cr_app_cr.
Qed.

(* ====================================================================== *)
(* the header multimap                                                    *)
(* ====================================================================== *)

Definition hget_list (k : bytes) (m : hmap) : list bytes :=
  match hget k m with Some v => v | None => [] end.

Lemma hget_hadd k k' v m :
  hget k (hadd k' v m) =
    if bytes_eqb k k' then Some (hget_list k m ++ [v]) else hget k m.
Proof.
  unfold hget_list. induction m as [|[k0 vs] m IH]; cbn [hadd hget].
  - destruct (bytes_eqb k k'); reflexivity.
  - destruct (bytes_eqb k' k0) eqn:E0; cbn [hget].
    + apply bytes_eqb_eq in E0. subst k0.
      destruct (bytes_eqb k k') eqn:E; reflexivity.
    + destruct (bytes_eqb k k0) eqn:E1.
      * apply bytes_eqb_eq in E1. subst k0.
        destruct (bytes_eqb k k') eqn:E; [|reflexivity].
        apply bytes_eqb_eq in E. subst. rewrite bytes_eqb_refl in E0. discriminate.
      * exact IH.
Qed.

Lemma hdel_hadd k k' v m :
  hdel k (hadd k' v m) = if bytes_eqb k k' then hdel k m else hadd k' v (hdel k m).
Proof.
  induction m as [|[k0 vs] m IH]; cbn [hadd hdel].
  - destruct (bytes_eqb k k'); reflexivity.
  - destruct (bytes_eqb k' k0) eqn:E0; cbn [hdel].
    + apply bytes_eqb_eq in E0. subst k0.
      destruct (bytes_eqb k k') eqn:E; [reflexivity|]. cbn [hadd]. now rewrite bytes_eqb_refl.
    + destruct (bytes_eqb k k0) eqn:E1.
      * exact IH.
      * rewrite IH. destruct (bytes_eqb k k'); [reflexivity|]. cbn [hadd]. now rewrite E0.
Qed.

Lemma values_of_cons k f fs :
  values_of k (f :: fs) = if named k f then snd f :: values_of k fs else values_of k fs.
Proof. unfold values_of. cbn [filter]. destruct (named k f); reflexivity. Qed.

Lemma hget_collect_from fs : forall m k,
  hget k (collect_from m fs) =
    match values_of k fs with
    | [] => hget k m
    | vs => Some (hget_list k m ++ vs)
    end.
Proof.
  induction fs as [|f fs IH]; intros m k; [reflexivity|].
  cbn [collect_from fold_left]. fold (collect_from (hadd (canon_name (fst f)) (snd f) m) fs).
  rewrite IH, values_of_cons. unfold named. rewrite hget_hadd.
  rewrite (bytes_eqb_sym' (canon_name (fst f)) k).
  destruct (bytes_eqb k (canon_name (fst f))) eqn:E.
  - destruct (values_of k fs) as [|v vs]; [reflexivity|].
    unfold hget_list at 1. rewrite hget_hadd, E. now rewrite <- app_assoc.
  - destruct (values_of k fs) as [|v vs]; [reflexivity|].
    unfold hget_list at 1. rewrite hget_hadd, E. reflexivity.
Qed.

(* every key: the values of the fields with that name, in emission order *)
Theorem hget_collect k fs :
  hget k (collect fs) = match values_of k fs with [] => None | vs => Some vs end.
Proof. unfold collect. rewrite hget_collect_from. reflexivity. Qed.

Lemma hdel_collect_from fs : forall m k,
  hdel k (collect_from m fs) = collect_from (hdel k m) (without k fs).
Proof.
  induction fs as [|f fs IH]; intros m k; [reflexivity|].
  cbn [collect_from fold_left without filter].
  fold (collect_from (hadd (canon_name (fst f)) (snd f) m) fs). fold (without k fs).
  rewrite IH, hdel_hadd. unfold named. rewrite (bytes_eqb_sym' (canon_name (fst f)) k).
  destruct (bytes_eqb k (canon_name (fst f))); reflexivity.
Qed.

Theorem hdel_collect k fs : hdel k (collect fs) = collect (without k fs).
Proof. unfold collect. now rewrite hdel_collect_from. Qed.

Lemma values_of_without_other k k' fs :
  bytes_eqb k k' = false -> values_of k (without k' fs) = values_of k fs.
Proof.
  intros Hk. induction fs as [|f fs IH]; [reflexivity|].
  cbn [without filter]. fold (without k' fs). rewrite values_of_cons.
  destruct (named k' f) eqn:E1; cbn [negb].
  - rewrite IH. destruct (named k f) eqn:E2; [|reflexivity].
    unfold named in *. apply bytes_eqb_eq in E1, E2. rewrite E1 in E2. subst.
    rewrite bytes_eqb_refl in Hk. discriminate.
  - rewrite values_of_cons, IH. reflexivity.
Qed.

Lemma values_of_without_same k fs : values_of k (without k fs) = [].
Proof.
  induction fs as [|f fs IH]; [reflexivity|].
  cbn [without filter]. fold (without k fs).
  destruct (named k f) eqn:E; cbn [negb]; [exact IH|].
  rewrite values_of_cons, E. exact IH.
Qed.

(* ====================================================================== *)
(* ReadMIMEHeader inverts the rendering of a header section               *)
(* ====================================================================== *)

(* the next line does not begin with a blank (it is not a continuation line) *)
Definition starts_clean (s : bytes) : Prop :=
  match s with x :: _ => is_sp_tab x = false | [] => False end.

Definition wline (f : wfield) : bytes := wf_name f ++ COLON :: wf_pre f ++ wf_value f ++ wf_post f.

(* what is left of the value side after trimming the line *)
Definition wrest (f : wfield) : bytes := if is_nil (wf_value f) then [] else wf_pre f ++ wf_value f.

Lemma wfield_ok_parts f : wfield_ok f = true ->
  wf_name f <> [] /\ forallb is_tchar (wf_name f) = true /\
  forallb valid_value_byte (wf_value f) = true /\ no_edge_ws (wf_value f) = true /\
  forallb is_sp_tab (wf_pre f) = true /\ forallb is_sp_tab (wf_post f) = true.
Proof.
  unfold wfield_ok, field_ok, field_of. cbn [fst snd]. intros H.
  repeat (apply andb_true_iff in H as [H ?]).
  apply negb_true_iff, is_nil_false_iff in H. repeat split; assumption.
Qed.

Lemma forallb_sptab_valid s : forallb is_sp_tab s = true -> forallb valid_value_byte s = true.
Proof.
  rewrite !forallb_forall. intros H x Hx. apply sptab_valid. auto.
Qed.

Lemma wline_facts f : wfield_ok f = true ->
  mem_byte LF (wline f) = false /\ is_nil (wline f) = false /\ mem_byte COLON (wline f) = true /\
  trim_sp_tab (wline f) = wf_name f ++ COLON :: wrest f.
Proof.
  intros H. destruct (wfield_ok_parts f H) as (Hn & Ht & Hv & He & Hpre & Hpost).
  unfold wline. repeat split.
  - rewrite mem_byte_app, mem_byte_cons, !mem_byte_app.
    rewrite (mem_byte_forall_false LF is_tchar _ tchar_not_lf Ht).
    rewrite (mem_byte_forall_false LF is_sp_tab _ sptab_not_lf Hpre).
    rewrite (mem_byte_forall_false LF valid_value_byte _ value_not_lf Hv).
    rewrite (mem_byte_forall_false LF is_sp_tab _ sptab_not_lf Hpost). reflexivity.
  - destruct (wf_name f); [contradiction|reflexivity].
  - rewrite mem_byte_app, mem_byte_cons, beqb_refl. now rewrite orb_true_r.
  - unfold trim_sp_tab, trim, trim_left.
    destruct (wf_name f) as [|n0 nm] eqn:En; [contradiction|].
    cbn [forallb] in Ht. apply andb_true_iff in Ht as [Ht0 Ht].
    cbn [app]. rewrite drop_while_head by (now apply tchar_not_sptab).
    change (n0 :: nm ++ COLON :: wf_pre f ++ wf_value f ++ wf_post f)
      with ((n0 :: nm) ++ COLON :: wf_pre f ++ wf_value f ++ wf_post f).
    replace ((n0 :: nm) ++ COLON :: wf_pre f ++ wf_value f ++ wf_post f)
      with ((((n0 :: nm) ++ [COLON]) ++ wf_pre f ++ wf_value f) ++ wf_post f)
      by (rewrite <- !app_assoc; reflexivity).
    rewrite trim_right_app_all by assumption.
    unfold wrest. destruct (wf_value f) as [|v0 vs] eqn:Ev.
    + cbn [is_nil]. rewrite app_nil_r. rewrite trim_right_app_all by assumption.
      rewrite trim_right_last by reflexivity. reflexivity.
    + cbn [is_nil]. rewrite app_assoc. rewrite no_edge_trim_right; [|discriminate|assumption].
      rewrite <- !app_assoc. reflexivity.
Qed.

Lemma wrest_facts f : wfield_ok f = true ->
  forallb valid_value_byte (wrest f) = true /\ drop_while is_sp_tab (wrest f) = wf_value f.
Proof.
  intros H. destruct (wfield_ok_parts f H) as (Hn & Ht & Hv & He & Hpre & Hpost).
  unfold wrest. destruct (wf_value f) as [|v0 vs] eqn:Ev; cbn [is_nil]; [split; reflexivity|].
  split.
  - rewrite forallb_app, Hv, (forallb_sptab_valid _ Hpre). reflexivity.
  - rewrite drop_while_app_all by assumption. now apply no_edge_trim_left.
Qed.

Lemma cont_lines_clean f bufsize buf r :
  starts_clean r -> cont_lines (S f) bufsize buf r = FOk (buf, r).
Proof. destruct r as [|x r]; [contradiction|]. cbn. intros ->. reflexivity. Qed.

Lemma canonical_key_token k :
  k <> [] -> forallb is_tchar k = true -> canonical_key k = Some (canon_name k).
Proof.
  intros Hn Ht. unfold canonical_key. destruct k; [contradiction|]. cbn [is_nil]. now rewrite Ht.
Qed.

Lemma mime_loop_step f bufsize m fld r :
  wfield_ok fld = true -> starts_clean r ->
  mime_loop (S f) bufsize m (render_wfield fld ++ r) =
  mime_loop f bufsize (hadd (canon_name (wf_name fld)) (wf_value fld) m) r.
Proof.
  intros Hok Hr.
  destruct (wline_facts fld Hok) as (Hlf & Hnil & Hcol & Htrim).
  destruct (wrest_facts fld Hok) as (Hval & Hdrop).
  destruct (wfield_ok_parts fld Hok) as (Hn & Ht & _).
  replace (render_wfield fld ++ r) with (wline fld ++ CRLF ++ r).
  2:{ unfold render_wfield, wline. rewrite <- !app_assoc. cbn [app]. rewrite <- !app_assoc. reflexivity. }
  cbn [mime_loop]. rewrite read_line_crlf by assumption. rewrite Hnil, Hcol. cbn [negb].
  rewrite cont_lines_clean by assumption. rewrite Htrim.
  rewrite cut_byte_app_hit by (apply (mem_byte_forall_false COLON is_tchar _ tchar_not_colon Ht)).
  rewrite canonical_key_token by assumption. rewrite Hval.
  unfold trim_left. rewrite Hdrop. reflexivity.
Qed.

Lemma render_wfields_clean fs rest :
  Forall (fun f => wfield_ok f = true) fs -> starts_clean (render_wfields fs ++ CRLF ++ rest).
Proof.
  intros H. destruct fs as [|f fs]; [reflexivity|].
  inversion H as [|? ? Hf _]; subst. destruct (wfield_ok_parts f Hf) as (Hn & Ht & _).
  cbn [render_wfields flat_map]. unfold render_wfield.
  destruct (wf_name f) as [|n0 nm]; [contradiction|]. cbn [app starts_clean].
  cbn [forallb] in Ht. apply andb_true_iff in Ht as [Ht0 _]. now apply tchar_not_sptab.
Qed.

Lemma mime_loop_fields bufsize fs : forall f m rest,
  Forall (fun x => wfield_ok x = true) fs -> length fs < f ->
  mime_loop f bufsize m (render_wfields fs ++ CRLF ++ rest) =
    inr (collect_from m (map field_of fs), rest).
Proof.
  induction fs as [|x fs IH]; intros f m rest Hok Hf.
  - destruct f as [|f]; [cbn in Hf; lia|]. cbn [render_wfields flat_map app].
    change (CRLF ++ rest) with ([] ++ CRLF ++ rest). cbn [mime_loop].
    rewrite read_line_crlf by reflexivity. reflexivity.
  - destruct f as [|f]; [cbn in Hf; lia|]. inversion Hok as [|? ? Hx Hfs]; subst.
    cbn [render_wfields flat_map]. fold (render_wfields fs). rewrite <- app_assoc.
    rewrite mime_loop_step; [|assumption|now apply render_wfields_clean].
    rewrite IH; [|assumption|cbn in Hf; lia]. reflexivity.
Qed.

Lemma render_wfields_length fs : length fs <= length (render_wfields fs).
Proof.
  induction fs as [|f fs IH]; [cbn; lia|].
  cbn [render_wfields flat_map length]. fold (render_wfields fs).
  unfold render_wfield. rewrite !app_length. cbn [length]. rewrite !app_length. cbn. lia.
Qed.

(* For EVERY list of well-formed fields, whatever optional whitespace surrounds the values:
   the header parser returns exactly the multimap of those fields (names canonicalised,
   values per name in emission order, blanks around values dropped and nothing else
   changed) and hands back the rest of the stream untouched. *)
Theorem mime_header_round_trip bufsize fs rest :
  Forall (fun x => wfield_ok x = true) fs ->
  read_mime_header bufsize (render_wfields fs ++ CRLF ++ rest) =
    inr (collect (map field_of fs), rest).
Proof.
  intros Hok. pose proof (render_wfields_clean fs rest Hok) as Hc.
  unfold read_mime_header.
  destruct (render_wfields fs ++ CRLF ++ rest) as [|x s] eqn:E; [contradiction|].
  cbn [starts_clean] in Hc. rewrite Hc. rewrite <- E.
  apply mime_loop_fields; [assumption|].
  rewrite app_length. pose proof (render_wfields_length fs). lia.
Qed.
