From Coq Require Import List Arith Bool Lia.
From ReqV Require Import Model.PoolKey.
Import ListNotations.

(* with the password in the key, the key determines the credentials a connection announces *)
Lemma key_determines_auth p q : key_eqb (pkey good_key p) (pkey good_key q) = true -> pauth p = pauth q.
Proof.
  unfold key_eqb, pkey, pauth; simpl.
  destruct (Nat.eqb_spec (ps_host p) 0), (Nat.eqb_spec (ps_host q) 0), (Nat.eqb_spec (ps_user p) 0), (Nat.eqb_spec (ps_user q) 0);
    simpl; intros H; auto;
    repeat (apply andb_true_iff in H; destruct H as [H ?]);
    repeat match goal with X : (_ =? _) = true |- _ => apply Nat.eqb_eq in X end; simpl in *; try congruence; try lia;
    repeat match goal with X : match ?x with 0 => true | S _ => false end = true |- _ => destruct x; [|discriminate X] end;
    try congruence.
Qed.

(* every pooled connection announces the credentials of every setting that maps to its key *)
Definition pool_ok (c : pclient) : Prop :=
  forall k a, In (k, a) (pc_idle c) -> forall q, key_eqb k (pkey good_key q) = true -> a = pauth q.

Lemma key_eqb_sym a b : key_eqb a b = key_eqb b a.
Proof. unfold key_eqb. now rewrite (Nat.eqb_sym (fst (fst a))), (Nat.eqb_sym (snd (fst a))), (Nat.eqb_sym (snd a)). Qed.

Lemma preq_ok c : pool_ok c -> pool_ok (fst (preq good_key c)) /\ snd (preq good_key c) = pauth (pc_cur c).
Proof.
  intros I. unfold preq. destruct (find _ (pc_idle c)) as [[k a]|] eqn:F; simpl.
  - split; auto. apply find_some in F. destruct F as [HI HK]. simpl in HK. apply (I k a HI). exact HK.
  - split; auto. intros k a [E|HI] q HK.
    + inversion E; subst. now apply key_determines_auth.
    + now apply (I k a HI).
Qed.

Definition pset_cur (c : pclient) (p : psetting) : pclient := {| pc_cur := p; pc_idle := pc_idle c |}.

(* histories of one client: proxy settings and requests *)
Inductive pop := OSetP (p : psetting) | OReq.
Definition pstep1 (c : pclient) (o : pop) : pclient :=
  match o with OSetP p => pset_cur c p | OReq => fst (preq good_key c) end.

Lemma pool_ok_run h : forall c, pool_ok c -> pool_ok (fold_left pstep1 h c).
Proof.
  induction h as [|o h IH]; intros c I; simpl; auto. apply IH. destruct o; simpl.
  - exact I.
  - apply preq_ok, I.
Qed.

(* FOR EVERY HISTORY of proxy settings and requests of a client: the next request announces the credentials
   of the client's CURRENT proxy setting, whatever connections earlier settings left in the pool *)
Theorem proxy_setting_governs h :
  snd (preq good_key (fold_left pstep1 h pclient0)) = pauth (pc_cur (fold_left pstep1 h pclient0)).
Proof. apply preq_ok, pool_ok_run. intros k a []. Qed.

(* with the password redacted from the key (seeded e-m1) a rotated password is not announced *)
Theorem redacted_key_refuted :
  let t := {| k_pw_in_key := false |} in
  let c1 := fst (preq t {| pc_cur := {| ps_host := 1; ps_user := 1; ps_pw := 1 |}; pc_idle := [] |}) in
  snd (preq t {| pc_cur := {| ps_host := 1; ps_user := 1; ps_pw := 2 |}; pc_idle := pc_idle c1 |}) = (1, 1).
Proof. reflexivity. Qed.
