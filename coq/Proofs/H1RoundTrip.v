(* Proofs/H1RoundTrip.v - C02: the HTTP/1.1 response reader inverts the rendering of a whole
   response: status line, header section with the framing fields anywhere in it, and the
   body in each of the three framings (declared length, chunked with any partition /
   extensions / trailers, until close), plus responses without a body by rule and skipped
   informational responses. *)
From ReqV Require Import Lib.Bytes Lib.BytesFacts Model.H1Resp Model.H1Render Model.RespRender
  Model.RespAPI Model.H1Client Proofs.H1RespProofs Proofs.RespRenderProofs.
From Coq Require Import Lia ZifyBool ZifyNat ZifyN.

(* ====================================================================== *)
(* status line                                                            *)
(* ====================================================================== *)

Definition code_ok (c : Z) : bool :=
  let t := code_text c in
  (length t =? 3) && match atoi t with Some n => (n =? c)%Z | None => false end &&
  negb (mem_byte SP t) && negb (mem_byte LF t).

(* complete finite domain: every three-digit status code *)
Lemma all_codes_ok : forallb code_ok (map Z.of_nat (seq 100 900)) = true.
Proof. vm_compute. reflexivity. Qed.

Lemma code_ok_all c : (100 <= c <= 999)%Z -> code_ok c = true.
Proof.
  intros H. pose proof all_codes_ok as A. rewrite forallb_forall in A. apply A.
  apply in_map_iff. exists (Z.to_nat c). split; [lia|]. apply in_seq. lia.
Qed.

Definition status_text (code : Z) (reason : bytes) : bytes := code_text code ++ SP :: reason.
Definition status_line_text (code : Z) (reason : bytes) : bytes := H11 ++ SP :: status_text code reason.

Lemma render_status_line_eq code reason rest :
  render_status_line code reason ++ rest = status_line_text code reason ++ CRLF ++ rest.
Proof.
  unfold render_status_line, status_line_text, status_text.
  rewrite <- !app_assoc. cbn [app]. rewrite <- !app_assoc. cbn [app]. rewrite <- !app_assoc. reflexivity.
Qed.

Lemma reason_ok_parts reason : reason_ok reason = true ->
  mem_byte LF reason = false /\ mem_byte CR reason = false.
Proof.
  unfold reason_ok. intros H. apply andb_true_iff in H as [H1 H2].
  apply negb_true_iff in H1, H2. auto.
Qed.

Lemma status_line_no_lf code reason :
  (100 <= code <= 999)%Z -> reason_ok reason = true ->
  mem_byte LF (status_line_text code reason) = false.
Proof.
  intros Hc Hr. pose proof (code_ok_all code Hc) as Ok. unfold code_ok in Ok.
  repeat (apply andb_true_iff in Ok as [Ok ?]).
  destruct (reason_ok_parts _ Hr) as [Hlf _].
  unfold status_line_text, status_text.
  rewrite mem_byte_app, mem_byte_cons, mem_byte_app, mem_byte_cons, Hlf.
  match goal with H : negb (mem_byte LF _) = true |- _ => apply negb_true_iff in H; rewrite H end.
  reflexivity.
Qed.

Lemma parse_status_line_round_trip code reason :
  (100 <= code <= 999)%Z ->
  parse_status_line (status_line_text code reason) =
    inr {| sl_proto := H11; sl_status := status_text code reason; sl_code := code;
           sl_major := 1; sl_minor := 1 |}.
Proof.
  intros Hc. pose proof (code_ok_all code Hc) as Ok. unfold code_ok in Ok.
  apply andb_true_iff in Ok as [Ok _]. apply andb_true_iff in Ok as [Ok Hsp].
  apply andb_true_iff in Ok as [Hlen Hat]. apply negb_true_iff in Hsp.
  unfold parse_status_line, status_line_text.
  rewrite cut_byte_app_hit by reflexivity.
  unfold status_text.
  destruct (code_text code) as [|a [|b [|c [|d t]]]] eqn:Et; try discriminate Hlen.
  assert (Ha : beqb SP a = false).
  { rewrite mem_byte_cons in Hsp. apply orb_false_iff in Hsp as [Hsp _]. exact Hsp. }
  cbn [app]. rewrite drop_while_head by exact Ha.
  change (a :: b :: c :: SP :: reason) with ([a; b; c] ++ SP :: reason).
  rewrite cut_byte_app_hit by exact Hsp.
  cbn [length Nat.eqb negb].
  destruct (atoi [a; b; c]) as [n|]; [|discriminate].
  apply Z.eqb_eq in Hat. subst n.
  destruct (Z.ltb_spec code 0); [lia|]. reflexivity.
Qed.

Lemma read_status_line bufsize code reason rest :
  (100 <= code <= 999)%Z -> reason_ok reason = true ->
  read_line bufsize (render_status_line code reason ++ rest) =
    Some (status_line_text code reason, rest).
Proof.
  intros Hc Hr. rewrite render_status_line_eq.
  apply read_line_crlf. now apply status_line_no_lf.
Qed.

(* ====================================================================== *)
(* header multimap: lookups through deletions                             *)
(* ====================================================================== *)

Lemma hget_collect_without k k' F :
  bytes_eqb k k' = false -> hget k (collect (without k' F)) = hget k (collect F).
Proof. intros H. rewrite !hget_collect. now rewrite values_of_without_other. Qed.

Lemma hget_collect_without_same k F : hget k (collect (without k F)) = None.
Proof. rewrite hget_collect. now rewrite values_of_without_same. Qed.

Lemma hget_list_collect k F : hget_list k (collect F) = values_of k F.
Proof. unfold hget_list. rewrite hget_collect. destruct (values_of k F); reflexivity. Qed.

Lemma hdel_absent k m : hget k m = None -> hdel k m = m.
Proof.
  induction m as [|[k0 vs] m IH]; cbn [hget hdel]; [reflexivity|].
  destruct (bytes_eqb k k0); [discriminate|]. intros H. now rewrite IH.
Qed.

Lemma without_absent k F : values_of k F = [] -> without k F = F.
Proof.
  induction F as [|f F IH]; [reflexivity|]. rewrite values_of_cons. cbn [without filter].
  fold (without k F). destruct (named k f); [discriminate|]. cbn [negb]. intros H. now rewrite IH.
Qed.

(* the header the caller sees: "Connection: close" is consumed by the transport *)
Definition conn_values (F : list field) : list bytes := values_of K_CONNECTION F.
Definition wants_close (F : list field) : bool := header_values_contain_token (conn_values F) (bs "close").
Definition after_conn (F : list field) : list field :=
  if wants_close F then without K_CONNECTION F else F.

Lemma should_close_collect F :
  should_close 1 1 (collect F) = (wants_close F, collect (after_conn F)).
Proof.
  unfold should_close, after_conn, wants_close, conn_values. cbn [Z.ltb Z.compare Z.eqb andb].
  change (match hget K_CONNECTION (collect F) with Some v => v | None => [] end)
    with (hget_list K_CONNECTION (collect F)).
  rewrite hget_list_collect.
  destruct (header_values_contain_token (values_of K_CONNECTION F) (bs "close")); [|reflexivity].
  now rewrite hdel_collect.
Qed.

Lemma values_after_conn k F :
  bytes_eqb k K_CONNECTION = false -> values_of k (after_conn F) = values_of k F.
Proof.
  intros H. unfold after_conn. destruct (wants_close F); [|reflexivity].
  now apply values_of_without_other.
Qed.

(* ====================================================================== *)
(* readTransfer on a rendered header section                              *)
(* ====================================================================== *)

Definition sl11 (code : Z) (reason : bytes) : status_line :=
  {| sl_proto := H11; sl_status := status_text code reason; sl_code := code;
     sl_major := 1; sl_minor := 1 |}.

Definition no_field (k : bytes) (F : list field) : Prop := values_of k F = [].

Lemma body_allowed_not_1xx code :
  (100 <= code)%Z -> body_allowed_for_status code = true ->
  (code / 100 =? 1)%Z = false /\ ((code =? 204)%Z || (code =? 304)%Z) = false.
Proof.
  unfold body_allowed_for_status. intros Hc H. apply negb_true_iff in H.
  apply orb_false_iff in H as [H H304]. apply orb_false_iff in H as [H1 H204].
  split; [|now rewrite H204, H304].
  apply Z.eqb_neq. intros E.
  assert (100 <= code <= 199)%Z.
  { pose proof (Z.div_mod code 100 ltac:(lia)). pose proof (Z.mod_pos_bound code 100 ltac:(lia)). lia. }
  lia.
Qed.

Lemma digits_val_nonneg s : forall acc m, (0 <= acc)%Z -> digits_val acc s = Some m -> (0 <= m)%Z.
Proof.
  induction s as [|b s IH]; cbn [digits_val]; intros acc m Ha E; [inversion E; lia|].
  unfold digit_val in E. destruct (is_digit b) eqn:Ed; [|discriminate].
  eapply IH; [|exact E]. unfold is_digit in Ed. lia.
Qed.

Lemma parse_uint63_nonneg s n : parse_uint63 s = Some n -> (0 <= n)%Z.
Proof.
  unfold parse_uint63. destruct (is_nil s); [discriminate|].
  destruct (digits_val 0 s) as [m|] eqn:E; [|discriminate].
  destruct (Z.ltb m (2 ^ 63)); intros H; inversion H; subst.
  eapply digits_val_nonneg; [|exact E]. lia.
Qed.

Lemma fix_trailer_not_chunked h : fix_trailer h false = inr ([], h).
Proof. unfold fix_trailer. destruct (hget K_TRAILER h); reflexivity. Qed.

Section Transfer.
  Variable code : Z.
  Variable reason : bytes.
  Variable meth : bytes.
  Variable F : list field.
  Hypothesis Hcode : (100 <= code <= 999)%Z.

  Let F' := after_conn F.

  Lemma pte_absent : no_field K_TE F ->
    parse_transfer_encoding 1 1 (collect F') = inr (false, collect F').
  Proof.
    intros H. unfold parse_transfer_encoding. rewrite hget_collect.
    unfold F'. rewrite values_after_conn by reflexivity. now rewrite H.
  Qed.

  Lemma pte_chunked v : values_of K_TE F = [v] -> bytes_eqb (to_lower v) (bs "chunked") = true ->
    parse_transfer_encoding 1 1 (collect F') = inr (true, collect (without K_TE F')).
  Proof.
    intros H Hv. unfold parse_transfer_encoding. rewrite hget_collect.
    unfold F'. rewrite values_after_conn by reflexivity. rewrite H.
    cbn [Z.gtb Z.compare Z.eqb Z.geb andb orb negb]. rewrite Hv. now rewrite hdel_collect.
  Qed.

  (* declared length *)
  Lemma read_transfer_cl t n :
    is_head meth = false -> body_allowed_for_status code = true ->
    no_field K_TE F -> values_of K_CL F = [t] -> parse_uint63 (trim_string t) = Some n ->
    read_transfer meth (sl11 code reason) (collect F) =
      inr {| r_proto := H11; r_code := code; r_status := status_text code reason;
             r_header := collect F'; r_content_length := n; r_chunked := false;
             r_close := wants_close F;
             r_framing := if (n =? 0)%Z then FrNone else FrLength n;
             r_trailer_declared := [] |}.
  Proof.
    intros Hhead Hallow Hte Hcl Hn.
    destruct (body_allowed_not_1xx code ltac:(lia) Hallow) as [H1xx H204].
    pose proof (parse_uint63_nonneg _ _ Hn) as Hn0.
    unfold read_transfer, sl11. cbn [sl_major sl_minor sl_code sl_proto sl_status].
    rewrite should_close_collect. fold F'. cbn [Z.eqb andb].
    rewrite pte_absent by assumption.
    unfold fix_length.
    change (match hget K_CL (collect F') with Some v => v | None => [] end)
      with (hget_list K_CL (collect F')).
    assert (HclF : values_of K_CL F' = [t]).
    { unfold F'. rewrite values_after_conn by reflexivity. exact Hcl. }
    rewrite hget_list_collect, HclF.
    cbn [is_nil parse_content_length]. rewrite Hn, Hhead, H1xx, H204. cbn [negb is_nil].
    rewrite fix_trailer_not_chunked.
    destruct (Z.eqb_spec n (-1)); [lia|]. cbn [andb orb].
    rewrite orb_false_r.
    destruct (Z.eqb_spec n 0) as [->|Hne]; [reflexivity|].
    destruct (Z.gtb_spec n 0); [reflexivity|lia].
  Qed.

  (* what the Trailer header announces *)
  Definition declared_keys : list bytes :=
    map canonical_header_key (flat_map header_elements (values_of K_TRAILER F)).
  Definition declared_trailer : hmap := fold_left (fun t k => hset k [] t) declared_keys [].

  (* chunked *)
  Lemma read_transfer_chunked v :
    is_head meth = false -> body_allowed_for_status code = true ->
    values_of K_TE F = [v] -> bytes_eqb (to_lower v) (bs "chunked") = true ->
    no_field K_CL F -> existsb bad_trailer_key declared_keys = false ->
    read_transfer meth (sl11 code reason) (collect F) =
      inr {| r_proto := H11; r_code := code; r_status := status_text code reason;
             r_header := collect (without K_TRAILER (without K_TE F'));
             r_content_length := -1; r_chunked := true;
             r_close := wants_close F; r_framing := FrChunked;
             r_trailer_declared := declared_trailer |}.
  Proof.
    intros Hhead Hallow Hte Hv Hcl Hbad.
    destruct (body_allowed_not_1xx code ltac:(lia) Hallow) as [H1xx H204].
    unfold read_transfer, sl11. cbn [sl_major sl_minor sl_code sl_proto sl_status].
    rewrite should_close_collect. fold F'. cbn [Z.eqb andb].
    rewrite (pte_chunked v) by assumption.
    assert (HclF : values_of K_CL (without K_TE F') = []).
    { rewrite values_of_without_other by reflexivity. unfold F'.
      rewrite values_after_conn by reflexivity. exact Hcl. }
    unfold fix_length.
    change (match hget K_CL (collect (without K_TE F')) with Some v0 => v0 | None => [] end)
      with (hget_list K_CL (collect (without K_TE F'))).
    rewrite hget_list_collect, HclF. cbn [is_nil]. rewrite Hhead, H1xx, H204.
    rewrite hdel_collect, (without_absent K_CL) by exact HclF.
    unfold fix_trailer. rewrite hget_collect.
    assert (Htv : values_of K_TRAILER (without K_TE F') = values_of K_TRAILER F).
    { rewrite values_of_without_other by reflexivity. unfold F'.
      now rewrite values_after_conn by reflexivity. }
    rewrite Htv. cbn [negb].
    destruct (values_of K_TRAILER F) as [|tv0 tvs] eqn:Etv.
    - (* no Trailer header *)
      rewrite (without_absent K_TRAILER) by (now rewrite Htv).
      unfold declared_trailer, declared_keys. rewrite Etv. cbn [flat_map map fold_left].
      rewrite Hallow. cbn [Z.eqb andb orb negb]. rewrite orb_false_r. reflexivity.
    - unfold declared_keys in Hbad. rewrite Etv in Hbad. rewrite Hbad.
      rewrite hdel_collect. unfold declared_trailer, declared_keys. rewrite Etv.
      rewrite Hallow. cbn [Z.eqb andb orb negb]. rewrite orb_false_r. reflexivity.
  Qed.

  (* neither a length nor chunked: the body runs until the connection closes *)
  Lemma read_transfer_close :
    is_head meth = false -> body_allowed_for_status code = true ->
    no_field K_TE F -> no_field K_CL F ->
    read_transfer meth (sl11 code reason) (collect F) =
      inr {| r_proto := H11; r_code := code; r_status := status_text code reason;
             r_header := collect F'; r_content_length := -1; r_chunked := false;
             r_close := true; r_framing := FrUntilClose; r_trailer_declared := [] |}.
  Proof.
    intros Hhead Hallow Hte Hcl.
    destruct (body_allowed_not_1xx code ltac:(lia) Hallow) as [H1xx H204].
    unfold read_transfer, sl11. cbn [sl_major sl_minor sl_code sl_proto sl_status].
    rewrite should_close_collect. fold F'. cbn [Z.eqb andb].
    rewrite pte_absent by assumption.
    assert (HclF : values_of K_CL F' = []).
    { unfold F'. rewrite values_after_conn by reflexivity. exact Hcl. }
    unfold fix_length.
    change (match hget K_CL (collect F') with Some v => v | None => [] end)
      with (hget_list K_CL (collect F')).
    rewrite hget_list_collect, HclF. cbn [is_nil]. rewrite Hhead, H1xx, H204. cbn [negb].
    rewrite hdel_collect, (without_absent K_CL) by exact HclF.
    rewrite fix_trailer_not_chunked. cbn [Z.eqb negb andb]. rewrite Hallow, orb_true_r. reflexivity.
  Qed.

  (* no body by rule: HEAD, 1xx, 204, 304 (no Transfer-Encoding; Content-Length absent or one
     valid value: it then describes the selected representation, not this message) *)
  Definition no_body_by_rule : bool :=
    is_head meth || negb (body_allowed_for_status code).

  Lemma read_transfer_nobody cls :
    no_body_by_rule = true -> no_field K_TE F ->
    values_of K_CL F = cls ->
    (cls = [] \/ exists t n, cls = [t] /\ parse_uint63 (trim_string t) = Some n) ->
    exists cl close,
    read_transfer meth (sl11 code reason) (collect F) =
      inr {| r_proto := H11; r_code := code; r_status := status_text code reason;
             r_header := collect F'; r_content_length := cl; r_chunked := false;
             r_close := close; r_framing := FrNone; r_trailer_declared := [] |}.
  Proof.
    intros Hrule Hte Hcl Hshape.
    unfold read_transfer, sl11. cbn [sl_major sl_minor sl_code sl_proto sl_status].
    rewrite should_close_collect. fold F'. cbn [Z.eqb andb].
    rewrite pte_absent by assumption.
    assert (HclF : values_of K_CL F' = cls).
    { unfold F'. rewrite values_after_conn by reflexivity. exact Hcl. }
    unfold fix_length.
    change (match hget K_CL (collect F') with Some v => v | None => [] end)
      with (hget_list K_CL (collect F')).
    rewrite hget_list_collect, HclF.
    assert (Hnb : is_head meth = true \/
                  (is_head meth = false /\
                   ((code / 100 =? 1)%Z = true \/ ((code =? 204)%Z || (code =? 304)%Z) = true))).
    { unfold no_body_by_rule in Hrule. destruct (is_head meth); [now left|right]. split; [reflexivity|].
      cbn [orb] in Hrule. apply negb_true_iff in Hrule. unfold body_allowed_for_status in Hrule.
      apply negb_false_iff in Hrule.
      destruct ((code =? 204)%Z || (code =? 304)%Z) eqn:E; [now right|left].
      apply orb_false_iff in E as [E1 E2]. rewrite E1, E2, !orb_false_r in Hrule.
      apply Z.eqb_eq.
      pose proof (Z.div_mod code 100 ltac:(lia)). pose proof (Z.mod_pos_bound code 100 ltac:(lia)). lia. }
    destruct Hshape as [->|(t & n & -> & Hn)].
    - cbn [is_nil].
      destruct Hnb as [Hh|[Hh [H1|H2]]].
      + rewrite Hh. rewrite fix_trailer_not_chunked.
        change (match hget K_CL (collect F') with Some v => v | None => [] end)
          with (hget_list K_CL (collect F')).
        rewrite hget_list_collect, HclF. cbn [parse_content_length].
        eexists. eexists. cbn [Z.eqb andb orb negb]. rewrite orb_false_r. reflexivity.
      + rewrite Hh, H1. rewrite fix_trailer_not_chunked. cbn [Z.eqb andb orb negb]. rewrite orb_false_r.
        eexists. eexists. reflexivity.
      + rewrite Hh, H2. destruct (code / 100 =? 1)%Z; rewrite fix_trailer_not_chunked;
          cbn [Z.eqb andb orb negb]; rewrite orb_false_r; eexists; eexists; reflexivity.
    - cbn [is_nil parse_content_length]. rewrite Hn.
      destruct Hnb as [Hh|[Hh [H1|H2]]].
      + rewrite Hh. rewrite fix_trailer_not_chunked.
        change (match hget K_CL (collect F') with Some v => v | None => [] end)
          with (hget_list K_CL (collect F')).
        rewrite hget_list_collect, HclF. cbn [parse_content_length]. rewrite Hn.
        eexists. eexists. cbn [Z.eqb andb orb negb]. rewrite orb_false_r. reflexivity.
      + rewrite Hh, H1. rewrite fix_trailer_not_chunked. cbn [Z.eqb andb orb negb]. rewrite orb_false_r.
        eexists. eexists. reflexivity.
      + rewrite Hh, H2. destruct (code / 100 =? 1)%Z; rewrite fix_trailer_not_chunked;
          cbn [Z.eqb andb orb negb]; rewrite orb_false_r; eexists; eexists; reflexivity.
  Qed.
End Transfer.

(* ====================================================================== *)
(* the head of a response                                                 *)
(* ====================================================================== *)

(* net/http's Pragma rule (RFC 7234 5.4) is the one place where the HTTP/1.x reader invents a
   header; [pragma_neutral] = it does not fire (no "Pragma: no-cache" first, or a
   Cache-Control field is present) *)
Definition pragma_neutral (F : list field) : Prop :=
  fix_pragma_cache_control (collect F) = collect F.

Lemma pragma_neutral_no_pragma F : values_of K_PRAGMA F = [] -> pragma_neutral F.
Proof.
  intros H. unfold pragma_neutral, fix_pragma_cache_control. rewrite hget_collect, H. reflexivity.
Qed.

Lemma pragma_neutral_with_cache_control F : values_of K_CACHE F <> [] -> pragma_neutral F.
Proof.
  intros H. unfold pragma_neutral, fix_pragma_cache_control. rewrite !hget_collect.
  destruct (values_of K_PRAGMA F) as [|v vs]; [reflexivity|].
  destruct (bytes_eqb v (bs "no-cache")); [|reflexivity].
  destruct (values_of K_CACHE F); [contradiction|reflexivity].
Qed.

Definition fields_ok (fs : list wfield) : Prop := Forall (fun x => wfield_ok x = true) fs.

Lemma read_head meth bufsize code reason fs rest :
  (100 <= code <= 999)%Z -> reason_ok reason = true -> fields_ok fs ->
  pragma_neutral (map field_of fs) ->
  read_response_head meth bufsize (render_head code reason fs ++ rest) =
    match read_transfer meth (sl11 code reason) (collect (map field_of fs)) with
    | inl e => inl e
    | inr r => inr (r, rest)
    end.
Proof.
  intros Hc Hr Hfs Hp. unfold read_response_head, render_head.
  rewrite <- !app_assoc. rewrite read_status_line by assumption.
  rewrite parse_status_line_round_trip by assumption.
  rewrite mime_header_round_trip by assumption. rewrite Hp. reflexivity.
Qed.

(* ====================================================================== *)
(* whole responses                                                        *)
(* ====================================================================== *)

Definition trailer_fits (bufsize : nat) (tfs : list wfield) : Prop :=
  tfs = [] \/ length (render_wfields tfs) + 2 <= bufsize.

Lemma contains_sub_mid p a : forall b n, exists k, index_sub_from n p (a ++ p ++ b) = Some k.
Proof.
  induction a as [|x a IH]; intros b n.
  - cbn [app]. destruct (p ++ b) eqn:E; cbn [index_sub_from];
      rewrite <- E, has_prefix_refl_app; eauto.
  - cbn [app index_sub_from]. destruct (has_prefix p (x :: a ++ p ++ b)); eauto.
Qed.

Lemma render_wfields_ends_crlf l : l <> [] -> exists X, render_wfields l = X ++ CRLF.
Proof.
  induction l as [|a l IH]; [congruence|]. intros _. destruct l as [|b l].
  - cbn [render_wfields flat_map]. rewrite app_nil_r. unfold render_wfield.
    exists (wf_name a ++ COLON :: wf_pre a ++ wf_value a ++ wf_post a).
    rewrite <- !app_assoc. cbn [app]. rewrite <- !app_assoc. reflexivity.
  - destruct (IH ltac:(discriminate)) as [X EX].
    exists (render_wfield a ++ X). cbn [render_wfields flat_map] in *.
    rewrite EX. now rewrite app_assoc.
Qed.

Lemma read_trailer_round_trip bufsize tfs rest :
  fields_ok tfs -> trailer_fits bufsize tfs ->
  read_trailer bufsize (render_wfields tfs ++ CRLF ++ rest) = inr (collect (map field_of tfs), rest).
Proof.
  intros Hok Hfit. destruct tfs as [|f0 fr].
  - reflexivity.
  - destruct Hfit as [Hf|Hfit]; [discriminate|].
    inversion Hok as [|? ? Hf0 Hfr]; subst.
    destruct (wfield_ok_parts f0 Hf0) as (Hn & Ht & _).
    unfold read_trailer.
    (* the section starts with a token byte, so it is not the empty trailer *)
    assert (Hsh : exists c1 c2 s', render_wfields (f0 :: fr) ++ CRLF ++ rest = c1 :: c2 :: s' /\ beqb c1 CR = false).
    { cbn [render_wfields flat_map]. unfold render_wfield.
      destruct (wf_name f0) as [|n0 nm]; [contradiction|].
      cbn [forallb] in Ht. apply andb_true_iff in Ht as [Ht0 _].
      assert (beqb n0 CR = false) by (destruct n0; try reflexivity; discriminate Ht0).
      destruct nm as [|n1 nm]; cbn [app]; eauto. }
    destruct Hsh as (c1 & c2 & s' & Es & Hc1). rewrite Es. rewrite Hc1. cbn [andb].
    rewrite <- Es.
    (* the terminating CRLFCRLF lies within one buffer *)
    assert (Hsee : see_upcoming_double_crlf bufsize (render_wfields (f0 :: fr) ++ CRLF ++ rest) = true).
    { unfold see_upcoming_double_crlf.
      replace (render_wfields (f0 :: fr) ++ CRLF ++ rest)
        with ((render_wfields (f0 :: fr) ++ CRLF) ++ rest) by (now rewrite <- app_assoc).
      rewrite firstn_app.
      rewrite firstn_all2 by (rewrite app_length; cbn [CRLF length]; lia).
      apply contains_sub_app.
      destruct (render_wfields_ends_crlf (f0 :: fr) ltac:(discriminate)) as [X ->].
      rewrite <- app_assoc.
      change (CRLF ++ CRLF) with (double_crlf ++ []).
      unfold contains_sub, index_sub.
      destruct (contains_sub_mid double_crlf X [] 0) as [k ->]. reflexivity. }
    rewrite Hsee. cbn [negb].
    rewrite mime_header_round_trip by (constructor; assumption). reflexivity.
Qed.

Section Whole.
  Variable meth : bytes.
  Variable bufsize : nat.
  Variable code : Z.
  Variable reason : bytes.
  Variable fs : list wfield.
  Let F := map field_of fs.
  Hypothesis Hcode : (100 <= code <= 999)%Z.
  Hypothesis Hreason : reason_ok reason = true.
  Hypothesis Hfs : fields_ok fs.
  Hypothesis Hpragma : pragma_neutral F.

  (* declared length *)
  Theorem h1_cl_round_trip t body rest :
    is_head meth = false -> body_allowed_for_status code = true ->
    no_field K_TE F -> values_of K_CL F = [t] ->
    parse_uint63 (trim_string t) = Some (Z.of_nat (length body)) ->
    parse_response meth bufsize (render_head code reason fs ++ body ++ rest) =
      Accepted
        {| r_proto := H11; r_code := code; r_status := status_text code reason;
           r_header := collect (after_conn F); r_content_length := Z.of_nat (length body);
           r_chunked := false; r_close := wants_close F;
           r_framing := if (Z.of_nat (length body) =? 0)%Z then FrNone else FrLength (Z.of_nat (length body));
           r_trailer_declared := [] |}
        {| b_data := body; b_end := BOk; b_trailer := []; b_rest := rest |}.
  Proof.
    intros Hh Ha Hte Hcl Hn. unfold parse_response.
    rewrite read_head by assumption. fold F.
    rewrite (read_transfer_cl code reason meth F Hcode t _ Hh Ha Hte Hcl Hn).
    unfold read_body. cbn [r_framing r_trailer_declared].
    destruct (Z.eqb_spec (Z.of_nat (length body)) 0) as [E|E].
    - destruct body; [reflexivity|cbn in E; lia].
    - destruct (Z.ltb_spec (Z.of_nat (length (body ++ rest))) (Z.of_nat (length body))) as [G|_].
      { rewrite app_length in G. lia. }
      rewrite Nat2Z.id, firstn_app_exact, skipn_app_exact. reflexivity.
  Qed.

  (* until close *)
  Theorem h1_close_round_trip body :
    is_head meth = false -> body_allowed_for_status code = true ->
    no_field K_TE F -> no_field K_CL F ->
    parse_response meth bufsize (render_head code reason fs ++ body) =
      Accepted
        {| r_proto := H11; r_code := code; r_status := status_text code reason;
           r_header := collect (after_conn F); r_content_length := -1;
           r_chunked := false; r_close := true; r_framing := FrUntilClose;
           r_trailer_declared := [] |}
        {| b_data := body; b_end := BOk; b_trailer := []; b_rest := [] |}.
  Proof.
    intros Hh Ha Hte Hcl. unfold parse_response.
    rewrite read_head by assumption. fold F.
    rewrite (read_transfer_close code reason meth F Hcode Hh Ha Hte Hcl). reflexivity.
  Qed.

  (* no body by rule *)
  Theorem h1_nobody_round_trip cls rest :
    no_body_by_rule code meth = true -> no_field K_TE F -> values_of K_CL F = cls ->
    (cls = [] \/ exists t n, cls = [t] /\ parse_uint63 (trim_string t) = Some n) ->
    exists r,
    parse_response meth bufsize (render_head code reason fs ++ rest) =
      Accepted r {| b_data := []; b_end := BOk; b_trailer := []; b_rest := rest |} /\
    r_code r = code /\ r_status r = status_text code reason /\
    r_header r = collect (after_conn F) /\ r_framing r = FrNone.
  Proof.
    intros Hrule Hte Hcl Hshape. unfold parse_response.
    rewrite read_head by assumption. fold F.
    destruct (read_transfer_nobody code reason meth F cls Hrule Hte Hcl Hshape) as (cl & close & E).
    rewrite E. eexists. split; [reflexivity|]. cbn. repeat split; reflexivity.
  Qed.

  (* chunked, any partition, any size-line spelling / extensions, trailers *)
  Variable tfs : list wfield.
  Let T := map field_of tfs.

  Theorem h1_chunked_round_trip v cs l0 rest :
    is_head meth = false -> body_allowed_for_status code = true ->
    values_of K_TE F = [v] -> bytes_eqb (to_lower v) (bs "chunked") = true ->
    no_field K_CL F -> existsb bad_trailer_key (declared_keys F) = false ->
    chunks_ok bufsize 0 cs -> size_line_ok bufsize l0 0 ->
    fields_ok tfs -> trailer_fits bufsize tfs ->
    parse_response meth bufsize
      (render_head code reason fs ++ render_chunks cs ++ l0 ++ CRLF ++ render_wfields tfs ++ CRLF ++ rest) =
      Accepted
        {| r_proto := H11; r_code := code; r_status := status_text code reason;
           r_header := collect (without K_TRAILER (without K_TE (after_conn F)));
           r_content_length := -1; r_chunked := true; r_close := wants_close F;
           r_framing := FrChunked; r_trailer_declared := declared_trailer F |}
        {| b_data := concat (map snd cs); b_end := BOk;
           b_trailer := merge_set_header (declared_trailer F) (collect T); b_rest := rest |}.
  Proof.
    intros Hh Ha Hte Hv Hcl Hbad Hcs Hl0 Htok Hfit. unfold parse_response.
    rewrite read_head by assumption. fold F.
    rewrite (read_transfer_chunked code reason meth F Hcode v Hh Ha Hte Hv Hcl Hbad).
    unfold read_body. cbn [r_framing r_trailer_declared].
    rewrite chunked_round_trip by assumption.
    rewrite read_trailer_round_trip by assumption. reflexivity.
  Qed.
End Whole.

(* ====================================================================== *)
(* informational responses are skipped; the exchange as a whole           *)
(* ====================================================================== *)

Record interim := { i_code : Z; i_reason : bytes; i_fields : list wfield }.

Definition render_interim (i : interim) : bytes := render_head (i_code i) (i_reason i) (i_fields i).
Definition render_interims (l : list interim) : bytes := flat_map render_interim l.

(* 1xx other than 101, no framing fields *)
Definition interim_ok (i : interim) : Prop :=
  (100 <= i_code i <= 199)%Z /\ i_code i <> 101%Z /\ reason_ok (i_reason i) = true /\
  fields_ok (i_fields i) /\ pragma_neutral (map field_of (i_fields i)) /\
  no_field K_TE (map field_of (i_fields i)) /\ no_field K_CL (map field_of (i_fields i)).

Lemma read_head_interim meth bufsize i rest :
  interim_ok i ->
  exists r, read_response_head meth bufsize (render_interim i ++ rest) = inr (r, rest) /\
            r_code r = i_code i.
Proof.
  intros (Hc & H101 & Hr & Hf & Hp & Hte & Hcl). unfold render_interim.
  rewrite read_head; [|lia|assumption..].
  assert (Hrule : no_body_by_rule (i_code i) meth = true).
  { unfold no_body_by_rule, body_allowed_for_status.
    destruct (Z.leb_spec 100 (i_code i)); [|lia]. destruct (Z.leb_spec (i_code i) 199); [|lia].
    cbn. now rewrite orb_true_r. }
  destruct (read_transfer_nobody (i_code i) (i_reason i) meth _ [] Hrule Hte Hcl (or_introl eq_refl))
    as (cl & close & E).
  rewrite E. eexists. split; reflexivity.
Qed.

Lemma read_final_skip meth bufsize : forall ims fuel k w,
  Forall interim_ok ims -> k + length ims <= max_1xx -> length ims < fuel ->
  read_final fuel meth bufsize k (render_interims ims ++ w) =
  read_final (fuel - length ims) meth bufsize (k + length ims) w.
Proof.
  induction ims as [|i ims IH]; intros fuel k w Hok Hk Hf.
  - cbn [render_interims flat_map app length]. now rewrite Nat.sub_0_r, Nat.add_0_r.
  - inversion Hok as [|? ? Hi His]; subst. destruct fuel as [|f]; [cbn in Hf; lia|].
    cbn [render_interims flat_map]. fold (render_interims ims). rewrite <- app_assoc.
    cbn [read_final].
    destruct (read_head_interim meth bufsize i (render_interims ims ++ w) Hi) as (r & -> & Hrc).
    destruct Hi as (Hc & H101 & _).
    assert (H1 : is_1xx_nonterminal (r_code r) = true).
    { rewrite Hrc. unfold is_1xx_nonterminal.
      destruct (Z.leb_spec 100 (i_code i)); [|lia]. destruct (Z.leb_spec (i_code i) 199); [|lia].
      destruct (Z.eqb_spec (i_code i) 101); [contradiction|reflexivity]. }
    rewrite H1. cbn [length] in *.
    destruct (Nat.ltb_spec max_1xx (S k)); [lia|].
    rewrite IH; [|assumption|lia|lia].
    replace (S k + length ims) with (k + S (length ims)) by lia. reflexivity.
Qed.

(* At most five informational responses (any 1xx but 101, with any header fields) in front of
   the final response change nothing: the caller gets the final response. *)
Theorem final_after_interims meth ims w r rest :
  Forall interim_ok ims -> length ims <= max_1xx ->
  read_response_head meth br_size w = inr (r, rest) -> is_1xx_nonterminal (r_code r) = false ->
  read_final_response meth (render_interims ims ++ w) = FinOk r rest.
Proof.
  intros Hok Hlen Hw Hfin. unfold read_final_response.
  rewrite read_final_skip; [|assumption|cbn; lia|unfold max_1xx in *; lia].
  cbn [Nat.add]. unfold max_1xx in *.
  destruct (S (S 5) - length ims) as [|f] eqn:E; [lia|].
  cbn [read_final]. rewrite Hw, Hfin. reflexivity.
Qed.

Lemma parse_response_accepted meth bufsize s r b :
  parse_response meth bufsize s = Accepted r b ->
  exists rest, read_response_head meth bufsize s = inr (r, rest) /\ b = read_body bufsize r rest.
Proof.
  unfold parse_response. destruct (read_response_head meth bufsize s) as [e|[r' rest]]; [discriminate|].
  intros H. inversion H; subst. eauto.
Qed.

(* what the caller of the real client obtains for one exchange: the final response, its body
   and trailers, through the read mode it chose *)
Lemma not_101_no_switch r : r_code r <> 101%Z -> is_switch r = false.
Proof. intros H. unfold is_switch. destruct (Z.eqb_spec (r_code r) 101); [contradiction|reflexivity]. Qed.

Theorem h1_delivery meth m sizes ims w r b :
  Forall interim_ok ims -> length ims <= max_1xx ->
  parse_response meth br_size w = Accepted r b -> (r_code r < 100 \/ 199 < r_code r)%Z ->
  h1_exchange meth m sizes (render_interims ims ++ w) =
    Some {| d_resp := r; d_body := b; d_api := run_mode m (r_code r) sizes (body_reader b) |}.
Proof.
  intros Hok Hlen Hp Hfin. destruct (parse_response_accepted _ _ _ _ _ Hp) as (rest & Hh & ->).
  assert (N1 : is_1xx_nonterminal (r_code r) = false).
  { unfold is_1xx_nonterminal. destruct (Z.leb_spec 100 (r_code r)); destruct (Z.leb_spec (r_code r) 199);
      try reflexivity. lia. }
  unfold h1_exchange. rewrite (final_after_interims meth ims w r rest) by assumption.
  unfold final_body. rewrite not_101_no_switch by lia. reflexivity.
Qed.

(* the informational responses are reported to the caller (httptrace.Got1xxResponse) with
   exactly their own status and header multimap, in order *)
Lemma read_head_interim_header meth bufsize i rest :
  interim_ok i ->
  exists r, read_response_head meth bufsize (render_interim i ++ rest) = inr (r, rest) /\
            r_code r = i_code i /\ r_header r = collect (after_conn (map field_of (i_fields i))).
Proof.
  intros (Hc & H101 & Hr & Hf & Hp & Hte & Hcl). unfold render_interim.
  rewrite read_head; [|lia|assumption..].
  assert (Hrule : no_body_by_rule (i_code i) meth = true).
  { unfold no_body_by_rule, body_allowed_for_status.
    destruct (Z.leb_spec 100 (i_code i)); [|lia]. destruct (Z.leb_spec (i_code i) 199); [|lia].
    cbn. now rewrite orb_true_r. }
  destruct (read_transfer_nobody (i_code i) (i_reason i) meth _ [] Hrule Hte Hcl (or_introl eq_refl))
    as (cl & close & E).
  rewrite E. eexists. repeat split; reflexivity.
Qed.

Theorem interim_heads_delivered meth : forall ims fuel w r rest,
  Forall interim_ok ims -> length ims < fuel ->
  read_response_head meth br_size w = inr (r, rest) -> is_1xx_nonterminal (r_code r) = false ->
  interim_heads fuel meth br_size (render_interims ims ++ w) =
    map (fun i => (i_code i, collect (after_conn (map field_of (i_fields i))))) ims.
Proof.
  induction ims as [|i ims IH]; intros fuel w r rest Hok Hf Hw Hfin.
  - destruct fuel as [|f]; [cbn in Hf; lia|]. cbn [render_interims flat_map app map interim_heads].
    rewrite Hw, Hfin. reflexivity.
  - inversion Hok as [|? ? Hi His]; subst. destruct fuel as [|f]; [cbn in Hf; lia|].
    cbn [render_interims flat_map]. fold (render_interims ims). rewrite <- app_assoc.
    cbn [interim_heads map].
    destruct (read_head_interim_header meth br_size i (render_interims ims ++ w) Hi) as (r0 & -> & Hrc & Hrh).
    destruct Hi as (Hc & H101 & _).
    assert (H1 : is_1xx_nonterminal (r_code r0) = true).
    { rewrite Hrc. unfold is_1xx_nonterminal.
      destruct (Z.leb_spec 100 (i_code i)); [|lia]. destruct (Z.leb_spec (i_code i) 199); [|lia].
      destruct (Z.eqb_spec (i_code i) 101); [contradiction|reflexivity]. }
    rewrite H1, Hrc, Hrh. f_equal. eapply IH; try eassumption. cbn in Hf. lia.
Qed.

(* 101 Switching Protocols with Upgrade + "Connection: upgrade": the head is delivered like any
   other, and Body hands the caller exactly the bytes that follow it, until the peer closes *)
Theorem h1_upgrade_delivery meth m sizes reason fs u us rest :
  reason_ok reason = true -> fields_ok fs -> pragma_neutral (map field_of fs) ->
  no_field K_TE (map field_of fs) -> no_field K_CL (map field_of fs) ->
  values_of K_UPGRADE (map field_of fs) = u :: us -> u <> [] ->
  header_values_contain_token (values_of K_CONNECTION (map field_of fs)) (bs "Upgrade") = true ->
  wants_close (map field_of fs) = false ->
  exists r,
    h1_exchange meth m sizes (render_head 101 reason fs ++ rest) =
      Some {| d_resp := r; d_body := switch_body r rest;
              d_api := run_mode m 101 sizes {| rd_rem := rest; rd_end := BEof |} |} /\
    r_code r = 101%Z /\ r_header r = collect (map field_of fs).
Proof.
  intros Hr Hf Hp Hte Hcl Hup Hu Hconn Hnc.
  set (F := map field_of fs) in *.
  assert (Hrule : no_body_by_rule 101 meth = true).
  { unfold no_body_by_rule. cbn. now rewrite orb_true_r. }
  destruct (read_transfer_nobody 101 reason meth F [] Hrule Hte Hcl (or_introl eq_refl)) as (cl & close & E).
  assert (Hh : read_response_head meth br_size (render_head 101 reason fs ++ rest) =
               inr ({| r_proto := H11; r_code := 101; r_status := status_text 101 reason;
                       r_header := collect (after_conn F); r_content_length := cl; r_chunked := false;
                       r_close := close; r_framing := FrNone; r_trailer_declared := [] |}, rest)).
  { rewrite read_head; [|lia|assumption..]. fold F. now rewrite E. }
  assert (Hac : after_conn F = F) by (unfold after_conn; now rewrite Hnc).
  exists {| r_proto := H11; r_code := 101; r_status := status_text 101 reason;
            r_header := collect (after_conn F); r_content_length := cl; r_chunked := false;
            r_close := close; r_framing := FrNone; r_trailer_declared := [] |}.
  split; [|split; [reflexivity|cbn [r_header]; now rewrite Hac]].
  unfold h1_exchange, read_final_response. cbn [read_final]. rewrite Hh.
  cbn [r_code]. change (is_1xx_nonterminal 101) with false. cbn iota.
  unfold final_body, is_switch. cbn [r_code r_header Z.eqb andb]. rewrite Hac, !hget_collect.
  rewrite Hup. destruct u as [|u0 u']; [contradiction|]. cbn [is_nil negb andb].
  destruct (values_of K_CONNECTION F) as [|c0 cs] eqn:Ec; [discriminate Hconn|].
  rewrite Hconn. cbn [body_reader switch_body b_data b_end berr_clean r_trailer_declared]. reflexivity.
Qed.

(* ====================================================================== *)
(* a response that was cut is never delivered as a complete one           *)
(* ====================================================================== *)

(* If the bytes [s ++ ext] are one complete self-delimited response (declared length or
   chunked: ends cleanly, nothing left over) and the connection delivers only [s] (the peer
   closed early, ext <> []): whatever the cut point - in the body, in the last-chunk line,
   between it and the trailer section, inside a trailer line, inside the final CRLF - the
   reader does NOT report a clean end of the message. *)
Theorem cut_never_complete meth bufsize s ext r b :
  parse_response meth bufsize (s ++ ext) = Accepted r b ->
  b_end b = BOk -> b_rest b = [] -> r_framing r <> FrUntilClose -> ext <> [] ->
  forall r' b', parse_response meth bufsize s = Accepted r' b' -> b_end b' <> BOk.
Proof.
  intros Hfull He Hrest Hfr Hext r' b' Hcut Hok.
  assert (Hr : r' = r).
  { unfold parse_response in Hcut, Hfull.
    destruct (read_response_head meth bufsize s) as [e|[r0 rest0]] eqn:Eh; [discriminate|].
    inversion Hcut; subst. rewrite (read_response_head_stable _ _ _ _ _ ext Eh) in Hfull.
    inversion Hfull; subst. reflexivity. }
  subst r'.
  pose proof (parse_deterministic_prefix meth bufsize s r b' ext Hcut Hok Hfr) as P.
  rewrite Hfull in P. inversion P as [Hb]. rewrite Hb in Hrest.
  destruct b'; cbn in Hrest. apply app_eq_nil in Hrest as [_ Hx]. contradiction.
Qed.

(* ... in particular for every proper prefix of a rendered chunked response with trailers *)
Corollary chunked_cut_detected meth bufsize code reason fs tfs v cs l0 k :
  (100 <= code <= 999)%Z -> reason_ok reason = true -> fields_ok fs ->
  pragma_neutral (map field_of fs) ->
  is_head meth = false -> body_allowed_for_status code = true ->
  values_of K_TE (map field_of fs) = [v] -> bytes_eqb (to_lower v) (bs "chunked") = true ->
  no_field K_CL (map field_of fs) ->
  existsb bad_trailer_key (declared_keys (map field_of fs)) = false ->
  chunks_ok bufsize 0 cs -> size_line_ok bufsize l0 0 ->
  fields_ok tfs -> trailer_fits bufsize tfs ->
  let wire := render_head code reason fs ++ H1Render.render_chunks cs ++ l0 ++ CRLF ++
              render_wfields tfs ++ CRLF ++ [] in
  k < length wire ->
  forall r' b', parse_response meth bufsize (firstn k wire) = Accepted r' b' -> b_end b' <> BOk.
Proof.
  intros Hc Hr Hf Hp Hh Ha Hte Hv Hcl Hbad Hcs Hl0 Htf Hfit wire Hk r' b' Hcut.
  pose proof (h1_chunked_round_trip meth bufsize code reason fs Hc Hr Hf Hp tfs v cs l0 []
                Hh Ha Hte Hv Hcl Hbad Hcs Hl0 Htf Hfit) as P.
  fold wire in P. rewrite <- (firstn_skipn k wire) in P.
  eapply (cut_never_complete meth bufsize (firstn k wire) (skipn k wire)); try exact P; try reflexivity.
  - cbn. discriminate.
  - intros E. pose proof (skipn_length k wire) as L. rewrite E in L. cbn [length] in L. lia.
  - exact Hcut.
Qed.

(* ====================================================================== *)
(* interim responses do not eat the header budget of the final response   *)
(* ====================================================================== *)

(* MaxResponseHeaderBytes is a budget per response head: when every head of the exchange - each
   interim response and the final response - is within the limit BY ITSELF, the limited reader
   delivers exactly what the unlimited one delivers, however large the heads are together. *)
Theorem budget_is_per_head meth bufsize lim : forall fuel k s,
  heads_fit fuel meth bufsize lim s = true ->
  read_final_lim fuel meth bufsize lim k s = read_final fuel meth bufsize k s.
Proof.
  induction fuel as [|f IH]; intros k s H; [reflexivity|].
  cbn [read_final_lim read_final heads_fit] in *.
  destruct (read_response_head meth bufsize s) as [e|[r rest]]; [reflexivity|].
  apply andb_true_iff in H as [H1 H2]. apply Nat.leb_le in H1.
  destruct (Nat.ltb_spec lim (length s - length rest)); [lia|].
  destruct (is_1xx_nonterminal (r_code r)); [|reflexivity].
  destruct (max_1xx <? S k); [reflexivity|]. now apply IH.
Qed.
