(* Proofs/CharsetTermination.v - C15: the caller always reaches io.EOF (so the premise
   [respond ... = (o, true)] of the theorems in CharsetProofs.v is satisfiable for EVERY body, split and
   buffer-size sequence), and peekDrain is unreachable after the repair (peek is never set). *)
From Coq Require Import Lia PeanoNat.
From ReqV Require Import Lib.Bytes Lib.BytesFacts Model.Charset Proofs.CharsetProofs.

Definition net_measure (n : net) : nat := length (n_chunks n) + length (concat (n_chunks n)).

Lemma net_read_decr k n b n' :
  1 <= k -> net_read k n = (b, ENone, n') -> net_measure n' < net_measure n.
Proof.
  unfold net_read, net_measure. intros K. destruct (n_chunks n) as [|c r] eqn:E;
    [unfold net_end; destruct (n_fail n); discriminate|].
  destruct (length c <=? k) eqn:L; intros H; inversion H; subst; cbn [n_chunks concat length].
  - rewrite app_length. lia.
  - apply Nat.leb_gt in L. rewrite !app_length, skipn_length. lia.
Qed.

Lemma net_end_not_none n : net_end n <> ENone.
Proof. unfold net_end. destruct (n_fail n); discriminate. Qed.

Lemma sr_read_decr k s o s' :
  1 <= k -> sr_end s <> ENone -> sr_read k s = (o, ENone, s') ->
  length (sr_pending s') < length (sr_pending s).
Proof.
  intros K Hn R. pose proof (sr_read_split _ _ _ _ _ R) as C.
  destruct (sr_pending s) as [|x p] eqn:E.
  - unfold sr_read in R. rewrite E in R. inversion R. congruence.
  - assert (P : 1 <= length o) by (eapply sr_read_progress; eauto; congruence).
    rewrite <- C, app_length. lia.
Qed.

Section Termination.
  Variable enc : Type.
  Variable dec_all : enc -> bytes -> bytes.
  Variable dec_stream : enc -> list bytes -> bytes.
  Variable dec_partial : enc -> list bytes -> bytes.
  Variable find_encoding : bytes -> option enc.
  Variable parse_ct : bytes -> ct_parse.
  Variable lookup_charset : bytes -> option enc.

  Notation read_all := (read_all dec_stream dec_partial find_encoding).
  Notation run := (run dec_stream dec_partial find_encoding).
  Notation b_read := (b_read dec_stream dec_partial find_encoding).
  Notation a_read := (a_read dec_stream dec_partial find_encoding).

  Definition all_pos (sizes : list nat) : Prop := Forall (fun k => 1 <= k) sizes.

  Lemma fin_raw sizes : forall n,
    all_pos sizes -> net_measure n < length sizes -> snd (read_all sizes (BRaw n)) <> ENone.
  Proof.
    induction sizes as [|k r IH]; intros n A M; [cbn in M; lia|].
    inversion A as [|? ? K A']; subst. cbn [Charset.read_all Charset.b_read].
    destruct (net_read k n) as [[b e] n'] eqn:R. destruct e; [|cbn [snd]; discriminate|cbn [snd]; discriminate].
    pose proof (net_read_decr _ _ _ _ K R).
    specialize (IH n' A'). destruct (read_all r (BRaw n')) as [o' f]. cbn [snd] in *.
    apply IH. cbn [length] in M. lia.
  Qed.

  Lemma fin_header sizes : forall s,
    sr_end s <> ENone ->
    all_pos sizes -> length (sr_pending s) < length sizes -> snd (read_all sizes (BHeader s)) <> ENone.
  Proof.
    induction sizes as [|k r IH]; intros s Hs A M; [cbn in M; lia|].
    inversion A as [|? ? K A']; subst. cbn [Charset.read_all Charset.b_read].
    destruct (sr_read k s) as [[b e] s'] eqn:R. destruct e; [|cbn [snd]; discriminate|cbn [snd]; discriminate].
    pose proof (sr_read_decr _ _ _ _ K Hs R). pose proof (sr_read_end_kept _ _ _ _ _ R) as KE.
    assert (Hs' : sr_end s' <> ENone) by (rewrite KE; exact Hs).
    specialize (IH s' Hs' A'). destruct (read_all r (BHeader s')) as [o' f]. cbn [snd] in *.
    apply IH. cbn [length] in M. lia.
  Qed.

  Lemma fin_detected_raw sizes : forall a,
    a_detected a = true -> a_dec a = None -> a_peek a = None ->
    all_pos sizes -> net_measure (a_net a) < length sizes -> snd (read_all sizes (BSniff a)) <> ENone.
  Proof.
    induction sizes as [|k r IH]; intros a D N P A M; [cbn in M; lia|].
    inversion A as [|? ? K A']; subst. cbn [Charset.read_all Charset.b_read].
    unfold Charset.a_read, a_read_detected. rewrite D, P, N.
    destruct (net_read k (a_net a)) as [[b e] n'] eqn:R. destruct e; [|cbn [snd]; discriminate|cbn [snd]; discriminate].
    pose proof (net_read_decr _ _ _ _ K R).
    match goal with |- context [read_all r (BSniff ?x)] => set (a' := x) end.
    specialize (IH a' eq_refl eq_refl eq_refl A'). destruct (read_all r (BSniff a')) as [o' f].
    cbn [snd] in *. apply IH. subst a'. cbn [a_net length] in *. lia.
  Qed.

  Lemma fin_detected_dec sizes : forall a sr,
    a_detected a = true -> a_dec a = Some sr -> a_peek a = None -> sr_end sr <> ENone ->
    all_pos sizes -> length (sr_pending sr) < length sizes -> snd (read_all sizes (BSniff a)) <> ENone.
  Proof.
    induction sizes as [|k r IH]; intros a sr D N P Hs A M; [cbn in M; lia|].
    inversion A as [|? ? K A']; subst. cbn [Charset.read_all Charset.b_read].
    unfold Charset.a_read, a_read_detected. rewrite D, P, N.
    destruct (sr_read k sr) as [[b e] sr'] eqn:R. destruct e; [|cbn [snd]; discriminate|cbn [snd]; discriminate].
    pose proof (sr_read_decr _ _ _ _ K Hs R). pose proof (sr_read_end_kept _ _ _ _ _ R) as KE.
    assert (Hs' : sr_end sr' <> ENone) by (rewrite KE; exact Hs).
    match goal with |- context [read_all r (BSniff ?x)] => set (a' := x) end.
    specialize (IH a' sr' eq_refl eq_refl eq_refl Hs' A'). destruct (read_all r (BSniff a')) as [o' f].
    cbn [snd] in *. apply IH. cbn [length] in *. lia.
  Qed.

  Lemma fin_sniff N sizes : forall a,
    a_detected a = false -> a_dec a = None -> a_peek a = None ->
    (forall en cs, concat cs = concat (n_chunks (a_net a)) ->
                   length (stream_out dec_stream dec_partial en cs (n_fail (a_net a))) <= N) ->
    all_pos sizes -> net_measure (a_net a) + N + 1 < length sizes ->
    snd (read_all sizes (BSniff a)) <> ENone.
  Proof.
    induction sizes as [|k r IH]; intros a D Nn P B A M; [cbn in M; lia|].
    inversion A as [|? ? K A']; subst. cbn [Charset.read_all Charset.b_read].
    unfold Charset.a_read, Charset.peek_read. rewrite D.
    destruct (net_read k (a_net a)) as [[b e] n'] eqn:R.
    destruct (net_read_concat _ _ _ _ _ R) as [C _]. destruct (net_read_fail_kept _ _ _ _ _ R) as [KF _].
    destruct (is_empty b) eqn:Em.
    - apply is_empty_true in Em. subst b. cbn [app] in C. destruct e; [|cbn [snd]; discriminate|cbn [snd]; discriminate].
      pose proof (net_read_decr _ _ _ _ K R).
      match goal with |- context [read_all r (BSniff ?x)] => set (a' := x) end.
      assert (B' : forall en cs, concat cs = concat (n_chunks (a_net a')) ->
                     length (stream_out dec_stream dec_partial en cs (n_fail (a_net a'))) <= N)
        by (intros e0 cs Hc; subst a'; cbn [a_net] in *; rewrite KF; apply B; rewrite Hc; exact C).
      specialize (IH a' eq_refl Nn P B' A'). destruct (read_all r (BSniff a')) as [o' f].
      cbn [snd] in *. apply IH. subst a'. cbn [a_net length] in *. lia.
    - destruct (find_encoding b) as [en|] eqn:F.
      + match goal with |- context [sr_read k ?x] => set (sr := x) end.
        assert (Hp : length (sr_pending sr) <= N).
        { subst sr. unfold mk_sreader. cbn [sr_pending]. rewrite KF.
          apply (B en (b :: n_chunks n')). exact C. }
        assert (Hs : sr_end sr <> ENone) by (subst sr; unfold mk_sreader; cbn [sr_end]; apply net_end_not_none).
        destruct (sr_read k sr) as [[o1 e2] sr'] eqn:R2. destruct e2; [|cbn [snd]; discriminate|cbn [snd]; discriminate].
        pose proof (sr_read_decr _ _ _ _ K Hs R2). pose proof (sr_read_end_kept _ _ _ _ _ R2) as KE.
        assert (Hs' : sr_end sr' <> ENone) by (rewrite KE; exact Hs).
        match goal with |- context [read_all r (BSniff ?x)] => set (a' := x) end.
        pose proof (fin_detected_dec r a' sr' eq_refl eq_refl P Hs' A') as F2.
        destruct (read_all r (BSniff a')) as [o' f]. cbn [snd] in *. apply F2.
        cbn [length] in M. lia.
      + destruct e; [|cbn [snd]; discriminate|cbn [snd]; discriminate].
        pose proof (net_read_decr _ _ _ _ K R).
        match goal with |- context [read_all r (BSniff ?x)] => set (a' := x) end.
        pose proof (fin_detected_raw r a' eq_refl Nn P A') as F2.
        destruct (read_all r (BSniff a')) as [o' f]. cbn [snd] in *. apply F2.
        subst a'. cbn [a_net length] in *. lia.
  Qed.

  (* every body is delivered completely within a bounded number of reads, whatever the split, the
     (positive) buffer sizes and the x/text reader's schedule *)
  Theorem terminates disable sel resp_ce ct chunks eof_last fail takes sizes N :
    all_pos sizes ->
    (forall en cs, concat cs = concat chunks -> length (stream_out dec_stream dec_partial en cs fail) <= N) ->
    length chunks + length (concat chunks) + N + 1 < length sizes ->
    snd (respond dec_stream dec_partial find_encoding parse_ct lookup_charset
                 disable sel resp_ce ct chunks eof_last fail takes sizes) <> ENone.
  Proof.
    intros A B M. unfold Charset.respond.
    destruct (decide parse_ct lookup_charset disable sel resp_ce ct) as [|e|]; cbn [Charset.open_body].
    - apply fin_raw; auto. unfold net_measure, fresh_net. cbn [n_chunks]. unfold bytes in *. lia.
    - apply fin_header; auto.
      + unfold mk_sreader. cbn [sr_end]. apply net_end_not_none.
      + unfold mk_sreader, fresh_net. cbn [sr_pending n_fail]. specialize (B e chunks eq_refl).
        unfold stream_out in B. lia.
    - apply fin_sniff with (N := N); auto.
  Qed.

  (* peek is never set: peekDrain is dead code after the repair *)
  Definition peek_clear (b : breader) : Prop :=
    match b with BSniff a => a_peek a = None | _ => True end.

  Lemma b_read_peek_clear k b o e b' :
    peek_clear b -> b_read k b = (o, e, b') -> peek_clear b'.
  Proof.
    destruct b as [n|s|a]; cbn [Charset.b_read peek_clear].
    - destruct (net_read k n) as [[? ?] ?]. intros _ H; inversion H; exact I.
    - destruct (sr_read k s) as [[? ?] ?]. intros _ H; inversion H; exact I.
    - intros P. unfold Charset.a_read, Charset.peek_read, a_read_detected. rewrite P.
      destruct (a_detected a).
      + destruct (a_dec a) as [sr|].
        * destruct (sr_read k sr) as [[? ?] ?]. intros H; inversion H; reflexivity.
        * destruct (net_read k (a_net a)) as [[? ?] ?]. intros H; inversion H; reflexivity.
      + destruct (net_read k (a_net a)) as [[b0 e0] n0].
        destruct (is_empty b0); [intros H; inversion H; reflexivity|].
        destruct (find_encoding b0).
        * destruct (sr_read k _) as [[? ?] ?]. intros H; inversion H; reflexivity.
        * intros H; inversion H; reflexivity.
  Qed.

  Theorem peek_never_set sizes : forall b,
    peek_clear b -> Forall (fun x => peek_clear (snd x)) (run sizes b).
  Proof.
    induction sizes as [|k r IH]; intros b P; cbn [Charset.run]; [constructor|].
    destruct (b_read k b) as [[o e] b'] eqn:R.
    pose proof (b_read_peek_clear _ _ _ _ _ P R) as P'.
    constructor; [exact P'|]. destruct e; [apply IH; exact P' | constructor | constructor].
  Qed.

End Termination.
