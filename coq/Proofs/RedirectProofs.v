(* Proofs/RedirectProofs.v - lemmas behind Properties/C11.v *)
From ReqV Require Import Lib.Bytes Lib.BytesFacts Model.Authority Model.Redirect.
From Coq Require Import Lia.

Lemma no3_parts s : no3 s = true ->
  mem_byte colon s = false /\ mem_byte lbr s = false /\ mem_byte rbr s = false.
Proof.
  unfold no3. intros H. apply andb_true_iff in H as [H H3]. apply andb_true_iff in H as [H1 H2].
  repeat split; now apply negb_true_iff.
Qed.

Lemma nobr_parts s : nobr s = true -> mem_byte lbr s = false /\ mem_byte rbr s = false.
Proof.
  unfold nobr. intros H. apply andb_true_iff in H as [H1 H2]. split; now apply negb_true_iff.
Qed.

Lemma starts_lbr_false s : mem_byte lbr s = false -> starts_lbr s = false.
Proof.
  destruct s as [|x s]; [reflexivity|]. rewrite mem_byte_cons. intros H.
  apply orb_false_iff in H as [H _]. cbn [starts_lbr]. now rewrite beqb_sym.
Qed.

Lemma not_lbr_head s : mem_byte lbr s = false -> strip_brackets s = None.
Proof. intros H. unfold strip_brackets. now rewrite starts_lbr_false. Qed.

Lemma strip_brackets_render s : strip_brackets (lbr :: s ++ [rbr]) = Some s.
Proof.
  unfold strip_brackets. cbn [starts_lbr tl]. rewrite beqb_refl, rev_app_distr. cbn [rev app].
  now rewrite beqb_refl, rev_involutive.
Qed.

(* --- SplitHostPort on the four rendered shapes --- *)

Lemma shp_name_noport s : no3 s = true -> split_host_port s = ShpErr.
Proof.
  intros H. destruct (no3_parts _ H) as [Hc _]. unfold split_host_port.
  now rewrite last_index_byte_none.
Qed.

Lemma shp_name_port s p : no3 s = true -> no3 p = true ->
  split_host_port (s ++ colon :: p) = ShpOk s p.
Proof.
  intros Hs Hp. destruct (no3_parts _ Hs) as [Hsc [Hsl Hsr]].
  destruct (no3_parts _ Hp) as [Hpc [Hpl Hpr]].
  unfold split_host_port. rewrite last_index_byte_app_hit by assumption.
  assert (Hl : mem_byte lbr (s ++ colon :: p) = false).
  { rewrite mem_byte_app, mem_byte_cons, Hsl, Hpl. reflexivity. }
  assert (Hr : mem_byte rbr (s ++ colon :: p) = false).
  { rewrite mem_byte_app, mem_byte_cons, Hsr, Hpr. reflexivity. }
  rewrite (starts_lbr_false _ Hl). cbv zeta.
  rewrite firstn_app_exact, Hsc, Hl, Hr.
  replace (s ++ colon :: p) with ((s ++ [colon]) ++ p) by (rewrite <- app_assoc; reflexivity).
  replace (length s + 1) with (length (s ++ [colon])) by (rewrite app_length; reflexivity).
  now rewrite skipn_app_exact.
Qed.

Lemma shp_v6_noport s : nobr s = true -> mem_byte colon s = true ->
  split_host_port (lbr :: s ++ [rbr]) = ShpErr.
Proof.
  intros Hs Hc. destruct (nobr_parts _ Hs) as [Hl Hr].
  unfold split_host_port.
  destruct (last_index_byte colon (lbr :: s ++ [rbr])) as [i|] eqn:Ei; [|reflexivity].
  cbn [starts_lbr]. rewrite beqb_refl.
  change (lbr :: s ++ [rbr]) with ((lbr :: s) ++ rbr :: []).
  rewrite index_byte_app_hit.
  2:{ rewrite mem_byte_cons, Hr. reflexivity. }
  rewrite app_length. cbn [length]. now rewrite Nat.eqb_refl.
Qed.

Lemma shp_v6_port s p : nobr s = true -> no3 p = true ->
  split_host_port (lbr :: s ++ rbr :: colon :: p) = ShpOk s p.
Proof.
  intros Hs Hp. destruct (nobr_parts _ Hs) as [Hl Hr].
  destruct (no3_parts _ Hp) as [Hpc [Hpl Hpr]].
  unfold split_host_port.
  assert (E1 : last_index_byte colon (lbr :: s ++ rbr :: colon :: p) = Some (S (S (length s)))).
  { replace (lbr :: s ++ rbr :: colon :: p) with ((lbr :: s ++ [rbr]) ++ colon :: p)
      by (cbn [app]; rewrite <- app_assoc; reflexivity).
    rewrite last_index_byte_app_hit by assumption. cbn [length]. rewrite app_length. cbn [length].
    f_equal. lia. }
  assert (E2 : index_byte rbr (lbr :: s ++ rbr :: colon :: p) = Some (S (length s))).
  { change (lbr :: s ++ rbr :: colon :: p) with ((lbr :: s) ++ rbr :: colon :: p).
    rewrite index_byte_app_hit; [reflexivity|]. rewrite mem_byte_cons, Hr. reflexivity. }
  rewrite E1, E2. cbn [starts_lbr]. rewrite beqb_refl.
  cbn [length]. rewrite app_length. cbn [length].
  replace (S (length s) + 1 =? S (length s + S (S (length p)))) with false
    by (symmetry; apply Nat.eqb_neq; lia).
  replace (S (length s) + 1 =? S (S (length s))) with true
    by (symmetry; apply Nat.eqb_eq; lia).
  replace (S (length s) + 1) with (S (S (length s))) by lia.
  replace (S (S (length s)) + 1) with (S (S (S (length s)))) by lia.
  replace (S (length s) - 1) with (length s) by lia.
  change (skipn 1 (lbr :: s ++ rbr :: colon :: p)) with (s ++ rbr :: colon :: p).
  rewrite !skipn_cons.
  rewrite mem_byte_app, !mem_byte_cons, Hl, Hpl.
  replace (skipn (S (length s)) (s ++ rbr :: colon :: p)) with (colon :: p).
  2:{ replace (s ++ rbr :: colon :: p) with ((s ++ [rbr]) ++ colon :: p)
        by (rewrite <- app_assoc; reflexivity).
      replace (S (length s)) with (length (s ++ [rbr])) by (rewrite app_length; cbn; lia).
      now rewrite skipn_app_exact. }
  replace (skipn (S (S (length s))) (s ++ rbr :: colon :: p)) with p.
  2:{ replace (s ++ rbr :: colon :: p) with ((s ++ [rbr; colon]) ++ p)
        by (rewrite <- app_assoc; reflexivity).
      replace (S (S (length s))) with (length (s ++ [rbr; colon])) by (rewrite app_length; cbn; lia).
      now rewrite skipn_app_exact. }
  rewrite mem_byte_cons, Hpr. rewrite firstn_app_exact. reflexivity.
Qed.

(* --- hostname of a rendered authority --- *)

Lemma url_hostname_rendered a :
  wf_authority a = true -> url_hostname (render_authority a) = host_text (a_host a).
Proof.
  destruct a as [h p]. unfold wf_authority, render_authority, url_hostname. cbn [a_host a_port].
  intros H. apply andb_true_iff in H as [Hh Hp].
  destruct h as [s|s]; cbn [render_host host_text] in *.
  - destruct p as [p|].
    + now rewrite shp_name_port.
    + rewrite app_nil_r, shp_name_noport by assumption.
      destruct (no3_parts _ Hh) as [_ [Hl _]]. now rewrite not_lbr_head.
  - apply andb_true_iff in Hh as [Hb Hc]. destruct p as [p|].
    + replace ((lbr :: s ++ [rbr]) ++ colon :: p) with (lbr :: s ++ rbr :: colon :: p)
        by (cbn [app]; rewrite <- app_assoc; reflexivity).
      now rewrite shp_v6_port.
    + rewrite app_nil_r, shp_v6_noport by assumption. now rewrite strip_brackets_render.
Qed.

Lemma get_hostname_is_lower_url_hostname h : get_hostname h = to_lower (url_hostname h).
Proof. reflexivity. Qed.

Lemma hostname_of_rendered a :
  wf_authority a = true -> get_hostname (render_authority a) = to_lower (host_text (a_host a)).
Proof. intros H. now rewrite get_hostname_is_lower_url_hostname, url_hostname_rendered. Qed.

(* the pinned code fails exactly on port-less bracketed IPv6 *)
Lemma hostname_pinned_refuted :
  exists a, wf_authority a = true /\
    get_hostname_pinned (render_authority a) <> to_lower (host_text (a_host a)).
Proof.
  exists {| a_host := HV6 (bs "::1"); a_port := None |}. split; [reflexivity|]. vm_compute. discriminate.
Qed.

Lemma same_host_iff a b via :
  wf_authority a = true -> wf_authority b = true ->
  permits PSameHost (render_authority a) (render_authority b :: via) = true <->
  to_lower (host_text (a_host a)) = to_lower (host_text (a_host b)).
Proof.
  intros Ha Hb. cbn [permits hd]. rewrite !hostname_of_rendered by assumption.
  apply bytes_eqb_eq.
Qed.

Lemma allowed_host_iff a hs via :
  wf_authority a = true -> forallb wf_authority hs = true ->
  permits (PAllowedHost (map render_authority hs)) (render_authority a) via = true <->
  exists b, In b hs /\ to_lower (host_text (a_host a)) = to_lower (host_text (a_host b)).
Proof.
  intros Ha Hhs. cbn [permits]. unfold mem_bytes. rewrite existsb_exists, hostname_of_rendered by assumption.
  rewrite forallb_forall in Hhs. split.
  - intros [x [Hin Heq]]. rewrite map_map in Hin. apply in_map_iff in Hin as [b [Hb Hinb]].
    exists b. split; [assumption|]. apply bytes_eqb_eq in Heq. subst x.
    rewrite hostname_of_rendered, to_lower_idem in Heq by auto. exact Heq.
  - intros [b [Hinb Heq]]. exists (to_lower (get_hostname (render_authority b))). split.
    + rewrite map_map. apply in_map_iff. exists b. split; [reflexivity|assumption].
    + rewrite hostname_of_rendered, to_lower_idem by auto. now apply bytes_eqb_eq.
Qed.

(* --- domains --- *)

Lemma domain_of_ip_literal h :
  is_ip_literal (get_hostname h) = true -> get_domain h = get_hostname h.
Proof. unfold get_domain. now intros ->. Qed.

(* an authority whose host text is an IP literal for netip.ParseAddr (as modelled by parse_addr_ok) *)
Definition ip_authority (a : authority) : bool := is_ip_literal (to_lower (host_text (a_host a))).

Lemma domain_ip_whole a :
  wf_authority a = true -> ip_authority a = true ->
  get_domain (render_authority a) = to_lower (host_text (a_host a)).
Proof.
  intros Hwf Hip. unfold ip_authority in Hip.
  rewrite domain_of_ip_literal; rewrite hostname_of_rendered by assumption; [reflexivity|assumption].
Qed.

Lemma domain_v6 a s :
  a_host a = HV6 s -> wf_authority a = true -> is_ip_literal (to_lower s) = true ->
  get_domain (render_authority a) = to_lower s.
Proof.
  intros Hh Hwf Hip. rewrite domain_ip_whole; [now rewrite Hh|assumption|].
  unfold ip_authority. now rewrite Hh.
Qed.

Lemma domain_v4 a s :
  a_host a = HName s -> wf_authority a = true -> is_ip_literal (to_lower s) = true ->
  get_domain (render_authority a) = to_lower s.
Proof.
  intros Hh Hwf Hip. rewrite domain_ip_whole; [now rewrite Hh|assumption|].
  unfold ip_authority. now rewrite Hh.
Qed.

(* everything else - DNS names, dotted numbers netip rejects, bracketed text that is no IPv6
   literal - follows the label rule *)
Lemma domain_name_labels a :
  wf_authority a = true -> ip_authority a = false ->
  get_domain (render_authority a) =
    let h := trim_suffix_byte dot (to_lower (host_text (a_host a))) in
    match split_byte dot h with
    | _ :: ((_ :: _ :: _) as rest) => join_with [dot] rest
    | _ => h
    end.
Proof.
  intros Hwf Hip. unfold ip_authority in Hip. unfold get_domain.
  rewrite hostname_of_rendered by assumption. now rewrite Hip.
Qed.

(* the dot that ends a fully qualified name is not a label: example.com. is in the domain
   example.com (as www.example.com. and example.com are), not in "com." - which is what the code
   said before the round-7 repair, making every *.com. host "the same domain" *)
Lemma trailing_dot_examples :
  get_domain (bs "example.com.") = bs "example.com" /\
  get_domain (bs "www.Example.com.:443") = bs "example.com" /\
  get_domain (bs "example.com") = bs "example.com" /\
  permits PSameDomain (bs "evil.com.") [bs "example.com."] = false /\
  get_domain_dotted (bs "example.com.") = bs "com." /\
  get_domain_dotted (bs "evil.com.") = bs "com.".
Proof. vm_compute. repeat split. Qed.

Lemma same_domain_ip_iff a b via :
  wf_authority a = true -> wf_authority b = true ->
  ip_authority a = true -> ip_authority b = true ->
  permits PSameDomain (render_authority a) (render_authority b :: via) = true <->
  to_lower (host_text (a_host a)) = to_lower (host_text (a_host b)).
Proof.
  intros Ha Hb Ia Ib. cbn [permits hd]. rewrite !domain_ip_whole by assumption. apply bytes_eqb_eq.
Qed.

(* the dispatch of netip.ParseAddr and a few boundary literals, kept checked *)
Lemma parse_addr_examples :
  map (fun t => parse_addr_ok (bs t))
      ["::1"; "::"; "2001:db8::1%eth0"; "fe80::1%"; "::ffff:1.2.3.4"; "1:2:3:4:5:6:7:8"; "1:2:3:4:5:6:7::";
       "1:2:3:4:5:6:7:8:9"; "1::2::3"; "12345::"; "1:2:3:4:5:6:1.2.3.4"; "1:2:3:4:5:6:7:1.2.3.4";
       "::ffff:1.2.3.256"; ":::"; "1:2:3:4:5:6:7::8"; "1.2.3.4"; "1.2.3"; "01.2.3.4"; "256.1.1.1"; "1.2.3.4.";
       "a:b.c.d"; "example.com"; ""]%string =
  [true; true; true; false; true; true; true;
   false; false; false; true; false;
   false; false; false; true; false; false; false; false;
   false; false; false].
Proof. vm_compute. reflexivity. Qed.

Lemma domain_pinned_refuted :
  get_domain_pinned (bs "1.2.3.4") = get_domain_pinned (bs "9.2.3.4").
Proof. reflexivity. Qed.

(* --- hop limit, composition --- *)

Lemma max_redirects_exact n t via :
  permits (PMax n) t via = true <-> (Z.of_nat (length via) < n)%Z.
Proof.
  cbn [permits]. unfold max_policy_refuses. rewrite negb_true_iff. rewrite Z.geb_leb. rewrite Z.leb_gt. reflexivity.
Qed.

Lemma default_is_ten t via :
  permits PDefault t via = true <-> (length via < 10)%nat.
Proof. unfold PDefault. rewrite max_redirects_exact. unfold default_redirect_limit. lia. Qed.

Lemma no_redirect_refuses t via : permits PNo t via = false.
Proof. reflexivity. Qed.

Lemma composition_is_conjunction ps t via :
  all_permit ps t via = true <-> forall p, In p ps -> permits p t via = true.
Proof. unfold all_permit. apply forallb_forall. Qed.

(* --- chains --- *)

Lemma follow_hosts_prefix ps init hs : forall targets via strip,
  exists k, map s_host (fst (follow ps init hs via strip targets)) = firstn k targets /\
            (snd (follow ps init hs via strip targets) = Completed -> k = length targets) /\
            (snd (follow ps init hs via strip targets) = Refused ->
               k < length targets /\
               all_permit ps (nth k targets []) (via ++ firstn k targets) = false).
Proof.
  induction targets as [|t rest IH]; intros via strip; cbn [follow].
  - exists 0. cbn. repeat split; try reflexivity; discriminate.
  - destruct (all_permit ps t via) eqn:Hp.
    + destruct (IH (via ++ [t]) (strip || negb (bytes_eqb init t) && negb (should_copy init t)))
        as [k [H1 [H2 H3]]].
      destruct (follow ps init hs (via ++ [t]) _ rest) as [l e] eqn:Ef.
      exists (S k). cbn [fst snd map s_host firstn length] in *. rewrite H1. split; [reflexivity|]. split.
      * intros He. now rewrite H2.
      * intros He. destruct (H3 He) as [Hk Hn]. split; [lia|].
        cbn [nth]. rewrite <- app_assoc in Hn. exact Hn.
    + exists 0. cbn [fst snd map firstn nth length]. split; [reflexivity|]. split; [discriminate|].
      intros _. split; [lia|]. now rewrite app_nil_r.
Qed.

(* every request sent after the first was permitted by every policy at the time it was sent *)
Lemma follow_all_permitted ps init hs : forall targets via strip k,
  k < length (fst (follow ps init hs via strip targets)) ->
  all_permit ps (nth k targets []) (via ++ firstn k targets) = true.
Proof.
  induction targets as [|t rest IH]; intros via strip k; cbn [follow].
  - cbn. lia.
  - destruct (all_permit ps t via) eqn:Hp.
    + destruct (follow ps init hs (via ++ [t]) _ rest) as [l e] eqn:Ef.
      cbn [fst length]. intros Hk. destruct k as [|k].
      * cbn. now rewrite app_nil_r.
      * cbn [nth firstn].
        specialize (IH (via ++ [t]) (strip || negb (bytes_eqb init t) && negb (should_copy init t)) k).
        rewrite Ef in IH. cbn [fst] in IH.
        rewrite <- app_assoc in IH. apply IH. lia.
    + cbn. lia.
Qed.

Lemma follow_length_via ps init hs : forall targets via strip,
  forall n, In (PMax n) ps ->
  (Z.of_nat (length via + length (fst (follow ps init hs via strip targets))) <= Z.max n (Z.of_nat (length via)))%Z.
Proof.
  induction targets as [|t rest IH]; intros via strip n Hin; cbn [follow].
  - cbn. lia.
  - destruct (all_permit ps t via) eqn:Hp.
    + specialize (IH (via ++ [t]) (strip || negb (bytes_eqb init t) && negb (should_copy init t)) n Hin).
      destruct (follow ps init hs (via ++ [t]) _ rest) as [l e].
      cbn [fst length] in *. rewrite app_length in IH. cbn [length] in IH.
      apply composition_is_conjunction with (p := PMax n) in Hp; [|assumption].
      apply max_redirects_exact in Hp. lia.
    + cbn. lia.
Qed.

Lemma chain_bounded ps init hs targets n :
  In (PMax n) ps ->
  (Z.of_nat (length (fst (run_chain ps init hs targets))) <= Z.max n 1)%Z.
Proof.
  intros Hin. unfold run_chain.
  pose proof (follow_length_via ps init hs targets [init] false n Hin) as H.
  destruct (follow ps init hs [init] false targets) as [l e]. cbn [fst length] in *. lia.
Qed.

(* --- the policies' verdicts at chain level: what every request on the wire satisfies --- *)

Lemma follow_sent_permitted ps init hs : forall targets via strip s,
  In s (fst (follow ps init hs via strip targets)) ->
  exists ext, all_permit ps (s_host s) (via ++ ext) = true.
Proof.
  induction targets as [|t rest IH]; intros via strip s; cbn [follow].
  - cbn. tauto.
  - destruct (all_permit ps t via) eqn:Hp; [|cbn; tauto].
    destruct (follow ps init hs (via ++ [t]) (strip || negb (bytes_eqb init t) && negb (should_copy init t)) rest)
      as [l e] eqn:Ef.
    cbn [fst]. intros [Hs | Hs].
    + subst s. cbn [s_host]. exists []. now rewrite app_nil_r.
    + specialize (IH (via ++ [t]) (strip || negb (bytes_eqb init t) && negb (should_copy init t)) s).
      rewrite Ef in IH. cbn [fst] in IH. destruct (IH Hs) as [ext He].
      exists ([t] ++ ext). now rewrite app_assoc.
Qed.

(* every redirected request of a chain was permitted by every policy, with the chain's own first
   request as origin *)
Lemma chain_sent_permitted ps init hs targets s :
  In s (tl (fst (run_chain ps init hs targets))) ->
  exists ext, all_permit ps (s_host s) (init :: ext) = true.
Proof.
  unfold run_chain. destruct (follow ps init hs [init] false targets) as [l e] eqn:Ef.
  cbn [fst tl]. intros Hs.
  assert (H : In s (fst (follow ps init hs [init] false targets))) by now rewrite Ef.
  apply follow_sent_permitted in H as [ext He]. now exists ext.
Qed.

(* redirects disabled: nothing but the first request is ever sent *)
Lemma chain_disabled ps init hs targets :
  In PNo ps -> fst (run_chain ps init hs targets) = [{| s_host := init; s_hdrs := hs |}].
Proof.
  intros Hin. unfold run_chain. destruct targets as [|t rest]; [reflexivity|]. cbn [follow].
  destruct (all_permit ps t [init]) eqn:Hp; [|reflexivity].
  apply composition_is_conjunction with (p := PNo) in Hp; [discriminate Hp|assumption].
Qed.

Lemma chain_same_host ps init hs targets s :
  In PSameHost ps -> In s (fst (run_chain ps init hs targets)) ->
  get_hostname (s_host s) = get_hostname init.
Proof.
  intros Hin Hs. assert (Hc : s = {| s_host := init; s_hdrs := hs |} \/ In s (tl (fst (run_chain ps init hs targets)))).
  { unfold run_chain in *. destruct (follow ps init hs [init] false targets) as [l e].
    cbn [fst tl] in *. destruct Hs as [Hs|Hs]; [left; now symmetry|now right]. }
  destruct Hc as [->|Hc]; [reflexivity|].
  apply chain_sent_permitted in Hc as [ext He].
  apply composition_is_conjunction with (p := PSameHost) in He; [|assumption].
  cbn [permits hd] in He. now apply bytes_eqb_eq in He.
Qed.

Lemma chain_same_domain ps init hs targets s :
  In PSameDomain ps -> In s (fst (run_chain ps init hs targets)) ->
  get_domain (s_host s) = get_domain init.
Proof.
  intros Hin Hs. assert (Hc : s = {| s_host := init; s_hdrs := hs |} \/ In s (tl (fst (run_chain ps init hs targets)))).
  { unfold run_chain in *. destruct (follow ps init hs [init] false targets) as [l e].
    cbn [fst tl] in *. destruct Hs as [Hs|Hs]; [left; now symmetry|now right]. }
  destruct Hc as [->|Hc]; [reflexivity|].
  apply chain_sent_permitted in Hc as [ext He].
  apply composition_is_conjunction with (p := PSameDomain) in He; [|assumption].
  cbn [permits hd] in He. now apply bytes_eqb_eq in He.
Qed.

Lemma chain_allowed_host ps init hs targets l s :
  In (PAllowedHost l) ps -> In s (tl (fst (run_chain ps init hs targets))) ->
  mem_bytes (get_hostname (s_host s)) (map (fun h => to_lower (get_hostname h)) l) = true.
Proof.
  intros Hin Hc. apply chain_sent_permitted in Hc as [ext He].
  apply composition_is_conjunction with (p := PAllowedHost l) in He; [|assumption]. exact He.
Qed.

Lemma chain_allowed_domain ps init hs targets l s :
  In (PAllowedDomain l) ps -> In s (tl (fst (run_chain ps init hs targets))) ->
  mem_bytes (get_domain (s_host s)) (map (fun h => to_lower (get_domain h)) l) = true.
Proof.
  intros Hin Hc. apply chain_sent_permitted in Hc as [ext He].
  apply composition_is_conjunction with (p := PAllowedDomain l) in He; [|assumption]. exact He.
Qed.

(* --- headers --- *)

Lemma carry_in ps strip hs n k :
  In (n, k) (carry ps strip hs) ->
  exists k0, In (n, k0) hs /\
    k = if is_sensitive n && strip && negb (mem_bytes n (always_names ps)) then 0 else k0.
Proof.
  unfold carry. intros H. apply in_map_iff in H as [[n0 k0] [Heq Hin]]. cbn [fst snd] in Heq.
  inversion Heq; subst. now exists k0.
Qed.

Lemma carry_keeps ps strip hs n k :
  is_sensitive n && strip && negb (mem_bytes n (always_names ps)) = false ->
  In (n, k) hs -> In (n, k) (carry ps strip hs).
Proof.
  intros Hc Hin. unfold carry. apply in_map_iff. exists (n, k). cbn [fst snd]. now rewrite Hc.
Qed.

(* every request of the chain after the first carries carry ps <its strip flag> hs, and the flag,
   once set, stays set *)
Lemma follow_sent_shape ps init hs : forall targets via strip s,
  In s (fst (follow ps init hs via strip targets)) ->
  exists strip', s_hdrs s = carry ps strip' hs /\ (strip = true -> strip' = true) /\
    (strip' = false -> s_host s = init \/ should_copy init (s_host s) = true).
Proof.
  induction targets as [|t rest IH]; intros via strip s; cbn [follow].
  - cbn. tauto.
  - destruct (all_permit ps t via); [|cbn; tauto].
    destruct (follow ps init hs (via ++ [t]) (strip || negb (bytes_eqb init t) && negb (should_copy init t)) rest)
      as [l e] eqn:Ef.
    cbn [fst]. intros [Hs | Hs].
    + subst s. cbn [s_hdrs s_host].
      exists (strip || negb (bytes_eqb init t) && negb (should_copy init t)). split; [reflexivity|]. split.
      * intros ->. reflexivity.
      * intros E. apply orb_false_iff in E as [_ H2].
        apply andb_false_iff in H2 as [H2|H2]; apply negb_false_iff in H2.
        -- left. apply bytes_eqb_eq in H2. now subst.
        -- now right.
    + specialize (IH (via ++ [t]) (strip || negb (bytes_eqb init t) && negb (should_copy init t)) s).
      rewrite Ef in IH. cbn [fst] in IH. destruct (IH Hs) as [strip' [H1 [H2 H3]]].
      exists strip'. split; [assumption|]. split; [|assumption].
      intros ->. apply H2. reflexivity.
Qed.

(* a sensitive header that no AlwaysCopy policy names reaches only the initial host and hosts
   net/http's rule allows, and only while the chain has never left them *)
Lemma follow_sensitive ps init hs n :
  is_sensitive n = true -> mem_bytes n (always_names ps) = false ->
  forall targets via strip s k,
  In s (fst (follow ps init hs via strip targets)) -> In (n, k) (s_hdrs s) -> k <> 0 ->
  strip = false /\ (s_host s = init \/ should_copy init (s_host s) = true).
Proof.
  intros Hsens Hnot targets via strip s k Hs Hin Hk.
  destruct (follow_sent_shape _ _ _ _ _ _ _ Hs) as [strip' [Hh [Hmono Hhost]]].
  rewrite Hh in Hin. apply carry_in in Hin as [k0 [_ Hk0]].
  rewrite Hsens, Hnot in Hk0. cbn [andb negb] in Hk0. rewrite andb_true_r in Hk0.
  destruct strip' eqn:E; [congruence|]. split; [|now apply Hhost].
  destruct strip; [|reflexivity]. specialize (Hmono eq_refl). discriminate.
Qed.

(* nothing is invented or multiplied: a header on a redirected request is one of the first
   request's, with the same number of values or none *)
Lemma follow_no_new_headers ps init hs : forall targets via strip s n k,
  In s (fst (follow ps init hs via strip targets)) -> In (n, k) (s_hdrs s) ->
  exists k0, In (n, k0) hs /\ (k = k0 \/ k = 0).
Proof.
  intros targets via strip s n k Hs Hin.
  destruct (follow_sent_shape _ _ _ _ _ _ _ Hs) as [strip' [Hh _]].
  rewrite Hh in Hin. apply carry_in in Hin as [k0 [Hin0 Hk0]]. exists k0. split; [assumption|].
  destruct (is_sensitive n && strip' && negb (mem_bytes n (always_names ps))); auto.
Qed.

(* every header that is not sensitive, and every header an AlwaysCopy policy names, travels to
   every followed hop unchanged *)
Lemma follow_carried ps init hs n k :
  is_sensitive n = false \/ mem_bytes n (always_names ps) = true ->
  In (n, k) hs ->
  forall targets via strip s,
  In s (fst (follow ps init hs via strip targets)) -> In (n, k) (s_hdrs s).
Proof.
  intros Hor Hin targets via strip s Hs.
  destruct (follow_sent_shape _ _ _ _ _ _ _ Hs) as [strip' [Hh _]]. rewrite Hh.
  apply carry_keeps; [|assumption].
  destruct Hor as [H|H]; rewrite H; cbn [andb negb]; [reflexivity|apply andb_false_r].
Qed.

(* the sensitive set is net/http's (regenerated from GOROOT/src/net/http/client.go) *)
Lemma sensitive_set :
  go_sensitive_headers = [bs "Authorization"; bs "Www-Authenticate"; bs "Cookie"; bs "Cookie2"].
Proof. reflexivity. Qed.

(* a policy that faults on a hop permits nothing on that hop: whatever stands before or after it in
   the list, the hop is not taken *)
Lemma fault_is_no_permission ps k t via :
  In (PFault k) ps -> length via = k -> all_permit ps t via = false.
Proof.
  intros Hin Hk. destruct (all_permit ps t via) eqn:E; [|reflexivity].
  apply composition_is_conjunction with (p := PFault k) in E; [|assumption].
  cbn [permits] in E. subst k. now rewrite Nat.eqb_refl in E.
Qed.

(* ... so a chain under such a list sends at most k requests *)
Lemma fault_bounds_chain ps init hs targets k :
  In (PFault k) ps -> 1 <= k -> length (fst (run_chain ps init hs targets)) <= k.
Proof.
  intros Hin Hk. unfold run_chain.
  assert (H : forall targets via strip, length via <= k ->
             length via + length (fst (follow ps init hs via strip targets)) <= k).
  { induction targets0 as [|t rest IH]; intros via strip Hv; cbn [follow].
    - cbn. lia.
    - destruct (all_permit ps t via) eqn:Hp; [|cbn; lia].
      assert (Hne : length via <> k).
      { intros He. rewrite (fault_is_no_permission ps k t via Hin He) in Hp. discriminate. }
      specialize (IH (via ++ [t]) (strip || negb (bytes_eqb init t) && negb (should_copy init t))).
      destruct (follow ps init hs (via ++ [t]) _ rest) as [l e]. cbn [fst length] in *.
      rewrite app_length in IH. cbn [length] in IH. lia. }
  specialize (H targets [init] false). cbn [length] in H.
  destruct (follow ps init hs [init] false targets) as [l e]. cbn [fst length] in *. lia.
Qed.
