(* Proofs/H3CacheProofs.v - invariants of the HTTP/3 connection cache model (Model/H3Cache.v)
   over ALL event sequences. *)
From Coq Require Import List Arith Bool ZArith Lia ZifyBool ZifyNat.
From ReqV Require Import Model.Pool Model.H3Cache Proofs.PoolProofs.
Import ListNotations.

Definition uses_cl (ph : h3phase) (cl : clid) : Prop :=
  match ph with
  | Q3Wait c | Q3Run c => c = cl
  | _ => False
  end.

Record h3inv (s : h3state) : Prop := mkI3 {
  A3 : forall cl, cl_use s cl = Z.of_nat (length (cl_users s cl));
  B31 : forall cl, NoDup (cl_users s cl);
  B32 : forall cl q, In q (cl_users s cl) -> uses_cl (q_phase s q) cl;
  B33 : forall q cl, uses_cl (q_phase s q) cl -> In q (cl_users s cl);
  C31 : forall h cl, clients s h = Some cl -> cl < n_cl s;
  C32 : forall h cl, clients s h = Some cl -> cl_host s cl = h;
  D31 : forall q, n_q s <= q -> q_phase s q = Q3None;
  D32 : forall q cl, uses_cl (q_phase s q) cl -> cl < n_cl s }.

Ltac updt3 :=
  unfold upd in *;
  repeat match goal with
         | |- context [Nat.eqb ?a ?b] => destruct (Nat.eqb_spec a b); subst
         | H : context [Nat.eqb ?a ?b] |- _ => destruct (Nat.eqb_spec a b); subst
         end.

Ltac pre3 :=
  repeat match goal with
         | H : Some _ = Some _ |- _ => inversion H; subst; clear H
         | H : Some _ = None |- _ => discriminate H
         | H : None = Some _ |- _ => discriminate H
         | H : False |- _ => contradiction
         end.

Ltac fin3q :=
  updt3; simpl in *; pre3; subst;
  try solve [ eauto 5 | lia | congruence | exfalso; eauto 5 | constructor
            | match goal with H : _ |- _ => solve [exfalso; eapply H; eauto] end ].

Lemma uses_cl_inj : forall ph a b, uses_cl ph a -> uses_cl ph b -> a = b.
Proof. destruct ph; simpl; intros; try contradiction; congruence. Qed.

Lemma h3inv_init : h3inv h3_init.
Proof. constructor; simpl; intros; try contradiction; try discriminate; auto; try lia; constructor. Qed.

Lemma uses_lt : forall s q cl, h3inv s -> uses_cl (q_phase s q) cl -> q < n_q s.
Proof.
  intros s q cl H U. destruct (le_lt_dec (n_q s) q) as [L|L]; auto.
  rewrite (D31 s H q L) in U. contradiction.
Qed.

Lemma remove1_length_In3 : forall r l, In r l -> length l = S (length (remove1 r l)).
Proof.
  induction l as [|x l IH]; simpl; intros H; [contradiction|].
  destruct (Nat.eqb_spec x r); subst; auto.
  destruct H as [E|E]; [congruence|]. simpl. rewrite <- IH; auto.
Qed.

(* q stops using cl (useCount.Add(-1)) and moves to a phase that uses nothing *)
Lemma release_inv : forall s cl q ph, h3inv s -> uses_cl (q_phase s q) cl ->
  (forall c, ~ uses_cl ph c) -> ph <> Q3None ->
  h3inv (set3_q_phase (upd (q_phase s) q ph) (release s cl q)).
Proof.
  intros s cl q ph H U Hph Hn.
  assert (Hq : q < n_q s) by (eapply uses_lt; eauto).
  assert (Hin : In q (cl_users s cl)) by (apply (B33 s H); auto).
  pose proof (remove1_length_In3 q _ Hin) as Hlen.
  assert (Hnd : ~ In q (remove1 q (cl_users s cl))) by (apply remove1_not_In; apply (B31 s H)).
  destruct H as [a b1 b2 b3 c1 c2 d1 d2].
  unfold release. constructor; simpl; intros; fin3q.
  all: try (rewrite a, Hlen; lia).
  all: try (apply remove1_NoDup; auto).
  all: try (exfalso; eapply Hph; eauto; fail).
  all: try match goal with X : In ?q (cl_users ?s ?c0), Y : uses_cl (q_phase ?s ?q) ?c, N : ?c0 <> ?c |- _ =>
             exfalso; apply N; eapply uses_cl_inj; [eapply b2; eauto | eauto] end.
  all: try match goal with X : In _ (remove1 _ _) |- _ => apply remove1_In in X; fin3q end.
  all: try (apply remove1_In_other; fin3q).
Qed.

(* deleting cache entries never hurts the invariant *)
Lemma drop_clients_inv : forall s f, h3inv s ->
  (forall h cl, f h = Some cl -> clients s h = Some cl) -> h3inv (set3_clients f s).
Proof.
  intros s f H Hf. destruct H as [a b1 b2 b3 c1 c2 d1 d2].
  constructor; simpl; intros; fin3q.
Qed.

Lemma upd_none_sub : forall (s : h3state) h0 h cl,
  upd (clients s) h0 None h = Some cl -> clients s h = Some cl.
Proof. intros s h0 h cl. unfold upd. destruct (Nat.eqb h h0); [discriminate | auto]. Qed.

Lemma closed_inv : forall s f, h3inv s -> h3inv (set3_cl_closed f s).
Proof.
  intros s f H. destruct H as [a b1 b2 b3 c1 c2 d1 d2]. constructor; simpl; intros; fin3q.
Qed.

Ltac close3 a b1 b2 b3 c1 c2 d1 d2 Hnu :=
  fin3q;
  try (rewrite a; simpl; lia);
  try (constructor; fin3q);
  try match goal with X : _ \/ _ |- _ => destruct X; subst; fin3q end;
  try match goal with X : _ = _ \/ False |- _ => destruct X as [X|[]]; subst; fin3q end;
  try (exfalso; eapply Hnu; eauto; fail);
  try (right; apply b3; auto; fail);
  try (apply d1; lia);
  try match goal with X : clients _ _ = Some _ |- _ => apply c1 in X; lia end;
  try match goal with X : In _ (cl_users _ _) |- _ => apply b2 in X; apply d2 in X; lia end;
  try match goal with X : uses_cl _ _ |- _ => apply d2 in X; lia end.

(* getClient for a request that uses nothing yet *)
Lemma get_client_inv : forall s q h, h3inv s -> q < n_q s -> (forall c, ~ uses_cl (q_phase s q) c) ->
  h3inv (get_client s q h).
Proof.
  intros s q h H Hq Hno.
  assert (Hnu : forall cl, ~ In q (cl_users s cl)).
  { intros cl X. apply (B32 s H) in X. eapply Hno; eauto. }
  unfold get_client.
  assert (Hfresh : h3inv (set3_q_phase (upd (q_phase s) q (Q3Wait (n_cl s))) (new_client s (n_cl s) h 1%Z [q]))).
  { unfold new_client. destruct H as [a b1 b2 b3 c1 c2 d1 d2].
    constructor; simpl; intros; close3 a b1 b2 b3 c1 c2 d1 d2 Hnu. }
  destruct (clients s h) as [cl|] eqn:Ec; auto.
  destruct (stale s cl); auto.
  destruct H as [a b1 b2 b3 c1 c2 d1 d2].
  constructor; simpl; intros; close3 a b1 b2 b3 c1 c2 d1 d2 Hnu.
Qed.

Lemma fresh_phase : forall s, h3inv s -> q_phase s (n_q s) = Q3None.
Proof. intros s H. apply (D31 s H). lia. Qed.

Theorem h3_step_inv : forall s e, h3inv s -> h3inv (h3_step s e).
Proof.
  intros s e H. destruct e; simpl.
  - (* E3Get *)
    pose proof (fresh_phase s H) as Hf. apply get_client_inv.
    + destruct H as [a b1 b2 b3 c1 c2 d1 d2]. constructor; simpl; intros; fin3q. apply d1; lia.
    + simpl; lia.
    + simpl. rewrite Hf. intros c X; exact X.
  - (* E3Reget *)
    destruct (q_phase s q) as [|cl|cl|h|ok] eqn:Ep; auto.
    apply get_client_inv; auto.
    + destruct (le_lt_dec (n_q s) q) as [L|L]; auto. rewrite (D31 s H q L) in Ep. discriminate.
    + rewrite Ep. intros c X; exact X.
  - (* E3AddConn *)
    assert (Hnu : forall cl, ~ In (n_q s) (cl_users s cl)).
    { intros cl X. apply (B32 s H) in X. rewrite (fresh_phase s H) in X. contradiction. }
    assert (Hnew : h3inv (new_client s (n_cl s) h 0%Z [])).
    { unfold new_client. destruct H as [a b1 b2 b3 c1 c2 d1 d2].
      constructor; simpl; intros; close3 a b1 b2 b3 c1 c2 d1 d2 Hnu. }
    destruct (clients s h) as [cl|] eqn:Ec; auto. destruct (stale s cl); auto.
  - (* E3DialDone *)
    destruct (cl <? n_cl s); auto. destruct (cl_dial s cl); auto.
    destruct H as [a b1 b2 b3 c1 c2 d1 d2]. constructor; simpl; intros; fin3q.
  - (* E3ConnGone *)
    destruct (cl <? n_cl s); auto. destruct (cl_dial s cl); auto.
    destruct H as [a b1 b2 b3 c1 c2 d1 d2]. constructor; simpl; intros; fin3q.
  - (* E3Proceed *)
    destruct (q_phase s q) as [|cl|cl|h|ok] eqn:Ep; auto.
    destruct (cl_dial s cl) eqn:Ed; auto.
    + assert (U : uses_cl (q_phase s q) cl) by (rewrite Ep; reflexivity).
      assert (Hq : q < n_q s) by (eapply uses_lt; eauto).
      assert (Hin : In q (cl_users s cl)) by (apply (B33 s H); auto).
      destruct H as [a b1 b2 b3 c1 c2 d1 d2]. constructor; simpl; intros; fin3q.
      all: try (rewrite Ep in *; simpl in *; subst; auto; fail).
      all: try match goal with X : In ?q0 (cl_users _ _) |- _ => apply b2 in X; rewrite Ep in X; simpl in X; subst; reflexivity end.
    + assert (U : uses_cl (q_phase s q) cl) by (rewrite Ep; reflexivity).
      set (ph := if retry then Q3Again (cl_host s cl) else Q3Done false).
      assert (Hph : forall c, ~ uses_cl ph c) by (subst ph; destruct retry; intros c X; exact X).
      assert (Hn : ph <> Q3None) by (subst ph; destruct retry; discriminate).
      pose proof (release_inv s cl q ph H U Hph Hn) as H1.
      destruct (is_current (release s cl q) cl) eqn:Ecur; [|exact H1].
      (* the entry is dropped: same state with fewer cache entries *)
      exact (drop_clients_inv _ (upd (clients s) (cl_host s cl) None) H1
               (fun h c X => upd_none_sub s (cl_host s cl) h c X)).
  - (* E3Abandon *)
    destruct (q_phase s q) as [|cl|cl|h|ok] eqn:Ep; auto.
    destruct (cl_dial s cl); auto.
    assert (U : uses_cl (q_phase s q) cl) by (rewrite Ep; reflexivity).
    exact (release_inv s cl q (Q3Done false) H U (fun c X => X) ltac:(discriminate)).
  - (* E3Finish *)
    destruct (q_phase s q) as [|cl|cl|h|ok'] eqn:Ep; auto.
    assert (U : uses_cl (q_phase s q) cl) by (rewrite Ep; reflexivity).
    destruct (negb ok && remove).
    + set (s0 := set3_clients (upd (clients s) (cl_host s cl) None) s).
      assert (H0 : h3inv s0) by (apply drop_clients_inv; auto; apply upd_none_sub).
      exact (release_inv s0 cl q (Q3Done ok) H0 U (fun c X => X) ltac:(discriminate)).
    + exact (release_inv s cl q (Q3Done ok) H U (fun c X => X) ltac:(discriminate)).
  - (* E3CloseIdle *)
    apply drop_clients_inv.
    + apply closed_inv; auto.
    + simpl. intros h cl X. destruct (clients s h) as [c|]; [|discriminate].
      destruct (cl_use s c =? 0)%Z; [discriminate | auto].
Qed.

Theorem h3_run_inv : forall evs, h3inv (h3_run evs).
Proof.
  intros evs. unfold h3_run. rewrite <- (rev_involutive evs).
  induction (rev evs) as [|e l IH]; simpl.
  - apply h3inv_init.
  - rewrite fold_left_app. simpl. apply h3_step_inv; auto.
Qed.

(* ---------- theorems used by Properties/C09.v ---------- *)

(* useCount = number of requests currently holding the client (waiting for its dial or inside
   RoundTrip); in particular it is never negative *)
Theorem h3_usecount : forall evs cl, let s := h3_run evs in
  cl_use s cl = Z.of_nat (length (cl_users s cl)) /\
  NoDup (cl_users s cl) /\
  (forall q, In q (cl_users s cl) <-> (q_phase s q = Q3Wait cl \/ q_phase s q = Q3Run cl)).
Proof.
  intros evs cl s. pose proof (h3_run_inv evs) as H. fold s in H. repeat split.
  - apply (A3 s H).
  - apply (B31 s H).
  - intros X. apply (B32 s H) in X. destruct (q_phase s q); simpl in X; try contradiction; subst; auto.
  - intros [X|X]; apply (B33 s H); rewrite X; reflexivity.
Qed.

(* CloseIdleConnections closes a cached connection only when no request holds it (neither
   waiting for its dial nor inside RoundTrip) *)
Theorem h3_close_idle_safe : forall evs cl, let s := h3_run evs in
  let s' := h3_step s E3CloseIdle in
  cl_closed s cl = false -> cl_closed s' cl = true ->
  forall q, q_phase s q <> Q3Wait cl /\ q_phase s q <> Q3Run cl.
Proof.
  intros evs cl s s' H0 H1 q. pose proof (h3_run_inv evs) as H. fold s in H.
  subst s'. simpl in H1. rewrite H0 in H1. simpl in H1. apply andb_prop in H1. destruct H1 as [_ H1].
  apply Z.eqb_eq in H1. rewrite (A3 s H) in H1.
  assert (Hu : cl_users s cl = []) by (destruct (cl_users s cl); [reflexivity | simpl in H1; lia]).
  split; intro X; assert (Y : In q (cl_users s cl)) by (apply (B33 s H); rewrite X; reflexivity);
    rewrite Hu in Y; contradiction.
Qed.

(* the cache holds at most one client per authority, and a cached client belongs to it *)
Theorem h3_one_client_per_host : forall evs h1 h2 cl, let s := h3_run evs in
  clients s h1 = Some cl -> clients s h2 = Some cl -> h1 = h2.
Proof.
  intros evs h1 h2 cl s X Y. pose proof (h3_run_inv evs) as H. fold s in H.
  rewrite <- (C32 s H _ _ X). apply (C32 s H _ _ Y).
Qed.

Theorem h3_reachable_snapshot_ok : forall evs hs n, let s := h3_run evs in
  (forall cl, length (cl_users s cl) <= n) ->
  h3snap_ok n (map (fun h => match clients s h with Some cl => cl_use s cl | None => 0%Z end) hs) = true.
Proof.
  intros evs hs n s Hn. pose proof (h3_run_inv evs) as H. fold s in H.
  unfold h3snap_ok. apply forallb_forall. intros u Hu. apply in_map_iff in Hu.
  destruct Hu as [h [E _]]. subst u. destruct (clients s h) as [cl|].
  - rewrite (A3 s H). specialize (Hn cl). apply andb_true_intro. split; lia.
  - apply andb_true_intro. split; lia.
Qed.

(* a request that gives up while the dial is still running gives its count back (repair
   5efe32e): afterwards CloseIdleConnections can close the client *)
Example h3_abandon_gives_back :
  let s := h3_run [E3Get 5; E3Abandon 0; E3DialDone 0 true; E3CloseIdle] in
  clients s 5 = None /\ cl_use s 0 = 0%Z /\ cl_users s 0 = [] /\ cl_closed s 0 = true /\
  q_phase s 0 = Q3Done false.
Proof. vm_compute. repeat split. Qed.
