(* Proofs/DemuxProofs.v *)
From Coq Require Import List Arith Bool Lia.
From ReqV Require Import Lib.Bytes Model.Demux.
Import ListNotations.

Lemma d_upd_same : forall f i v, d_upd f i v i = v.
Proof. intros; unfold d_upd; now rewrite Nat.eqb_refl. Qed.
Lemma d_upd_other : forall f i j v, j <> i -> d_upd f i v j = f j.
Proof. intros; unfold d_upd; destruct (Nat.eqb_spec j i); congruence. Qed.

Lemma existsb_In : forall i l, existsb (Nat.eqb i) l = true <-> In i l.
Proof.
  intros; rewrite existsb_exists; split.
  - intros (x & H & E); apply Nat.eqb_eq in E; now subst.
  - intros; exists i; split; auto; apply Nat.eqb_refl.
Qed.

Lemma fold_open : forall wire s, d_open (fold_left d_step wire s) = d_open s.
Proof.
  induction wire as [|[i p] w IH]; cbn; auto; intros s. rewrite IH.
  destruct (existsb (Nat.eqb i) (d_open s)); auto.
Qed.

(* generalised: starting from any buffers *)
Lemma demux_gen : forall f wire, Interleave f wire -> forall s,
  forall i, d_buf (fold_left d_step wire s) i =
            if existsb (Nat.eqb i) (d_open s) then d_buf s i ++ f i else d_buf s i.
Proof.
  induction 1 as [f Hn|f j x l wire Hj HI IH]; intros s i.
  - cbn. rewrite Hn, app_nil_r. now destruct (existsb _ _).
  - cbn [fold_left d_step]. destruct (existsb (Nat.eqb j) (d_open s)) eqn:Ej.
    + rewrite IH; cbn [d_open d_buf]. destruct (Nat.eq_dec i j) as [->|N].
      * rewrite Ej, !d_upd_same, Hj, <- app_assoc. reflexivity.
      * rewrite !d_upd_other by auto. reflexivity.
    + rewrite IH. destruct (Nat.eq_dec i j) as [->|N].
      * now rewrite Ej.
      * now rewrite d_upd_other by auto.
Qed.

(* for EVERY interleaving of the per-stream sequences, every open stream receives exactly its
   own sequence, in order; a stream that is not open receives nothing *)
Theorem demux_any_interleaving : forall open f wire, Interleave f wire ->
  forall i, demux open wire i = if existsb (Nat.eqb i) open then f i else [].
Proof.
  intros open f wire H i. unfold demux, d_run. rewrite (demux_gen f wire H). reflexivity.
Qed.

(* frames of other streams never change what stream i gets *)
Theorem demux_independent : forall open wire i,
  demux open wire i = demux open (filter (fun fr => Nat.eqb (fst fr) i) wire) i.
Proof.
  intros open wire i. unfold demux, d_run. generalize (d_init open) as s.
  induction wire as [|[j p] w IH]; intros s; cbn [fold_left filter fst]; auto.
  destruct (Nat.eqb_spec j i).
  - subst j. cbn [fold_left]. apply IH.
  - rewrite IH. cbn [d_step]. destruct (existsb (Nat.eqb j) (d_open s)) eqn:E; auto.
    assert (G : forall w' s1 s2, d_open s1 = d_open s2 -> d_buf s1 i = d_buf s2 i ->
                (forall fr, In fr w' -> fst fr = i) ->
                d_buf (fold_left d_step w' s1) i = d_buf (fold_left d_step w' s2) i).
    { induction w' as [|[a q] w' IHw]; cbn [fold_left]; auto; intros s1 s2 E1 E2 Hall.
      apply IHw.
      - cbn [d_step]. rewrite E1. destruct (existsb (Nat.eqb a) (d_open s2)); cbn; auto.
      - cbn [d_step]. rewrite E1. assert (a = i) by (apply (Hall (a, q)); left; auto). subst a.
        destruct (existsb (Nat.eqb i) (d_open s2)); cbn; auto. now rewrite !d_upd_same, E2.
      - intros fr Hfr; apply Hall; right; auto. }
    apply G; cbn; auto.
    + now rewrite d_upd_other by auto.
    + intros fr Hfr. apply filter_In in Hfr. destruct Hfr as [_ Hfr]. now apply Nat.eqb_eq in Hfr.
Qed.
