(* Proofs/HeaderWireProofs.v - C16: the order-related statements lifted from header.SortKeyValues
   to the wire lines of the three collectors; the pseudo-header order for every permutation and
   every partial list; independence of Go's map iteration order; the cookie-crumb split. *)
From ReqV Require Import Lib.Bytes Lib.BytesFacts Model.HeaderOrder Model.HeaderCollect
  Proofs.HeaderOrderProofs Proofs.HeaderCollectProofs.
From Coq Require Import Lia Permutation Sorting.Sorted.

(* ================= sortedness of the wire ================= *)
Lemma ss_app {A} (R : A -> A -> Prop) (a b : list A) :
  StronglySorted R a -> StronglySorted R b ->
  (forall x y, In x a -> In y b -> R x y) -> StronglySorted R (a ++ b).
Proof.
  induction a as [|x a IH]; intros Ha Hb Hab; cbn [app]; [assumption|].
  inversion Ha as [|? ? Ha' Hx]; subst. constructor.
  - apply IH; [assumption..|]. intros; apply Hab; [now right|assumption].
  - apply Forall_app. split; [assumption|].
    rewrite Forall_forall. intros y Hy. apply Hab; [now left|assumption].
Qed.

Lemma ss_same_key order k vs : StronglySorted (rank_le order) (map (fun v : bytes => (k, v)) vs).
Proof.
  induction vs as [|v t IH]; cbn [map]; constructor; [assumption|].
  rewrite Forall_forall. intros y Hy. apply in_map_iff in Hy as (w & <- & _).
  unfold rank_le, line_rank. cbn [fst]. lia.
Qed.

Lemma flatten_sorted order kvs :
  StronglySorted (le_r (kv_rank order)) kvs -> StronglySorted (rank_le order) (flatten kvs).
Proof.
  induction 1 as [|x t Hs IH Hx]; [constructor|].
  rewrite flatten_cons. apply ss_app; [apply ss_same_key|exact IH|].
  intros a b Ha Hb. apply in_map_iff in Ha as (v & <- & _).
  apply in_flatten in Hb as (vs & Hb & _). rewrite Forall_forall in Hx. specialize (Hx _ Hb).
  unfold rank_le, line_rank, le_r, kv_rank in *. cbn [fst] in *. exact Hx.
Qed.

Lemma sorted_lines order kvs :
  StronglySorted (rank_le order) (flatten (sort_key_values kvs order)).
Proof. apply flatten_sorted. rewrite sort_key_values_spec. apply sort_sorted. Qed.

Lemma sort_if_lines_sorted order kvs :
  is_nil order = false -> StronglySorted (rank_le order) (flatten (sort_if order kvs)).
Proof. intros H. unfold sort_if. rewrite H. apply sorted_lines. Qed.

(* HTTP/1.1: with an order list, the lines on the wire are sorted by rank in that list
   (listed names in list order, every unlisted one after them) *)
Lemma h1_wire_sorted q :
  is_nil (order_list (c_hdr q)) = false ->
  StronglySorted (rank_le (order_list (c_hdr q))) (h1_lines q).
Proof. intros H. unfold h1_lines. now apply sort_if_lines_sorted. Qed.

Lemma h2_regular_sorted q :
  is_nil (order_list (c_hdr q)) = false ->
  StronglySorted (rank_le (order_list (c_hdr q))) (h2_regular_lines q).
Proof. intros H. unfold h2_regular_lines. now apply sort_if_lines_sorted. Qed.

Lemma h3_regular_sorted q :
  is_nil (order_list (c_hdr q)) = false ->
  StronglySorted (rank_le (order_list (c_hdr q))) (h3_regular_lines q).
Proof. intros H. unfold h3_regular_lines. now apply sort_if_lines_sorted. Qed.

(* lower-casing a token name does not change its rank *)
Lemma rank_lower order k : forallb is_tchar k = true -> rank order (to_lower k) = rank order k.
Proof.
  intros H. unfold rank, rank_c.
  rewrite (canonical_key_case_insensitive (to_lower k) k); [reflexivity| |apply to_lower_idem].
  now rewrite forallb_tchar_lower.
Qed.

Lemma lower_sorted order ls :
  (forall l, In l ls -> forallb is_tchar (fst l) = true) ->
  StronglySorted (rank_le order) ls -> StronglySorted (rank_le order) (lower_lines ls).
Proof.
  intros Ht Hs. induction Hs as [|x t Hs IH Hx]; [constructor|].
  cbn [lower_lines map]. constructor.
  - apply IH. intros l Hl. apply Ht. now right.
  - rewrite Forall_forall in *. intros y Hy. apply in_map_iff in Hy as (y0 & <- & Hy0).
    specialize (Hx _ Hy0). unfold rank_le, line_rank in *. cbn [fst].
    rewrite !rank_lower; [exact Hx|apply Ht; now right|apply Ht; now left].
Qed.

Definition names_are_tokens (h : list kv) : Prop := forall x, In x h -> forallb is_tchar (fst x) = true.

Lemma auto_names_tokens :
  forallb (fun n => forallb is_tchar n)
    [bs "cookie"; bs "content-length"; bs "accept-encoding"; bs "user-agent"] = true.
Proof. vm_compute. reflexivity. Qed.

Lemma h2_regular_tokens q l :
  names_are_tokens (c_hdr q) -> In l (h2_regular_lines q) -> forallb is_tchar (fst l) = true.
Proof.
  intros Ht H. apply (Permutation_in _ (h2_regular_perm q)) in H.
  pose proof auto_names_tokens as T. rewrite forallb_forall in T.
  apply in_app_or in H as [H|H].
  - apply in_flat_map in H as (x & Hx & H). unfold h2_user_lines in H.
    apply in_flatten in H as (vs & H & _). apply h2_entry_names in H as [[E|E] _]; cbn [fst] in E; rewrite E.
    + now apply Ht.
    + apply T. cbn; auto.
  - apply in_flatten in H as (vs & H & _). apply auto_tail_names in H. cbn [fst] in H.
    apply T. cbn in *. intuition.
Qed.

Lemma h3_regular_tokens q l :
  names_are_tokens (c_hdr q) -> In l (h3_regular_lines q) -> forallb is_tchar (fst l) = true.
Proof.
  intros Ht H. apply (Permutation_in _ (h3_regular_perm q)) in H.
  pose proof auto_names_tokens as T. rewrite forallb_forall in T.
  apply in_app_or in H as [H|H].
  - apply in_flat_map in H as (x & Hx & H). unfold h3_user_lines in H.
    apply in_flatten in H as (vs & H & _). apply h3_entry_names in H as [E _]; cbn [fst] in E; rewrite E.
    now apply Ht.
  - apply in_flatten in H as (vs & H & _). apply auto_tail_names in H. cbn [fst] in H.
    apply T. cbn in *. intuition.
Qed.

(* HTTP/2, HTTP/3: the regular block as it is on the wire (names lower-cased) is sorted by rank.
   The hypothesis is what validateHeaders enforces before anything is written (a request with a
   non-token header name is refused). *)
Lemma h2_wire_sorted q :
  names_are_tokens (c_hdr q) -> is_nil (order_list (c_hdr q)) = false ->
  StronglySorted (rank_le (order_list (c_hdr q))) (lower_lines (h2_regular_lines q)).
Proof.
  intros Ht H. apply lower_sorted; [|now apply h2_regular_sorted].
  intros l Hl. now apply (h2_regular_tokens q).
Qed.

Lemma h3_wire_sorted q :
  names_are_tokens (c_hdr q) -> is_nil (order_list (c_hdr q)) = false ->
  StronglySorted (rank_le (order_list (c_hdr q))) (lower_lines (h3_regular_lines q)).
Proof.
  intros Ht H. apply lower_sorted; [|now apply h3_regular_sorted].
  intros l Hl. now apply (h3_regular_tokens q).
Qed.

(* a rank-sorted line list has the listed fields in list order: for order lists of every shape
   (duplicates: the last occurrence of a name decides, as in the code) *)
Lemma lines_listed_in_listed_order order ls i j oi oj :
  StronglySorted (rank_le order) ls ->
  i < j -> nth_error order i = Some oi -> nth_error order j = Some oj ->
  (forall m o', i < m -> nth_error order m = Some o' -> canonical_key o' <> canonical_key oi) ->
  (forall m o', j < m -> nth_error order m = Some o' -> canonical_key o' <> canonical_key oj) ->
  forall p q a b,
  nth_error ls p = Some a -> nth_error ls q = Some b ->
  canonical_key (fst a) = canonical_key oi -> canonical_key (fst b) = canonical_key oj ->
  p < q.
Proof.
  intros Hs Hij Hi Hj Li Lj p q a b Ha Hb Ca Cb.
  destruct (rank_of_last_occurrence order (fst a) oi i Hi Ca Li) as [Ra _].
  destruct (rank_of_last_occurrence order (fst b) oj j Hj Cb Lj) as [Rb _].
  destruct (Nat.lt_trichotomy p q) as [H|[->|H]]; [exact H| |].
  - rewrite Ha in Hb. injection Hb as ->. lia.
  - pose proof (strongly_sorted_nth (line_rank order) ls Hs q p b a H Hb Ha) as Hle.
    unfold line_rank in Hle. lia.
Qed.

(* listed lines come before unlisted ones *)
Lemma lines_listed_before_unlisted order ls p q a b :
  StronglySorted (rank_le order) ls ->
  nth_error ls p = Some a -> nth_error ls q = Some b ->
  listed order (fst a) = true -> listed order (fst b) = false -> p < q.
Proof.
  intros Hs Ha Hb La Lb. apply rank_listed in La. apply rank_unlisted in Lb.
  destruct (Nat.lt_trichotomy p q) as [H|[->|H]]; [exact H| |].
  - rewrite Ha in Hb. injection Hb as ->. lia.
  - pose proof (strongly_sorted_nth (line_rank order) ls Hs q p b a H Hb Ha) as Hle.
    unfold line_rank in Hle. lia.
Qed.

(* ================= the pseudo-header block ================= *)
Definition pseudo4 : list bytes := [bs ":authority"; bs ":method"; bs ":path"; bs ":scheme"].

(* all duplicate-free lists over l: every ordered selection of 0..|l| elements *)
Fixpoint remove_nth {A} (n : nat) (l : list A) : list A :=
  match l, n with
  | [], _ => []
  | _ :: t, O => t
  | x :: t, S m => x :: remove_nth m t
  end.

Fixpoint selections {A} (fuel : nat) (l : list A) : list (list A) :=
  match fuel with
  | O => [[]]
  | S f => [] :: flat_map (fun i => match nth_error l i with
                                    | Some x => map (cons x) (selections f (remove_nth i l))
                                    | None => []
                                    end) (seq 0 (length l))
  end.

Definition pseudo_selections : list (list bytes) := selections 4 pseudo4.

(* 65 = 1 + 4 + 12 + 24 + 24 selections, pairwise different, each duplicate-free and drawn from
   the four names; the 24 of length four are the permutations *)
Lemma pseudo_selections_facts :
  length pseudo_selections = 65 /\
  length (filter (fun p => length p =? 4) pseudo_selections) = 24 /\
  forallb (fun p => forallb (fun n => mem_bytes n pseudo4) p) pseudo_selections = true.
Proof. vm_compute. repeat split. Qed.

Lemma lower_colon c : lower_byte c = colon_b -> c = colon_b.
Proof. destruct c; vm_compute; congruence. Qed.

Lemma pseudo_name_lower o : is_pseudo_name (to_lower o) = true -> canonical_key o = to_lower o.
Proof.
  unfold canonical_key. destruct o as [|c o]; [discriminate|].
  cbn [to_lower map is_pseudo_name]. intros H. apply beqb_eq in H. apply lower_colon in H. subst c.
  now rewrite beqb_refl.
Qed.

Lemma canonical_key_of_lower_pseudo o :
  is_pseudo_name (to_lower o) = true -> canonical_key (to_lower o) = canonical_key o.
Proof.
  intros H. rewrite (pseudo_name_lower o H). unfold canonical_key. rewrite H. apply to_lower_idem.
Qed.

Lemma sort_key_values_order_ext kvs o o' :
  map canonical_key o = map canonical_key o' -> sort_key_values kvs o = sort_key_values kvs o'.
Proof.
  intros E. unfold sort_key_values. rewrite E.
  assert (length o = length o') as ->; [|reflexivity].
  rewrite <- (map_length canonical_key o), E. apply map_length.
Qed.

Lemma pseudo_order_any_case kvs po :
  forallb is_pseudo_name (map to_lower po) = true ->
  sort_key_values kvs po = sort_key_values kvs (map to_lower po).
Proof.
  intros H. apply sort_key_values_order_ext. rewrite map_map.
  apply map_ext_in. intros o Ho. symmetry. apply canonical_key_of_lower_pseudo.
  rewrite forallb_forall in H. apply H. apply in_map_iff. now exists o.
Qed.

Definition pseudo_names_out (q : creq) (po : list bytes) : list bytes :=
  map fst (flatten (sort_key_values (pseudo_kvs q) po)).

Definition pseudo_expected (p : list bytes) : list bytes :=
  p ++ filter (fun n => negb (mem_bytes n p)) pseudo4.

Lemma pseudo_selection_sorted q p :
  In p pseudo_selections -> pseudo_names_out q p = pseudo_expected p.
Proof.
  intros H. unfold pseudo_selections in H.
  vm_compute in H.
  repeat (destruct H as [<-|H]; [vm_compute; reflexivity|]). destruct H.
Qed.

Lemma selections_pseudo p : In p pseudo_selections -> forallb is_pseudo_name p = true.
Proof.
  intros H. unfold pseudo_selections in H. vm_compute in H.
  repeat (destruct H as [<-|H]; [vm_compute; reflexivity|]). destruct H.
Qed.

(* pseudo_order_respected: for EVERY request and every pseudo-header order list that is - up to
   letter case - a permutation (24) or a duplicate-free partial list (40) of the four names, the
   pseudo-header block on the wire is exactly: the listed names in list order, then the others in
   the default order :authority :method :path :scheme.  Nothing added, dropped or duplicated. *)
Lemma pseudo_order_respected q :
  let po := porder_list (c_hdr q) in
  is_nil po = false -> In (map to_lower po) pseudo_selections ->
  map fst (pseudo_lines q) = pseudo_expected (map to_lower po).
Proof.
  intros po Hn Hin. unfold pseudo_lines, sort_if. fold po. rewrite Hn.
  rewrite pseudo_order_any_case by now apply selections_pseudo.
  now apply pseudo_selection_sorted.
Qed.

(* with no pseudo-header order the block is the default one *)
Lemma pseudo_default q :
  is_nil (porder_list (c_hdr q)) = true -> map fst (pseudo_lines q) = pseudo4.
Proof. intros H. unfold pseudo_lines, sort_if. rewrite H. reflexivity. Qed.

(* whatever the list (superset, duplicates, unknown names): the four pseudo-headers, each exactly
   once with its value *)
Lemma pseudo_block_is_the_four q :
  Permutation (pseudo_lines q)
    [(bs ":authority", c_host q); (bs ":method", c_method q); (bs ":path", c_path q); (bs ":scheme", c_scheme q)].
Proof. apply pseudo_lines_perm. Qed.

(* every pseudo-header line precedes every regular line (token names cannot start with a colon) *)
Lemma is_pseudo_lower l : is_pseudo (to_lower (fst l), snd l) = is_pseudo l.
Proof.
  unfold is_pseudo. cbn [fst]. destruct (fst l) as [|c r]; [reflexivity|]. cbn [to_lower map].
  destruct (beqb c ":"%byte) eqn:E.
  - apply beqb_eq in E. subst c. reflexivity.
  - destruct (beqb (lower_byte c) ":"%byte) eqn:E2; [|reflexivity].
    apply beqb_eq in E2. apply (lower_colon c) in E2. subst c. discriminate.
Qed.

Lemma token_not_pseudo l : forallb is_tchar (fst l) = true -> is_pseudo l = false.
Proof. intros H. apply tchar_not_pseudo in H. unfold is_pseudo. unfold is_pseudo_name in H. exact H. Qed.

Lemma pseudo_lines_all_pseudo q l : In l (lower_lines (pseudo_lines q)) -> is_pseudo l = true.
Proof.
  intros H. unfold lower_lines in H. apply in_map_iff in H as (l0 & <- & H).
  rewrite is_pseudo_lower. apply (Permutation_in _ (pseudo_lines_perm q)) in H.
  cbn in H. repeat (destruct H as [<-|H]; [reflexivity|]). destruct H.
Qed.

Lemma h2_regular_not_pseudo q l :
  names_are_tokens (c_hdr q) -> In l (lower_lines (h2_regular_lines q)) -> is_pseudo l = false.
Proof.
  intros Ht H. unfold lower_lines in H. apply in_map_iff in H as (l0 & <- & H).
  rewrite is_pseudo_lower. apply token_not_pseudo. now apply (h2_regular_tokens q).
Qed.

Lemma h3_regular_not_pseudo q l :
  names_are_tokens (c_hdr q) -> In l (lower_lines (h3_regular_lines q)) -> is_pseudo l = false.
Proof.
  intros Ht H. unfold lower_lines in H. apply in_map_iff in H as (l0 & <- & H).
  rewrite is_pseudo_lower. apply token_not_pseudo. now apply (h3_regular_tokens q).
Qed.

(* ================= independence of the map iteration order ================= *)
Lemma hget_perm h h' k :
  NoDup (map fst h) -> Permutation h h' -> hget h k = hget h' k.
Proof.
  intros Hnd Hp. revert Hnd. induction Hp as [|x l l' Hp IH|x y l|l l' l'' Hp1 IH1 Hp2 IH2]; intros Hnd.
  - reflexivity.
  - cbn [hget]. destruct (bytes_eqb (fst x) k); [reflexivity|]. apply IH. now inversion Hnd.
  - cbn [hget]. destruct (bytes_eqb (fst y) k) eqn:Ey, (bytes_eqb (fst x) k) eqn:Ex; try reflexivity.
    apply bytes_eqb_eq in Ex, Ey. exfalso. cbn [map] in Hnd. inversion Hnd as [|? ? Hn _]; subst.
    apply Hn. left. congruence.
  - rewrite IH1 by assumption. apply IH2.
    eapply Permutation_NoDup; [apply Permutation_map; exact Hp1|assumption].
Qed.

Lemma existsb_perm {A} (f : A -> bool) l l' : Permutation l l' -> existsb f l = existsb f l'.
Proof.
  induction 1 as [|x l l' _ IH|x y l|l l' l'' _ IH1 _ IH2]; cbn [existsb].
  - reflexivity.
  - now rewrite IH.
  - destruct (f x), (f y); reflexivity.
  - congruence.
Qed.

Section MapOrder.
  Variables (q : creq) (h' : list kv).
  Hypothesis Hnd : NoDup (map fst (c_hdr q)).      (* the keys of a Go map are distinct *)
  Hypothesis Hp : Permutation (c_hdr q) h'.        (* h' = the same map iterated in another order *)
  Let q' := set_hdr q h'.

  Lemma mo_hvals k : hvals (c_hdr q) k = hvals h' k.
  Proof. unfold hvals. now rewrite (hget_perm _ _ k Hnd Hp). Qed.

  Lemma mo_order : order_list (c_hdr q') = order_list (c_hdr q).
  Proof. unfold order_list. symmetry. apply mo_hvals. Qed.

  Lemma mo_porder : porder_list (c_hdr q') = porder_list (c_hdr q).
  Proof. unfold porder_list. symmetry. apply mo_hvals. Qed.

  Lemma mo_header_get k : header_get (c_hdr q') k = header_get (c_hdr q) k.
  Proof. unfold header_get. cbn [q' set_hdr c_hdr]. now rewrite mo_hvals. Qed.

  Lemma mo_h1_auto : h1_auto q' = h1_auto q.
  Proof.
    unfold h1_auto, h1_ua, gzip_kv, wants_gzip. rewrite !mo_header_get.
    cbn [q' set_hdr c_hdr c_host c_method c_clen c_compress].
    now rewrite <- (hget_perm _ _ (bs "User-Agent") Hnd Hp).
  Qed.

  Lemma mo_auto_tail : auto_tail q' = auto_tail q.
  Proof.
    unfold auto_tail, gzip_kv, wants_gzip, did_ua. rewrite !mo_header_get.
    cbn [q' set_hdr c_hdr c_host c_method c_clen c_compress].
    now rewrite <- (existsb_perm _ _ _ Hp).
  Qed.

  Lemma mo_pseudo : pseudo_lines q' = pseudo_lines q.
  Proof. unfold pseudo_lines. now rewrite mo_porder. Qed.

  (* the emitted multiset does not depend on the iteration order *)
  Lemma mo_h1_perm : Permutation (h1_lines q') (h1_lines q).
  Proof.
    rewrite !h1_each_value_exactly_once, mo_h1_auto. apply Permutation_app_head.
    cbn [q' set_hdr c_hdr]. symmetry. now apply Permutation_flat_map.
  Qed.

  Lemma mo_h2_regular_perm : Permutation (h2_regular_lines q') (h2_regular_lines q).
  Proof.
    rewrite !h2_regular_perm, mo_auto_tail. apply Permutation_app_tail.
    cbn [q' set_hdr c_hdr]. symmetry. now apply Permutation_flat_map.
  Qed.

  Lemma mo_h3_regular_perm : Permutation (h3_regular_lines q') (h3_regular_lines q).
  Proof.
    rewrite !h3_regular_perm, mo_auto_tail. apply Permutation_app_tail.
    cbn [q' set_hdr c_hdr]. symmetry. now apply Permutation_flat_map.
  Qed.
End MapOrder.

(* two rank-sorted lists with the same elements show the same sequence of ranks *)
Lemma filter_eq_repeat n l : filter (fun x => x =? n) l = repeat n (length (filter (fun x => x =? n) l)).
Proof.
  induction l as [|x t IH]; [reflexivity|]. cbn [filter].
  destruct (x =? n) eqn:E; [|exact IH]. apply Nat.eqb_eq in E. subst x.
  cbn [length repeat]. now f_equal.
Qed.

Lemma sorted_perm_nat_eq (l l' : list nat) :
  StronglySorted le l -> StronglySorted le l' -> Permutation l l' -> l = l'.
Proof.
  intros Hs Hs' Hp. apply (stable_sorted_unique (fun x : nat => x)); [exact Hs|exact Hs'|].
  intros n. unfold at_rank. rewrite (filter_eq_repeat n l), (filter_eq_repeat n l').
  f_equal. apply Permutation_length. now apply filter_perm.
Qed.

Lemma ss_map {A} (r : A -> nat) l : StronglySorted (le_r r) l -> StronglySorted le (map r l).
Proof.
  induction 1 as [|x t Hs IH Hx]; cbn [map]; constructor; [assumption|].
  rewrite Forall_forall in *. intros y Hy. apply in_map_iff in Hy as (z & <- & Hz). now apply Hx.
Qed.

Lemma sorted_perm_ranks_eq order ls ls' :
  StronglySorted (rank_le order) ls -> StronglySorted (rank_le order) ls' -> Permutation ls ls' ->
  map (line_rank order) ls = map (line_rank order) ls'.
Proof.
  intros Hs Hs' Hp. apply sorted_perm_nat_eq.
  - now apply (ss_map (line_rank order)).
  - now apply (ss_map (line_rank order)).
  - now apply Permutation_map.
Qed.

(* order_independent_of_map_iteration, HTTP/1.1: for every other iteration order of the same map
   the wire carries the same multiset of lines and, position by position, a field of the same rank
   in the order list (i.e. the same listed name / "unlisted") *)
Lemma h1_order_independent_of_map_iteration q h' :
  NoDup (map fst (c_hdr q)) -> Permutation (c_hdr q) h' ->
  Permutation (h1_lines (set_hdr q h')) (h1_lines q) /\
  (is_nil (order_list (c_hdr q)) = false ->
   map (line_rank (order_list (c_hdr q))) (h1_lines (set_hdr q h')) =
   map (line_rank (order_list (c_hdr q))) (h1_lines q)).
Proof.
  intros Hnd Hp. split; [now apply mo_h1_perm|]. intros Hn.
  apply sorted_perm_ranks_eq; [| now apply h1_wire_sorted | now apply mo_h1_perm].
  rewrite <- (mo_order q h' Hnd Hp). apply h1_wire_sorted. now rewrite (mo_order q h' Hnd Hp).
Qed.

Lemma h2_order_independent_of_map_iteration q h' :
  NoDup (map fst (c_hdr q)) -> Permutation (c_hdr q) h' ->
  pseudo_lines (set_hdr q h') = pseudo_lines q /\
  Permutation (h2_lines (set_hdr q h')) (h2_lines q) /\
  (is_nil (order_list (c_hdr q)) = false ->
   map (line_rank (order_list (c_hdr q))) (h2_regular_lines (set_hdr q h')) =
   map (line_rank (order_list (c_hdr q))) (h2_regular_lines q)).
Proof.
  intros Hnd Hp. split; [now apply mo_pseudo|]. split.
  - rewrite !h2_lines_split, (mo_pseudo q h' Hnd Hp). apply Permutation_app_head.
    unfold lower_lines. apply Permutation_map. now apply mo_h2_regular_perm.
  - intros Hn. apply sorted_perm_ranks_eq; [| now apply h2_regular_sorted | now apply mo_h2_regular_perm].
    rewrite <- (mo_order q h' Hnd Hp). apply h2_regular_sorted. now rewrite (mo_order q h' Hnd Hp).
Qed.

Lemma h3_order_independent_of_map_iteration q h' :
  NoDup (map fst (c_hdr q)) -> Permutation (c_hdr q) h' ->
  pseudo_lines (set_hdr q h') = pseudo_lines q /\
  Permutation (h3_lines (set_hdr q h')) (h3_lines q) /\
  (is_nil (order_list (c_hdr q)) = false ->
   map (line_rank (order_list (c_hdr q))) (h3_regular_lines (set_hdr q h')) =
   map (line_rank (order_list (c_hdr q))) (h3_regular_lines q)).
Proof.
  intros Hnd Hp. split; [now apply mo_pseudo|]. split.
  - rewrite !h3_lines_split, (mo_pseudo q h' Hnd Hp). apply Permutation_app_head.
    unfold lower_lines. apply Permutation_map. now apply mo_h3_regular_perm.
  - intros Hn. apply sorted_perm_ranks_eq; [| now apply h3_regular_sorted | now apply mo_h3_regular_perm].
    rewrite <- (mo_order q h' Hnd Hp). apply h3_regular_sorted. now rewrite (mo_order q h' Hnd Hp).
Qed.

(* ================= cookie crumbs (HTTP/2) ================= *)
(* a cookie pair as Request.AddCookie writes it: not empty, no ';', no leading blank *)
Definition crumb_ok (p : bytes) : bool :=
  negb (mem_byte semi p) && match p with c :: _ => negb (beqb c space) | [] => false end.

Lemma crumbs_go_plain acc sk p :
  mem_byte semi p = false -> (sk = true -> match p with c :: _ => beqb c space = false | [] => True end) ->
  forall rest, crumbs_go acc sk (p ++ semi :: rest) = rev (rev p ++ acc) :: crumbs_go [] true rest.
Proof.
  revert acc sk. induction p as [|c p IH]; intros acc sk Hns Hsk rest.
  - cbn [app crumbs_go]. rewrite beqb_refl.
    assert (beqb semi space = false) as E by (vm_compute; reflexivity). rewrite E, andb_false_r.
    reflexivity.
  - cbn [app crumbs_go]. rewrite mem_byte_cons in Hns. apply orb_false_iff in Hns as [Hc Hp].
    assert (sk && beqb c space = false) as E1.
    { destruct sk; [|reflexivity]. cbn. now apply Hsk. }
    rewrite E1. rewrite beqb_sym in Hc. rewrite Hc.
    rewrite (IH (c :: acc) false Hp) by discriminate.
    cbn [rev]. now rewrite <- app_assoc.
Qed.

Lemma crumbs_go_last acc sk p :
  mem_byte semi p = false -> (sk = true -> match p with c :: _ => beqb c space = false | [] => True end) ->
  crumbs_go acc sk p = if is_nil (rev p ++ acc) then [] else [rev (rev p ++ acc)].
Proof.
  revert acc sk. induction p as [|c p IH]; intros acc sk Hns Hsk.
  - cbn [crumbs_go rev app]. destruct acc; reflexivity.
  - cbn [crumbs_go]. rewrite mem_byte_cons in Hns. apply orb_false_iff in Hns as [Hc Hp].
    assert (sk && beqb c space = false) as E1.
    { destruct sk; [|reflexivity]. cbn. now apply Hsk. }
    rewrite E1. rewrite beqb_sym in Hc. rewrite Hc.
    rewrite (IH (c :: acc) false Hp) by discriminate.
    cbn [rev]. now rewrite <- app_assoc.
Qed.

Definition semi_sp : bytes := [semi; space].

(* the Cookie header that Request.AddCookie builds ("p1; p2; ...; pn") is split back into exactly
   the pairs p1 ... pn, in order: no pair lost, merged, or altered *)
Lemma crumbs_join ps :
  forallb crumb_ok ps = true -> crumbs_go [] true (join_with semi_sp ps) = ps.
Proof.
  induction ps as [|p t IH]; [reflexivity|].
  cbn [forallb]. intros H. apply andb_true_iff in H as [Hp Ht].
  unfold crumb_ok in Hp. apply andb_true_iff in Hp as [Hns Hsp]. apply negb_true_iff in Hns.
  assert (Hsk : true = true -> match p with c :: _ => beqb c space = false | [] => True end).
  { intros _. destruct p; [exact I|]. now apply negb_true_iff in Hsp. }
  destruct t as [|p2 t].
  - cbn [join_with]. rewrite (crumbs_go_last [] true p Hns Hsk). rewrite app_nil_r.
    destruct p as [|c p]; [discriminate|]. rewrite rev_involutive.
    destruct (rev (c :: p)) eqn:E; [|reflexivity].
    apply (f_equal (@length byte)) in E. rewrite rev_length in E. discriminate.
  - change (join_with semi_sp (p :: p2 :: t)) with (p ++ semi_sp ++ join_with semi_sp (p2 :: t)).
    unfold semi_sp at 1. cbn [app].
    rewrite (crumbs_go_plain [] true p Hns Hsk). rewrite app_nil_r, rev_involutive. f_equal.
    (* the blank after the semicolon is skipped *)
    cbn [crumbs_go]. rewrite beqb_refl. cbn [andb]. now apply IH.
Qed.

Lemma crumbs_of_cookie_header ps :
  forallb crumb_ok ps = true -> ps <> [] -> crumbs (join_with semi_sp ps) = ps.
Proof.
  intros H Hne. unfold crumbs.
  (* the first pair does not start with a blank, so skipping or not is the same *)
  destruct ps as [|p t]; [congruence|].
  pose proof (crumbs_join (p :: t) H) as J.
  cbn [forallb] in H. apply andb_true_iff in H as [Hp _].
  unfold crumb_ok in Hp. apply andb_true_iff in Hp as [_ Hsp].
  destruct p as [|c p]; [discriminate|]. apply negb_true_iff in Hsp.
  destruct t as [|p2 t].
  - cbn [join_with] in *. cbn [crumbs_go] in *. rewrite Hsp in J. cbn [andb] in *. exact J.
  - change (join_with semi_sp ((c :: p) :: p2 :: t)) with ((c :: p) ++ semi_sp ++ join_with semi_sp (p2 :: t)) in *.
    cbn [app crumbs_go] in *. rewrite Hsp in J. cbn [andb] in *. exact J.
Qed.

(* boolean duplicate check on names (used by non-vacuity examples) *)
Fixpoint nodupb (l : list bytes) : bool :=
  match l with [] => true | x :: t => negb (mem_bytes x t) && nodupb t end.
Lemma nodupb_spec l : nodupb l = true <-> NoDup l.
Proof.
  induction l as [|x t IH]; cbn [nodupb]; [split; [constructor|reflexivity]|].
  rewrite andb_true_iff, negb_true_iff, mem_bytes_false, IH. split.
  - intros [H1 H2]. now constructor.
  - intros H. inversion H; subst. now split.
Qed.

(* ================= the complete functional description of SortKeyValues ================= *)
(* the output is: the entries named by order[0] (in input order), then those named by order[1],
   ..., finally the unlisted ones (in input order) - "bucket layout" *)
Section Buckets.
  Context {A : Type} (r : A -> nat).

  Definition bucket (l : list A) (i : nat) : list A := filter (fun x => r x =? i) l.
  Definition buckets (l : list A) (a len : nat) : list A := flat_map (bucket l) (seq a len).

  Lemma filter_flat_map {B} (f : A -> bool) (g : B -> list A) (l : list B) :
    filter f (flat_map g l) = flat_map (fun x => filter f (g x)) l.
  Proof.
    induction l as [|x t IH]; [reflexivity|]. cbn [flat_map]. now rewrite filter_app, IH.
  Qed.

  Lemma filter_bucket l n i :
    filter (at_rank r n) (bucket l i) = if i =? n then filter (at_rank r n) l else [].
  Proof.
    unfold bucket, at_rank. induction l as [|x t IH]; [now destruct (i =? n)|].
    cbn [filter]. destruct (r x =? i) eqn:Ei; cbn [filter]; destruct (r x =? n) eqn:En.
    - apply Nat.eqb_eq in Ei, En. subst. rewrite Nat.eqb_refl in *. now f_equal.
    - rewrite IH. destruct (i =? n) eqn:E; [|reflexivity].
      apply Nat.eqb_eq in Ei, E. apply Nat.eqb_neq in En. lia.
    - rewrite IH. destruct (i =? n) eqn:E; [|reflexivity].
      apply Nat.eqb_eq in En, E. apply Nat.eqb_neq in Ei. lia.
    - exact IH.
  Qed.

  Lemma filter_buckets l n : forall len a,
    filter (at_rank r n) (buckets l a len) =
    if (a <=? n) && (n <? a + len) then filter (at_rank r n) l else [].
  Proof.
    unfold buckets. induction len as [|len IH]; intros a.
    - cbn [seq flat_map filter]. destruct ((a <=? n) && (n <? a + 0)) eqn:E; [|reflexivity].
      apply andb_true_iff in E as [E1 E2]. apply Nat.leb_le in E1. apply Nat.ltb_lt in E2. lia.
    - cbn [seq flat_map]. rewrite filter_app, filter_bucket, IH.
      destruct (a =? n) eqn:E.
      + apply Nat.eqb_eq in E. subst.
        assert ((S n <=? n) && (n <? S n + len) = false) as ->.
        { apply andb_false_iff. left. apply Nat.leb_gt. lia. }
        assert ((n <=? n) && (n <? n + S len) = true) as ->.
        { apply andb_true_iff. split; [apply Nat.leb_le|apply Nat.ltb_lt]; lia. }
        apply app_nil_r.
      + apply Nat.eqb_neq in E. cbn [app].
        replace ((S a <=? n) && (n <? S a + len)) with ((a <=? n) && (n <? a + S len)); [reflexivity|].
        apply Bool.eq_iff_eq_true. rewrite !andb_true_iff, !Nat.leb_le, !Nat.ltb_lt. lia.
  Qed.

  Lemma buckets_ranks l : forall len a x, In x (buckets l a len) -> a <= r x.
  Proof.
    unfold buckets. induction len as [|len IH]; intros a x H; [destruct H|].
    cbn [seq flat_map] in H. apply in_app_or in H as [H|H].
    - unfold bucket in H. apply filter_In in H as [_ H]. apply Nat.eqb_eq in H. lia.
    - apply IH in H. lia.
  Qed.

  Lemma bucket_sorted l i : StronglySorted (le_r r) (bucket l i).
  Proof.
    unfold bucket. induction l as [|x t IH]; [constructor|]. cbn [filter].
    destruct (r x =? i) eqn:E; [|exact IH]. constructor; [exact IH|].
    rewrite Forall_forall. intros y Hy. apply filter_In in Hy as [_ Hy].
    apply Nat.eqb_eq in E, Hy. unfold le_r. lia.
  Qed.

  Lemma buckets_sorted l : forall len a, StronglySorted (le_r r) (buckets l a len).
  Proof.
    induction len as [|len IH]; intros a; [constructor|].
    unfold buckets. cbn [seq flat_map]. apply ss_app; [apply bucket_sorted|apply IH|].
    intros x y Hx Hy. unfold bucket in Hx. apply filter_In in Hx as [_ Hx]. apply Nat.eqb_eq in Hx.
    apply buckets_ranks in Hy. unfold le_r. lia.
  Qed.

  Lemma stable_sort_is_bucket_layout l N :
    (forall x, In x l -> r x <= N) -> stable_sort_by r l = buckets l 0 (S N).
  Proof.
    intros Hb. symmetry. apply stable_sort_unique; [apply buckets_sorted|].
    intros n. rewrite filter_buckets. cbn [Nat.leb andb Nat.add].
    destruct (n <? S N) eqn:E; [reflexivity|]. apply Nat.ltb_ge in E.
    symmetry. induction l as [|x t IH]; [reflexivity|]. cbn [filter]. unfold at_rank at 1.
    destruct (r x =? n) eqn:Ex.
    - apply Nat.eqb_eq in Ex. specialize (Hb x (or_introl eq_refl)). lia.
    - apply IH. intros y Hy. apply Hb. now right.
  Qed.
End Buckets.

Lemma rank_bound order k : rank order k <= length order.
Proof.
  destruct (listed order k) eqn:E.
  - apply rank_listed in E. lia.
  - apply rank_unlisted in E. lia.
Qed.

Lemma sort_key_values_bucket_layout kvs order :
  sort_key_values kvs order =
  flat_map (fun i => filter (fun x => rank order (fst x) =? i) kvs) (seq 0 (S (length order))).
Proof.
  rewrite sort_key_values_spec. apply (stable_sort_is_bucket_layout (kv_rank order)).
  intros x _. apply rank_bound.
Qed.
