(* Proofs/H3WriterProofs.v - two concurrent requests on one HTTP/3 request writer: under every
   schedule each stream receives exactly its own HEADERS frame (frame header announcing the size of
   its own field section, then that section), and the shared buffer is empty again afterwards. *)
From Coq Require Import Lia.
From ReqV Require Import Lib.Bytes Lib.BigEndian Model.QuicVarint Model.H3Frame Model.H3Writer.
Open Scope N_scope.

Section WriterProofs.
Variable enc : bool -> bytes.

Definition idle (th : wthread) (t : bool) : Prop :=
  (t_pc th = PLock /\ t_out th = []) \/ (t_pc th = PDone /\ t_out th = wframe (enc t)).
Definition holder (buf : bytes) (th : wthread) (t : bool) : Prop :=
  match t_pc th with
  | PEncode => buf = [] /\ t_out th = []
  | PWriteHdr => buf = enc t /\ t_out th = []
  | PWriteBuf => buf = enc t /\ t_out th = whdr (lenN (enc t))
  | PReset => buf = enc t /\ t_out th = wframe (enc t)
  | PUnlock => buf = [] /\ t_out th = wframe (enc t)
  | PLock | PDone => False
  end.
Definition winv (st : wstate) : Prop :=
  match w_lock st with
  | None => w_buf st = [] /\ idle (w_a st) true /\ idle (w_b st) false
  | Some true => holder (w_buf st) (w_a st) true /\ idle (w_b st) false
  | Some false => holder (w_buf st) (w_b st) false /\ idle (w_a st) true
  end.

Lemma winv_init : winv winit.
Proof. cbn. repeat split; left; split; reflexivity. Qed.

Lemma wstep_inv st u : winv st -> winv (wstep enc true st u).
Proof.
  destruct st as [buf lock [pa oa] [pb ob]]. unfold winv, wstep, idle, holder, w_get, w_set, wframe.
  destruct lock as [[|]|]; destruct u; cbn [w_lock w_buf w_a w_b t_pc t_out];
    destruct pa; destruct pb; cbn [w_lock w_buf w_a w_b t_pc t_out app];
    intuition (subst; cbn [app]; try discriminate; try reflexivity; auto;
               try (left; split; reflexivity); try (right; split; reflexivity)).
Qed.

Lemma wrun_inv sched : winv (wrun enc true sched).
Proof.
  unfold wrun. generalize winit winv_init. induction sched as [|u sched IH]; intros st I; [exact I|].
  cbn [fold_left]. apply IH. apply wstep_inv. exact I.
Qed.

(* every schedule, any number of steps: a finished call has put exactly its own frame on its stream;
   when both are finished the buffer is empty and the mutex free *)
Theorem writer_frames_intact sched :
  let st := wrun enc true sched in
  (t_pc (w_a st) = PDone -> t_out (w_a st) = wframe (enc true)) /\
  (t_pc (w_b st) = PDone -> t_out (w_b st) = wframe (enc false)) /\
  (t_pc (w_a st) = PDone -> t_pc (w_b st) = PDone -> w_buf st = [] /\ w_lock st = None).
Proof.
  cbv zeta. pose proof (wrun_inv sched) as I. unfold winv, idle, holder in I.
  destruct (wrun enc true sched) as [buf lock [pa oa] [pb ob]]. cbn [w_lock w_buf w_a w_b t_pc t_out] in *.
  destruct lock as [[|]|]; repeat split; intros; subst; cbn in I;
    intuition (try discriminate; try congruence).
Qed.

(* nothing is ever written to a stream but a prefix of its own frame *)
Theorem writer_no_foreign_bytes sched :
  let st := wrun enc true sched in
  (exists r, wframe (enc true) = t_out (w_a st) ++ r) /\ (exists r, wframe (enc false) = t_out (w_b st) ++ r).
Proof.
  cbv zeta. pose proof (wrun_inv sched) as I. unfold winv, idle, holder in I.
  destruct (wrun enc true sched) as [buf lock [pa oa] [pb ob]]. cbn [w_lock w_buf w_a w_b t_pc t_out] in *.
  assert (P : forall o t, o = [] \/ o = whdr (lenN (enc t)) \/ o = wframe (enc t) -> exists r, wframe (enc t) = o ++ r).
  { intros o t [-> | [-> | ->]]; [exists (wframe (enc t)); reflexivity|exists (enc t); reflexivity|exists []; rewrite app_nil_r; reflexivity]. }
  destruct lock as [[|]|]; destruct pa; destruct pb; cbn in I; split; apply P; intuition (try discriminate; auto).
Qed.
End WriterProofs.

(* with the lock narrowed to the encoding loop there is a schedule (request B encodes while request A
   is parked in its first Write) that puts A's field section, glued to B's, on B's stream and
   nothing behind A's frame header (which announces two bytes) *)
Theorem writer_narrow_lock_refuted :
  let enc := fun t : bool => if t then [x0a; x0b] else [x0c] in
  let st := wrun enc false (park_schedule 1) in
  t_pc (w_a st) = PDone /\ t_pc (w_b st) = PDone /\
  t_out (w_b st) = whdr 3 ++ [x0a; x0b; x0c] /\ t_out (w_a st) = whdr 2 /\
  t_out (w_b st) <> wframe (enc false).
Proof. cbv zeta. vm_compute. repeat split; try reflexivity. discriminate. Qed.

(* ---------- sequences: the framed buffer is the encoder's buffer, for ever ---------- *)
(* every request of every sequence on one writer is framed as its own field section, whatever sizes
   came before (the buffer is reset, never replaced: encoder and framing keep sharing it) *)
Theorem writer_seq_frames_own_section sections : bw_run None bw_init sections = map wframe sections.
Proof.
  assert (G : forall cap, bw_run None {| bw_same := true; bw_enc := []; bw_frm := []; bw_cap := cap |} sections = map wframe sections).
  { induction sections as [|s r IH]; intro cap; [reflexivity|]. cbn [bw_run bw_request bw_same bw_enc bw_frm bw_cap app map].
    f_equal. apply IH. }
  apply G.
Qed.

(* installing a fresh buffer once the old one has grown past a threshold, with the encoder still
   bound to the old one: the large request is fine, every later one is an empty HEADERS frame *)
Theorem writer_seq_fresh_buffer_refuted :
  let big := repeat x61 20 in
  bw_run (Some 16) bw_init [[x01]; big; [x02]; [x03]] = [wframe [x01]; wframe big; whdr 0; whdr 0].
Proof. cbv zeta. vm_compute. reflexivity. Qed.
