(* Proofs/H1BufioProofs.v - C04: Model/H1Resp.v's one-step [read_line] is exactly textproto's
   readLineSlice over bufio.Reader.ReadLine's buffer-sized fragments (Model/H1Bufio.v), for
   every stream and every buffer size >= 2 (bufio's minimum is 16). *)
From ReqV Require Import Lib.Bytes Lib.BytesFacts Model.H1Resp Model.H1Render Model.H1Bufio
  Proofs.H1RespProofs.
From Coq Require Import Lia.

Definition rl_cont (n : nat) (s : bytes) : option (bytes * bytes) :=
  match cut_byte LF s with
  | Some (a, r) => Some (strip_cr a, r)
  | None => if unterminated_lost (S (length s)) n s then None else Some (s, [])
  end.

Lemma read_line_is_cont n s : 1 <= n -> read_line n s = rl_cont n s.
Proof.
  intros Hn. unfold read_line, rl_cont. destruct s as [|x r]; [|reflexivity].
  cbn [cut_byte length unterminated_lost]. destruct (Nat.ltb_spec 0 n); [reflexivity|lia].
Qed.

Lemma ul_fuel n : 2 <= n -> forall f1 f2 s, length s < f1 -> length s < f2 ->
  unterminated_lost f1 n s = unterminated_lost f2 n s.
Proof.
  intros Hn. induction f1 as [|f1 IH]; intros f2 s H1 H2; [lia|].
  destruct f2 as [|f2]; [lia|]. cbn [unterminated_lost].
  destruct (Nat.ltb_spec (length s) n); [reflexivity|].
  apply IH; rewrite skipn_length; destruct (ends_with_cr (firstn n s)); lia.
Qed.

Lemma ul_step f n s : n <= length s ->
  unterminated_lost (S f) n s =
  unterminated_lost f n (skipn (if ends_with_cr (firstn n s) then n - 1 else n) s).
Proof. intros H. cbn [unterminated_lost]. destruct (Nat.ltb_spec (length s) n); [lia|reflexivity]. Qed.

Lemma strip_cr_cons2 a l : l <> [] -> strip_cr (a :: l) = a :: strip_cr l.
Proof. destruct l; [contradiction|reflexivity]. Qed.

Lemma strip_cr_snoc_not_cr p x : beqb x CR = false -> strip_cr (p ++ [x]) = p ++ [x].
Proof.
  intros Hx. induction p as [|a r IH]; cbn [app].
  - cbn. now rewrite Hx.
  - rewrite strip_cr_cons2 by (destruct r; discriminate). now rewrite IH.
Qed.

Lemma strip_cr_app p a : a <> [] -> strip_cr (p ++ a) = p ++ strip_cr a.
Proof.
  intros Ha. induction p as [|x r IH]; [reflexivity|]. cbn [app].
  rewrite strip_cr_cons2 by (destruct r; [exact Ha|discriminate]). now rewrite IH.
Qed.

Lemma strip_cr_snoc_cr p : strip_cr (p ++ [CR]) = p.
Proof.
  induction p as [|a r IH]; [reflexivity|]. cbn [app].
  rewrite strip_cr_cons2 by (destruct r; discriminate). now rewrite IH.
Qed.

Lemma drop_eol_line a : drop_eol (a ++ [LF]) = strip_cr a.
Proof.
  unfold drop_eol. rewrite rev_app_distr. cbn [rev app]. rewrite beqb_refl.
  destruct (rev a) as [|y r2] eqn:E.
  - apply (f_equal (@rev byte)) in E. rewrite rev_involutive in E. subst a. reflexivity.
  - apply (f_equal (@rev byte)) in E. rewrite rev_involutive in E. cbn [rev] in E. subst a.
    destruct (beqb y CR) eqn:Ey.
    + apply beqb_eq in Ey. subst y. now rewrite strip_cr_snoc_cr.
    + now rewrite strip_cr_snoc_not_cr.
Qed.

Lemma drop_eol_no_lf s : mem_byte LF s = false -> drop_eol s = s.
Proof.
  intros H. unfold drop_eol. destruct (rev s) as [|x r1] eqn:E; [reflexivity|].
  destruct (beqb x LF) eqn:Ex; [|reflexivity]. exfalso.
  apply beqb_eq in Ex. subst x. apply mem_byte_false_In in H. apply H.
  apply in_rev. rewrite E. now left.
Qed.

Lemma cut_none_mem c s : cut_byte c s = None -> mem_byte c s = false.
Proof.
  induction s as [|x r IH]; [reflexivity|]. cbn [cut_byte]. rewrite mem_byte_cons, (beqb_sym c x).
  destruct (beqb x c); [discriminate|]. destruct (cut_byte c r) as [[? ?]|]; [discriminate|].
  intros _. now apply IH.
Qed.

Lemma cut_prefix_whole n s a b :
  cut_byte LF (firstn n s) = Some (a, b) ->
  cut_byte LF s = Some (a, skipn (S (length a)) s) /\ firstn (S (length a)) s = a ++ [LF].
Proof.
  intros H. pose proof (cut_byte_app _ _ _ _ (skipn n s) H) as H'. rewrite firstn_skipn in H'.
  apply cut_byte_some in H' as [Hs _].
  assert (Hs' : s = (a ++ [LF]) ++ (b ++ skipn n s)) by (rewrite <- app_assoc; exact Hs).
  assert (L : S (length a) = length (a ++ [LF])) by (rewrite app_length; cbn; lia).
  split.
  - rewrite L. rewrite Hs' at 2. rewrite skipn_app_exact. rewrite Hs at 1.
    apply cut_byte_app_hit. apply cut_byte_some in H as [_ Hm]. exact Hm.
  - rewrite L. rewrite Hs' at 1. apply firstn_app_exact.
Qed.

Lemma ends_with_cr_rev l : ends_with_cr l = match rev l with x :: _ => beqb x CR | [] => false end.
Proof. reflexivity. Qed.

Section Refine.
  Variable n : nat.
  Hypothesis Hn : 2 <= n.

  Lemma refine_gen : forall fuel acc s, length s < fuel ->
    read_line_slice fuel n acc s =
      Some (match rl_cont n s with Some (l, r) => Some (acc ++ l, r) | None => None end).
  Proof.
    induction fuel as [|f IH]; intros acc s Hf; [lia|].
    cbn [read_line_slice]. unfold bufio_read_line, read_slice.
    destruct (cut_byte LF (firstn n s)) as [[a0 b0]|] eqn:Ec.
    - (* the line ending is in the buffer *)
      destruct (cut_prefix_whole _ _ _ _ Ec) as [Hw Hl]. rewrite Hl.
      destruct (a0 ++ [LF]) as [|z zs] eqn:Ez; [destruct a0; discriminate|]. rewrite <- Ez.
      rewrite drop_eol_line. unfold rl_cont. rewrite Hw. reflexivity.
    - destruct (Nat.leb_spec n (length s)) as [Hfull|Hshort].
      + (* buffer full without a line ending: a fragment *)
        assert (Hlen : length (firstn n s) = n) by (rewrite firstn_length; lia).
        destruct (rev (firstn n s)) as [|x r1] eqn:Er.
        { apply (f_equal (@length byte)) in Er. rewrite rev_length, Hlen in Er. cbn in Er. lia. }
        assert (Hfn : firstn n s = rev r1 ++ [x]).
        { apply (f_equal (@rev byte)) in Er. rewrite rev_involutive in Er. exact Er. }
        assert (Hr1 : length (rev r1) = n - 1).
        { apply (f_equal (@length byte)) in Hfn. rewrite Hlen, app_length in Hfn. cbn in Hfn. lia. }
        assert (Hs : s = rev r1 ++ x :: skipn n s).
        { rewrite <- (firstn_skipn n s) at 1. rewrite Hfn, <- app_assoc. reflexivity. }
        assert (Hnolf : mem_byte LF (rev r1 ++ [x]) = false) by (rewrite <- Hfn; now apply cut_none_mem).
        rewrite mem_byte_app in Hnolf. apply orb_false_iff in Hnolf as [Hnl1 Hnlx].
        rewrite mem_byte_cons, orb_false_r in Hnlx.
        (* the model's view of the same step *)
        assert (Hul : forall k, k = (if beqb x CR then n - 1 else n) ->
                  unterminated_lost (S (length s)) n s =
                  unterminated_lost (S (length (skipn k s))) n (skipn k s)).
        { intros k ->. rewrite ul_step by assumption.
          rewrite ends_with_cr_rev, Er. apply ul_fuel; try assumption;
            rewrite skipn_length; destruct (beqb x CR); lia. }
        destruct (beqb x CR) eqn:Ex.
        * (* trailing CR put back *)
          apply beqb_eq in Ex. subst x.
          assert (Hsk : CR :: skipn n s = skipn (n - 1) s).
          { rewrite Hs at 2. rewrite <- Hr1, skipn_app_exact. reflexivity. }
          rewrite Hsk. rewrite IH by (rewrite skipn_length; lia).
          f_equal. unfold rl_cont.
          destruct (cut_byte LF s) as [[a r]|] eqn:Ecs.
          -- (* LF further on *)
             apply cut_byte_some in Ecs as [Esa Hma].
             assert (Ha : exists a', a = rev r1 ++ a' /\ skipn (n - 1) s = a' ++ LF :: r /\ a' <> []).
             { assert (Hcut2 : cut_byte LF s = Some (rev r1 ++ CR :: fst (match cut_byte LF (skipn n s) with Some p => p | None => ([], []) end), r) -> True) by auto.
               clear Hcut2.
               (* a extends the fragment: compare s = a ++ LF :: r with s = rev r1 ++ CR :: skipn n s *)
               assert (Hla : n <= length a).
               { destruct (Nat.le_gt_cases n (length a)); [assumption|]. exfalso.
                 assert (In LF (firstn n s)).
                 { rewrite Esa. rewrite firstn_app. apply in_or_app. right.
                   replace (n - length a) with (S (n - length a - 1)) by lia. cbn. now left. }
                 apply cut_none_mem in Ec. apply mem_byte_false_In in Ec. contradiction. }
               exists (skipn (n - 1) a). repeat split.
               - rewrite <- (firstn_skipn (n - 1) a) at 1. f_equal.
                 rewrite <- Hr1. pose proof Esa as E2. rewrite Hs in E2.
                 apply (f_equal (firstn (length (rev r1)))) in E2.
                 rewrite firstn_app_exact in E2. rewrite firstn_app in E2.
                 replace (length (rev r1) - length a) with 0 in E2 by lia.
                 cbn [firstn] in E2. rewrite app_nil_r in E2. symmetry. exact E2.
               - rewrite Esa at 1. rewrite skipn_app. replace (n - 1 - length a) with 0 by lia. reflexivity.
               - intros E. apply (f_equal (@length byte)) in E. rewrite skipn_length in E. cbn in E. lia. }
             destruct Ha as (a' & -> & Hsk' & Hne).
             rewrite Hsk'. rewrite cut_byte_app_hit.
             2:{ rewrite mem_byte_app in Hma. apply orb_false_iff in Hma as [_ Hma]. exact Hma. }
             rewrite strip_cr_app by assumption. now rewrite app_assoc.
          -- rewrite (Hul (n - 1) eq_refl).
             assert (Hc2 : cut_byte LF (skipn (n - 1) s) = None).
             { apply cut_byte_none. apply cut_none_mem in Ecs. apply mem_byte_false_In.
               intros Hin. apply mem_byte_false_In in Ecs. apply Ecs.
               rewrite <- (firstn_skipn (n - 1) s). apply in_or_app. now right. }
             rewrite Hc2. destruct (unterminated_lost _ n (skipn (n - 1) s)); [reflexivity|].
             f_equal. f_equal. rewrite <- app_assoc. f_equal.
             rewrite <- Hsk. symmetry. exact Hs.
        * (* plain fragment of n bytes *)
          rewrite Hfn. rewrite IH by (rewrite skipn_length; lia).
          f_equal. unfold rl_cont.
          destruct (cut_byte LF s) as [[a r]|] eqn:Ecs.
          -- apply cut_byte_some in Ecs as [Esa Hma].
             assert (Hla : n <= length a).
             { destruct (Nat.le_gt_cases n (length a)); [assumption|]. exfalso.
               assert (In LF (firstn n s)).
               { rewrite Esa. rewrite firstn_app. apply in_or_app. right.
                 replace (n - length a) with (S (n - length a - 1)) by lia. cbn. now left. }
               apply cut_none_mem in Ec. apply mem_byte_false_In in Ec. contradiction. }
             assert (Hfa : firstn n a = rev r1 ++ [x]).
             { rewrite <- Hfn. rewrite Esa. rewrite firstn_app.
               replace (n - length a) with 0 by lia. cbn [firstn]. now rewrite app_nil_r. }
             assert (Hsk' : skipn n s = skipn n a ++ LF :: r).
             { rewrite Esa at 1. rewrite skipn_app. replace (n - length a) with 0 by lia. reflexivity. }
             rewrite Hsk'. rewrite cut_byte_app_hit.
             2:{ apply mem_byte_false_In. intros Hin. apply mem_byte_false_In in Hma. apply Hma.
                 rewrite <- (firstn_skipn n a). apply in_or_app. now right. }
             rewrite <- (firstn_skipn n a) at 2. rewrite Hfa.
             destruct (skipn n a) as [|y t] eqn:Esk.
             ++ cbn [strip_cr]. rewrite !app_nil_r.
                now rewrite strip_cr_snoc_not_cr.
             ++ rewrite strip_cr_app by discriminate. now rewrite <- !app_assoc.
          -- rewrite (Hul n eq_refl).
             assert (Hc2 : cut_byte LF (skipn n s) = None).
             { apply cut_byte_none. apply cut_none_mem in Ecs. apply mem_byte_false_In.
               intros Hin. apply mem_byte_false_In in Ecs. apply Ecs.
               rewrite <- (firstn_skipn n s). apply in_or_app. now right. }
             rewrite Hc2. destruct (unterminated_lost _ n (skipn n s)); [reflexivity|].
             f_equal. f_equal. rewrite <- app_assoc. f_equal. rewrite <- Hfn. apply firstn_skipn.
      + (* the source is exhausted before the buffer fills *)
        assert (Hcs : cut_byte LF s = None).
        { rewrite firstn_all2 in Ec by lia. exact Ec. }
        unfold rl_cont. rewrite Hcs. cbn [unterminated_lost].
        destruct (Nat.ltb_spec (length s) n); [|lia].
        destruct s as [|x r]; [reflexivity|]. cbn [is_nil].
        rewrite drop_eol_no_lf by (now apply cut_none_mem). reflexivity.
  Qed.

  (* textproto's readLineSlice over bufio.ReadLine's fragments = the model's read_line *)
  Theorem read_line_refines_bufio s :
    read_line_slice (S (length s)) n [] s = Some (read_line n s).
  Proof.
    rewrite refine_gen by lia. rewrite read_line_is_cont by lia.
    destruct (rl_cont n s) as [[l r]|]; reflexivity.
  Qed.
End Refine.
