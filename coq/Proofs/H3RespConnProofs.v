(* Proofs/H3RespConnProofs.v - no response is ever decoded with a spoiled QPACK context. *)
From ReqV Require Import Lib.Bytes Model.H3RespConn.

(* what must be observed: every response up to and including the first undecodable one; accepted iff
   well-formed; the connection closed exactly by the undecodable one *)
Fixpoint resp_expected (cs : list rclass) : list (bool * bool) :=
  match cs with
  | [] => []
  | RGood :: r => (true, false) :: resp_expected r
  | RMalformed :: r => (false, false) :: resp_expected r
  | RUndecodable :: _ => [(false, true)]
  end.

Lemma resp_seq_clean cs : resp_seq true rinit cs = resp_expected cs.
Proof.
  induction cs as [|c cs IH]; [reflexivity|]. destruct c; cbn.
  - f_equal. exact IH.
  - f_equal. exact IH.
  - destruct cs; reflexivity.
Qed.

(* every sequence of responses on one connection: an open connection always has a clean decoder, so
   a well-formed response that is read at all is accepted - whatever was refused before it *)
Theorem h3_resp_good_always_accepted cs : resp_seq true rinit cs = resp_expected cs /\
  Forall (fun o => snd o = true -> fst o = false) (resp_seq true rinit cs).
Proof.
  split; [apply resp_seq_clean|]. rewrite resp_seq_clean.
  induction cs as [|c cs IH]; [constructor|]. destruct c; cbn; constructor; auto; cbn; congruence.
Qed.

(* resetting only the stream on a QPACK failure: the well-formed response that follows is refused *)
Theorem h3_resp_keep_connection_refuted :
  resp_seq false rinit [RGood; RUndecodable; RGood] = [(true, false); (false, false); (false, false)] /\
  resp_seq true rinit [RGood; RUndecodable; RGood] = [(true, false); (false, true)].
Proof. split; reflexivity. Qed.
