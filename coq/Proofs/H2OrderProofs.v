(* Proofs/H2OrderProofs.v - checkFrameOrder accepts exactly the contiguous header blocks
   (RFC 7540 §4.3, §6.10): an invariant over ALL sequences of frame headers. *)
From Coq Require Import Lia ZifyBool ZifyNat ZifyN.
From ReqV Require Import Lib.Bytes Model.H2Frame.
Open Scope N_scope.

(* the order machine run over a sequence of (already parsed) frames; None = rejected *)
Fixpoint run_order (s : N) (l : list fhdr) : option N :=
  match l with
  | [] => Some s
  | h :: r => match check_order s h with Some s' => run_order s' r | None => None end
  end.

(* ---- specification, written without reference to the machine ---- *)
Definition is_hdr (h : fhdr) : Prop := fh_type h = FrameHeaders.
Definition is_cont (h : fhdr) : Prop := fh_type h = FrameContinuation.
Definition endh (h : fhdr) : Prop := has_flag (fh_flags h) FlagHeadersEndHeaders = true.

(* CONTINUATION frames on stream s, END_HEADERS on the last one and only there *)
Inductive cont_tail (s : N) : list fhdr -> Prop :=
| ct_last h : is_cont h -> fh_sid h = s -> endh h -> cont_tail s [h]
| ct_more h l : is_cont h -> fh_sid h = s -> ~ endh h -> cont_tail s l -> cont_tail s (h :: l).

(* CONTINUATION frames on stream s, none with END_HEADERS (a block still open) *)
Definition open_tail (s : N) (l : list fhdr) : Prop :=
  Forall (fun h => is_cont h /\ fh_sid h = s /\ ~ endh h) l.

Inductive well_ordered : list fhdr -> Prop :=
| wo_nil : well_ordered []
| wo_other h l : ~ is_hdr h -> ~ is_cont h -> well_ordered l -> well_ordered (h :: l)
| wo_single h l : is_hdr h -> endh h -> well_ordered l -> well_ordered (h :: l)
| wo_block h cs l : is_hdr h -> ~ endh h -> cont_tail (fh_sid h) cs -> well_ordered l ->
                    well_ordered (h :: cs ++ l).

(* what the payload parsers guarantee (parse_headers / parse_continuation reject stream 0) *)
Definition header_sids_nonzero (l : list fhdr) : Prop :=
  forall h, In h l -> is_hdr h \/ is_cont h -> fh_sid h <> 0.

(* ---- the machine, case by case ---- *)
Lemma types_distinct : FrameHeaders <> FrameContinuation.
Proof. vm_compute. discriminate. Qed.

Lemma check_closed_other h : ~ is_hdr h -> ~ is_cont h -> check_order 0 h = Some 0.
Proof.
  unfold is_hdr, is_cont, check_order. intros H C. cbn [N.eqb negb].
  destruct (N.eqb_spec (fh_type h) FrameContinuation); [contradiction|].
  destruct (N.eqb_spec (fh_type h) FrameHeaders); [contradiction|]. reflexivity.
Qed.
Lemma check_closed_cont h : is_cont h -> check_order 0 h = None.
Proof. unfold is_cont, check_order. intros ->. reflexivity. Qed.
Lemma check_closed_hdr h : is_hdr h ->
  check_order 0 h = if has_flag (fh_flags h) FlagHeadersEndHeaders then Some 0 else Some (fh_sid h).
Proof. unfold is_hdr, check_order. intros ->. reflexivity. Qed.
Lemma check_open s h : s <> 0 ->
  check_order s h =
    if (fh_type h =? FrameContinuation) && (fh_sid h =? s)
    then (if has_flag (fh_flags h) FlagHeadersEndHeaders then Some 0 else Some (fh_sid h))
    else None.
Proof.
  intro Hs. unfold check_order. destruct (N.eqb_spec s 0); [contradiction|]. cbn [negb].
  destruct (N.eqb_spec (fh_type h) FrameContinuation) as [E|E]; cbn [negb orb andb]; [|reflexivity].
  destruct (N.eqb_spec (fh_sid h) s); cbn [negb]; [|reflexivity].
  rewrite orb_true_r. reflexivity.
Qed.

(* ---- soundness: everything the machine accepts (and closes) is well ordered ---- *)
Lemma accepted_shape l : forall s, header_sids_nonzero l -> run_order s l = Some 0 ->
  if s =? 0 then well_ordered l
  else exists cs l', l = cs ++ l' /\ cont_tail s cs /\ well_ordered l'.
Proof.
  induction l as [|h l IH]; intros s NZ R.
  - cbn [run_order] in R. injection R as ->. constructor.
  - cbn [run_order] in R.
    assert (NZl : header_sids_nonzero l) by (intros x Hx; apply NZ; right; exact Hx).
    destruct (N.eqb_spec s 0) as [->|Hs].
    + (* closed *)
      destruct (N.eq_dec (fh_type h) FrameContinuation) as [C|C].
      { rewrite check_closed_cont in R by exact C. discriminate. }
      destruct (N.eq_dec (fh_type h) FrameHeaders) as [H|H].
      * rewrite check_closed_hdr in R by exact H.
        destruct (has_flag (fh_flags h) FlagHeadersEndHeaders) eqn:E.
        -- apply wo_single; [exact H | exact E |]. exact (IH 0 NZl R).
        -- specialize (IH (fh_sid h) NZl R).
           assert (S0 : fh_sid h <> 0) by (apply NZ; [left; reflexivity | left; exact H]).
           destruct (N.eqb_spec (fh_sid h) 0); [contradiction|].
           destruct IH as (cs & l' & -> & CT & WO).
           apply wo_block; [exact H | unfold endh; rewrite E; discriminate | exact CT | exact WO].
      * rewrite check_closed_other in R by assumption.
        apply wo_other; [exact H | exact C |]. exact (IH 0 NZl R).
    + (* inside a block on stream s *)
      rewrite check_open in R by exact Hs.
      destruct (N.eqb_spec (fh_type h) FrameContinuation) as [C|C]; [|discriminate].
      destruct (N.eqb_spec (fh_sid h) s) as [S|S]; [|discriminate]. cbn [andb] in R.
      destruct (has_flag (fh_flags h) FlagHeadersEndHeaders) eqn:E.
      * exists [h], l. split; [reflexivity|]. split; [apply ct_last; assumption|]. exact (IH 0 NZl R).
      * specialize (IH (fh_sid h) NZl R). rewrite S in IH.
        destruct (N.eqb_spec s 0); [contradiction|].
        destruct IH as (cs & l' & -> & CT & WO).
        exists (h :: cs), l'. split; [reflexivity|]. split; [|exact WO].
        apply ct_more; try assumption. unfold endh. rewrite E. discriminate.
Qed.

(* ---- completeness: every well-ordered sequence is accepted and leaves the machine closed ---- *)
Lemma cont_tail_run s cs l : s <> 0 -> cont_tail s cs -> run_order s (cs ++ l) = run_order 0 l.
Proof.
  intros Hs CT. induction CT as [h C S E | h cs C S E CT IH]; cbn [app run_order].
  - rewrite check_open by exact Hs. unfold is_cont in C. rewrite C, S, !N.eqb_refl. cbn [andb].
    unfold endh in E. rewrite E. reflexivity.
  - rewrite check_open by exact Hs. unfold is_cont in C. rewrite C, S, !N.eqb_refl. cbn [andb].
    unfold endh in E. destruct (has_flag (fh_flags h) FlagHeadersEndHeaders); [exfalso; apply E; reflexivity|].
    exact IH.
Qed.

Lemma header_sids_nonzero_app a b : header_sids_nonzero (a ++ b) -> header_sids_nonzero b.
Proof. intros H x Hx. apply H. apply in_or_app. right. exact Hx. Qed.

Lemma well_ordered_accepted l : well_ordered l -> header_sids_nonzero l -> run_order 0 l = Some 0.
Proof.
  induction 1 as [| h l H C WO IH | h l H E WO IH | h cs l H E CT WO IH]; intro NZ.
  - reflexivity.
  - cbn [run_order]. rewrite check_closed_other by assumption.
    apply IH. intros x Hx. apply NZ. right. exact Hx.
  - cbn [run_order]. rewrite check_closed_hdr by exact H. unfold endh in E. rewrite E.
    apply IH. intros x Hx. apply NZ. right. exact Hx.
  - cbn [run_order]. rewrite check_closed_hdr by exact H. unfold endh in E.
    destruct (has_flag (fh_flags h) FlagHeadersEndHeaders); [exfalso; apply E; reflexivity|].
    assert (S0 : fh_sid h <> 0) by (apply NZ; [left; reflexivity | left; exact H]).
    rewrite cont_tail_run by assumption. apply IH.
    apply (header_sids_nonzero_app cs). intros x Hx. apply NZ. right. exact Hx.
Qed.

Theorem h2_order_accepts_exactly_contiguous l :
  header_sids_nonzero l -> (run_order 0 l = Some 0 <-> well_ordered l).
Proof.
  intro NZ. split.
  - intro R. exact (accepted_shape l 0 NZ R).
  - intro W. exact (well_ordered_accepted l W NZ).
Qed.

(* a block left open: accepted so far, and only a CONTINUATION on the same stream can follow *)
Theorem h2_order_open_block s l : s <> 0 -> run_order 0 l = Some s ->
  forall h, check_order s h <> None -> is_cont h /\ fh_sid h = s.
Proof.
  intros Hs _ h Hc. rewrite check_open in Hc by exact Hs.
  destruct (N.eqb_spec (fh_type h) FrameContinuation); [|contradiction].
  destruct (N.eqb_spec (fh_sid h) s); [|contradiction]. split; assumption.
Qed.

(* the parsers deliver the side condition: a parsed HEADERS/CONTINUATION never has stream 0 *)
Lemma parsed_header_sid_nonzero h p f : parse_frame h p = Ok f ->
  is_hdr h \/ is_cont h -> fh_sid h <> 0.
Proof.
  unfold is_hdr, is_cont. intros P [E|E] Z; unfold parse_frame in P; rewrite E in P.
  - change (FrameHeaders =? FrameData) with false in P. change (FrameHeaders =? FrameHeaders) with true in P.
    cbv iota in P. unfold parse_headers in P. rewrite Z in P. discriminate.
  - repeat match type of P with context [FrameContinuation =? ?x] =>
      let b := eval vm_compute in (FrameContinuation =? x) in change (FrameContinuation =? x) with b in P end.
    cbv iota in P. unfold parse_continuation in P. rewrite Z in P. discriminate.
Qed.
