(* Proofs/H2PoolProofs.v - invariants of the HTTP/2 connection cache / stream table model
   (Model/H2Pool.v) over ALL event sequences. *)
From Coq Require Import List Arith Bool Lia.
From ReqV Require Import Lib.Bytes Model.Pool Model.H2Pool Proofs.PoolProofs.
Import ListNotations.

Ltac updt :=
  unfold upd in *;
  repeat match goal with
         | |- context [Nat.eqb ?a ?b] => destruct (Nat.eqb_spec a b); subst
         | H : context [Nat.eqb ?a ?b] |- _ => destruct (Nat.eqb_spec a b); subst
         end.

(* ---------- the invariant, in independent parts (atomic conclusions) ---------- *)

Record wfP (s : h2state) : Prop := mkP {
  P1 : forall k, NoDup (p_conns s k);
  P2 : forall k c, In c (p_conns s k) -> c < n_cid s;
  P3 : forall k c, In c (p_conns s k) -> c_key s c = k;
  P4 : forall k c, In c (p_conns s k) -> c_dead s c = false }.

Record wfS (s : h2state) : Prop := mkS {
  S1 : forall c, NoDup (map fst (c_streams s c));
  S2 : forall c sid r, In (sid, r) (c_streams s c) -> In sid (c_hist s c);
  S3 : forall c sid r, In (sid, r) (c_streams s c) -> r_phase s r = ROpen c sid;
  S4 : forall r c sid, r_phase s r = ROpen c sid -> In (sid, r) (c_streams s c);
  S5 : forall c, NoDup (c_hist s c);
  S6 : forall c sid, In sid (c_hist s c) -> sid < c_next s c;
  S7 : forall c sid, In sid (c_hist s c) -> Nat.odd sid = true;
  S8 : forall c, Nat.odd (c_next s c) = true }.

Record wfR (s : h2state) : Prop := mkR {
  R1 : forall c, c_reserved s c = length (c_resv s c);
  R2 : forall c, NoDup (c_resv s c);
  R3 : forall c r, In r (c_resv s c) -> r_phase s r = RReserved c;
  R4 : forall r c, r_phase s r = RReserved c -> In r (c_resv s c) }.

Record wfF (s : h2state) : Prop := mkF {
  F1 : forall r, n_rid s <= r -> r_phase s r = RNone;
  F2 : forall r c, r_phase s r = RReserved c -> c < n_cid s;
  F3 : forall r c sid, r_phase s r = ROpen c sid -> c < n_cid s }.

Record wfD (s : h2state) : Prop := mkD {
  D1 : forall k cl, p_dialing s k = Some cl -> cl < n_call s;
  D2 : forall k cl, p_dialing s k = Some cl -> call_key s cl = k;
  D3 : forall k cl, p_dialing s k = Some cl -> call_res s cl = None;
  D4 : forall cl, cl < n_call s -> call_res s cl = None -> p_dialing s (call_key s cl) = Some cl;
  D5 : forall cl c, call_res s cl = Some (Some c) -> c < n_cid s }.

Record wfL (s : h2state) : Prop := mkL {
  L1 : forall c, c_lowered s c = false -> length (c_streams s c) + c_reserved s c <= c_max s c }.

Record h2inv (s : h2state) : Prop := mkI {
  IP : wfP s; IS : wfS s; IR : wfR s; IF_ : wfF s; ID : wfD s; IL : wfL s;
  IK : h2_panicked s = false }.

Ltac learn P :=
  let T := type of P in
  lazymatch goal with
  | _ : T |- _ => fail
  | _ => pose proof P
  end.

(* forward chaining with the clauses of the invariant *)
Ltac sat :=
  repeat match goal with
  | HP : wfP ?s, H : In _ (p_conns ?s _) |- _ =>
      first [learn (P2 s HP _ _ H) | learn (P3 s HP _ _ H) | learn (P4 s HP _ _ H)]
  | HS : wfS ?s, H : In (_, _) (c_streams ?s _) |- _ =>
      first [learn (S2 s HS _ _ _ H) | learn (S3 s HS _ _ _ H)]
  | HS : wfS ?s, H : r_phase ?s _ = ROpen _ _ |- _ => learn (S4 s HS _ _ _ H)
  | HS : wfS ?s, H : In _ (c_hist ?s _) |- _ => first [learn (S6 s HS _ _ H) | learn (S7 s HS _ _ H)]
  | HR : wfR ?s, H : In _ (c_resv ?s _) |- _ => learn (R3 s HR _ _ H)
  | HR : wfR ?s, H : r_phase ?s _ = RReserved _ |- _ => learn (R4 s HR _ _ H)
  | HF : wfF ?s, H : r_phase ?s _ = RReserved _ |- _ => learn (F2 s HF _ _ H)
  | HF : wfF ?s, H : r_phase ?s _ = ROpen _ _ |- _ => learn (F3 s HF _ _ _ H)
  | HD : wfD ?s, H : p_dialing ?s _ = Some _ |- _ =>
      first [learn (D1 s HD _ _ H) | learn (D2 s HD _ _ H) | learn (D3 s HD _ _ H)]
  | HD : wfD ?s, H : call_res ?s _ = Some (Some _) |- _ => learn (D5 s HD _ _ H)
  | HD : wfD ?s, H : call_res ?s ?cl = None |- _ => learn (D4 s HD cl ltac:(lia) H)
  end.

Ltac pre :=
  repeat match goal with
         | H : Some _ = Some _ |- _ => inversion H; subst; clear H
         | H : Some _ = None |- _ => discriminate H
         | H : None = Some _ |- _ => discriminate H
         | H : (_, _) = (_, _) |- _ => inversion H; subst; clear H
         end.

Ltac fin :=
  updt; pre; simpl in *; sat;
  try solve [ eauto 4 | lia | congruence | exfalso; eauto 4 | constructor
            | match goal with H : _ |- _ => solve [exfalso; eapply H; eauto] end ].

Ltac fin2 :=
  fin; try match goal with
           | |- NoDup (_ :: _) => constructor; fin
           | H : _ \/ _ |- _ => destruct H; subst; fin
           end.

Lemma h2inv_init : h2inv h2_init.
Proof.
  repeat constructor; simpl; intros; try contradiction; try discriminate; auto; try lia.
Qed.

Definition holds_nothing (s : h2state) (r : rid) : Prop :=
  (forall c, r_phase s r <> RReserved c) /\ (forall c sid, r_phase s r <> ROpen c sid).

Definition idle_phase (ph : rphase) : Prop :=
  (forall c, ph <> RReserved c) /\ (forall c sid, ph <> ROpen c sid) /\ ph <> RNone.

Ltac inv_split :=
  constructor; [constructor | constructor | constructor | constructor | constructor | constructor | ];
  simpl; intros.

Ltac inv_destr H :=
  let HP := fresh "HP" in let HS := fresh "HS" in let HR := fresh "HR" in let HF := fresh "HF" in
  let HD := fresh "HD" in let HL := fresh "HL" in
  destruct H as [HP HS HR HF HD HL HK];
  pose proof HP as HP'; pose proof HS as HS'; pose proof HR as HR'; pose proof HF as HF';
  pose proof HD as HD'; destruct HL as [l1];
  destruct HP as [p1 p2 p3 p4]; destruct HS as [s1 s2 s3 s4 s5 s6 s7 s8];
  destruct HR as [r1 r2 r3 r4]; destruct HF as [f1 f2 f3]; destruct HD as [d1 d2 d3 d4 d5].

(* a request that holds neither a reservation nor a stream moves to another such phase *)
Lemma rephase_inv : forall s r ph, h2inv s -> holds_nothing s r -> r < n_rid s -> idle_phase ph ->
  h2inv (set_r_phase (upd (r_phase s) r ph) s).
Proof.
  intros s r ph H [N1 N2] Hr (I1 & I2 & I3). inv_destr H.
  inv_split; fin.
Qed.

Lemma first_usable_spec : forall s l c, first_usable s l = Some c -> In c l /\ can_take s c = true.
Proof.
  induction l as [|x l IH]; simpl; intros c H; [discriminate|].
  destruct (can_take s x) eqn:E.
  - inversion H; subst; auto.
  - apply IH in H; tauto.
Qed.

Lemma can_take_le : forall s c, can_take s c = true ->
  length (c_streams s c) + c_reserved s c + 1 <= c_max s c.
Proof.
  unfold can_take; intros s c H. repeat (apply andb_prop in H; destruct H as [H ?]).
  apply Nat.leb_le; auto.
Qed.

(* ReserveNewRequest succeeded *)
Lemma reserve_inv : forall s c r, h2inv s -> holds_nothing s r -> r < n_rid s -> c < n_cid s ->
  can_take s c = true -> h2inv (reserve s c r).
Proof.
  intros s c r H [N1 N2] Hr Hc Hct. apply can_take_le in Hct. inv_destr H.
  assert (Hnr : ~ In r (c_resv s c)) by (intro X; apply r3 in X; eapply N1; eauto).
  unfold reserve. inv_split; fin2.
Qed.

Lemma scan_inv : forall s r k, h2inv s -> holds_nothing s r -> r < n_rid s -> h2inv (scan s r k).
Proof.
  intros s r k H N Hr. unfold scan.
  destruct (first_usable s (p_conns s k)) as [c|] eqn:E.
  - apply first_usable_spec in E. destruct E as [E1 E2].
    apply reserve_inv; auto. eapply P2; eauto. apply H.
  - destruct (p_dialing s k) as [cl|] eqn:Ed.
    + apply rephase_inv; auto. repeat split; discriminate.
    + set (sx := set_p_dialing _ _).
      assert (H1 : h2inv sx).
      { subst sx. inv_destr H. inv_split; fin. }
      apply (rephase_inv sx r _ H1); [exact N | exact Hr | repeat split; discriminate].
Qed.

Lemma phase_lt : forall s r, wfF s -> r_phase s r <> RNone -> r < n_rid s.
Proof.
  intros s r HF N. destruct (le_lt_dec (n_rid s) r) as [L|L]; auto.
  exfalso; apply N; apply (F1 s HF); auto.
Qed.

Lemma get_inv : forall s k, h2inv s -> h2inv (h2_step s (H2Get k)).
Proof.
  intros s k H. simpl. apply scan_inv.
  - assert (N : r_phase s (n_rid s) = RNone) by (apply (F1 s (IF_ s H)); lia).
    inv_destr H. inv_split; fin. apply f1; lia.
  - assert (N : r_phase s (n_rid s) = RNone) by (apply (F1 s (IF_ s H)); lia).
    split; simpl; intros; congruence.
  - simpl; lia.
Qed.

Lemma mark_dead_inv : forall s c, h2inv s -> h2inv (mark_dead s c).
Proof.
  intros s c H. unfold mark_dead. inv_destr H. inv_split; fin.
  - apply remove1_NoDup; auto.
  - apply remove1_In in H; fin.
  - apply remove1_In in H; fin.
  - exfalso. eapply remove1_not_In; eauto.
  - apply remove1_In in H; fin.
Qed.

Lemma dialdone_inv : forall s cl ok, h2inv s -> h2inv (h2_step s (H2DialDone cl ok)).
Proof.
  intros s cl ok H. simpl.
  destruct (cl <? n_call s) eqn:E1; simpl; auto. apply Nat.ltb_lt in E1.
  destruct (call_res s cl) eqn:E2; auto.
  pose proof (D4 s (ID s H) cl E1 E2) as Hd.
  destruct ok.
  - unfold add_conn, new_h2conn; simpl.
    destruct (memb (n_cid s) (p_conns s (call_key s cl))) eqn:Em.
    + apply memb_In in Em. apply (P2 s (IP s H)) in Em. lia.
    + apply memb_false in Em. inv_destr H. inv_split; fin2.
      * apply NoDup_snoc; auto.
      * apply in_app_or in H; destruct H as [H|[H|[]]]; subst; fin.
      * apply in_app_or in H; destruct H as [H|[H|[]]]; subst; fin.
      * apply in_app_or in H; destruct H as [H|[H|[]]]; subst; fin.
  - inv_destr H. inv_split; fin2.
Qed.

Lemma wake_inv : forall s r retry, h2inv s -> h2inv (h2_step s (H2Wake r retry)).
Proof.
  intros s r retry H. simpl.
  destruct (r_phase s r) as [|k|k cl|c|c sid|ok] eqn:Ep; auto.
  assert (Hn : holds_nothing s r) by (split; intros; congruence).
  assert (Hr : r < n_rid s) by (apply phase_lt; [apply H | congruence]).
  destruct (call_res s cl) as [[c|]|] eqn:Ec; auto.
  - destruct (can_take s c) eqn:Et.
    + apply reserve_inv; auto. eapply (D5 s (ID s H)); eauto.
    + apply rephase_inv; auto. repeat split; discriminate.
  - apply rephase_inv; auto. destruct retry; repeat split; discriminate.
Qed.

Lemma rescan_inv : forall s r, h2inv s -> h2inv (h2_step s (H2Rescan r)).
Proof.
  intros s r H. simpl.
  destruct (r_phase s r) as [|k|k cl|c|c sid|ok] eqn:Ep; auto.
  apply scan_inv; auto.
  - split; intros; congruence.
  - apply phase_lt; [apply H | congruence].
Qed.

Lemma frame_inv : forall s c sid p, h2inv s -> h2inv (h2_step s (H2Frame c sid p)).
Proof.
  intros s c sid p H. simpl. destruct (stream_owner (c_streams s c) sid); auto.
  inv_destr H. inv_split; fin2.
Qed.

Lemma flags_inv : forall s e, h2inv s ->
  match e with H2GoAway _ | H2Settings _ _ | H2NoReuse _ | H2CloseIdle => True | _ => False end ->
  h2inv (h2_step s e).
Proof.
  intros s e H He. destruct e; try contradiction; simpl.
  - destruct (c <? n_cid s); auto. inv_destr H. inv_split; fin2.
  - destruct (c <? n_cid s); auto. inv_destr H. inv_split; fin2.
    apply orb_false_iff in H. destruct H as [Ha Hb]. apply Nat.ltb_ge in Hb.
    specialize (l1 _ Ha). lia.
  - destruct (c <? n_cid s); auto. inv_destr H. inv_split; fin2.
  - inv_destr H. inv_split; fin2.
Qed.

Lemma connlost_inv : forall s c, h2inv s -> h2inv (h2_step s (H2ConnLost c)).
Proof.
  intros s c H. simpl. destruct (c <? n_cid s); auto.
  apply (mark_dead_inv s c) in H. revert H. generalize (mark_dead s c). intros s' H.
  inv_destr H. inv_split; fin2.
Qed.

Lemma remove_sid_In : forall sid l e, In e (remove_sid sid l) -> In e l /\ fst e <> sid.
Proof.
  unfold remove_sid; intros sid l e H. apply filter_In in H. destruct H as [H1 H2]. split; auto.
  apply negb_true_iff in H2. apply Nat.eqb_neq in H2; auto.
Qed.

Lemma remove_sid_In_other : forall sid l e, In e l -> fst e <> sid -> In e (remove_sid sid l).
Proof.
  unfold remove_sid; intros. apply filter_In. split; auto.
  apply negb_true_iff. apply Nat.eqb_neq; auto.
Qed.

Lemma remove_sid_NoDup : forall sid l, NoDup (map fst l) -> NoDup (map fst (remove_sid sid l)).
Proof.
  induction l as [|[i r] l IH]; simpl; intros H; auto.
  inversion H; subst. destruct (Nat.eqb_spec i sid); simpl; auto.
  constructor; auto. intro X. apply in_map_iff in X. destruct X as [e [E1 E2]].
  apply remove_sid_In in E2. destruct E2 as [E2 _]. apply H2. apply in_map_iff. exists e; auto.
Qed.

Lemma remove_sid_length : forall sid l, length (remove_sid sid l) <= length l.
Proof.
  unfold remove_sid; induction l as [|e l IH]; simpl; auto.
  destruct (negb (fst e =? sid)); simpl; lia.
Qed.

Lemma stream_owner_In : forall l sid r, In (sid, r) l -> NoDup (map fst l) -> stream_owner l sid = Some r.
Proof.
  induction l as [|[i r'] l IH]; simpl; intros sid r H N; [contradiction|].
  inversion N; subst. destruct H as [H|H].
  - inversion H; subst. rewrite Nat.eqb_refl; auto.
  - destruct (Nat.eqb_spec i sid); subst; auto.
    exfalso. apply H2. apply in_map_iff. exists (sid, r); auto.
Qed.

Lemma stream_owner_Some : forall l sid r, stream_owner l sid = Some r -> In (sid, r) l.
Proof.
  induction l as [|[i r'] l IH]; simpl; intros sid r H; [discriminate|].
  destruct (Nat.eqb_spec i sid); subst; auto. inversion H; subst; auto.
Qed.

Lemma remove1_length_In : forall r l, In r l -> length l = S (length (remove1 r l)).
Proof.
  induction l as [|x l IH]; simpl; intros H; [contradiction|].
  destruct (Nat.eqb_spec x r); subst; auto.
  destruct H as [E|E]; [congruence|]. simpl. rewrite <- IH; auto.
Qed.

Lemma odd_plus2 : forall n, Nat.odd n = true -> Nat.odd (n + 2) = true.
Proof. intros n H. replace (n + 2) with (S (S n)) by lia. exact H. Qed.

Ltac fin3 :=
  fin2;
  try match goal with
      | |- Nat.odd (_ + 2) = true => apply odd_plus2; fin
      | |- NoDup (remove1 _ _) => apply remove1_NoDup; fin
      | H : In _ (remove1 _ _) |- _ => apply remove1_In in H; fin
      | |- In _ (remove1 _ _) => apply remove1_In_other; fin
      | |- _ \/ _ => solve [left; fin | right; fin]
      end.

Lemma open_inv : forall s r retry, h2inv s -> h2inv (h2_step s (H2Open r retry)).
Proof.
  intros s r retry H. simpl.
  destruct (r_phase s r) as [|k|k cl|c|c sid|ok] eqn:Ep; auto.
  assert (Hr : r < n_rid s) by (apply phase_lt; [apply H | congruence]).
  assert (Hin : In r (c_resv s c)) by (apply (R4 s (IR s H)); auto).
  assert (Hc : c < n_cid s) by (eapply (F2 s (IF_ s H)); eauto).
  assert (Hlen : c_reserved s c = S (length (remove1 r (c_resv s c)))).
  { rewrite (R1 s (IR s H)). apply remove1_length_In; auto. }
  assert (Hnd : ~ In r (remove1 r (c_resv s c))) by (apply remove1_not_In; apply (R2 s (IR s H))).
  destruct (can_take (unreserve s c r) c) eqn:Et.
  - apply can_take_le in Et. unfold unreserve in *. simpl in *. rewrite !upd_same in Et.
    inv_destr H. inv_split; fin3.
    + intro X. apply in_map_iff in X. destruct X as [[i q] [X1 X2]]. simpl in X1. subst i.
      apply s2 in X2. apply s6 in X2. lia.
    + intro X. apply s6 in X. lia.
    + rewrite Hlen. reflexivity.
  - unfold unreserve. inv_destr H. destruct retry; inv_split; fin3;
      try (rewrite Hlen; reflexivity); try (specialize (l1 _ H); lia).
Qed.

Lemma NoDup_fst_inj : forall (l : list (nat * rid)) a x y,
  NoDup (map fst l) -> In (a, x) l -> In (a, y) l -> x = y.
Proof.
  induction l as [|[i r] l IH]; simpl; intros a x y N H1 H2; [contradiction|].
  inversion N; subst.
  destruct H1 as [H1|H1]; destruct H2 as [H2|H2].
  - congruence.
  - inversion H1; subst. exfalso. apply H3. apply in_map_iff. exists (a, y); auto.
  - inversion H2; subst. exfalso. apply H3. apply in_map_iff. exists (a, x); auto.
  - eauto.
Qed.

Lemma end_inv : forall s r ok, h2inv s -> h2inv (h2_step s (H2End r ok)).
Proof.
  intros s r ok H. simpl.
  destruct (r_phase s r) as [|k|k cl|c|c sid|ok'] eqn:Ep; auto.
  assert (Hr : r < n_rid s) by (apply phase_lt; [apply H | congruence]).
  assert (Hin : In (sid, r) (c_streams s c)) by (apply (S4 s (IS s H)); auto).
  assert (Hown : stream_owner (c_streams s c) sid = Some r)
    by (apply stream_owner_In; auto; apply (S1 s (IS s H))).
  rewrite Hown.
  assert (Hlen : length (remove_sid sid (c_streams s c)) <= length (c_streams s c))
    by apply remove_sid_length.
  assert (Hinj : forall sid0 r0, In (sid0, r0) (c_streams s c) -> r0 <> r -> sid0 <> sid).
  { intros sid0 r0 X N E. subst. apply N. eapply NoDup_fst_inj; eauto. apply (S1 s (IS s H)). }
  match goal with |- context [if ?b then _ else _] => destruct b end.
  all: inv_destr H; inv_split; fin3.
  all: try (apply remove_sid_NoDup; fin).
  all: try match goal with
           | X : In (_, _) (remove_sid _ _) |- _ =>
               apply remove_sid_In in X; destruct X as [X Xne]; simpl in Xne; fin
           end.
  all: try (apply remove_sid_In_other; simpl; fin).
  all: try (match goal with X : c_lowered _ _ = false |- _ => specialize (l1 _ X) end; lia).
Qed.

Theorem h2_step_inv : forall s e, h2inv s -> h2inv (h2_step s e).
Proof.
  intros s e H. destruct e.
  - apply get_inv; auto.
  - apply rescan_inv; auto.
  - apply dialdone_inv; auto.
  - apply wake_inv; auto.
  - apply open_inv; auto.
  - apply frame_inv; auto.
  - apply end_inv; auto.
  - apply flags_inv; simpl; auto.
  - apply flags_inv; simpl; auto.
  - apply flags_inv; simpl; auto.
  - apply flags_inv; simpl; auto.
  - simpl. destruct (c <? n_cid s); auto. apply mark_dead_inv; auto.
  - apply connlost_inv; auto.
Qed.

Theorem h2_run_inv : forall evs, h2inv (h2_run evs).
Proof.
  intros evs. unfold h2_run. rewrite <- (rev_involutive evs).
  induction (rev evs) as [|e l IH]; simpl.
  - apply h2inv_init.
  - rewrite fold_left_app. simpl. apply h2_step_inv; auto.
Qed.

(* ---------- theorems used by Properties/C09.v ---------- *)

Theorem h2_stream_ids : forall evs c, let s := h2_run evs in
  NoDup (map fst (c_streams s c)) /\
  (forall sid r, In (sid, r) (c_streams s c) -> Nat.odd sid = true /\ sid < c_next s c) /\
  Nat.odd (c_next s c) = true /\ NoDup (c_hist s c).
Proof.
  intros evs c s. pose proof (h2_run_inv evs) as H. fold s in H. destruct H as [_ HS _ _ _ _ _].
  repeat split.
  - apply (S1 s HS).
  - eapply (S7 s HS), (S2 s HS); eauto.
  - eapply (S6 s HS), (S2 s HS); eauto.
  - apply (S8 s HS).
  - apply (S5 s HS).
Qed.

Theorem h2_stream_owner : forall evs, let s := h2_run evs in
  (forall r c sid, r_phase s r = ROpen c sid <-> In (sid, r) (c_streams s c)) /\
  (forall r1 r2 c sid, r_phase s r1 = ROpen c sid -> r_phase s r2 = ROpen c sid -> r1 = r2) /\
  (forall r c sid, r_phase s r = ROpen c sid -> stream_owner (c_streams s c) sid = Some r).
Proof.
  intros evs s. pose proof (h2_run_inv evs) as H. fold s in H. destruct H as [_ HS _ _ _ _ _].
  repeat split; intros.
  - apply (S4 s HS); auto.
  - apply (S3 s HS); auto.
  - eapply NoDup_fst_inj; [apply (S1 s HS c) | apply (S4 s HS); eauto | apply (S4 s HS); eauto].
  - apply stream_owner_In; [apply (S4 s HS); auto | apply (S1 s HS)].
Qed.

(* a DATA frame for (c, sid) is appended to the buffer of the request that owns that stream and
   to no other buffer; a frame for an id that is not open is dropped *)
Theorem h2_frame_to_owner_only : forall evs c sid p r, let s := h2_run evs in
  let s' := h2_step s (H2Frame c sid p) in
  (r_phase s r = ROpen c sid -> r_recv s' r = r_recv s r ++ [p]) /\
  (r_phase s r <> ROpen c sid -> r_recv s' r = r_recv s r).
Proof.
  intros evs c sid p r s s'. pose proof (h2_stream_owner evs) as (A & B & C). fold s in A, B, C.
  subst s'. simpl. split; intros Hp.
  - rewrite (C _ _ _ Hp). simpl. unfold upd. rewrite Nat.eqb_refl. reflexivity.
  - destruct (stream_owner (c_streams s c) sid) as [r'|] eqn:E; auto.
    simpl. unfold upd. destruct (Nat.eqb_spec r r'); auto. subst r'.
    exfalso. apply Hp. apply A. apply stream_owner_Some; auto.
Qed.

Lemma recv_scan : forall s r k, r_recv (scan s r k) = r_recv s.
Proof.
  intros. unfold scan. destruct (first_usable s (p_conns s k)); [reflexivity|].
  destruct (p_dialing s k); reflexivity.
Qed.

(* nothing but DATA frames of its own stream ever changes the buffer of an existing request *)
Theorem h2_recv_only_by_frames : forall s e r,
  (forall c sid p, e <> H2Frame c sid p) -> r < n_rid s -> r_recv (h2_step s e) r = r_recv s r.
Proof.
  intros s e r Hne Hr. destruct e; cbn [h2_step].
  - rewrite recv_scan. cbn. unfold upd. destruct (Nat.eqb_spec r (n_rid s)); [lia | reflexivity].
  - destruct (r_phase s r0); try reflexivity. rewrite recv_scan; reflexivity.
  - destruct ((cl <? n_call s) && match call_res s cl with None => true | Some _ => false end);
      [|reflexivity].
    destruct ok; [|reflexivity]. unfold add_conn.
    match goal with |- context [if ?b then _ else _] => destruct b end; reflexivity.
  - destruct (r_phase s r0); try reflexivity. destruct (call_res s cl) as [[c|]|]; try reflexivity.
    destruct (can_take s c); reflexivity.
  - destruct (r_phase s r0); try reflexivity.
    destruct (can_take (unreserve s c r0) c); reflexivity.
  - exfalso. eapply Hne; reflexivity.
  - destruct (r_phase s r0); try reflexivity.
    destruct (stream_owner (c_streams s c) sid);
      match goal with |- context [if ?b then _ else _] => destruct b end; reflexivity.
  - destruct (c <? n_cid s); reflexivity.
  - destruct (c <? n_cid s); reflexivity.
  - destruct (c <? n_cid s); reflexivity.
  - reflexivity.
  - destruct (c <? n_cid s); reflexivity.
  - destruct (c <? n_cid s); reflexivity.
Qed.

(* a stream id is never used twice on a connection: the id given to a new stream is larger than
   every id the connection ever used *)
Theorem h2_stream_id_fresh : forall evs r retry c sid, let s := h2_run evs in
  let s' := h2_step s (H2Open r retry) in
  r_phase s' r = ROpen c sid -> r_phase s r <> ROpen c sid ->
  sid = c_next s c /\ ~ In sid (c_hist s c) /\ (forall old, In old (c_hist s c) -> old < sid) /\
  In sid (c_hist s' c).
Proof.
  intros evs r retry c sid s s' H1 H0. pose proof (h2_run_inv evs) as H. fold s in H.
  destruct H as [_ HS _ _ _ _ _]. subst s'. cbn [h2_step] in *.
  destruct (r_phase s r) as [|k|k cl|c0|c0 sid0|ok'] eqn:Ep; try congruence.
  destruct (can_take (unreserve s c0 r) c0); simpl in *; unfold upd in *; rewrite Nat.eqb_refl in *.
  - inversion H1; subst. rewrite Nat.eqb_refl. repeat split.
    + intro X. apply (S6 s HS) in X. lia.
    + intros old X. apply (S6 s HS) in X. exact X.
    + simpl. auto.
  - destruct retry; discriminate.
Qed.

(* CloseIdleConnections never closes a connection on which some request holds a reservation
   or an open stream *)
Theorem h2_close_idle_safe : forall evs c, let s := h2_run evs in
  let s' := h2_step s H2CloseIdle in
  c_closed s c = false -> c_closed s' c = true ->
  forall r, r_phase s r <> RReserved c /\ (forall sid, r_phase s r <> ROpen c sid).
Proof.
  intros evs c s s' H0 H1 r. pose proof (h2_run_inv evs) as H. fold s in H.
  destruct H as [_ HS HR _ _ _ _]. subst s'. simpl in H1. rewrite H0 in H1. simpl in H1.
  apply andb_prop in H1. destruct H1 as [H1 Hres]. apply andb_prop in H1. destruct H1 as [_ Hlen].
  apply Nat.eqb_eq in Hres. apply Nat.eqb_eq in Hlen. split.
  - intro X. apply (R4 s HR) in X. rewrite (R1 s HR) in Hres.
    destruct (c_resv s c); [contradiction | discriminate].
  - intros sid X. apply (S4 s HS) in X. destruct (c_streams s c); [contradiction | discriminate].
Qed.

Theorem h2_one_dial_per_key : forall evs cl1 cl2, let s := h2_run evs in
  cl1 < n_call s -> cl2 < n_call s -> call_res s cl1 = None -> call_res s cl2 = None ->
  call_key s cl1 = call_key s cl2 -> cl1 = cl2.
Proof.
  intros evs cl1 cl2 s L1' L2' E1 E2 K. pose proof (h2_run_inv evs) as H. fold s in H.
  destruct H as [_ _ _ _ HD _ _].
  pose proof (D4 s HD _ L1' E1) as A. pose proof (D4 s HD _ L2' E2) as B. rewrite K in A. congruence.
Qed.

Theorem h2_pool_wellformed : forall evs k, let s := h2_run evs in
  NoDup (p_conns s k) /\
  (forall c, In c (p_conns s k) -> c_key s c = k /\ c_dead s c = false /\ c < n_cid s) /\
  (forall c, c_dead s c = true -> ~ In c (p_conns s k)).
Proof.
  intros evs k s. pose proof (h2_run_inv evs) as H. fold s in H. destruct H as [HP _ _ _ _ _ _].
  repeat split; intros.
  - apply (P1 s HP).
  - eapply (P3 s HP); eauto.
  - eapply (P4 s HP); eauto.
  - eapply (P2 s HP); eauto.
  - intro X. apply (P4 s HP) in X. congruence.
Qed.

Theorem h2_reservations_accounted : forall evs c, let s := h2_run evs in
  c_reserved s c = length (c_resv s c) /\ NoDup (c_resv s c) /\
  (forall r, In r (c_resv s c) <-> r_phase s r = RReserved c).
Proof.
  intros evs c s. pose proof (h2_run_inv evs) as H. fold s in H. destruct H as [_ _ HR _ _ _ _].
  repeat split; intros.
  - apply (R1 s HR).
  - apply (R2 s HR).
  - apply (R3 s HR); auto.
  - apply (R4 s HR); auto.
Qed.

Theorem h2_concurrency_limit : forall evs c, let s := h2_run evs in
  c_lowered s c = false -> length (c_streams s c) + c_reserved s c <= c_max s c.
Proof.
  intros evs c s. pose proof (h2_run_inv evs) as H. fold s in H. destruct H as [_ _ _ _ _ HL _].
  apply (L1 s HL).
Qed.

Theorem h2_never_panics : forall evs, h2_panicked (h2_run evs) = false.
Proof. intros evs. apply (IK _ (h2_run_inv evs)). Qed.

Theorem h2_reachable_snapshot_ok : forall evs ks, let s := h2_run evs in
  (forall c, c_lowered s c = false) -> h2snap_ok (h2snap_of s ks) = true.
Proof.
  intros evs ks s Hl. pose proof (h2_run_inv evs) as H. fold s in H.
  destruct H as [HP HS _ _ _ HL _].
  unfold h2snap_ok, h2snap_of. apply forallb_forall. intros x Hx. apply in_map_iff in Hx.
  destruct Hx as [k [Ek _]]. subst x. simpl. apply andb_true_intro. split.
  - apply forallb_forall. intros y Hy. apply in_map_iff in Hy. destruct Hy as [c [Ec _]]. subst y.
    unfold h2conn_ok, h2conn_snap_of. simpl.
    repeat (apply andb_true_intro; split).
    + apply nodupb_NoDup. apply (S1 s HS).
    + apply forallb_forall. intros i Hi. apply in_map_iff in Hi. destruct Hi as [[i' r] [E1 E2]].
      simpl in E1. subst i'. apply andb_true_intro. split.
      * eapply (S7 s HS), (S2 s HS); eauto.
      * apply Nat.ltb_lt. eapply (S6 s HS), (S2 s HS); eauto.
    + apply (S8 s HS).
    + apply Nat.leb_le. rewrite map_length. apply (L1 s HL). apply Hl.
  - rewrite map_map. simpl. rewrite map_id. apply nodupb_NoDup. apply (P1 s HP).
Qed.

(* a request that holds a reservation when CloseIdleConnections runs still opens its stream on
   that connection: the interleaving "picked (GotConn) - CloseIdleConnections - writeRequest" *)
Theorem h2_reserved_survives_close_idle : forall evs r c retry, let s := h2_run evs in
  r_phase s r = RReserved c -> can_take (unreserve s c r) c = true ->
  let s' := h2_step (h2_step s H2CloseIdle) (H2Open r retry) in
  c_closed (h2_step s H2CloseIdle) c = c_closed s c /\
  r_phase s' r = ROpen c (c_next s c) /\ c_closed s' c = false.
Proof.
  intros evs r c retry s Hp Hct s'. pose proof (h2_run_inv evs) as H. fold s in H.
  destruct H as [_ _ HR _ _ _ _].
  assert (Hin : In r (c_resv s c)) by (apply (R4 s HR); auto).
  assert (Hres : c_reserved s c <> 0).
  { rewrite (R1 s HR). destruct (c_resv s c); [contradiction | discriminate]. }
  assert (Hcl : c_closed s c = false).
  { unfold can_take in Hct. repeat (apply andb_prop in Hct; destruct Hct as [Hct ?]).
    simpl in *. apply negb_true_iff; auto. }
  assert (Hsame : c_closed (h2_step s H2CloseIdle) c = c_closed s c).
  { simpl. rewrite Hcl. simpl. apply Nat.eqb_neq in Hres. rewrite Hres. rewrite andb_false_r. reflexivity. }
  split; [exact Hsame|].
  subst s'. set (s1 := h2_step s H2CloseIdle).
  assert (Hp1 : r_phase s1 r = RReserved c) by exact Hp.
  assert (Hct1 : can_take (unreserve s1 c r) c = true).
  { unfold can_take in *. simpl in *. rewrite Hcl in *. simpl.
    apply Nat.eqb_neq in Hres. rewrite Hres. rewrite andb_false_r. simpl. exact Hct. }
  cbn [h2_step]. rewrite Hp1, Hct1. simpl. unfold upd. rewrite !Nat.eqb_refl.
  split; [reflexivity|].
  rewrite Hcl. simpl. apply Nat.eqb_neq in Hres. rewrite Hres. rewrite andb_false_r. reflexivity.
Qed.
