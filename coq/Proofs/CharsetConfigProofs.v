(* Proofs/CharsetConfigProofs.v - C15: configurations are values; re-configuring one transport never
   changes what another one (its clone, the one it was cloned from, any other) does. *)
From Coq Require Import Lia PeanoNat.
From ReqV Require Import Lib.Bytes Model.Charset Model.CharsetConfig.

Lemma upd_nth_length {A} i (f : A -> A) l : length (upd_nth i f l) = length l.
Proof. revert i; induction l as [|x r IH]; intros [|i]; cbn; auto. Qed.

Lemma upd_nth_other {A} i j (f : A -> A) l : i <> j -> nth_error (upd_nth i f l) j = nth_error l j.
Proof.
  revert i j; induction l as [|x r IH]; intros [|i] [|j] H; cbn; auto; try congruence.
Qed.

Lemma upd_nth_same {A} i (f : A -> A) l : nth_error (upd_nth i f l) i = option_map f (nth_error l i).
Proof. revert i; induction l as [|x r IH]; intros [|i]; cbn; auto. Qed.

Lemma apply_op_length_ge st op : length st <= length (apply_op st op).
Proof.
  destruct op; cbn [apply_op]; rewrite ?upd_nth_length; auto.
  destruct (nth_error st i); [rewrite app_length; cbn; lia | auto].
Qed.

(* frame: an operation that does not re-configure transport j leaves j's configuration alone *)
Lemma apply_op_frame st op j :
  j < length st -> targets j op = false -> nth_error (apply_op st op) j = nth_error st j.
Proof.
  intros L T. unfold targets in T.
  destruct op; cbn [apply_op op_target] in *;
    try (apply upd_nth_other; intros ->; rewrite Nat.eqb_refl in T; discriminate); auto.
  destruct (nth_error st i); [apply nth_error_app1; exact L | reflexivity].
Qed.

(* Clone: the new transport starts with exactly the configuration of its source *)
Lemma clone_copies st i d :
  nth_error st i = Some d -> nth_error (apply_op st (OpClone i)) (length st) = Some d.
Proof.
  intros H. cbn [apply_op]. rewrite H. rewrite nth_error_app2 by lia. rewrite Nat.sub_diag. reflexivity.
Qed.

Lemma run_ops_frame ops : forall st j,
  j < length st -> forallb (fun op => negb (targets j op)) ops = true ->
  nth_error (run_ops st ops) j = nth_error st j.
Proof.
  induction ops as [|op r IH]; intros st j L F; [reflexivity|].
  cbn [forallb] in F. apply andb_prop in F. destruct F as [F1 F2].
  apply Bool.negb_true_iff in F1.
  unfold run_ops in *. cbn [fold_left]. rewrite IH; auto.
  - apply apply_op_frame; auto.
  - pose proof (apply_op_length_ge st op). lia.
Qed.

(* a clone keeps the configuration it was cloned with, whatever the original - or any other
   transport - is told afterwards; and (same lemma, j := the source) the original keeps its own
   whatever the clone is told *)
Theorem clone_independent st i d ops :
  nth_error st i = Some d ->
  forallb (fun op => negb (targets (length st) op)) ops = true ->
  nth_error (run_ops (apply_op st (OpClone i)) ops) (length st) = Some d.
Proof.
  intros H F. rewrite run_ops_frame; auto.
  - apply clone_copies. exact H.
  - cbn [apply_op]. rewrite H, app_length. cbn. lia.
Qed.

Theorem source_independent st i d ops :
  nth_error st i = Some d ->
  forallb (fun op => negb (targets i op)) ops = true ->
  nth_error (run_ops (apply_op st (OpClone i)) ops) i = Some d.
Proof.
  intros H F. assert (L : i < length st) by (apply nth_error_Some; congruence).
  rewrite run_ops_frame; auto.
  - rewrite apply_op_frame; auto.
  - pose proof (apply_op_length_ge st (OpClone i)). lia.
Qed.

(* hence the reader a transport installs - and with it, by the theorems of CharsetProofs.v, every byte
   it delivers - depends on the operations addressed to that transport only *)
Theorem decide_frame {enc} (parse_ct : bytes -> ct_parse) (lookup_charset : bytes -> option enc)
        st ops j resp_ce ct :
  j < length st -> forallb (fun op => negb (targets j op)) ops = true ->
  decide_of parse_ct lookup_charset (run_ops st ops) j resp_ce ct =
  decide_of parse_ct lookup_charset st j resp_ce ct.
Proof. intros L F. unfold decide_of. rewrite run_ops_frame; auto. Qed.

(* the caller's slice is not part of any configuration *)
Lemma scribble_is_noop st i : apply_op st (OpScribble i) = st.
Proof. reflexivity. Qed.
