(* Proofs/SettingsValue.v - C19: scope and non-interference in the value model (Model/Settings.v,
   second half): every object a plain value, Clone = copy.  Transferred to the reference heap by
   the refinement theorem of Proofs/SettingsSim.v. *)
From Coq Require Import List Arith Bool Lia.
From ReqV Require Import Model.Settings.
Import ListNotations.

Lemma oid_eqb_spec a b : reflect (a = b) (oid_eqb a b).
Proof.
  destruct a as [x|x], b as [y|y]; simpl; try (constructor; congruence);
    destruct (Nat.eqb_spec x y); constructor; congruence.
Qed.

Lemma oid_eqb_refl a : oid_eqb a a = true.
Proof. destruct (oid_eqb_spec a a); congruence. Qed.

Section Assoc.
  Context {B : Type}.
  Lemma aget_aset_eq k (x : B) l : aget oid_eqb k (aset oid_eqb k x l) = Some x.
  Proof.
    induction l as [|[j y] t IH]; simpl.
    - now rewrite oid_eqb_refl.
    - destruct (oid_eqb j k) eqn:E; simpl; rewrite E; auto.
  Qed.
  Lemma aget_aset_neq k j (x : B) l : k <> j -> aget oid_eqb j (aset oid_eqb k x l) = aget oid_eqb j l.
  Proof.
    intros N. induction l as [|[i y] t IH]; simpl.
    - destruct (oid_eqb_spec k j); congruence.
    - destruct (oid_eqb_spec i k); simpl.
      + subst. destruct (oid_eqb_spec k j); congruence.
      + destruct (oid_eqb i j); auto.
  Qed.
End Assoc.

(* which object an operation (re)defines, and which object it reads besides that one *)
Definition target (o : op) : option oid :=
  match o with
  | ONewClient c => Some (OC c) | OSet id _ => Some id | OClone _ d => Some (OC d)
  | ONewReq _ r => Some (OR r) | OExec _ => None
  end.
Definition source (o : op) : option oid :=
  match o with OClone s _ => Some (OC s) | ONewReq c _ => Some (OC c) | _ => None end.

Lemma vstep_other vs o id : target o <> Some id -> vget id (vstep vs o) = vget id vs.
Proof.
  destruct o; simpl; unfold vget, vset; intros N; auto.
  - apply aget_aset_neq; congruence.
  - destruct (aget oid_eqb o vs); auto. apply aget_aset_neq; congruence.
  - destruct (aget oid_eqb (OC src) vs); auto. apply aget_aset_neq; congruence.
  - destruct (aget oid_eqb (OC c) vs); auto. apply aget_aset_neq; congruence.
Qed.

Lemma vstep_agree vs vs' o id :
  vget id vs = vget id vs' ->
  (forall s, source o = Some s -> vget s vs = vget s vs') ->
  vget id (vstep vs o) = vget id (vstep vs' o).
Proof.
  intros Hid Hsrc.
  destruct (oid_eqb_spec id id) as [_|]; [|congruence].
  assert (D : target o = Some id \/ target o <> Some id).
  { destruct (target o) as [t|]; [destruct (oid_eqb_spec t id); [left|right]; congruence | right; congruence]. }
  destruct D as [T|T]; [|now rewrite !vstep_other].
  destruct o; simpl in *; unfold vget, vset in *; inversion T; subst; clear T.
  - now rewrite !aget_aset_eq.
  - rewrite <- Hid. destruct (aget oid_eqb id vs) eqn:E.
    + now rewrite !aget_aset_eq.
    + now rewrite E.
  - rewrite <- (Hsrc (OC src) eq_refl). destruct (aget oid_eqb (OC src) vs).
    + now rewrite !aget_aset_eq.
    + exact Hid.
  - rewrite <- (Hsrc (OC c) eq_refl). destruct (aget oid_eqb (OC c) vs).
    + now rewrite !aget_aset_eq.
    + exact Hid.
Qed.

(* ---------- request scope / client scope ---------- *)
(* a request-level setter changes that request and nothing else *)
Lemma v_request_scope vs r s id : id <> OR r -> vget id (vstep vs (OSet (OR r) s)) = vget id vs.
Proof. intros N. apply vstep_other. simpl. congruence. Qed.

Lemma v_request_scope_self vs r s vr :
  vget (OR r) vs = Some vr -> vget (OR r) (vstep vs (OSet (OR r) s)) = Some (vapply vr s).
Proof. intros E. simpl. rewrite E. apply aget_aset_eq. Qed.

(* a client-level setter is seen by every later Exec of that client: fresh requests and existing ones *)
Lemma v_client_scope_probe vs c s vc :
  vget (OC c) vs = Some vc ->
  vprobe (vstep vs (OSet (OC c) s)) c = Some (describe (vapply vc s) (vnew_req c (vapply vc s))).
Proof.
  intros E. unfold vprobe. simpl. rewrite E. unfold vget, vset. now rewrite aget_aset_eq.
Qed.

Lemma v_client_scope_exec vs c s vc r vr :
  vget (OC c) vs = Some vc -> vget (OR r) vs = Some vr -> v_par vr = c ->
  vexec (vstep vs (OSet (OC c) s)) r = Some (describe (vapply vc s) vr).
Proof.
  intros Ec Er Ep. unfold vexec. rewrite vstep_other by (simpl; congruence). rewrite Er, Ep.
  simpl. rewrite Ec. unfold vget, vset. now rewrite aget_aset_eq.
Qed.

(* ... and by no other client *)
Lemma v_client_scope_others vs c s id : id <> OC c -> vget id (vstep vs (OSet (OC c) s)) = vget id vs.
Proof. intros N. apply vstep_other. simpl. congruence. Qed.

(* ---------- clone: initially equal ---------- *)
(* the wrapper chain a client runs is the one its wrapper list describes *)
Definition chain_of (l : list val) : option (list val) := match l with [] => None | _ => Some l end.
Record chain_ok (v : vobj) : Prop := {
  ck_len : length (v_sl v) = NSL;
  ck_c : v_chain v = chain_of (nth F_RTW (v_sl v) []);
  ck_t : v_tchain v = chain_of (nth F_TRW (v_sl v) []) }.

(* setters that correspond to an API call: nothing appends to the wrapper lists behind the chains'
   back, and SetCookieJar (no factory) is the documented exception *)
Definition setter_api (s : setter) : Prop :=
  match s with
  | SAppend f _ => f <> F_RTW /\ f <> F_TRW
  | SSliceSet f _ => f <> F_RTW /\ f <> F_TRW
  | _ => True
  end.
Definition setter_nojar (s : setter) : Prop := s <> SJarPlain.

Lemma upd_nth_length {A} n (x : A) l : length (upd_nth n x l) = length l.
Proof. revert n; induction l; destruct n; simpl; auto. Qed.
Lemma nth_upd_nth_eq {A} n (x : A) l d : n < length l -> nth n (upd_nth n x l) d = x.
Proof. revert n; induction l; destruct n; simpl; intros; try lia; auto. apply IHl; lia. Qed.
Lemma nth_upd_nth_neq {A} n m (x : A) l d : n <> m -> nth m (upd_nth n x l) d = nth m l d.
Proof. revert n m; induction l; destruct n, m; simpl; intros; try congruence; auto. Qed.

Lemma chain_of_app l vs : vs <> [] -> chain_of (l ++ vs) = Some (l ++ vs).
Proof. destruct l, vs; simpl; congruence. Qed.

Lemma chain_ok_vapply v s : chain_ok v -> setter_api s -> chain_ok (vapply v s).
Proof.
  intros [L C T] Hs.
  assert (L1 : F_RTW < length (v_sl v)) by (rewrite L; unfold F_RTW, NSL; lia).
  assert (L2 : F_TRW < length (v_sl v)) by (rewrite L; unfold F_TRW, NSL; lia).
  assert (N12 : F_RTW <> F_TRW) by discriminate.
  assert (N21 : F_TRW <> F_RTW) by discriminate.
  assert (N01 : F_COOKIES <> F_RTW) by discriminate.
  assert (N02 : F_COOKIES <> F_TRW) by discriminate.
  Local Ltac ck := constructor;
    cbn [vset_sl vset_mp vset_rt vset_chain vset_tchain vset_scal vset_jar vset_ext v_sl v_chain v_tchain];
    rewrite ?upd_nth_length, ?nth_upd_nth_neq by auto; auto.
  destruct s; cbn [vapply setter_api] in *; try (ck; fail).
  - destruct Hs as [H1 H2]. ck.
  - destruct (v_fact v); ck.
  - destruct vs as [|x vs]; [constructor; auto|].
    destruct (v_chain v) as [l|] eqn:E; ck; rewrite nth_upd_nth_eq by auto.
    + unfold wrap_chain. destruct (nth F_RTW (v_sl v) []) eqn:E1; simpl in C; inversion C; subst.
      rewrite chain_of_app; congruence.
    + reflexivity.
  - destruct vs as [|x vs]; [constructor; auto|].
    destruct (v_tchain v) as [l|] eqn:E; ck; rewrite nth_upd_nth_eq by auto.
    + unfold wrap_chain. destruct (nth F_TRW (v_sl v) []) eqn:E1; simpl in T; inversion T; subst.
      rewrite chain_of_app; congruence.
    + reflexivity.
  - destruct (v_jar v); ck.
  - destruct Hs as [H1 H2]. ck.
  - destruct (x_dumper (v_ext v)); ck.
Qed.

Definition scal_filter (l : list (val * val)) := filter (fun kv : nat * val => mem (fst kv) SCAL_KEYS) l.

Lemma vclone_eq v : chain_ok v ->
  vclone v = vset_scal (vset_jar v (if v_fact v then Some [] else v_jar v) (v_fact v)) (scal_filter (v_scal v)).
Proof.
  intros [L C T]. unfold vclone, vset_jar, vset_scal, scal_filter. cbn. rewrite C, T. unfold chain_of.
  destruct (nth F_RTW (v_sl v) []), (nth F_TRW (v_sl v) []); reflexivity.
Qed.

Lemma mem_spec k l : mem k l = true <-> In k l.
Proof.
  induction l as [|x t IH]; simpl; [split; [discriminate|tauto]|].
  destruct (Nat.eqb_spec x k); simpl; [tauto|]. rewrite IH. split; [auto|intros [|]; congruence].
Qed.

Lemma nget_filter K k (l : list (val * val)) :
  mem k K = true -> nget k (filter (fun kv => mem (fst kv) K) l) = nget k l.
Proof.
  intros Hk. unfold nget. induction l as [|[j y] t IH]; simpl; auto.
  destruct (mem j K) eqn:E; simpl.
  - destruct (j =? k); auto.
  - destruct (Nat.eqb_spec j k); [congruence|auto].
Qed.

(* describe reads the value-typed settings through SCAL_KEYS only *)
Lemma scal_view_filter l : scal_view (scal_filter l) = scal_view l.
Proof.
  unfold scal_view, scal_filter. apply map_ext_in. intros k Hk. rewrite nget_filter; auto. now apply mem_spec.
Qed.

Lemma describe_scal_filter c r : describe (vset_scal c (scal_filter (v_scal c))) r = describe c r.
Proof.
  unfold describe, vset_scal. cbn [v_sl v_mp v_rt v_chain v_tchain v_scal v_jar v_fact v_par v_ext].
  now rewrite scal_view_filter.
Qed.

(* right after Clone the clone describes every request exactly as the original does, except that
   a jar made by a factory starts empty *)
Lemma v_clone_initially_equal v r : chain_ok v ->
  describe (vclone v) r = describe (vset_jar v (if v_fact v then Some [] else v_jar v) (v_fact v)) r.
Proof.
  intros H. rewrite vclone_eq by auto.
  exact (describe_scal_filter (vset_jar v (if v_fact v then Some [] else v_jar v) (v_fact v)) r).
Qed.

Definition scal_ok (v : vobj) : Prop := forall kv, In kv (v_scal v) -> In (fst kv) SCAL_KEYS.

Lemma scal_filter_id l : (forall kv, In kv l -> In (fst kv) SCAL_KEYS) -> scal_filter l = l.
Proof.
  unfold scal_filter. induction l as [|kv t IH]; intros H; auto. cbn [filter].
  assert (E : mem (fst kv) SCAL_KEYS = true) by (apply mem_spec, H; simpl; auto).
  rewrite E, IH; auto. intros kv' Hk. apply H. simpl; auto.
Qed.

Lemma v_clone_identical v : chain_ok v -> scal_ok v -> (v_fact v = false \/ v_jar v = Some []) -> vclone v = v.
Proof.
  intros H S J. rewrite vclone_eq by auto. rewrite scal_filter_id by exact S.
  destruct v as [a b c d e f g h i x]; unfold vset_jar, vset_scal; simpl in *.
  destruct J as [->| ->]; [reflexivity|]. destruct h; reflexivity.
Qed.

Lemma chain_ok_vclone v : chain_ok v -> chain_ok (vclone v).
Proof. intros H. rewrite vclone_eq by auto. destruct H; constructor; auto. Qed.

Lemma chain_ok_client0 : chain_ok vclient0.
Proof. constructor; reflexivity. Qed.

(* ---------- programs made of API calls ---------- *)
Definition op_api (o : op) : Prop := match o with OSet _ s => setter_api s | _ => True end.
Definition op_nojar (o : op) : Prop := match o with OSet _ s => setter_nojar s | _ => True end.

Definition clients_ok (vs : vstate) : Prop := forall c v, vget (OC c) vs = Some v -> chain_ok v.

Lemma clients_ok_step vs o : clients_ok vs -> op_api o -> clients_ok (vstep vs o).
Proof.
  intros H Ho c v. unfold clients_ok in H.
  destruct o; simpl in *; unfold vget, vset in *.
  - destruct (oid_eqb_spec (OC c0) (OC c)) as [E|N].
    + rewrite E, aget_aset_eq. intros X; inversion X. apply chain_ok_client0.
    + rewrite aget_aset_neq by auto. apply H.
  - destruct (aget oid_eqb o vs) eqn:E; [|apply H].
    destruct (oid_eqb_spec o (OC c)) as [E1|N].
    + subst. rewrite aget_aset_eq. intros X; inversion X. apply chain_ok_vapply; auto. eapply H; eauto.
    + rewrite aget_aset_neq by auto. apply H.
  - destruct (aget oid_eqb (OC src) vs) eqn:E; [|apply H].
    destruct (oid_eqb_spec (OC dst) (OC c)) as [E1|N].
    + rewrite E1, aget_aset_eq. intros X; inversion X. apply chain_ok_vclone. eapply H; eauto.
    + rewrite aget_aset_neq by auto. apply H.
  - destruct (aget oid_eqb (OC c0) vs) eqn:E; [|apply H].
    rewrite aget_aset_neq by congruence. apply H.
  - apply H.
Qed.

Lemma clients_ok_run p : forall vs, clients_ok vs -> Forall op_api p -> clients_ok (vrun p vs).
Proof.
  induction p as [|o p IH]; simpl; intros vs H F; auto.
  inversion F; subst. apply IH; auto using clients_ok_step.
Qed.

Lemma clients_ok_nil : clients_ok [].
Proof. intros c v X; discriminate. Qed.

(* ---------- non-interference by backwards slicing ---------- *)
Fixpoint memo (k : oid) (l : list oid) : bool :=
  match l with [] => false | x :: t => oid_eqb x k || memo k t end.

Lemma memo_In k l : memo k l = true <-> In k l.
Proof.
  induction l; simpl; [split; [discriminate|tauto]|].
  destruct (oid_eqb_spec a k); simpl; [tauto|]. rewrite IHl. split; [auto|intros [|]; congruence].
Qed.

(* pslice p R = (the operations of p that can influence the objects in R at the end,
                the objects whose state before p matters for that).
   Going backwards, a Clone/R() whose result is relevant makes its source relevant from there on
   (an ancestor before cloning); operations on anything else are erased. *)
Fixpoint pslice (p : list op) (R : list oid) : list op * list oid :=
  match p with
  | [] => ([], R)
  | o :: t =>
      let '(t', R1) := pslice t R in
      match target o with
      | Some id =>
          if memo id R1
          then (o :: t', match source o with Some s => s :: R1 | None => R1 end)
          else (t', R1)
      | None => (t', R1)
      end
  end.

Theorem v_noninterference p : forall R vs vs',
  (forall id, In id (snd (pslice p R)) -> vget id vs = vget id vs') ->
  forall id, In id R -> vget id (vrun p vs) = vget id (vrun (fst (pslice p R)) vs').
Proof.
  induction p as [|o p IH]; intros R vs vs' Hag id Hid; simpl in *; auto.
  destruct (pslice p R) as [t' R1] eqn:Es.
  specialize (IH R). rewrite Es in IH. simpl in IH.
  destruct (target o) as [tid|] eqn:Et.
  - destruct (memo tid R1) eqn:Em; simpl in *.
    + apply IH; auto. intros j Hj. apply vstep_agree.
      * apply Hag. destruct (source o); simpl; auto.
      * intros s Hs. apply Hag. rewrite Hs. simpl; auto.
    + apply IH; auto. intros j Hj. rewrite vstep_other; auto.
      intros E. rewrite Et in E. inversion E; subst. apply memo_In in Hj. congruence.
  - apply IH; auto. intros j Hj. rewrite vstep_other; auto. congruence.
Qed.

Lemma slice_sub p : forall R (P : op -> Prop), Forall P p -> Forall P (fst (pslice p R)).
Proof.
  induction p as [|o p IH]; intros R P F; simpl; auto.
  inversion F; subst. specialize (IH R P H2). destruct (pslice p R) as [t' R1]; simpl in *.
  destruct (target o); auto. destruct (memo o0 R1); simpl; auto.
Qed.
