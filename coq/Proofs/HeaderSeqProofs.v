(* Proofs/HeaderSeqProofs.v - C16: what is carried from one exchange to the next does not reach the
   header set of a later request: the HTTP/2 encoder table across refused requests, the pooled
   HTTP/1.1 header sorter across failed writes, the wrapper registrations across Clone(). *)
From ReqV Require Import Lib.Bytes Lib.BytesFacts Model.HeaderOrder Model.HeaderCollect Model.HeaderMerge
  Model.HeaderSeq Proofs.HeaderOrderProofs Proofs.HeaderCollectProofs Proofs.HeaderWireProofs
  Proofs.HeaderMergeProofs Proofs.HeaderKeySortProofs.
From Coq Require Import Lia Permutation Sorting.Sorted NArith.

(* ================= HTTP/2: one connection, any sequence of requests ================= *)
Section H2ConnProofs.
  Context {T B : Type}.
  Variable enc : T -> list line -> B * T.
  Variable dec : T -> B -> option (list line) * T.
  (* the codec is lossless as long as the decoder has seen every block the encoder produced *)
  Hypothesis sync : forall t ls, dec t (fst (enc t ls)) = (Some ls, snd (enc t ls)).

  (* a refused request leaves the encoder table where it was *)
  Lemma h2_refused_leaves_table max t q :
    h2_refused max q = true -> h2_client_step enc max t q = (None, t).
  Proof. intros H. unfold h2_client_step. now rewrite H. Qed.

  Lemma h2_accepted_step max t q :
    h2_refused max q = false ->
    h2_client_step enc max t q = (Some (fst (enc t (h2_lines q))), snd (enc t (h2_lines q))).
  Proof. intros H. unfold h2_client_step. now rewrite H. Qed.

  (* for EVERY sequence of requests on one connection (any mix of accepted and refused ones, any
     starting table): the peer decodes, block by block, exactly the field lists of the accepted
     requests - each one its own h2_lines, whatever came before *)
  Theorem h2_session_history_independent max qs : forall t,
    h2_session dec (h2_client_step enc) max t t qs =
    map (fun q => Some (h2_lines q)) (filter (fun q => negb (h2_refused max q)) qs).
  Proof.
    induction qs as [|q r IH]; intros t; [reflexivity|].
    cbn [h2_session filter]. destruct (h2_refused max q) eqn:E.
    - rewrite (h2_refused_leaves_table max t q E). cbn [negb]. apply IH.
    - rewrite (h2_accepted_step max t q E). cbn [negb map]. rewrite sync. cbn [fst snd].
      f_equal. apply IH.
  Qed.

  (* in particular the request that follows any history *)
  Corollary h2_request_after_any_history max pre q t :
    h2_refused max q = false ->
    exists earlier,
      h2_session dec (h2_client_step enc) max t t (pre ++ [q]) = earlier ++ [Some (h2_lines q)] /\
      earlier = map (fun q => Some (h2_lines q)) (filter (fun q => negb (h2_refused max q)) pre).
  Proof.
    intros E. eexists. split; [|reflexivity].
    rewrite h2_session_history_independent, filter_app, map_app. cbn [filter]. rewrite E. reflexivity.
  Qed.
End H2ConnProofs.

(* a codec that satisfies [sync] and notices a lost block: blocks are numbered *)
Definition num_enc (t : nat) (ls : list line) : (nat * list line) * nat := ((t, ls), S t).
Definition num_dec (t : nat) (b : nat * list line) : option (list line) * nat :=
  if fst b =? t then (Some (snd b), S t) else (None, t).

Lemma num_sync t ls : num_dec t (fst (num_enc t ls)) = (Some ls, snd (num_enc t ls)).
Proof. unfold num_dec, num_enc. cbn [fst snd]. now rewrite Nat.eqb_refl. Qed.

Definition small_req (v : bytes) : creq :=
  mk_creq (bs "GET") (bs "h") (bs "/") (bs "http") [(bs "X-A", [v])] 0%Z false.

(* with the counting pass merged into the encoding pass the request AFTER a refused one is no longer
   decoded as itself *)
Lemma h2_merged_pass_refuted :
  let qs := [small_req (bs "1"); small_req (rep "B"%byte 400); small_req (bs "2")] in
  h2_session num_dec (h2_client_step num_enc) (Some 300%N) 0 0 qs =
    [Some (h2_lines (small_req (bs "1"))); Some (h2_lines (small_req (bs "2")))] /\
  h2_session num_dec (h2_client_step_merged num_enc) (Some 300%N) 0 0 qs =
    [Some (h2_lines (small_req (bs "1"))); None].
Proof. split; vm_compute; reflexivity. Qed.

(* ================= HTTP/1.1: the pooled header sorter ================= *)
Lemma pooled_sorted_ignores_stale stale h : pooled_sorted stale h = pooled_sorted [] h.
Proof. reflexivity. Qed.

Definition cut_lines (cut : option nat) (ls : list line) : list line :=
  match cut with Some k => firstn k ls | None => ls end.

(* for EVERY sequence of requests drawn through the pool - completed or cut short by a connection
   fault after any number of lines - and every initial content of the pooled sorter: what each
   request writes is a function of that request alone *)
Theorem h1_pool_session_independent reqs : forall stale,
  h1_pool_session pooled_sorted stale reqs =
  map (fun rc => cut_lines (snd rc) (h1_lines_pooled pooled_sorted [] (fst rc))) reqs.
Proof.
  induction reqs as [|[q cut] r IH]; intros stale; [reflexivity|].
  cbn [h1_pool_session map fst snd]. f_equal. apply IH.
Qed.

(* ... and it is the h1_lines of the collector theorems (no order list, a map's distinct keys) *)
Definition key_leb (a b : kv) : bool := bytes_leb (fst a) (fst b).

Lemma insert_filter (p : kv -> bool) x l :
  StronglySorted key_le l ->
  filter p (insert_le key_leb x l) = if p x then insert_le key_leb x (filter p l) else filter p l.
Proof.
  induction 1 as [|y t Hs IH Hy]; cbn [insert_le filter].
  - destruct (p x); reflexivity.
  - change (key_leb x y) with (bytes_leb (fst x) (fst y)). destruct (bytes_leb (fst x) (fst y)) eqn:E.
    + cbn [filter]. destruct (p x) eqn:Px, (p y) eqn:Py; try reflexivity.
      * cbn [insert_le]. change (key_leb x y) with (bytes_leb (fst x) (fst y)). now rewrite E.
      * (* y dropped: x goes before the first kept element, all of which are above y *)
        clear IH. induction t as [|z t IHt]; [reflexivity|]. cbn [filter].
        inversion Hs as [|? ? Hs' Hz]; subst. rewrite Forall_forall in Hy.
        destruct (p z) eqn:Pz.
        -- cbn [insert_le]. change (key_leb x z) with (bytes_leb (fst x) (fst z)).
           assert (bytes_leb (fst x) (fst z) = true) as ->; [|reflexivity].
           eapply bytes_leb_trans; [exact E|]. apply Hy. now left.
        -- apply IHt; [assumption|]. rewrite Forall_forall. intros w Hw. apply Hy. now right.
    + cbn [filter]. rewrite IH. destruct (p x) eqn:Px, (p y) eqn:Py; try reflexivity.
      cbn [insert_le]. change (key_leb x y) with (bytes_leb (fst x) (fst y)). now rewrite E.
Qed.

Lemma sort_by_key_unfold l : sort_by_key l = sort_le key_leb l.
Proof. reflexivity. Qed.

Lemma filter_sort_by_key (p : kv -> bool) l :
  filter p (sort_by_key l) = sort_by_key (filter p l).
Proof.
  change (filter p (sort_le key_leb l) = sort_le key_leb (filter p l)).
  induction l as [|x t IH]; [reflexivity|].
  cbn [sort_le filter]. rewrite insert_filter by (apply (sort_by_key_sorted t)).
  rewrite IH. destruct (p x); reflexivity.
Qed.

Lemma map_values_sort_by_key (g : list bytes -> list bytes) l :
  map (fun x : kv => (fst x, g (snd x))) (sort_by_key l) = sort_by_key (map (fun x : kv => (fst x, g (snd x))) l).
Proof.
  change (map (fun x : kv => (fst x, g (snd x))) (sort_le key_leb l) =
          sort_le key_leb (map (fun x : kv => (fst x, g (snd x))) l)).
  induction l as [|x t IH]; [reflexivity|].
  cbn [sort_le map]. rewrite <- IH. generalize (sort_le key_leb t). intros s.
  induction s as [|y s IHs]; [reflexivity|]. cbn [insert_le map].
  change (key_leb (fst x, g (snd x)) (fst y, g (snd y))) with (bytes_leb (fst x) (fst y)).
  change (key_leb x y) with (bytes_leb (fst x) (fst y)).
  destruct (bytes_leb (fst x) (fst y)); [reflexivity|]. cbn [map]. now rewrite IHs.
Qed.

Lemma filter_filter {A} (p1 p2 : A -> bool) l :
  filter p2 (filter p1 l) = filter (fun x => p1 x && p2 x) l.
Proof.
  induction l as [|x t IH]; [reflexivity|]. cbn [filter]. destruct (p1 x); cbn [filter andb]; [|exact IH].
  destruct (p2 x); now rewrite IH.
Qed.

Lemma write_subset_pooled h : write_subset (pooled_sorted [] h) = sort_by_key (h1_user h).
Proof.
  unfold write_subset, pooled_sorted, h1_user. cbn [firstn app].
  rewrite filter_sort_by_key, filter_filter.
  rewrite (map_values_sort_by_key (map sanitize)). reflexivity.
Qed.

Theorem h1_lines_pooled_is_h1_lines q :
  is_nil (order_list (c_hdr q)) = true -> h1_lines_pooled pooled_sorted [] q = h1_lines q.
Proof.
  intros Hn. unfold h1_lines_pooled, h1_lines, h1_kvs, sort_if. cbv zeta. rewrite Hn.
  now rewrite write_subset_pooled.
Qed.

(* the variant that takes the pooled slice as it is: the request after a failed one also carries
   the failed request's headers *)
Lemma h1_pooled_stale_refuted :
  let q1 := mk_creq (bs "GET") (bs "h") (bs "/") (bs "http") [(bs "Authorization", [bs "secret"]); (bs "X-A", [bs "1"])] 0%Z false in
  let q2 := mk_creq (bs "GET") (bs "other") (bs "/") (bs "http") [(bs "X-B", [bs "2"])] 0%Z false in
  nth 1 (h1_pool_session pooled_sorted [] [(q1, Some 2); (q2, None)]) [] = h1_lines q2 /\
  In (bs "Authorization", bs "secret") (nth 1 (h1_pool_session pooled_sorted_stale [] [(q1, Some 2); (q2, None)]) []) /\
  ~ In (bs "Authorization", bs "secret") (h1_lines q2).
Proof.
  split; [vm_compute; reflexivity|]. split.
  - vm_compute. tauto.
  - vm_compute. intros H. repeat (destruct H as [H|H]; [discriminate|]). exact H.
Qed.

(* ================= families of cloned clients ================= *)
Definition writes (o : fam_op) (j : nat) : bool :=
  match o with
  | FClone _ => false
  | FOrder w _ | FPOrder w _ | FMw w _ => w =? j
  end.

Lemma upd_length {A} i (f : A -> A) l : length (upd i f l) = length l.
Proof. revert i. induction l as [|x t IH]; intros [|i]; cbn; auto. Qed.

Lemma nth_upd_other {A} (d : A) i j (f : A -> A) l : i <> j -> nth j (upd i f l) d = nth j l d.
Proof.
  revert i j. induction l as [|x t IH]; intros [|i] [|j] N; cbn; try reflexivity; try lia.
  apply IH. lia.
Qed.

Lemma nth_upd_same {A} (d : A) i (f : A -> A) l : i < length l -> nth i (upd i f l) d = f (nth i l d).
Proof.
  revert i. induction l as [|x t IH]; intros [|i] H; cbn in *; try lia; [reflexivity|].
  apply IH. lia.
Qed.

Lemma fam_step_length s o : length s <= length (fam_step s o).
Proof. destruct o; cbn [fam_step]; rewrite ?app_length, ?upd_length; cbn; lia. Qed.

(* one operation: a member it does not write to keeps its registrations; Clone writes to nobody *)
Lemma fam_step_other s o j :
  j < length s -> writes o j = false -> nth j (fam_step s o) [] = nth j s [].
Proof.
  intros Hj Hw. destruct o as [w|w k|w k|w t]; cbn [fam_step writes] in *.
  - now rewrite app_nth1.
  - apply nth_upd_other. now apply Nat.eqb_neq.
  - apply nth_upd_other. now apply Nat.eqb_neq.
  - apply nth_upd_other. now apply Nat.eqb_neq.
Qed.

(* Clone: the new member starts with a copy of the parent's registrations *)
Lemma fam_clone_copies s w :
  nth (length s) (fam_step s (FClone w)) [] = nth w s [].
Proof. cbn [fam_step]. rewrite app_nth2 by lia. now rewrite Nat.sub_diag. Qed.

(* for EVERY later sequence of operations (clones of it, clones of clones, registrations on any
   OTHER member - parent, sibling, child): a member's registrations do not change *)
Theorem fam_later_ops_do_not_reach ops2 : forall s j,
  j < length s -> forallb (fun o => negb (writes o j)) ops2 = true ->
  nth j (fold_left fam_step ops2 s) [] = nth j s [].
Proof.
  induction ops2 as [|o r IH]; intros s j Hj Hw; [reflexivity|].
  cbn [forallb] in Hw. apply andb_true_iff in Hw as [Ho Hr]. apply negb_true_iff in Ho.
  cbn [fold_left]. rewrite IH; [now apply fam_step_other| |assumption].
  pose proof (fam_step_length s o). lia.
Qed.

(* the list in force is the FIRST registered one (the wrapper registered first runs last) *)
Lemma in_force_first key o rest : in_force key (o :: rest) = o.
Proof. unfold in_force. apply run_wrappers_first_wins. Qed.

Lemma in_force_none key : in_force key [] = [].
Proof. reflexivity. Qed.

(* a clone sends with its parent's order lists until it registers its own - and if it inherited one,
   also afterwards *)
Lemma clone_inherits_in_force s w :
  let regs := nth (length s) (fam_step s (FClone w)) [] in
  in_force header_order_key (regs_order regs) = in_force header_order_key (regs_order (nth w s [])) /\
  in_force pseudo_header_order_key (regs_porder regs) = in_force pseudo_header_order_key (regs_porder (nth w s [])).
Proof. cbv zeta. now rewrite fam_clone_copies. Qed.

Lemma regs_order_app a b : regs_order (a ++ b) = regs_order a ++ regs_order b.
Proof. unfold regs_order. apply flat_map_app. Qed.

Lemma own_order_when_none_inherited regs k :
  regs_order regs = [] -> in_force header_order_key (regs_order (regs ++ [ROrder k])) = k.
Proof. intros H. rewrite regs_order_app, H. cbn [app regs_order flat_map]. apply in_force_first. Qed.

Lemma inherited_order_stays regs k :
  regs_order regs <> [] ->
  in_force header_order_key (regs_order (regs ++ [ROrder k])) = in_force header_order_key (regs_order regs).
Proof.
  intros H. rewrite regs_order_app. destruct (regs_order regs) as [|o r]; [congruence|].
  cbn [app]. now rewrite !in_force_first.
Qed.
