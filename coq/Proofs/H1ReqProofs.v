(* Proofs/H1ReqProofs.v - lemmas about Model/H1Req.v (C01) *)
From ReqV Require Import Lib.Bytes Lib.BytesFacts Model.Url Model.HeaderCollect Model.BodyFraming Model.H1Req.
From ReqV Require Import Proofs.UrlProofs Proofs.BodyFramingProofs.
From Coq Require Import Lia.

(* ---------- reading back a rendered head ---------- *)
Lemma read_line_app : forall l X, mem_byte CR l = false ->
  read_line (l ++ CR :: LF :: X) = Some (l, X).
Proof.
  induction l as [|c l IH]; intros X H.
  - reflexivity.
  - rewrite mem_byte_cons in H. apply orb_false_iff in H as [H1 H2].
    cbn [app read_line]. rewrite beqb_sym, H1. rewrite IH by assumption. reflexivity.
Qed.

(* a field line as the writers emit it: a non-empty name without ':' or CR, a value without CR *)
Definition ok_line (l : line) : Prop :=
  fst l <> [] /\ mem_byte ":"%byte (fst l) = false /\ mem_byte CR (fst l) = false /\
  mem_byte CR (snd l) = false.

Lemma trim_drop_space v : trim is_sp_tab (" "%byte :: v) = trim is_sp_tab v.
Proof. reflexivity. Qed.

Lemma parse_field_render l : mem_byte ":"%byte (fst l) = false ->
  parse_field (fst l ++ bs ": " ++ snd l) = Some (trim_line l).
Proof.
  intros H. unfold parse_field, cut_at. change (bs ": " ++ snd l) with (":"%byte :: " "%byte :: snd l).
  rewrite index_byte_app_hit by assumption.
  rewrite firstn_app_exact, skipn_S_app. rewrite trim_drop_space. reflexivity.
Qed.

Lemma render_line_split l : render_line l = (fst l ++ bs ": " ++ snd l) ++ CR :: LF :: [].
Proof. unfold render_line, crlf. rewrite <- !app_assoc. reflexivity. Qed.

Lemma read_line_render l Y : mem_byte CR (fst l) = false -> mem_byte CR (snd l) = false ->
  read_line (render_line l ++ Y) = Some (fst l ++ bs ": " ++ snd l, Y).
Proof.
  intros H1 H2. rewrite render_line_split, <- app_assoc.
  change ([CR; LF] ++ Y) with (CR :: LF :: Y). apply read_line_app.
  rewrite mem_byte_app, H1. change (bs ": " ++ snd l) with (":"%byte :: " "%byte :: snd l).
  rewrite !mem_byte_cons, H2. reflexivity.
Qed.

Lemma read_fields_render : forall ls fuel R, Forall ok_line ls -> length ls < fuel ->
  read_fields fuel (concat (map render_line ls) ++ crlf ++ R) = Some (map trim_line ls, R).
Proof.
  induction ls as [|l ls IH]; intros fuel R Hok Hf.
  - destruct fuel; [lia|]. reflexivity.
  - destruct fuel; [cbn in Hf; lia|]. inversion Hok as [|? ? (Hne & Hcol & Hcr1 & Hcr2) Hok']; subst.
    cbn [map concat read_fields]. rewrite <- app_assoc. rewrite read_line_render by assumption.
    destruct (fst l ++ bs ": " ++ snd l) as [|x xs] eqn:E.
    { destruct (fst l); [congruence|discriminate]. }
    rewrite <- E. rewrite parse_field_render by assumption.
    rewrite IH by (try assumption; cbn [length] in Hf; lia). reflexivity.
Qed.

Lemma length_concat_lines ls : length ls <= length (concat (map render_line ls)).
Proof.
  induction ls as [|l ls IH]; [cbn; lia|]. cbn [map concat length]. rewrite app_length.
  rewrite render_line_split, app_length. cbn [length]. lia.
Qed.

Definition http11 : bytes := bs "HTTP/1.1".

Lemma request_line_split m t : mem_byte " "%byte m = false -> mem_byte " "%byte t = false ->
  split_byte " "%byte (m ++ " "%byte :: t ++ bs " HTTP/1.1") = [m; t; http11].
Proof.
  intros Hm Ht. rewrite split_byte_app by assumption.
  change (bs " HTTP/1.1") with (" "%byte :: http11). rewrite split_byte_app by assumption.
  rewrite split_byte_none by reflexivity. reflexivity.
Qed.

(* the shared first half of observe_h1 on a rendered head *)
Record ok_head (m t : bytes) (ls : list line) : Prop := {
  okh_m_sp : mem_byte " "%byte m = false; okh_m_cr : mem_byte CR m = false;
  okh_t_sp : mem_byte " "%byte t = false; okh_t_cr : mem_byte CR t = false;
  okh_lines : Forall ok_line ls
}.

Lemma observe_head : forall m t ls R, ok_head m t ls ->
  read_line (render_head m t ls ++ R) =
    Some (m ++ " "%byte :: t ++ bs " HTTP/1.1", concat (map render_line ls) ++ crlf ++ R).
Proof.
  intros m t ls R [Hm1 Hm2 Ht1 Ht2 _]. unfold render_head, crlf.
  replace ((m ++ " "%byte :: t ++ bs " HTTP/1.1" ++ [CR; LF] ++ concat (map render_line ls) ++ [CR; LF]) ++ R)
    with ((m ++ " "%byte :: t ++ bs " HTTP/1.1") ++ CR :: LF :: (concat (map render_line ls) ++ [CR; LF] ++ R)).
  2:{ unfold http11. repeat (first [rewrite <- app_assoc | progress (cbn [app])]). reflexivity. }
  apply read_line_app. rewrite mem_byte_app, Hm2, mem_byte_cons. cbn [orb].
  replace (beqb CR " "%byte) with false by reflexivity. rewrite mem_byte_app, Ht2. reflexivity.
Qed.

Lemma observe_prefix : forall m t ls R, ok_head m t ls ->
  observe_h1 (render_head m t ls ++ R) =
  let fs := map trim_line ls in
  match field_values "Transfer-Encoding" fs, field_values "Content-Length" fs with
  | [], [] => Some (mkView m t fs [], R)
  | [], [cl] =>
      match parse_dec cl 0 with
      | Some n => let '(b, rest, missing) := take_N n R in
                  if (missing =? 0)%N then Some (mkView m t fs b, rest) else None
      | None => None
      end
  | [te], [] =>
      if bytes_eqb te (bs "chunked") then
        let r := read_chunked R in
        if is_clean (rd_err r) then Some (mkView m t fs (rd_data r), rd_rest r) else None
      else None
  | _, _ => None
  end.
Proof.
  intros m t ls R H. unfold observe_h1. rewrite observe_head by assumption.
  destruct H as [Hm1 Hm2 Ht1 Ht2 Hl].
  rewrite request_line_split by assumption.
  change (bytes_eqb http11 (bs "HTTP/1.1")) with true. cbn [negb].
  rewrite read_fields_render; [reflexivity|assumption|].
  rewrite !app_length. pose proof (length_concat_lines ls). lia.
Qed.

(* --- Content-Length framing: exactly the body is read, whatever follows is left untouched --- *)
Theorem h1_roundtrip_cl : forall m t ls body cl rest, ok_head m t ls ->
  field_values "Transfer-Encoding" (map trim_line ls) = [] ->
  field_values "Content-Length" (map trim_line ls) = [cl] ->
  parse_dec cl 0 = Some (N.of_nat (length body)) ->
  observe_h1 (render_head m t ls ++ body ++ rest) =
    Some (mkView m t (map trim_line ls) body, rest).
Proof.
  intros m t ls body cl rest H Hte Hcl Hdec. rewrite observe_prefix by assumption.
  cbn zeta. rewrite Hte, Hcl, Hdec. rewrite take_N_exact. reflexivity.
Qed.

(* --- no body: nothing behind the blank line belongs to the request ("no second request") --- *)
Theorem h1_roundtrip_nobody : forall m t ls rest, ok_head m t ls ->
  field_values "Transfer-Encoding" (map trim_line ls) = [] ->
  field_values "Content-Length" (map trim_line ls) = [] ->
  observe_h1 (render_head m t ls ++ rest) = Some (mkView m t (map trim_line ls) [], rest).
Proof.
  intros m t ls rest H Hte Hcl. rewrite observe_prefix by assumption.
  cbn zeta. rewrite Hte, Hcl. reflexivity.
Qed.

(* --- chunked framing: for EVERY partition of the body into well-formed chunks --- *)
Theorem h1_roundtrip_chunked : forall m t ls cs z zext tb rest, ok_head m t ls ->
  field_values "Transfer-Encoding" (map trim_line ls) = [bs "chunked"] ->
  field_values "Content-Length" (map trim_line ls) = [] ->
  wf_chunked cs z zext tb ->
  observe_h1 (render_head m t ls ++ render_chunked cs z zext tb ++ rest) =
    Some (mkView m t (map trim_line ls) (chunks_data cs), rest).
Proof.
  intros m t ls cs z zext tb rest H Hte Hcl Hwf. rewrite observe_prefix by assumption.
  cbn zeta. rewrite Hte, Hcl. change (bytes_eqb (bs "chunked") (bs "chunked")) with true. cbn iota.
  rewrite read_chunked_complete by assumption. reflexivity.
Qed.

(* ---------- unsafe values make the call fail ---------- *)
Definition bad_entry (x : kv) : bool :=
  negb (valid_field_name (fst x) && forallb valid_field_value (snd x)).

Lemma valid_headers_bad h x : In x h -> bad_entry x = true -> valid_headers h = false.
Proof.
  intros Hin Hbad. unfold valid_headers.
  match goal with |- ?t = false => destruct t eqn:E; [|reflexivity] end.
  rewrite forallb_forall in E. specialize (E _ Hin). unfold bad_entry in Hbad. cbn beta in E.
  rewrite E in Hbad. discriminate.
Qed.

Lemma in_merge_headers rh ch x : In x rh -> snd x <> [] -> In x (merge_headers rh ch).
Proof.
  intros Hin Hne. unfold merge_headers. apply in_app_iff. left. apply filter_In. split; [assumption|].
  destruct (snd x); [congruence|reflexivity].
Qed.

Lemma in_hset h k v x : In x h -> fst x <> canonical_key k -> In x (hset h k v).
Proof.
  intros Hin Hne. unfold hset. apply in_app_iff. left. apply filter_In. split; [assumption|].
  apply negb_true_iff. apply bytes_eqb_neq. assumption.
Qed.

Lemma in_body_headers a h x : In x h -> fst x <> content_type -> In x (body_headers a h).
Proof.
  intros Hin Hne. unfold body_headers.
  destruct (payload_forbidden (a_method a)); [assumption|].
  destruct (a_bkind a); try assumption.
  - destruct (negb (is_nil (header_get (a_chdr a) content_type))); [assumption|].
    destruct (negb (is_nil (header_get h content_type))); [assumption|].
    apply in_hset; assumption.
  - destruct (is_nil (header_get h content_type)); [|assumption]. apply in_hset; assumption.
Qed.

Lemma in_add_cookies cks : forall h x, In x h -> fst x <> bs "Cookie" -> In x (fold_left add_cookie cks h).
Proof.
  induction cks as [|c cks IH]; intros h x Hin Hne; [assumption|].
  cbn [fold_left]. apply IH; [|assumption]. unfold add_cookie. apply in_hset; assumption.
Qed.

Lemma in_merge_headers_client rh ch x : In x ch -> is_nil (hvals rh (fst x)) = true ->
  In x (merge_headers rh ch).
Proof.
  intros Hin Hn. unfold merge_headers. apply in_app_iff. right. apply filter_In. split; assumption.
Qed.

Lemma bad_in_merged_rejected mc a x :
  In x (merge_headers (a_rhdr a) (a_chdr a)) -> bad_entry x = true ->
  fst x <> content_type -> fst x <> bs "Cookie" ->
  forall q, to_creq_gen mc a <> Sent q.
Proof.
  intros Hin Hbad Hct Hck q. unfold to_creq_gen.
  destruct (parse_request_url _ _ _ _ _ _); try discriminate.
  destruct (negb (forallb valid_cookie (a_rck a ++ a_cck a))); [discriminate|].
  rewrite (valid_headers_bad _ x); [discriminate| |assumption].
  apply in_add_cookies; [|assumption]. apply in_body_headers; assumption.
Qed.

(* a request-level header entry with an invalid name, or holding a value with a control byte other
   than TAB (CR, LF, NUL ...), makes the call fail before anything is written - on every protocol *)
Theorem unsafe_header_rejected : forall a x,
  In x (a_rhdr a) -> snd x <> [] -> bad_entry x = true ->
  fst x <> content_type -> fst x <> bs "Cookie" ->
  forall q, to_creq a <> Sent q.
Proof.
  intros a x Hin Hne Hbad Hct Hck q. apply (bad_in_merged_rejected true a x); try assumption.
  apply in_merge_headers; assumption.
Qed.

(* the same for a client-level entry that is in force (the request has no value under that key) *)
Theorem unsafe_client_header_rejected : forall a x,
  In x (a_chdr a) -> is_nil (hvals (a_rhdr a) (fst x)) = true -> bad_entry x = true ->
  fst x <> content_type -> fst x <> bs "Cookie" ->
  forall q, to_creq a <> Sent q.
Proof.
  intros a x Hin Hn Hbad Hct Hck q. apply (bad_in_merged_rejected true a x); try assumption.
  apply in_merge_headers_client; assumption.
Qed.

(* ... so nothing reaches the HPACK / QPACK encoders either *)
Lemma fields_not_sent lines mc a : (forall q, to_creq_gen mc a <> Sent q) ->
  forall ls, fields_h23 lines mc a <> Sent ls.
Proof.
  intros H ls. unfold fields_h23. destruct (to_creq_gen mc a) as [q| |]; try discriminate.
  exfalso. apply (H q). reflexivity.
Qed.

Theorem unsafe_header_rejected_h23 : forall a x,
  (In x (a_rhdr a) /\ snd x <> [] \/ In x (a_chdr a) /\ is_nil (hvals (a_rhdr a) (fst x)) = true) ->
  bad_entry x = true -> fst x <> content_type -> fst x <> bs "Cookie" ->
  forall ls, fields_h2 a <> Sent ls /\ fields_h3 a <> Sent ls.
Proof.
  intros a x Hin Hbad Hct Hck ls.
  assert (H : forall q, to_creq_gen true a <> Sent q).
  { intros q. apply (bad_in_merged_rejected true a x); try assumption.
    destruct Hin as [[Hin Hne]|[Hin Hn]]; [apply in_merge_headers|apply in_merge_headers_client]; assumption. }
  split; apply fields_not_sent; exact H.
Qed.

(* a method that is not a token reaches no writer, on any protocol *)
Theorem unsafe_method_rejected_all : forall a, valid_method (a_method a) = false ->
  (forall q, to_creq a <> Sent q) /\
  (forall ls, fields_h2 a <> Sent ls) /\ (forall ls, fields_h3 a <> Sent ls).
Proof.
  intros a Hm.
  assert (H : forall q, to_creq_gen true a <> Sent q).
  { intros q. unfold to_creq_gen. destruct (parse_request_url _ _ _ _ _ _); try discriminate.
    destruct (negb (forallb valid_cookie _)); [discriminate|].
    destruct (negb (valid_headers _)); [discriminate|].
    destruct (is_nil (a_method a)); [discriminate|]. rewrite Hm. discriminate. }
  split; [exact H|]. split; apply fields_not_sent; exact H.
Qed.

(* HTTP/2 and HTTP/3 refuse an invalid Host *)
Theorem unsafe_host_rejected_h23 : forall lines mc a ls, fields_h23 lines mc a = Sent ls ->
  exists q, to_creq_gen mc a = Sent q /\ valid_host_header (c_host q) = true /\ ls = lines q.
Proof.
  intros lines mc a ls. unfold fields_h23. destruct (to_creq_gen mc a) as [q| |]; try discriminate.
  destruct (negb (is_ascii (c_host q))); [discriminate|].
  destruct (valid_host_header (c_host q)) eqn:E; cbn [negb]; [|discriminate].
  intros [= <-]. exists q. repeat split. exact E.
Qed.

(* before fix 962230a the forced HTTP/2 path handed an invalid method to the encoder *)
Theorem fields_h2_pinned_refuted :
  exists a ls, valid_method (a_method a) = false /\ fields_h2_pinned a = Sent ls /\
               In (bs ":method", bs "GE T") ls /\ fields_h2 a = Rejected.
Proof.
  exists (mkA (bs "GE T") [] (bs "http://h/") [] [] [] [] [] [] [] [] BNone [] [] false). eexists.
  split; [reflexivity|]. split; [vm_compute; reflexivity|]. split; [|vm_compute; reflexivity].
  cbn. auto.
Qed.

Lemma ctl_value_invalid v c : In c v -> is_ctl c = true -> c <> x09 -> valid_field_value v = false.
Proof.
  intros Hin Hc Ht. unfold valid_field_value.
  match goal with |- ?t = false => destruct t eqn:E; [|reflexivity] end.
  rewrite forallb_forall in E. specialize (E _ Hin). rewrite Hc in E. cbn [negb orb] in E.
  apply beqb_eq in E. contradiction.
Qed.

Theorem crlf_nul_value_invalid : forall v,
  In CR v \/ In LF v \/ In x00 v -> valid_field_value v = false.
Proof.
  intros v [H|[H|H]]; eapply ctl_value_invalid; try exact H; try reflexivity; discriminate.
Qed.

Lemma tchar_name_safe k : valid_field_name k = true ->
  mem_byte ":"%byte k = false /\ mem_byte CR k = false /\ mem_byte LF k = false /\
  mem_byte " "%byte k = false /\ mem_byte x00 k = false /\ k <> [].
Proof.
  unfold valid_field_name. intros H. apply andb_true_iff in H as [Hne Hall].
  repeat split; try (eapply forallb_not_mem; [|exact Hall]; reflexivity).
  intros ->. discriminate.
Qed.

(* what HTTP/1.1 writes only leaves with a token method, a valid Host and a request-target free of
   control bytes; anything else fails the call *)
Theorem h1_sent_inv : forall q body w, h1_head q body = Sent w ->
  valid_method (c_method q) = true /\ valid_host_header (c_host q) = true /\
  existsb is_ctl (c_path q) = false /\
  w = render_head (c_method q) (c_path q) (h1_field_lines q body).
Proof.
  intros q body w. unfold h1_head.
  destruct (valid_method (c_method q)); cbn [negb]; [|discriminate].
  destruct (m_is (c_method q) "CONNECT"); [discriminate|].
  destruct (negb (is_ascii (c_host q)) || mem_byte "["%byte (c_host q)); [discriminate|].
  destruct (valid_host_header (c_host q)); cbn [negb]; [|discriminate].
  destruct (existsb is_ctl (c_path q)); [discriminate|].
  intros [= <-]. repeat split.
Qed.

Theorem unsafe_method_rejected : forall q body w,
  valid_method (c_method q) = false -> h1_head q body <> Sent w.
Proof. intros q body w H E. apply h1_sent_inv in E as (E & _). congruence. Qed.

Theorem unsafe_host_rejected : forall q body w,
  valid_host_header (c_host q) = false -> h1_head q body <> Sent w.
Proof. intros q body w H E. apply h1_sent_inv in E as (_ & E & _). congruence. Qed.

Theorem ctl_target_rejected : forall q body w,
  existsb is_ctl (c_path q) = true -> h1_head q body <> Sent w.
Proof. intros q body w H E. apply h1_sent_inv in E as (_ & _ & E & _). congruence. Qed.

(* a token method cannot split the request line *)
Lemma valid_method_safe m : valid_method m = true ->
  mem_byte " "%byte m = false /\ mem_byte CR m = false /\ mem_byte LF m = false.
Proof.
  unfold valid_method. intros H. apply andb_true_iff in H as [_ Hall].
  repeat split; (eapply forallb_not_mem; [|exact Hall]; reflexivity).
Qed.

(* the pinned HTTP/1.1 writer sent a request with an emptied Host for an invalid Host override *)
Theorem h1_host_pinned_refuted :
  exists q w, valid_host_header (c_host q) = false /\ h1_head_pinned q [] = Sent w /\ h1_head q [] = Rejected.
Proof.
  exists (mk_creq (bs "GET") (bs "a/b") (bs "/") (bs "http") [] 0 false). eexists.
  split; [reflexivity|]. split; [vm_compute; reflexivity|reflexivity].
Qed.

(* ---------- HTTP/2 and HTTP/3 carry the same field list ---------- *)
Lemma flatten_app (a b : list kv) : flatten (a ++ b) = flatten a ++ flatten b.
Proof. unfold flatten. apply flat_map_app. Qed.

Lemma flatten_single_values k vv : flatten (map (fun v => (k, [v])) vv) = flatten [(k, vv)].
Proof.
  unfold flatten. cbn [flat_map fst snd]. rewrite app_nil_r.
  induction vv as [|v vv IH]; [reflexivity|]. cbn [map flat_map fst snd app]. rewrite IH. reflexivity.
Qed.

Definition no_cookie_key (h : list kv) : bool :=
  forallb (fun x => negb (equal_fold (fst x) (bs "cookie"))) h.

Lemma h23_entry_flatten x : equal_fold (fst x) (bs "cookie") = false ->
  flatten (h3_entry x) = flatten (h2_entry x).
Proof.
  intros Hc. unfold h3_entry, h2_entry. destruct (is_excluded (fst x)); [reflexivity|].
  destruct (is_ua (fst x)); [reflexivity|]. rewrite Hc. apply flatten_single_values.
Qed.

Lemma h23_entries_flatten h : no_cookie_key h = true ->
  flatten (flat_map h3_entry h) = flatten (flat_map h2_entry h).
Proof.
  unfold no_cookie_key. induction h as [|x h IH]; intros Hc; [reflexivity|].
  cbn [forallb] in Hc. apply andb_true_iff in Hc as [Hx Hc].
  cbn [flat_map]. rewrite !flatten_app. f_equal; [|apply IH; exact Hc].
  apply h23_entry_flatten. apply negb_true_iff in Hx. exact Hx.
Qed.

(* without an order list (C16's subject) and without a caller-written Cookie header, the HTTP/2
   and the HTTP/3 writer emit the same field lines in the same order *)
Theorem cross_protocol_h2_h3 : forall q,
  order_list (c_hdr q) = [] -> no_cookie_key (c_hdr q) = true ->
  h3_lines q = h2_lines q.
Proof.
  intros q Ho Hc. unfold h3_lines, h2_lines. f_equal. f_equal.
  unfold sort_if. rewrite Ho. cbn [is_nil]. unfold h3_regular, h2_regular.
  rewrite !flatten_app. f_equal. apply h23_entries_flatten. exact Hc.
Qed.
