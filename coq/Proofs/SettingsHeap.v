(* Proofs/SettingsHeap.v - C19: ownership discipline of the reference heap of Model/Settings.v.
   Every heap cell carries a (proof-only) owner tag; the invariant says each reference held by an
   object points to a cell tagged with that object (and field).  Writes go through one reference,
   hence touch cells of one tag only; everything with another tag is framed. *)
From Coq Require Import List Arith Bool Lia.
From ReqV Require Import Model.Settings.
Import ListNotations.

(* ---------- lists ---------- *)
Lemma upd_nth_length {A} n (x : A) l : length (upd_nth n x l) = length l.
Proof. revert n; induction l; destruct n; simpl; auto. Qed.

Lemma nth_upd_nth_eq {A} n (x : A) l d : n < length l -> nth n (upd_nth n x l) d = x.
Proof. revert n; induction l; destruct n; simpl; intros; try lia; auto. apply IHl; lia. Qed.

Lemma nth_upd_nth_neq {A} n m (x : A) l d : n <> m -> nth m (upd_nth n x l) d = nth m l d.
Proof. revert n m; induction l; destruct n, m; simpl; intros; try congruence; auto. Qed.

Lemma nth_error_upd_nth_eq {A} n (x : A) l : n < length l -> nth_error (upd_nth n x l) n = Some x.
Proof. revert n; induction l; destruct n; simpl; intros; try lia; auto. apply IHl; lia. Qed.

Lemma nth_error_upd_nth_neq {A} n m (x : A) l : n <> m -> nth_error (upd_nth n x l) m = nth_error l m.
Proof. revert n m; induction l; destruct n, m; simpl; intros; try congruence; auto. Qed.

Lemma nth_app_new {A} (l : list A) x d : nth (length l) (l ++ [x]) d = x.
Proof. rewrite app_nth2, Nat.sub_diag by lia; reflexivity. Qed.

Lemma nth_error_app_new {A} (l : list A) x : nth_error (l ++ [x]) (length l) = Some x.
Proof. rewrite nth_error_app2, Nat.sub_diag by lia; reflexivity. Qed.

Lemma nth_error_app_old {A} (l e : list A) a t : nth_error l a = Some t -> nth_error (l ++ e) a = Some t.
Proof. intros H. rewrite nth_error_app1; auto. apply nth_error_Some; congruence. Qed.

Lemma nth_error_lt {A} (l : list A) a t : nth_error l a = Some t -> a < length l.
Proof. intros H; apply nth_error_Some; congruence. Qed.

Lemma map_upd_nth {A B} (f : A -> B) n x l : map f (upd_nth n x l) = upd_nth n (f x) (map f l).
Proof. revert n; induction l; destruct n; simpl; auto. now rewrite IHl. Qed.

Lemma nth_error_nth' {A} (l : list A) n d x : nth_error l n = Some x -> nth n l d = x.
Proof. apply nth_error_nth. Qed.

Lemma upd_nth_ext {A} n (x : A) l d : n < length l ->
  forall m, nth m (upd_nth n x l) d = if Nat.eqb n m then x else nth m l d.
Proof.
  intros Hn m. destruct (Nat.eqb_spec n m).
  - subst. now apply nth_upd_nth_eq.
  - now apply nth_upd_nth_neq.
Qed.

(* ---------- tags ---------- *)
(* KTmp: scratch arrays an operation allocates and drops (WrapRoundTripFunc's local slice) *)
Inductive akind := KSl (i : nat) | KConds | KHooks | KTmp | KMap (f k : nat).
Definition atag := (oid * akind)%type.
Definition mtag := (oid * nat)%type.

(* boxes: (owner, kind) with kind 0 = cookie jar, 1 = *DumpOptions, 2 = *tls.Config *)
Record owners := { owA : list atag; owM : list mtag; owR : list oid; owJ : list mtag }.

Definition sl_ok (A : list (list val)) (oA : list atag) (t : atag) (s : slice) : Prop :=
  match s with
  | None => True
  | Some (a, l) => nth_error oA a = Some t /\ l <= length (nth a A [])
  end.

(* S' keeps every old cell whose tag is not in W, and only grows *)
Definition frame {X T} (d : X) (W : T -> Prop) (S : list X) (ow : list T) (S' : list X) : Prop :=
  length S <= length S' /\
  forall a t0, nth_error ow a = Some t0 -> ~ W t0 -> nth a S' d = nth a S d.

Lemma frame_refl {X T} (d : X) (W : T -> Prop) S ow : frame d W S ow S.
Proof. split; auto. Qed.

Lemma frame_trans {X T} (d : X) (W : T -> Prop) S ow S1 e S2 :
  frame d W S ow S1 -> frame d W S1 (ow ++ e) S2 -> frame d W S ow S2.
Proof.
  intros [L1 F1] [L2 F2]; split; [lia|].
  intros a t0 Ha Hw. rewrite (F2 a t0); [apply (F1 a t0); auto | apply nth_error_app_old; auto | auto].
Qed.

Lemma frame_weaken {X T} (d : X) (W W' : T -> Prop) S ow S' :
  (forall t, W t -> W' t) -> frame d W S ow S' -> frame d W' S ow S'.
Proof. intros HW [L F]; split; auto. intros; apply (F a t0); auto. Qed.

Lemma sl_ok_frame A oA A' e W t s :
  sl_ok A oA t s -> ~ W t -> frame [] W A oA A' ->
  sl_ok A' (oA ++ e) t s /\ sl_read A' s = sl_read A s.
Proof.
  destruct s as [[a l]|]; simpl; auto.
  intros [Ht Hl] Hw [_ F]. rewrite (F a t Ht Hw). auto using nth_error_app_old.
Qed.

(* ---------- slice primitives ---------- *)
Lemma pad_length n l : length l <= length (pad n l).
Proof. unfold pad; rewrite app_length; lia. Qed.

Lemma firstn_pad n l : firstn (length l) (pad n l) = l.
Proof. unfold pad. rewrite firstn_app, Nat.sub_diag, firstn_all; simpl. now rewrite app_nil_r. Qed.

Lemma firstn_app_len {A} (l r : list A) n : n = length l -> firstn n (l ++ r) = l.
Proof. intros ->. rewrite firstn_app, Nat.sub_diag, firstn_all; simpl. now rewrite app_nil_r. Qed.

Lemma sl_append_spec grow A oA t s vs A' s' :
  length oA = length A -> sl_ok A oA t s -> sl_append grow A s vs = (A', s') ->
  exists e, length (oA ++ e) = length A' /\ sl_ok A' (oA ++ e) t s' /\
            sl_read A' s' = sl_read A s ++ vs /\ frame [] (eq t) A oA A'.
Proof.
  intros HL Hok Hap. unfold sl_append in Hap.
  destruct vs as [|v vs0].
  { inversion Hap; subst. exists []. rewrite !app_nil_r. repeat split; auto. }
  remember (v :: vs0) as vs.
  destruct s as [[a l]|].
  - destruct Hok as [Ht Hl]. pose proof (nth_error_lt _ _ _ Ht) as Ha. rewrite HL in Ha.
    destruct (l + length vs <=? length (nth a A [])) eqn:Efit.
    + apply Nat.leb_le in Efit. inversion Hap; subst A' s'; clear Hap.
      exists []. rewrite app_nil_r, upd_nth_length. split; auto.
      assert (Hlen : length (firstn l (nth a A [])) = l) by (rewrite firstn_length; lia).
      split; [|split].
      * simpl. split; auto. rewrite nth_upd_nth_eq by auto.
        rewrite !app_length, Hlen, skipn_length. lia.
      * simpl. rewrite nth_upd_nth_eq by auto.
        rewrite app_assoc. apply firstn_app_len. rewrite app_length, Hlen; auto.
      * split; [rewrite upd_nth_length; auto|].
        intros a0 t0 Ha0 Hne. apply nth_upd_nth_neq. intros ->. rewrite Ht in Ha0. inversion Ha0; auto.
    + inversion Hap; subst A' s'; clear Hap.
      exists [t]. rewrite !app_length, HL; simpl. split; auto.
      assert (Hlen : length (firstn l (nth a A [])) = l) by (rewrite firstn_length; lia).
      split; [|split].
      * simpl. rewrite <- HL, nth_error_app_new. split; auto. rewrite HL, nth_app_new.
        etransitivity; [|apply pad_length]. rewrite app_length, Hlen; auto.
      * simpl. rewrite nth_app_new.
        replace (l + length vs) with (length (firstn l (nth a A []) ++ vs)) by (rewrite app_length, Hlen; auto).
        apply firstn_pad.
      * split; [rewrite app_length; lia|]. intros a0 t0 Ha0 _. apply app_nth1.
        rewrite <- HL. eapply nth_error_lt; eauto.
  - inversion Hap; subst A' s'; clear Hap.
    exists [t]. rewrite !app_length, HL; simpl. split; auto.
    split; [|split].
    + simpl. rewrite <- HL, nth_error_app_new. split; auto. rewrite HL, nth_app_new. apply pad_length.
    + simpl. rewrite nth_app_new. apply firstn_pad.
    + split; [rewrite app_length; lia|]. intros a0 t0 Ha0 _. apply app_nth1.
      rewrite <- HL. eapply nth_error_lt; eauto.
Qed.

Lemma sl_new_cell A oA t (vs : list val) :
  length oA = length A ->
  length (oA ++ [t]) = length (A ++ [vs]) /\ sl_ok (A ++ [vs]) (oA ++ [t]) t (Some (length A, length vs)) /\
  sl_read (A ++ [vs]) (Some (length A, length vs)) = vs /\ frame [] (fun _ : atag => False) A oA (A ++ [vs]).
Proof.
  intros HL. rewrite !app_length, HL; simpl. split; auto. split; [|split].
  - rewrite <- HL, nth_error_app_new. split; auto. rewrite HL, nth_app_new; auto.
  - rewrite nth_app_new. apply firstn_all.
  - split; [rewrite app_length; lia|]. intros a0 t0 Ha0 _. apply app_nth1.
    rewrite <- HL. eapply nth_error_lt; eauto.
Qed.

Lemma sl_clone_spec A oA t' s A' s' :
  length oA = length A -> sl_clone A s = (A', s') ->
  exists e, length (oA ++ e) = length A' /\ sl_ok A' (oA ++ e) t' s' /\
            sl_read A' s' = sl_read A s /\ frame [] (fun _ : atag => False) A oA A'.
Proof.
  intros HL Hc. unfold sl_clone in Hc. destruct (sl_read A s) as [|v vs] eqn:E.
  - inversion Hc; subst. exists []. rewrite app_nil_r. simpl. repeat split; auto.
  - rewrite <- E in Hc. inversion Hc; subst A' s'. exists [t'].
    destruct (sl_new_cell A oA t' (sl_read A s) HL) as (H1 & H2 & H3 & H4). rewrite <- E. auto.
Qed.

Lemma sl_lit_spec A oA t vs A' s' :
  length oA = length A -> sl_lit A vs = (A', s') ->
  length (oA ++ [t]) = length A' /\ sl_ok A' (oA ++ [t]) t s' /\
  sl_read A' s' = vs /\ frame [] (fun _ : atag => False) A oA A'.
Proof. intros HL Hc. inversion Hc; subst. now apply sl_new_cell. Qed.

Lemma sl_build_spec grow t vs : forall A oA s A' s',
  length oA = length A -> sl_ok A oA t s -> sl_build grow A s vs = (A', s') ->
  exists e, length (oA ++ e) = length A' /\ sl_ok A' (oA ++ e) t s' /\
            sl_read A' s' = sl_read A s ++ vs /\ frame [] (eq t) A oA A'.
Proof.
  induction vs as [|v vs IH]; intros A oA s A' s' HL Hok Hb; cbn [sl_build] in Hb.
  - inversion Hb; subst. exists []. rewrite !app_nil_r. repeat split; auto.
  - destruct (sl_append grow A s [v]) as [A1 s1] eqn:E1.
    destruct (sl_append_spec _ _ _ _ _ _ _ _ HL Hok E1) as (e1 & L1 & O1 & R1 & F1).
    destruct (IH _ _ _ _ _ L1 O1 Hb) as (e2 & L2 & O2 & R2 & F2).
    exists (e1 ++ e2). rewrite app_assoc. split; [auto|split; [auto|split]].
    + rewrite R2, R1, <- app_assoc; reflexivity.
    + eapply frame_trans; eauto.
Qed.

(* ---------- map primitives ---------- *)
Definition mp_ok (oM : list mtag) (t : mtag) (m : option nat) : Prop :=
  match m with None => True | Some a => nth_error oM a = Some t end.

Lemma mp_ok_frame {X} (M : list X) (d : X) oM (M' : list X) e W t m :
  mp_ok oM t m -> ~ W t -> frame d W M oM M' ->
  mp_ok (oM ++ e) t m /\ match m with None => d | Some a => nth a M' d end = match m with None => d | Some a => nth a M d end.
Proof.
  destruct m as [a|]; simpl; auto.
  intros Ht Hw [_ F]. split; [auto using nth_error_app_old | apply (F a t Ht Hw)].
Qed.

(* a map pointer of object/field t: the cell is tagged t, its keys are distinct, every entry's slice lives
   in arrays tagged (owner, KMap field key) *)
Definition ent_ok (A : list (list val)) (oA : list atag) (t : mtag) (c : hmapcell) : Prop :=
  NoDup (map fst c) /\ forall k s, In (k, s) c -> sl_ok A oA (fst t, KMap (snd t) k) s.
Definition hm_ok (A : list (list val)) (M : list hmapcell) (oA : list atag) (oM : list mtag) (t : mtag) (m : option nat) : Prop :=
  match m with None => True | Some a => nth_error oM a = Some t /\ ent_ok A oA t (nth a M []) end.

Lemma ent_ok_frame A oA A' e W t c :
  ent_ok A oA t c -> (forall k, ~ W (fst t, KMap (snd t) k)) -> frame [] W A oA A' ->
  ent_ok A' (oA ++ e) t c /\ mp_view A' c = mp_view A c.
Proof.
  intros [Hn Hc] Hw F. split; [split; auto|].
  - intros k s HI. apply (sl_ok_frame A oA A' e W _ s (Hc k s HI) (Hw k) F).
  - unfold mp_view. apply map_ext_in. intros [k s] HI. simpl. f_equal.
    apply (sl_ok_frame A oA A' e W _ s (Hc k s HI) (Hw k) F).
Qed.

Lemma hm_ok_frame A M oA oM A' M' eA eM WA WM t m :
  hm_ok A M oA oM t m -> ~ WM t -> (forall k, ~ WA (fst t, KMap (snd t) k)) ->
  frame [] WA A oA A' -> frame [] WM M oM M' ->
  hm_ok A' M' (oA ++ eA) (oM ++ eM) t m /\ mp_read A' M' m = mp_read A M m.
Proof.
  destruct m as [a|]; [|simpl; auto].
  intros [Ht Hc] Hw Hwa FA [_ FM]. pose proof (FM a t Ht Hw) as E0.
  destruct (ent_ok_frame _ _ _ eA _ _ _ Hc Hwa FA) as [C E]. split.
  - change (nth_error (oM ++ eM) a = Some t /\ ent_ok A' (oA ++ eA) t (nth a M' [])). rewrite E0. auto using nth_error_app_old.
  - change (mp_view A' (nth a M' []) = mp_view A (nth a M [])). rewrite E0. exact E.
Qed.

Lemma mp_view_nset A k s c : mp_view A (nset k s c) = nset k (sl_read A s) (mp_view A c).
Proof.
  unfold mp_view, nset. induction c as [|[j y] t IH]; simpl; auto.
  destruct (j =? k); simpl; auto. now rewrite IH.
Qed.

Lemma nset_keys {B} k (x : B) c :
  map fst (nset k x c) = if existsb (fun j => j =? k) (map fst c) then map fst c else map fst c ++ [k].
Proof.
  unfold nset. induction c as [|[j y] t IH]; simpl; auto. destruct (j =? k) eqn:E; simpl; auto.
  rewrite IH. destruct (existsb _ _); reflexivity.
Qed.

Lemma NoDup_snoc' {X} (l : list X) k : NoDup l -> ~ In k l -> NoDup (l ++ [k]).
Proof.
  induction 1 as [|x l Hx Hl IH]; simpl; intros Hn.
  - constructor; [intros []|constructor].
  - constructor.
    + rewrite in_app_iff. intros [Hi|[Hi|[]]]; [auto|]. subst. apply Hn. auto.
    + apply IH. auto.
Qed.

Lemma nset_NoDup {B} k (x : B) c : NoDup (map fst c) -> NoDup (map fst (nset k x c)).
Proof.
  intros N. rewrite nset_keys. destruct (existsb _ _) eqn:E; auto.
  apply NoDup_snoc'; auto. intros Hk.
  assert (existsb (fun j => j =? k) (map fst c) = true); [|congruence].
  apply existsb_exists. exists k. split; auto. apply Nat.eqb_refl.
Qed.

Lemma In_nset {B} k (x : B) c j y : NoDup (map fst c) ->
  In (j, y) (nset k x c) -> (j, y) = (k, x) \/ (In (j, y) c /\ j <> k).
Proof.
  unfold nset. induction c as [|[i z] t IH]; simpl; intros N HI.
  - destruct HI as [E|[]]; auto.
  - inversion N; subst. destruct (Nat.eqb_spec i k).
    + subst. destruct HI as [E|HI]; [auto|]. right. split; auto.
      intros ->. apply H1. change k with (fst (k, y)). now apply in_map.
    + destruct HI as [E|HI]; [inversion E; subst; auto|].
      destruct (IH H2 HI) as [E|[HI' Nk]]; auto.
Qed.

Lemma nset_view_ext A A' k (x : list val) c : NoDup (map fst c) ->
  (forall j y, In (j, y) c -> j <> k -> sl_read A' y = sl_read A y) ->
  nset k x (mp_view A' c) = nset k x (mp_view A c).
Proof.
  unfold nset, mp_view. induction c as [|[i z] t IH]; simpl; intros N Hx; auto.
  inversion N; subst. destruct (Nat.eqb_spec i k).
  - subst i. f_equal. apply map_ext_in. intros [j y] HI. simpl. f_equal. apply (Hx j y); auto.
    intros ->. apply H1. change k with (fst (k, y)). now apply in_map.
  - rewrite (Hx i z); auto. f_equal. apply IH; auto. intros j y HI. apply Hx; auto.
Qed.

Lemma nget_In {B} k (c : list (nat * B)) s : nget k c = Some s -> In (k, s) c.
Proof.
  unfold nget. induction c as [|[j y] t IH]; simpl; [discriminate|].
  destruct (Nat.eqb_spec j k); [intros E; inversion E; subst; auto|auto].
Qed.

Lemma nget_view A k c : nget k (mp_view A c) = option_map (sl_read A) (nget k c).
Proof. unfold nget, mp_view. induction c as [|[j y] t IH]; simpl; auto. destruct (j =? k); auto. Qed.

(* the slice under key k *)
Lemma mp_slot_spec A M oA oM t m k :
  hm_ok A M oA oM t m ->
  sl_ok A oA (fst t, KMap (snd t) k) (mp_slot M m k) /\ sl_read A (mp_slot M m k) = nget_list k (mp_read A M m).
Proof.
  intros Hok. unfold mp_slot, nget_list, mp_read. rewrite nget_view.
  destruct (nget k (mp_cell M m)) as [s|] eqn:E; simpl; auto.
  split; auto. destruct m as [a|]; simpl in *; [|discriminate].
  destruct Hok as [_ [_ Hc]]. apply Hc. now apply nget_In.
Qed.

(* m[k] = s where s was made over the arrays A' (only arrays of (owner, KMap field k) written) *)
Lemma mp_put_spec A A' M oA eA oM t m k s M' m' :
  length oM = length M -> hm_ok A M oA oM t m ->
  frame [] (eq (fst t, KMap (snd t) k)) A oA A' -> sl_ok A' (oA ++ eA) (fst t, KMap (snd t) k) s ->
  mp_put M m k s = (M', m') ->
  exists e, length (oM ++ e) = length M' /\ hm_ok A' M' (oA ++ eA) (oM ++ e) t m' /\
    mp_read A' M' m' = nset k (sl_read A' s) (mp_read A M m) /\ frame [] (eq t) M oM M'.
Proof.
  intros HL Hok FA Hs Hu. unfold mp_put in Hu. destruct m as [a|]; inversion Hu; subst M' m'; clear Hu.
  - simpl in Hok. destruct Hok as [Ht [Hn Hc]]. pose proof (nth_error_lt _ _ _ Ht) as Ha. rewrite HL in Ha.
    assert (Hold : forall j y, In (j, y) (nth a M []) -> j <> k ->
              sl_ok A' (oA ++ eA) (fst t, KMap (snd t) j) y /\ sl_read A' y = sl_read A y).
    { intros j y HI N. apply (sl_ok_frame A oA A' eA (eq (fst t, KMap (snd t) k)) _ y (Hc j y HI)); auto.
      intros E; inversion E; congruence. }
    exists []. rewrite app_nil_r, upd_nth_length. split; auto. split; [|split].
    + simpl. rewrite nth_upd_nth_eq by auto. split; auto. split; [now apply nset_NoDup|].
      intros j y HI. destruct (In_nset _ _ _ _ _ Hn HI) as [E|[HI' N]]; [inversion E; subst; exact Hs|].
      now apply (Hold j y HI' N).
    + unfold mp_read, mp_cell. rewrite nth_upd_nth_eq by auto. rewrite mp_view_nset.
      apply nset_view_ext; auto. intros j y HI N. now apply (Hold j y HI N).
    + split; [rewrite upd_nth_length; auto|].
      intros a0 t0 Ha0 Hne. apply nth_upd_nth_neq. intros ->. rewrite Ht in Ha0. inversion Ha0; auto.
  - exists [t]. rewrite !app_length, HL; simpl. split; [auto|split; [|split; [|split]]].
    + rewrite <- HL, nth_error_app_new, HL, nth_app_new. split; auto. split.
      * simpl. constructor; [intros []|constructor].
      * intros j y [E|[]]. inversion E; subst. exact Hs.
    + unfold mp_read, mp_cell. now rewrite nth_app_new.
    + rewrite app_length. apply Nat.le_add_r.
    + intros a0 t0 Ha0 _. apply app_nth1. apply nth_error_lt in Ha0. rewrite HL in Ha0. exact Ha0.
Qed.

Lemma clone_entries_spec t' tsrc : forall c A oA A' c',
  length oA = length A -> ent_ok A oA tsrc c -> clone_entries A c = (A', c') ->
  exists e, length (oA ++ e) = length A' /\ ent_ok A' (oA ++ e) t' c' /\ map fst c' = map fst c /\
    mp_view A' c' = mp_view A c /\ frame [] (fun _ : atag => False) A oA A'.
Proof.
  induction c as [|[k s] t IH]; intros A oA A' c' HL [Hn Hc] He; cbn [clone_entries] in He.
  - inversion He; subst. exists []. rewrite app_nil_r.
    split; [exact HL|]. split; [split; [constructor|intros k s []]|]. split; [reflexivity|]. split; [reflexivity|apply frame_refl].
  - destruct (sl_clone A s) as [A1 s1] eqn:E1. destruct (clone_entries A1 t) as [A2 t2] eqn:E2.
    inversion He; subst A' c'; clear He. inversion Hn; subst.
    destruct (sl_clone_spec _ oA (fst t', KMap (snd t') k) _ _ _ HL E1) as (e1 & L1 & K1 & R1 & F1).
    assert (Hsrc : ent_ok A1 (oA ++ e1) tsrc t /\ mp_view A1 t = mp_view A t).
    { apply (ent_ok_frame A oA A1 e1 (fun _ => False) tsrc t); auto. split; auto. intros j y HI. apply Hc. simpl; auto. }
    destruct Hsrc as [Hsrc Vsrc].
    destruct (IH A1 (oA ++ e1) A2 t2 L1 Hsrc E2) as (e2 & L2 & [N2 K2] & KS & R2 & F2).
    destruct (sl_ok_frame _ _ _ e2 _ _ _ K1 (fun x : False => x) F2) as [K1' R1'].
    exists (e1 ++ e2). rewrite app_assoc. split; [exact L2|]. split; [|split; [|split]].
    + split.
      * simpl. rewrite KS. exact Hn.
      * intros j y [E|HI]; [inversion E; subst; exact K1'|]. now apply K2.
    + simpl. now rewrite KS.
    + cbn [mp_view map fst snd]. fold (mp_view A2 t2). fold (mp_view A t). rewrite R2, Vsrc, R1', R1. reflexivity.
    + eapply frame_trans; eauto.
Qed.

Lemma mp_clone_spec A M oA oM t' tsrc m A' M' m' :
  length oA = length A -> length oM = length M -> hm_ok A M oA oM tsrc m -> mp_clone A M m = (A', M', m') ->
  exists eA eM, length (oA ++ eA) = length A' /\ length (oM ++ eM) = length M' /\
    hm_ok A' M' (oA ++ eA) (oM ++ eM) t' m' /\ mp_read A' M' m' = mp_read A M m /\
    frame [] (fun _ : atag => False) A oA A' /\ frame [] (fun _ : mtag => False) M oM M'.
Proof.
  intros LA LM Hok Hc. unfold mp_clone in Hc. destruct m as [a|].
  - destruct (clone_entries A (nth a M [])) as [A1 c1] eqn:E. inversion Hc; subst A' M' m'; clear Hc.
    destruct Hok as [Ht Hc].
    destruct (clone_entries_spec t' tsrc _ _ oA _ _ LA Hc E) as (eA & L1 & K1 & _ & R1 & F1).
    exists eA, [t']. split; [exact L1|]. split; [rewrite !app_length, LM; reflexivity|]. split; [|split; [|split]].
    + change (nth_error (oM ++ [t']) (length M) = Some t' /\ ent_ok A1 (oA ++ eA) t' (nth (length M) (M ++ [c1]) [])).
      rewrite <- LM at 1. rewrite nth_error_app_new, nth_app_new. auto.
    + change (mp_view A1 (nth (length M) (M ++ [c1]) []) = mp_view A (nth a M [])). now rewrite nth_app_new.
    + exact F1.
    + split; [rewrite app_length; apply Nat.le_add_r|]. intros a0 t0 Ha0 _. apply app_nth1. apply nth_error_lt in Ha0. rewrite LM in Ha0. exact Ha0.
  - inversion Hc; subst. exists [], []. rewrite !app_nil_r. simpl. repeat split; auto.
Qed.

(* ---------- objects ---------- *)
Definition lens (H : heap) (ow : owners) : Prop :=
  length (owA ow) = length (arrs H) /\ length (owM ow) = length (maps H) /\
  length (owR ow) = length (recs H) /\ length (owJ ow) = length (jars H).

Definition comp_sl (A : list (list val)) (oA : list atag) (id : oid) (l : list slice) : Prop :=
  forall i, sl_ok A oA (id, KSl i) (nth i l None).
Definition comp_mp (A : list (list val)) (M : list hmapcell) (oA : list atag) (oM : list mtag) (id : oid) (l : list (option nat)) : Prop :=
  forall i, hm_ok A M oA oM (id, i) (nth i l None).
Definition rt_ok (A : list (list val)) (R : list retry) (oA : list atag) (oR : list oid) (id : oid) (r : option nat) : Prop :=
  match r with
  | None => True
  | Some a => nth_error oR a = Some id /\
      sl_ok A oA (id, KConds) (r_conds (nth a R retry0)) /\
      sl_ok A oA (id, KHooks) (r_hooks (nth a R retry0))
  end.
Definition jar_ok (oJ : list mtag) (id : oid) (j : option nat) (fact : bool) : Prop :=
  match j with None => True | Some a => nth_error oJ a = Some (id, 0) /\ fact = true end.
Definition ext_ok (oJ : list mtag) (id : oid) (e : oext) : Prop :=
  mp_ok oJ (id, 1) (e_dopt e) /\ mp_ok oJ (id, 1) (e_dumper e) /\ mp_ok oJ (id, 2) (e_tls e).

Record obj_ok (H : heap) (ow : owners) (id : oid) (o : obj) : Prop := {
  ok_sl : comp_sl (arrs H) (owA ow) id (o_sl o);
  ok_mp : comp_mp (arrs H) (maps H) (owA ow) (owM ow) id (o_mp o);
  ok_rt : rt_ok (arrs H) (recs H) (owA ow) (owR ow) id (o_rt o);
  ok_jar : jar_ok (owJ ow) id (o_jar o) (o_fact o);
  ok_ext : ext_ok (owJ ow) id (o_ext o) }.

Lemma map_nth_ext {A B} (f g : A -> B) (l : list A) d :
  (forall i, f (nth i l d) = g (nth i l d)) -> map f l = map g l.
Proof.
  intros H. apply map_ext_in. intros a Ha. destruct (In_nth _ _ d Ha) as (i & _ & <-). apply H.
Qed.

Lemma comp_sl_frame A oA A' e W id l :
  comp_sl A oA id l -> frame [] W A oA A' -> (forall i, ~ W (id, KSl i)) ->
  comp_sl A' (oA ++ e) id l /\ map (sl_read A') l = map (sl_read A) l.
Proof.
  intros Hc F Hw. split.
  - intros i. eapply sl_ok_frame; eauto.
  - apply map_nth_ext with (d := None). intros i.
    destruct (sl_ok_frame A oA A' e W (id, KSl i) (nth i l None)); auto.
Qed.

Lemma comp_mp_frame A M oA oM A' M' eA eM WA WM id l :
  comp_mp A M oA oM id l -> frame [] WA A oA A' -> frame [] WM M oM M' ->
  (forall i, ~ WM (id, i)) -> (forall f k, ~ WA (id, KMap f k)) ->
  comp_mp A' M' (oA ++ eA) (oM ++ eM) id l /\ map (mp_read A' M') l = map (mp_read A M) l.
Proof.
  intros Hc FA FM Hw Hwa. split.
  - intros i. apply (hm_ok_frame A M oA oM A' M' eA eM WA WM (id, i) _ (Hc i)); auto.
  - apply map_nth_ext with (d := None). intros i.
    apply (hm_ok_frame A M oA oM A' M' eA eM WA WM (id, i) _ (Hc i)); auto.
Qed.

Definition rt_view (A : list (list val)) (R : list retry) (r : option nat) : vretry :=
  rt_read {| arrs := A; maps := []; recs := R; jars := [] |} r.

Lemma rt_read_view H r : rt_read H r = rt_view (arrs H) (recs H) r.
Proof. destruct r; reflexivity. Qed.

Lemma rt_ok_frame A R oA oR A' R' eA eR WA WR id r :
  rt_ok A R oA oR id r -> frame [] WA A oA A' -> frame retry0 WR R oR R' ->
  ~ WA (id, KConds) -> ~ WA (id, KHooks) -> ~ WR id ->
  rt_ok A' R' (oA ++ eA) (oR ++ eR) id r /\ rt_view A' R' r = rt_view A R r.
Proof.
  destruct r as [a|]; simpl; auto.
  intros (Ht & Hc & Hh) FA [LR FR] W1 W2 W3.
  rewrite (FR a id Ht W3).
  destruct (sl_ok_frame _ _ _ eA _ _ _ Hc W1 FA) as [Hc' Ec].
  destruct (sl_ok_frame _ _ _ eA _ _ _ Hh W2 FA) as [Hh' Eh].
  split; [auto using nth_error_app_old|].
  unfold rt_view; simpl. rewrite ?(FR a id Ht W3), Ec, Eh. reflexivity.
Qed.

Lemma jar_ok_frame (J : list (list val)) oJ (J' : list (list val)) e W id j fact :
  jar_ok oJ id j fact -> frame [] W J oJ J' -> ~ W (id, 0) ->
  jar_ok (oJ ++ e) id j fact /\
  match j with None => None | Some a => Some (nth a J' []) end = match j with None => None | Some a => Some (nth a J []) end.
Proof.
  destruct j as [a|]; simpl; auto.
  intros [Ht Hf] [_ F] Hw. rewrite (F a (id, 0) Ht Hw). auto using nth_error_app_old.
Qed.

Lemma bx_ok_frame (J : list (list val)) oJ (J' : list (list val)) e W t p :
  mp_ok oJ t p -> frame [] W J oJ J' -> ~ W t ->
  mp_ok (oJ ++ e) t p /\ bx_read J' p = bx_read J p /\ (forall b, p = Some b -> nth b J' [] = nth b J []).
Proof.
  destruct p as [a|]; simpl; [|intros; repeat split; auto; discriminate].
  intros Ht [_ F] Hw. rewrite (F a t Ht Hw). repeat split; auto using nth_error_app_old.
  intros b E; inversion E; subst. apply (F b t Ht Hw).
Qed.

Lemma ext_ok_frame (J : list (list val)) oJ (J' : list (list val)) e W id x :
  ext_ok oJ id x -> frame [] W J oJ J' -> ~ W (id, 1) -> ~ W (id, 2) ->
  ext_ok (oJ ++ e) id x /\ abs_ext J' x = abs_ext J x.
Proof.
  intros (H1 & H2 & H3) F W1 W2.
  destruct (bx_ok_frame _ _ _ e _ _ _ H1 F W1) as (A1 & B1 & _).
  destruct (bx_ok_frame _ _ _ e _ _ _ H2 F W1) as (A2 & _ & C2).
  destruct (bx_ok_frame _ _ _ e _ _ _ H3 F W2) as (A3 & B3 & _).
  split; [repeat split; auto|]. unfold abs_ext. rewrite B1, B3.
  destruct (e_dumper x) as [b|]; auto. now rewrite (C2 b eq_refl).
Qed.

Definition hframe (WA : atag -> Prop) (WM : mtag -> Prop) (WR : oid -> Prop) (WJ : mtag -> Prop) (H : heap) (ow : owners) (H' : heap) : Prop :=
  frame [] WA (arrs H) (owA ow) (arrs H') /\ frame [] WM (maps H) (owM ow) (maps H') /\
  frame retry0 WR (recs H) (owR ow) (recs H') /\ frame [] WJ (jars H) (owJ ow) (jars H').

Definition ext (ow : owners) eA eM eR eJ : owners :=
  {| owA := owA ow ++ eA; owM := owM ow ++ eM; owR := owR ow ++ eR; owJ := owJ ow ++ eJ |}.

Lemma abs_obj_eq H o :
  abs_obj H o =
  {| v_sl := map (sl_read (arrs H)) (o_sl o); v_mp := map (mp_read (arrs H) (maps H)) (o_mp o);
     v_rt := rt_view (arrs H) (recs H) (o_rt o);
     v_chain := o_chain o; v_tchain := o_tchain o; v_scal := o_scal o;
     v_jar := match o_jar o with None => None | Some a => Some (nth a (jars H) []) end;
     v_fact := o_fact o; v_par := o_par o; v_ext := abs_ext (jars H) (o_ext o) |}.
Proof. unfold abs_obj. rewrite rt_read_view. reflexivity. Qed.

Lemma obj_frame H ow H' eA eM eR eJ WA WM WR WJ id o :
  obj_ok H ow id o -> hframe WA WM WR WJ H ow H' ->
  (forall k, ~ WA (id, k)) -> (forall i, ~ WM (id, i)) -> ~ WR id -> (forall k, ~ WJ (id, k)) ->
  obj_ok H' (ext ow eA eM eR eJ) id o /\ abs_obj H' o = abs_obj H o.
Proof.
  intros [O1 O2 O3 O4 O5] (FA & FM & FR & FJ) W1 W2 W3 W4.
  destruct (comp_sl_frame _ _ _ eA _ _ _ O1 FA (fun i => W1 (KSl i))) as [S1 E1].
  destruct (comp_mp_frame _ _ _ _ _ _ eA eM _ _ _ _ O2 FA FM W2 (fun f k => W1 (KMap f k))) as [S2 E2].
  destruct (rt_ok_frame _ _ _ _ _ _ eA eR _ _ _ _ O3 FA FR (W1 KConds) (W1 KHooks) W3) as [S3 E3].
  destruct (jar_ok_frame _ _ _ eJ _ _ _ _ O4 FJ (W4 0)) as [S4 E4].
  destruct (ext_ok_frame _ _ _ eJ _ _ _ O5 FJ (W4 1) (W4 2)) as [S5 E5].
  split; [constructor; auto|].
  rewrite !abs_obj_eq, E1, E2, E3, E4, E5. reflexivity.
Qed.
