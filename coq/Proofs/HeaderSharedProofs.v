(* Proofs/HeaderSharedProofs.v - C16: whatever the interleaving of requests on one connection's header
   writer, every stream receives its own request's field section. *)
From ReqV Require Import Lib.Bytes Model.HeaderShared.
From Coq Require Import Lia.

Lemma nth_error_upd_same i f : forall l t,
  nth_error l i = Some t -> nth_error (upd_th i f l) i = Some (f t).
Proof.
  induction i as [|i IH]; intros [|x l] t H; cbn in *; try discriminate.
  - now injection H as ->.
  - now apply IH.
Qed.

Lemma nth_error_upd_other i f : forall l j, i <> j -> nth_error (upd_th i f l) j = nth_error l j.
Proof.
  induction i as [|i IH]; intros [|x l] [|j] N; cbn; try reflexivity; try lia.
  apply IH. lia.
Qed.

Lemma map_pay_upd i f l : (forall t, pay (f t) = pay t) -> map pay (upd_th i f l) = map pay l.
Proof.
  intros H. revert i. induction l as [|x l IH]; intros [|i]; cbn; try reflexivity.
  - now rewrite H.
  - now rewrite IH.
Qed.

Lemma firstn_overwrite m p : firstn (length p) (overwrite m p) = p.
Proof. unfold overwrite. rewrite firstn_app, Nat.sub_diag, firstn_all. cbn. apply app_nil_r. Qed.

(* the invariant: the mutex is held exactly by the request that is between Lock and Unlock; while a
   request is about to write, the buffer holds its own field section; what has been written is the
   writer's own field section *)
Record inv (st : wstate) : Prop := mk_inv {
  inv_lock : forall i t, nth_error (ths st) i = Some t -> (1 <= phase t <= 4 <-> lk st = Some i);
  inv_buf : forall i t, nth_error (ths st) i = Some t -> phase t = 2 -> firstn (blen st) (mem st) = pay t;
  inv_out : forall i t, nth_error (ths st) i = Some t -> out t = None \/ out t = Some (pay t) }.

Lemma inv_start pays : inv (start pays).
Proof.
  split; cbn [start ths lk mem blen]; intros i t H.
  - apply nth_error_In in H. apply in_map_iff in H as (p & <- & _). cbn. split; [lia|discriminate].
  - apply nth_error_In in H. apply in_map_iff in H as (p & <- & _). cbn. discriminate.
  - apply nth_error_In in H. apply in_map_iff in H as (p & <- & _). cbn. now left.
Qed.

Ltac split_thread i j Hj Hi :=
  destruct (Nat.eq_dec i j) as [<-|Nij];
  [ rewrite (nth_error_upd_same _ _ _ _ Hi) in Hj; injection Hj as <-
  | rewrite (nth_error_upd_other _ _ _ _ Nij) in Hj ].

Lemma inv_step i st : inv st -> inv (step_locked i st).
Proof.
  intros Hinv. pose proof Hinv as [HL HB HO]. unfold step_locked. destruct (nth_error (ths st) i) as [t|] eqn:Hi; [|exact Hinv].
  pose proof (HL i t Hi) as HLi.
  destruct (phase t) as [|[|[|[|[|p]]]]] eqn:Ph.
  - (* Lock *)
    destruct (lk st) as [o|] eqn:Lk; [exact Hinv|].
    split; cbn [ths lk mem blen]; intros j t' Hj.
    + split_thread i j Hj Hi.
      * cbn. split; [reflexivity|lia].
      * pose proof (HL j t' Hj) as H. split.
        -- intros Hp. apply H in Hp. discriminate.
        -- intros [= ->]. congruence.
    + split_thread i j Hj Hi; [cbn; discriminate|]. intros Hp.
      assert (@None nat = Some j) by (apply (HL j t' Hj); lia). discriminate.
    + split_thread i j Hj Hi; [cbn; apply (HO i t Hi)|apply (HO j t' Hj)].
  - (* encode *)
    assert (Lk : lk st = Some i) by (apply HLi; lia).
    split; cbn [ths lk mem blen]; intros j t' Hj.
    + split_thread i j Hj Hi.
      * cbn. split; [intros _; exact Lk|lia].
      * apply (HL j t' Hj).
    + split_thread i j Hj Hi.
      * intros _. cbn. apply firstn_overwrite.
      * intros Hp. assert (lk st = Some j) by (apply (HL j t' Hj); lia). congruence.
    + split_thread i j Hj Hi; [cbn; apply (HO i t Hi)|apply (HO j t' Hj)].
  - (* write *)
    assert (Lk : lk st = Some i) by (apply HLi; lia).
    split; cbn [ths lk mem blen]; intros j t' Hj.
    + split_thread i j Hj Hi.
      * cbn. split; [intros _; exact Lk|lia].
      * apply (HL j t' Hj).
    + split_thread i j Hj Hi; [cbn; discriminate|apply (HB j t' Hj)].
    + split_thread i j Hj Hi.
      * cbn. right. f_equal. apply (HB i t Hi Ph).
      * apply (HO j t' Hj).
  - (* reset *)
    assert (Lk : lk st = Some i) by (apply HLi; lia).
    split; cbn [ths lk mem blen]; intros j t' Hj.
    + split_thread i j Hj Hi.
      * cbn. split; [intros _; exact Lk|lia].
      * apply (HL j t' Hj).
    + split_thread i j Hj Hi; [cbn; discriminate|].
      intros Hp. assert (lk st = Some j) by (apply (HL j t' Hj); lia). congruence.
    + split_thread i j Hj Hi; [cbn; apply (HO i t Hi)|apply (HO j t' Hj)].
  - (* unlock *)
    assert (Lk : lk st = Some i) by (apply HLi; lia).
    split; cbn [ths lk mem blen]; intros j t' Hj.
    + split_thread i j Hj Hi.
      * cbn. split; [lia|discriminate].
      * pose proof (HL j t' Hj) as H. split; [|discriminate].
        intros Hp. apply H in Hp. congruence.
    + split_thread i j Hj Hi; [cbn; discriminate|].
      intros Hp. assert (lk st = Some j) by (apply (HL j t' Hj); lia). congruence.
    + split_thread i j Hj Hi; [cbn; apply (HO i t Hi)|apply (HO j t' Hj)].
  - exact Hinv.
Qed.

Lemma pays_step i st : map pay (ths (step_locked i st)) = map pay (ths st).
Proof.
  unfold step_locked. destruct (nth_error (ths st) i) as [t|]; [|reflexivity].
  destruct (phase t) as [|[|[|[|[|p]]]]]; try reflexivity; cbn [ths];
    try (apply map_pay_upd; intros; reflexivity).
  destruct (lk st); [reflexivity|]. cbn [ths]. apply map_pay_upd. intros; reflexivity.
Qed.

Lemma inv_run sched : forall st, inv st -> inv (run_sched step_locked sched st).
Proof.
  unfold run_sched. induction sched as [|i r IH]; intros st H; [assumption|].
  cbn [fold_left]. apply IH. now apply inv_step.
Qed.

Lemma pays_run sched : forall st, map pay (ths (run_sched step_locked sched st)) = map pay (ths st).
Proof.
  unfold run_sched. induction sched as [|i r IH]; intros st; [reflexivity|].
  cbn [fold_left]. rewrite IH. apply pays_step.
Qed.

(* for ANY number of requests on the connection and ANY schedule (any interleaving the mutex
   admits, fair or not, finished or not): whatever a stream has received is the field section of
   its own request *)
Theorem shared_writer_any_interleaving pays sched i t :
  nth_error (ths (run_sched step_locked sched (start pays))) i = Some t ->
  nth_error pays i = Some (pay t) /\ (out t = None \/ out t = Some (pay t)).
Proof.
  intros H. split.
  - pose proof (pays_run sched (start pays)) as P. cbn [start ths] in P.
    rewrite map_map in P. cbn in P. rewrite map_id in P.
    rewrite <- P. rewrite nth_error_map, H. reflexivity.
  - exact (inv_out _ (inv_run sched _ (inv_start pays)) i t H).
Qed.

(* the aliasing variant: a schedule in which B encodes between A's unlock and A's write hands A's
   stream B's field section *)
Lemma shared_writer_alias_refuted :
  let pays := [bs "AAAA"; bs "BBBB"] in
  let sched := [0; 0; 0; 0; 0; 1; 1; 0; 1; 1; 1; 1] in
  map out (ths (run_sched step_locked sched (start pays))) = [Some (bs "AAAA"); Some (bs "BBBB")] /\
  map out (ths (run_sched step_alias sched (start pays))) = [Some (bs "BBBB"); Some (bs "BBBB")].
Proof. split; vm_compute; reflexivity. Qed.
