(* Proofs/DigestVerifyProofs.v - C20: the header text authorize() renders is accepted by the
   RFC 7616 verifier of Model/Digest.v (rfc7616_accepts: RFC 7235 parser + section 3.4
   parameter by parameter), for every supported challenge and all strings. *)
From Coq Require Import Lia.
From ReqV Require Import Lib.Bytes Lib.BytesFacts Model.AuthParam Model.Digest
     Proofs.AuthParamProofs Proofs.DigestProofs Proofs.ChallengeTextProofs.

Lemma assoc_map_sem k fs :
  assoc_bytes k (map sem_field fs) = option_map fval_sem (assoc_bytes k fs).
Proof.
  induction fs as [|[k' v] r IH]; [reflexivity|]. cbn [map sem_field fst snd assoc_bytes].
  destruct (bytes_eqb k k'); [reflexivity|exact IH].
Qed.

Lemma fval_eqb_refl v : fval_eqb v v = true.
Proof. destruct v; cbn; apply bytes_eqb_refl. Qed.

Lemma opt_fval_eqb_refl o : opt_fval_eqb o o = true.
Proof. destruct o; cbn; [apply fval_eqb_refl|reflexivity]. Qed.

(* every registered algorithm name is a token (it is written without quotes) *)
Lemma registered_alg_token alg x : rfc_registry alg = Some x -> alg <> [] -> tokenb alg = true.
Proof.
  unfold rfc_registry.
  repeat match goal with
  | |- context [bytes_eqb alg ?K] =>
      let E := fresh "E" in
      destruct (bytes_eqb alg K) eqn:E;
      [apply bytes_eqb_eq in E; subst alg; intros _ Hne; first [exfalso; apply Hne; reflexivity | vm_compute; reflexivity]|]
  end.
  intros X; discriminate X.
Qed.

Definition key_known (f : field) : bool := existsb (bytes_eqb (fst f)) rfc_auth_params.

Lemma build_fields_wellformed uh username realm nonce uri response alg opaque qop nc cnonce :
  clean response = true -> clean cnonce = true ->
  match alg with Some a => tokenb a = true | None => True end ->
  match qop with [] => True | _ => tokenb qop = true end -> tokenb nc = true ->
  let fs := build_fields uh username realm nonce uri response alg opaque qop nc cnonce in
  forallb field_ok fs = true /\ keys_distinct fs = true /\ forallb key_known fs = true.
Proof.
  unfold clean. intros Hr Hc Ha Hq Hn. unfold build_fields.
  destruct uh, alg as [a|], opaque as [|o os], qop as [|q qs];
    cbn [app forallb keys_distinct existsb fst snd];
    unfold field_ok, key_known; cbn [fst snd];
    rewrite ?Hr, ?Hc, ?Ha, ?Hq, ?Hn;
    (split; [|split]); vm_compute; reflexivity.
Qed.

(* what acceptance means: the header parses by RFC 7235 and each parameter of section 3.4 -
   response included - has exactly the value the RFC prescribes for the client nonce sent *)
Theorem accepts_means_rfc_values H c uri method user pass hint hdr :
  rfc7616_accepts H c uri method user pass hint hdr = true ->
  exists scheme ps cnonce,
    parse_credentials hdr = Some (scheme, ps) /\ to_lower scheme = bs "digest" /\
    (cnonce = hint \/ assoc_bytes (bs "cnonce") ps = Some (Quoted cnonce)) /\
    (forall k, In k rfc_auth_params ->
       assoc_bytes k ps = rfc7616_field H c uri method user pass cnonce k) /\
    (forall k v, In (k, v) ps -> In k rfc_auth_params).
Proof.
  unfold rfc7616_accepts. destruct (parse_credentials hdr) as [[scheme ps]|]; [|discriminate].
  intros A. apply andb_true_iff in A as [A A3]. apply andb_true_iff in A as [A1 A2].
  exists scheme, ps.
  exists (match assoc_bytes (bs "cnonce") ps with Some (Quoted x) => x | _ => hint end).
  split; [reflexivity|]. split; [now apply bytes_eqb_eq|]. split.
  { destruct (assoc_bytes (bs "cnonce") ps) as [[x|x|x]|]; auto. }
  split.
  - intros k Hk. rewrite forallb_forall in A2. specialize (A2 k Hk).
    destruct (assoc_bytes k ps) as [x|], (rfc7616_field H c uri method user pass _ k) as [y|];
      cbn in A2; try discriminate; [|reflexivity].
    f_equal. destruct x, y; cbn in A2; try discriminate; apply bytes_eqb_eq in A2; now subst.
  - intros k v Hin. rewrite forallb_forall in A3. specialize (A3 (k, v) Hin). cbn [fst] in A3.
    apply existsb_exists in A3 as [k' [Hk' E]]. apply bytes_eqb_eq in E. now subst.
Qed.

Section WithH.
  Variable H : hashfn -> bytes -> bytes.
  (* hex digests contain neither double quote nor backslash *)
  Hypothesis H_clean : forall f d, clean (H f d) = true.

  Theorem verifier_accepts c uri method user pass cnonce :
    supported c = true -> clean cnonce = true ->
    exists fs,
      authorize H c uri method user pass cnonce = inl fs /\
      parse_credentials (render_fields fs) = Some (bs "Digest", map sem_field fs) /\
      rfc7616_accepts H c uri method user pass cnonce (render_fields fs) = true.
  Proof.
    intros Hsup Hcn.
    destruct (digest_matches_rfc7616 H c uri method user pass cnonce Hsup) as [fs [Ha [_ Hf]]].
    exists fs. split; [exact Ha|].
    (* the explicit shape of fs *)
    revert Ha. unfold supported in Hsup.
    destruct (rfc_registry (c_algorithm c)) as [[f sess]|] eqn:R; [|discriminate].
    unfold authorize, authorize_with.
    rewrite alg_table_matches_registry, R.
    rewrite (validate_qop_supported _ Hsup).
    rewrite (sess_flag_matches _ _ _ R).
    rewrite !(h_registered H _ _ _ _ R).
    intros Ha. injection Ha as Ha.
    match type of Ha with build_fields ?uh ?un ?re ?no ?ur ?rs ?al ?op ?qo ?nc ?cn = _ =>
      destruct (build_fields_wellformed uh un re no ur rs al op qo nc cn) as [W1 [W2 W3]]
    end.
    - destruct sess; destruct (c_qop c); apply H_clean.
    - exact Hcn.
    - destruct (c_algorithm c) as [|a al] eqn:Ea; [exact I|].
      rewrite <- Ea in *. apply (registered_alg_token _ _ R). rewrite Ea. discriminate.
    - destruct (c_qop c); [exact I|vm_compute; reflexivity].
    - vm_compute. reflexivity.
    - rewrite Ha in W1, W2, W3.
      pose proof (parse_credentials_rendered fs W1 W2) as P.
      split; [exact P|].
      unfold rfc7616_accepts. rewrite P.
      assert (Ecn : match assoc_bytes (bs "cnonce") (map sem_field fs) with
                    | Some (Quoted x) => x
                    | _ => cnonce
                    end = cnonce).
      { rewrite assoc_map_sem. unfold lookup_field in Hf. rewrite Hf.
        unfold rfc7616_field. rewrite R. cbn.
        destruct (bytes_eqb (c_qop c) []); reflexivity. }
      rewrite Ecn.
      apply andb_true_iff. split; [apply andb_true_iff; split|].
      + vm_compute. reflexivity.
      + apply forallb_forall. intros k _. rewrite assoc_map_sem. unfold lookup_field in Hf.
        rewrite Hf. apply opt_fval_eqb_refl.
      + clear -W3. induction fs as [|g r IH]; [reflexivity|].
        cbn [forallb map] in *. apply andb_prop in W3 as [W3 W3']. rewrite (IH W3'), andb_true_r.
        destruct g as [k v]. exact W3.
  Qed.

  (* end to end over the TEXT on both sides: a challenge as the server wrote it (any order,
     white space, token or quoted-string form of each value) whose meaning [c] is supported
     is answered with header text the server's verifier accepts for [c] *)
  Theorem challenge_text_to_accepted_header pre mid post xs c uri method user pass cnonce :
    forallb is_chal_ws pre = true -> forallb is_chal_ws mid = true -> forallb is_chal_ws post = true ->
    forallb piece_ok xs = true -> ends_tight xs ->
    apply_fields empty_chal (map padded_sem xs) = inl c ->
    supported c = true -> clean cnonce = true ->
    exists hdr,
      create_digest_auth H (render_challenge pre mid post xs) uri method user pass cnonce = inl hdr /\
      rfc7616_accepts H c uri method user pass cnonce hdr = true.
  Proof.
    intros Hpre Hmid Hpost Hok Ht Hc Hsup Hcn.
    destruct (verifier_accepts c uri method user pass cnonce Hsup Hcn) as [fs [Ha [_ Hacc]]].
    exists (render_fields fs). split; [|exact Hacc].
    unfold create_digest_auth.
    rewrite (parse_challenge_rendered pre mid post xs Hpre Hmid Hpost Hok Ht), Hc, Ha.
    unfold render_challenge. destruct pre; reflexivity.
  Qed.

  (* sequences through ONE middleware: whatever challenges were answered before (same realm with
     another hash family, other realms, session variants ...) and whatever follows, a call whose
     own challenge is supported is answered with a header the verifier accepts for THAT challenge *)
  Theorem session_every_answer_accepted user pass before after first rsp cnonce c :
    r_err rsp = false -> r_status rsp = 401%N -> r_chal rsp <> [] ->
    parse_challenge (r_chal rsp) = inl c -> supported c = true -> clean cnonce = true ->
    exists q hdr,
      nth_error (digest_session H user pass (before ++ (true, first, rsp, cnonce) :: after)) (length before)
        = Some [first; q] /\
      w_auth q = Some hdr /\ w_body q = w_body first /\
      rfc7616_accepts H c (w_uri first) (w_method first) user pass cnonce hdr = true.
  Proof.
    intros He Hs Hne Hp Hsup Hcn.
    destruct (supported_is_answered H first rsp user pass cnonce c He Hs Hne Hp Hsup)
      as [fs [q [Ha [Hx [Hq [Hb _]]]]]].
    destruct (verifier_accepts c (w_uri first) (w_method first) user pass cnonce Hsup Hcn)
      as [fs' [Ha' [_ Hacc]]].
    rewrite Ha in Ha'. injection Ha' as <-.
    exists q, (render_fields fs). rewrite session_independent, Hx. auto.
  Qed.

  (* digest x retries: EVERY attempt whose challenge is supported is answered acceptably - the
     second and later ones exactly like the first (nothing is remembered from attempt to attempt) *)
  Theorem retry_attempts_all_answered user pass first xs :
    Forall (fun x : first_response * bytes =>
              r_err (fst x) = false /\ r_status (fst x) = 401%N /\ r_chal (fst x) <> [] /\
              (exists c, parse_challenge (r_chal (fst x)) = inl c /\ supported c = true) /\
              clean (snd x) = true) xs ->
    Forall2 (fun (x : first_response * bytes) ex =>
               exists c q hdr, parse_challenge (r_chal (fst x)) = inl c /\
                 ex = [first; q] /\ w_auth q = Some hdr /\ w_body q = w_body first /\
                 rfc7616_accepts H c (w_uri first) (w_method first) user pass (snd x) hdr = true)
            xs (retry_attempts H user pass first xs).
  Proof.
    unfold retry_attempts, digest_session. induction xs as [|[rsp cn] r IH]; intros HF; [constructor|].
    inversion HF as [|? ? [He [Hs [Hne [[c [Hp Hsup]] Hcn]]]] Hr]; subst. cbn [fst snd] in *.
    cbn [map]. constructor; [|apply IH; exact Hr].
    destruct (supported_is_answered H first rsp user pass cn c He Hs Hne Hp Hsup)
      as [fs [q [Ha [Hx [Hq [Hb _]]]]]].
    destruct (verifier_accepts c (w_uri first) (w_method first) user pass cn Hsup Hcn)
      as [fs' [Ha' [_ Hacc]]].
    rewrite Ha in Ha'. injection Ha' as <-.
    exists c, q, (render_fields fs). cbn [fst snd]. rewrite Hx. auto.
  Qed.
End WithH.
