(* Proofs/StreamBodyProofs.v - C03: HTTP/2 and HTTP/3 response bodies as event machines
   (Model/StreamBody.v): over ALL event lists, a read-to-end is clean exactly when the stream
   ended properly and the DATA total equals the declared length; what is delivered is a
   prefix of what the peer sent, never more than declared. *)
From ReqV Require Import Lib.Bytes Lib.BytesFacts Lib.BigEndian Model.BodyFraming Model.StreamBody Proofs.BodyFramingProofs.
From Coq Require Import Lia ZifyBool ZifyNat ZifyN.
Local Open Scope nat_scope.

(* ======================= HTTP/2 ======================= *)
(* payload of the stream's DATA frames up to its terminal event (padding is not part of it:
   H2Data carries DataFrame.Data()) *)
Fixpoint h2_sent (evs : list h2ev) : bytes :=
  match evs with
  | H2Data p true :: _ => p
  | H2Data p false :: r => p ++ h2_sent r
  | _ => []
  end.

(* how the stream ended *)
Inductive h2_end := E2EndStream | E2Rst | E2GoAway | E2ConnEnd | E2Open.

Fixpoint h2_ending (evs : list h2ev) : h2_end :=
  match evs with
  | [] => E2Open
  | H2Data _ true :: _ => E2EndStream
  | H2Data _ false :: r => h2_ending r
  | H2Trailers :: _ => E2EndStream
  | H2Rst _ :: _ => E2Rst
  | H2GoAwayClose :: _ => E2GoAway
  | H2ConnEnd :: _ => E2ConnEnd
  end.

Definition h2_end_err (e : h2_end) : h2err :=
  match e with
  | E2EndStream => H2Clean
  | E2Rst => H2StreamErr
  | E2GoAway => H2GoAwayErr
  | E2ConnEnd => H2UnexpectedEOF
  | E2Open => H2Pending
  end.

Lemma h2_pipe_spec : forall evs, h2_pipe evs = (h2_sent evs, h2_end_err (h2_ending evs)).
Proof.
  induction evs as [|ev r IH]; [reflexivity|].
  destruct ev as [p [|]| | | |]; cbn [h2_pipe h2_sent h2_ending]; try reflexivity.
  rewrite IH. reflexivity.
Qed.


(* the whole behaviour of transportResponseBody.Read-to-end in one equation *)
Lemma h2_read_spec : forall cl evs,
  h2_read cl false evs =
  let sent := h2_sent evs in
  let e := h2_end_err (h2_ending evs) in
  match cl with
  | None => (sent, e)
  | Some n =>
      if (n <? lenN sent)%N then (firstn (N.to_nat n) sent, H2TooMuch)
      else if (lenN sent <? n)%N then (sent, match e with H2Clean => H2UnexpectedEOF | _ => e end)
      else (sent, e)
  end.
Proof.
  intros cl evs. unfold h2_read. rewrite h2_pipe_spec. cbv zeta.
  destruct cl as [n|]; [|reflexivity].
  rewrite take_N_spec. unfold lenN.
  destruct (N.ltb_spec n (N.of_nat (length (h2_sent evs)))) as [Hlt|Hge].
  - destruct (skipn (N.to_nat n) (h2_sent evs)) eqn:Es.
    + exfalso. assert (L := skipn_length (N.to_nat n) (h2_sent evs)). rewrite Es in L. cbn in L. lia.
    + reflexivity.
  - rewrite skipn_all2 by lia.
    destruct (N.ltb_spec (N.of_nat (length (h2_sent evs))) n) as [Hlt|Hge'].
    + destruct (N.eqb_spec (n - N.of_nat (length (h2_sent evs))) 0); [lia|reflexivity].
    + destruct (N.eqb_spec (n - N.of_nat (length (h2_sent evs))) 0); [reflexivity|lia].
Qed.

(* success = the stream ended with END_STREAM (on DATA or trailers) AND the DATA total
   equals the declared length (if any) AND the caller got exactly the DATA sent *)
Theorem h2_clean_iff_thm : forall cl evs d,
  h2_read cl false evs = (d, H2Clean) <->
  (h2_ending evs = E2EndStream /\ d = h2_sent evs /\
   (cl = None \/ cl = Some (lenN (h2_sent evs)))).
Proof.
  intros cl evs d. rewrite h2_read_spec. cbv zeta. split.
  - destruct cl as [n|].
    + destruct (N.ltb_spec n (lenN (h2_sent evs))); [discriminate|].
      destruct (N.ltb_spec (lenN (h2_sent evs)) n).
      * destruct (h2_ending evs); cbn; discriminate.
      * intro E. assert (n = lenN (h2_sent evs)) by lia. subst n.
        destruct (h2_ending evs); cbn in E; try discriminate.
        injection E as <-. auto.
    + destruct (h2_ending evs); cbn; intro E; try discriminate. injection E as <-. auto.
  - intros (He & -> & Hc). rewrite He. cbn.
    destruct Hc as [->| ->]; [reflexivity|].
    rewrite N.ltb_irrefl. reflexivity.
Qed.

(* more DATA than declared: exactly the declared bytes are delivered, then an error -
   whatever follows on the stream *)
Theorem h2_too_much_thm : forall n evs, (n < lenN (h2_sent evs))%N ->
  h2_read (Some n) false evs = (firstn (N.to_nat n) (h2_sent evs), H2TooMuch).
Proof.
  intros n evs H. rewrite h2_read_spec. cbv zeta.
  destruct (N.ltb_spec n (lenN (h2_sent evs))); [reflexivity|lia].
Qed.

(* declared bytes still owed when the stream ends - however it ends - is never a clean end *)
Theorem h2_too_little_thm : forall n evs, (lenN (h2_sent evs) < n)%N ->
  exists e, h2_read (Some n) false evs = (h2_sent evs, e) /\ e <> H2Clean /\
    (h2_ending evs = E2EndStream -> e = H2UnexpectedEOF).
Proof.
  intros n evs H. rewrite h2_read_spec. cbv zeta.
  destruct (N.ltb_spec n (lenN (h2_sent evs))); [lia|].
  destruct (N.ltb_spec (lenN (h2_sent evs)) n); [|lia].
  eexists. split; [reflexivity|].
  destruct (h2_ending evs); cbn; split; try discriminate; try reflexivity; intro; discriminate.
Qed.

(* RST_STREAM / GOAWAY / end of the connection before END_STREAM: an error with or without
   a declared length, after a prefix of the DATA *)
Theorem h2_abnormal_end_thm : forall cl evs,
  h2_ending evs = E2Rst \/ h2_ending evs = E2GoAway \/ h2_ending evs = E2ConnEnd ->
  snd (h2_read cl false evs) <> H2Clean /\ snd (h2_read cl false evs) <> H2Pending.
Proof.
  intros cl evs H. rewrite h2_read_spec. cbv zeta.
  destruct cl as [n|].
  - destruct (N.ltb_spec n (lenN (h2_sent evs))); [cbn; split; discriminate|].
    destruct (N.ltb_spec (lenN (h2_sent evs)) n);
      destruct H as [-> | [-> | ->]]; cbn; split; discriminate.
  - destruct H as [-> | [-> | ->]]; cbn; split; discriminate.
Qed.

(* nothing padded, nothing spliced, never more than declared *)
Theorem h2_delivered_prefix_thm : forall cl evs,
  exists m, fst (h2_read cl false evs) = firstn m (h2_sent evs) /\
            (forall n, cl = Some n -> (lenN (fst (h2_read cl false evs)) <= n)%N).
Proof.
  intros cl evs. rewrite h2_read_spec. cbv zeta. unfold lenN.
  destruct cl as [n|].
  - destruct (N.ltb_spec n (N.of_nat (length (h2_sent evs)))).
    + exists (N.to_nat n). split; [reflexivity|]. intros ? [= <-]. cbn [fst].
      rewrite firstn_length. lia.
    + exists (length (h2_sent evs)). rewrite firstn_all.
      destruct (N.ltb_spec (N.of_nat (length (h2_sent evs))) n); cbn [fst];
        (split; [reflexivity|intros ? [= <-]; lia]).
  - exists (length (h2_sent evs)). rewrite firstn_all. split; [reflexivity|discriminate].
Qed.

(* END_STREAM already on HEADERS *)
Theorem h2_headers_end_thm : forall cl evs,
  h2_read cl true evs =
  ([], match cl with Some n => if (0 <? n)%N then H2UnexpectedEOF else H2Clean | None => H2Clean end).
Proof. intros [n|] evs; cbn; [destruct (0 <? n)%N|]; reflexivity. Qed.

(* a connection the peer ended is not used for the next request; a stream-level ending
   leaves it usable unless the peer signalled a protocol error *)
Theorem h2_conn_usable_thm : forall evs,
  (h2_ending evs = E2GoAway \/ h2_ending evs = E2ConnEnd -> h2_conn_usable evs = false) /\
  (h2_ending evs = E2EndStream -> h2_conn_usable evs = true).
Proof.
  induction evs as [|ev r IH]; [split; [intros [H|H]; discriminate|discriminate]|].
  destruct ev as [p [|]| |c| |]; cbn [h2_ending h2_conn_usable]; try exact IH;
    split; try (intros [H|H]; discriminate); try discriminate; reflexivity.
Qed.

(* ======================= HTTP/3 ======================= *)
(* the DATA payload bytes that arrived, up to the terminal event *)
Fixpoint h3_sent (evs : list h3ev) : bytes :=
  match evs with
  | H3Data _ p :: r => p ++ h3_sent r
  | _ => []
  end.

(* every DATA frame arrived whole *)
Fixpoint h3_frames_whole (evs : list h3ev) : bool :=
  match evs with
  | H3Data n p :: r => (lenN p =? n)%N && h3_frames_whole r
  | _ => true
  end.

Inductive h3_end := E3Fin | E3Reset | E3ConnClose | E3Open.
Fixpoint h3_ending (evs : list h3ev) : h3_end :=
  match evs with
  | [] => E3Open
  | H3Data _ _ :: r => h3_ending r
  | H3Fin :: _ => E3Fin
  | H3Reset :: _ => E3Reset
  | H3ConnClose :: _ => E3ConnClose
  end.

Lemma h3_end_incomplete_not_clean : forall r, h3_end_incomplete true r <> H3Clean.
Proof. intros [|[| | |] r]; cbn; discriminate. Qed.

(* no frame delivers more payload than its header announced (true of every real stream) *)
Fixpoint h3_wf (evs : list h3ev) : Prop :=
  match evs with
  | H3Data n p :: r => (lenN p <= n)%N /\ h3_wf r
  | _ => True
  end.

Lemma firstn_app_l {A} (a b : list A) m : m <= length a -> firstn m (a ++ b) = firstn m a.
Proof. intro H. rewrite firstn_app. replace (m - length a) with 0 by lia. cbn. apply app_nil_r. Qed.

Lemma app_firstn_r {A} (a b : list A) j : a ++ firstn j b = firstn (length a + j) (a ++ b).
Proof.
  rewrite firstn_app. rewrite (firstn_all2 a) by lia.
  replace (length a + j - length a) with j by lia. reflexivity.
Qed.

(* delivered bytes are a prefix of what arrived, and never exceed the declared length *)
Theorem h3_delivered_prefix_thm : forall strict evs rem, h3_wf evs ->
  exists m, fst (h3_read strict rem evs) = firstn m (h3_sent evs) /\
            (forall k, rem = Some k -> (lenN (fst (h3_read strict rem evs)) <= k)%N).
Proof.
  intros strict. unfold lenN.
  induction evs as [|ev r IH]; intros rem W.
  - exists 0. split; [reflexivity|]. intros; cbn; lia.
  - destruct ev as [n p| | |]; cbn [h3_read h3_sent];
      try (exists 0; split; [reflexivity|intros; cbn; lia]).
    destruct W as [Wp W]. unfold lenN in Wp.
    destruct rem as [m|].
    + destruct (N.eqb_spec n 0) as [En|En].
      * assert (p = []) by (destruct p; [reflexivity|cbn in Wp; lia]). subst p.
        destruct (IH (Some m) W) as [j [Hj Hb]]. exists j. cbn [app]. auto.
      * destruct (N.ltb_spec m n) as [Hmn|Hmn].
        -- destruct (N.leb_spec m (N.of_nat (length p))) as [Hg|Hg]; cbn [fst].
           ++ exists (N.to_nat m). split; [rewrite firstn_app_l by lia; reflexivity|].
              intros k [= <-]. rewrite firstn_length. lia.
           ++ exists (length p). split; [rewrite firstn_app_l, firstn_all by lia; reflexivity|].
              intros k [= <-]. lia.
        -- destruct (N.ltb_spec (N.of_nat (length p)) n) as [Hg|Hg]; cbn [fst].
           ++ exists (length p). split; [rewrite firstn_app_l, firstn_all by lia; reflexivity|].
              intros k [= <-]. lia.
           ++ destruct (IH (Some (m - n)%N) W) as [j [Hj Hb]].
              destruct (h3_read strict (Some (m - n)%N) r) as [d e]. cbn [fst] in *.
              exists (length p + j). split; [rewrite Hj; apply app_firstn_r|].
              intros k [= <-]. specialize (Hb _ eq_refl). rewrite app_length. lia.
    + destruct (N.ltb_spec (N.of_nat (length p)) n) as [Hg|Hg]; cbn [fst].
      * exists (length p). split; [rewrite firstn_app_l, firstn_all by lia; reflexivity|discriminate].
      * destruct (IH None W) as [j [Hj _]].
        destruct (h3_read strict None r) as [d e]. cbn [fst] in *.
        exists (length p + j). split; [rewrite Hj; apply app_firstn_r|discriminate].
Qed.

(* success = the stream ended by FIN, every DATA frame arrived whole, the DATA total equals
   the declared length (if any), and the caller got exactly the DATA sent *)
Theorem h3_clean_iff_thm : forall evs rem d, h3_wf evs ->
  h3_read true rem evs = (d, H3Clean) <->
  (h3_ending evs = E3Fin /\ h3_frames_whole evs = true /\ d = h3_sent evs /\
   (rem = None \/ rem = Some (lenN (h3_sent evs)))).
Proof.
  unfold lenN.
  induction evs as [|ev r IH]; intros rem d W.
  - cbn. split; [discriminate|intros [H _]; discriminate].
  - destruct ev as [n p| | |]; cbn [h3_read h3_sent h3_ending h3_frames_whole].
    2:{ (* FIN *)
      split.
      - destruct rem as [m|].
        + destruct (N.ltb_spec 0 m); cbn; [discriminate|]. intros [= <-].
          repeat split; auto. right. f_equal. cbn. lia.
        + intros [= <-]. auto.
      - intros (_ & _ & -> & Hc). destruct Hc as [->| ->]; reflexivity. }
    2:{ split; [discriminate|intros [H _]; discriminate]. }
    2:{ split; [discriminate|intros [H _]; discriminate]. }
    destruct W as [Wp W]. unfold lenN in *.
    destruct rem as [m|].
    + destruct (N.eqb_spec n 0) as [En|En].
      * assert (p = []) by (destruct p; [reflexivity|cbn in Wp; lia]). subst p n.
        cbn [app length]. rewrite (IH (Some m) d W). cbn. tauto.
      * destruct (N.ltb_spec m n) as [Hmn|Hmn].
        -- split.
           ++ destruct (N.leb_spec m (N.of_nat (length p))); [discriminate|].
              intros [= _ E]. exfalso. exact (h3_end_incomplete_not_clean _ E).
           ++ intros (_ & Hw & _ & Hc). exfalso.
              apply andb_prop in Hw. destruct Hw as [Hw _]. apply N.eqb_eq in Hw.
              destruct Hc as [Hc|Hc]; [discriminate|]. injection Hc as Hc.
              rewrite app_length in Hc. lia.
        -- destruct (N.ltb_spec (N.of_nat (length p)) n) as [Hg|Hg].
           ++ split.
              ** intros [= _ E]. exfalso. exact (h3_end_incomplete_not_clean _ E).
              ** intros (_ & Hw & _). apply andb_prop in Hw. destruct Hw as [Hw _].
                 apply N.eqb_eq in Hw. lia.
           ++ assert (Ep : N.of_nat (length p) = n) by lia.
              destruct (h3_read true (Some (m - n)%N) r) as [d' e'] eqn:Er.
              assert (IH1 := IH (Some (m - n)%N) d' W). assert (IH2 := IH (Some (m - n)%N) (h3_sent r) W).
              rewrite Er in IH1, IH2.
              split.
              ** intros [= <- ->]. destruct (proj1 IH1 eq_refl) as (He & Hw & -> & Hc).
                 repeat split; auto.
                 --- rewrite Hw. apply andb_true_intro. split; [apply N.eqb_eq; exact Ep|reflexivity].
                 --- right. f_equal. destruct Hc as [Hc|Hc]; [discriminate|].
                     injection Hc as Hc. rewrite app_length. lia.
              ** intros (He & Hw & -> & Hc). apply andb_prop in Hw. destruct Hw as [_ Hw].
                 destruct Hc as [Hc|Hc]; [discriminate|]. injection Hc as Hc.
                 rewrite app_length in Hc.
                 assert (IHr : (d', e') = (h3_sent r, H3Clean)).
                 { apply (proj2 IH2). repeat split; auto. right. f_equal. lia. }
                 injection IHr as -> ->. reflexivity.
    + destruct (N.ltb_spec (N.of_nat (length p)) n) as [Hg|Hg].
      * split.
        -- intros [= _ E]. exfalso. exact (h3_end_incomplete_not_clean _ E).
        -- intros (_ & Hw & _). apply andb_prop in Hw. destruct Hw as [Hw _].
           apply N.eqb_eq in Hw. lia.
      * assert (Ep : N.of_nat (length p) = n) by lia.
        destruct (h3_read true None r) as [d' e'] eqn:Er.
        assert (IH1 := IH None d' W). assert (IH2 := IH None (h3_sent r) W).
        rewrite Er in IH1, IH2.
        split.
        -- intros [= <- ->]. destruct (proj1 IH1 eq_refl) as (He & Hw & -> & _).
           repeat split; auto.
           rewrite Hw. apply andb_true_intro. split; [apply N.eqb_eq; exact Ep|reflexivity].
        -- intros (He & Hw & -> & _). apply andb_prop in Hw. destruct Hw as [_ Hw].
           assert (IHr : (d', e') = (h3_sent r, H3Clean)).
           { apply (proj2 IH2). repeat split; auto. }
           injection IHr as -> ->. reflexivity.
Qed.

(* more DATA than declared, in whole frames: exactly the declared bytes, then errTooMuchData -
   also when the surplus sits in a frame of its own behind the declared length *)
Theorem h3_surplus_detected_thm : forall strict evs k, h3_wf evs -> h3_frames_whole evs = true ->
  (k < lenN (h3_sent evs))%N ->
  h3_read strict (Some k) evs = (firstn (N.to_nat k) (h3_sent evs), H3TooMuch).
Proof.
  intros strict. unfold lenN.
  induction evs as [|ev r IH]; intros k W Hw Hk; [cbn in Hk; lia|].
  destruct ev as [n p| | |]; cbn [h3_sent] in Hk; try (cbn in Hk; lia).
  cbn [h3_read h3_sent h3_frames_whole] in *. destruct W as [Wp W].
  apply andb_prop in Hw. destruct Hw as [Hp Hw]. apply N.eqb_eq in Hp. unfold lenN in *.
  rewrite app_length in Hk.
  destruct (N.eqb_spec n 0) as [En|En].
  - assert (p = []) by (destruct p; [reflexivity|cbn in Hp; lia]). subst p. cbn [app].
    apply IH; auto; cbn in Hk; lia.
  - destruct (N.ltb_spec k n) as [Hkn|Hkn].
    + destruct (N.leb_spec k (N.of_nat (length p))); [|lia].
      rewrite firstn_app_l by lia. reflexivity.
    + destruct (N.ltb_spec (N.of_nat (length p)) n); [lia|].
      rewrite (IH (k - n)%N W Hw) by lia. f_equal.
      rewrite app_firstn_r. f_equal. lia.
Qed.

(* a stream reset or a connection closed by the peer is never a clean end *)
Theorem h3_abnormal_end_thm : forall evs rem, h3_wf evs ->
  h3_ending evs = E3Reset \/ h3_ending evs = E3ConnClose ->
  snd (h3_read true rem evs) <> H3Clean.
Proof.
  intros evs rem W H C.
  destruct (h3_read true rem evs) as [d e] eqn:E. cbn in C. subst e.
  apply h3_clean_iff_thm in E; [|exact W]. destruct E as [E _].
  destruct H as [H|H]; rewrite H in E; discriminate.
Qed.
