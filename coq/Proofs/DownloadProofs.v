(* Proofs/DownloadProofs.v - C03: a download fails whenever the body copy failed, whatever the
   output is and whatever its Close returns; so a cut response is never a successful download. *)
From ReqV Require Import Lib.Bytes Lib.BytesFacts Model.BodyFraming Model.Download Proofs.BodyFramingProofs.
From Coq Require Import Lia.

Theorem copy_error_stands_thm : forall closer, download_failed true closer = true.
Proof. intros [[|]|]; reflexivity. Qed.

Theorem clean_copy_thm : forall closer,
  download_failed false closer = match closer with Some close_failed => close_failed | None => false end.
Proof. intros [[|]|]; reflexivity. Qed.

(* every cut of a Content-Length / chunked response, every kind of output: no success *)
Theorem h1_download_cut_fails_thm : forall hdr fr W body tb k closer,
  framed fr W body tb -> k < length (hdr ++ W) ->
  h1_download (N.of_nat (length hdr)) fr (firstn k (hdr ++ W)) closer = None.
Proof.
  intros hdr fr W body tb k closer Hfr Hk. unfold h1_download.
  pose proof (h1_truncation_detected_thm hdr fr W body tb k Hfr Hk) as H.
  destruct (h1_read (N.of_nat (length hdr)) fr (firstn k (hdr ++ W))) as [|r]; [reflexivity|].
  destruct H as (_ & He & _).
  assert (C : is_clean (rd_err r) = false) by (destruct He as [->|[->| ->]]; reflexivity).
  rewrite C. cbn [negb]. rewrite copy_error_stands_thm. reflexivity.
Qed.

(* the seeded variant lets a successful Close overwrite the copy error *)
Lemma overwritten_refuted :
  download_failed_overwritten true (Some false) = false /\ download_failed true (Some false) = true /\
  download_failed_overwritten true None = true.
Proof. repeat split. Qed.
