(* Proofs/H2InfoProofs.v - the HTTP/2 read loop never gets stuck on interim responses (C07) *)
From ReqV Require Import Lib.Bytes Model.H2Info.
From Coq Require Import Lia ZifyBool.

Lemma chan_send_nonblocking cap occ : chan_send cap occ false <> None.
Proof. unfold chan_send. destruct (occ <? cap); discriminate. Qed.

Lemma chan_send_bound cap occ b o : occ <= cap -> chan_send cap occ b = Some o -> o <= cap.
Proof.
  unfold chan_send. intros H. destruct (Nat.ltb_spec occ cap); [intros E; inversion E; lia|].
  destruct b; [discriminate|intros E; inversion E; lia].
Qed.

Lemma step_not_blocked s code e : h2_info_step false s code e <> IBlocked.
Proof.
  unfold h2_info_step. destruct (_ && _)%bool; [|discriminate].
  destruct e; [discriminate|]. destruct (h2_max_1xx <? _); [discriminate|].
  destruct (code =? 100)%Z; [|discriminate].
  pose proof (chan_send_nonblocking on100_cap (i_on100 s)) as H.
  destruct (chan_send on100_cap (i_on100 s) false); [discriminate|contradiction].
Qed.

Lemma step_invariant b s code e s' :
  i_on100 s <= on100_cap -> i_num1xx s <= h2_max_1xx ->
  h2_info_step b s code e = INext s' -> i_on100 s' <= on100_cap /\ i_num1xx s' <= h2_max_1xx.
Proof.
  unfold h2_info_step. intros H1 H2. destruct (_ && _)%bool; [|discriminate].
  destruct e; [discriminate|]. destruct (Nat.ltb_spec h2_max_1xx (S (i_num1xx s))); [discriminate|].
  destruct (code =? 100)%Z.
  - destruct (chan_send on100_cap (i_on100 s) b) as [o|] eqn:E; [|discriminate].
    intros X. inversion X; subst. cbn. split; [eapply chan_send_bound; eauto|lia].
  - intros X. inversion X; subst. cbn. split; lia.
Qed.

(* for EVERY order of HEADERS blocks and of the writer taking its notification, with every status
   code: the read loop is never stuck in the notification, the channel never holds more than its
   capacity, and at most five interim blocks are let through *)
Theorem h2_info_never_blocks : forall evs s,
  i_on100 s <= on100_cap -> i_num1xx s <= h2_max_1xx ->
  match h2_info_run false s evs with
  | RBlocked => False
  | RFinal _ n => n <= h2_max_1xx
  | ROpen s' => i_on100 s' <= on100_cap /\ i_num1xx s' <= h2_max_1xx
  | RErr => True
  end.
Proof.
  induction evs as [|ev r IH]; intros s H1 H2; cbn [h2_info_run]; [auto|].
  destruct ev as [c e|].
  - destruct (h2_info_step false s c e) as [| | |s'|c'] eqn:E; auto.
    + exfalso. now apply step_not_blocked in E.
    + destruct (step_invariant _ _ _ _ _ H1 H2 E). now apply IH.
  - apply IH; cbn; [unfold on100_cap in *; lia|assumption].
Qed.

Theorem h2_info_never_blocks0 evs :
  match h2_info_run false istate0 evs with RBlocked => False | _ => True end.
Proof.
  pose proof (h2_info_never_blocks evs istate0) as H. cbn in H.
  specialize (H ltac:(unfold on100_cap; lia) ltac:(unfold h2_max_1xx; lia)).
  destruct (h2_info_run false istate0 evs); auto.
Qed.

(* the blocking variant is stuck on the second `:status 100` when nobody receives (a request without
   a body, or whose writer does not wait for the 100), on the third when the writer took one *)
Theorem h2_info_blocking_refuted :
  h2_info_run true istate0 [EvHeaders 100 false; EvHeaders 100 false; EvHeaders 200 false] = RBlocked /\
  h2_info_run true istate0 [EvHeaders 100 false; EvWriterTakes; EvHeaders 100 false; EvHeaders 100 false; EvHeaders 200 false] = RBlocked /\
  h2_info_run false istate0 [EvHeaders 100 false; EvHeaders 100 false; EvHeaders 100 false; EvHeaders 200 true] = RFinal 200 3.
Proof. repeat split. Qed.

(* the writer's receive never changes what the caller gets: independent of the interleaving *)
Definition no_writer_events (evs : list ievent) : list ievent :=
  filter (fun e => match e with EvWriterTakes => false | _ => true end) evs.

Lemma writer_irrelevant_gen : forall evs s t, i_num1xx s = i_num1xx t ->
  match h2_info_run false s evs, h2_info_run false t (no_writer_events evs) with
  | RFinal c n, RFinal c' n' => c = c' /\ n = n'
  | RErr, RErr => True
  | ROpen a, ROpen b => i_num1xx a = i_num1xx b
  | _, _ => False
  end.
Proof.
  unfold no_writer_events.
  induction evs as [|ev r IH]; intros s t Hn; cbn [h2_info_run filter]; [exact Hn|].
  destruct ev as [c e|]; [|apply IH; exact Hn].
  cbn [h2_info_run]. unfold h2_info_step. rewrite Hn.
  destruct (_ && _)%bool; [|split; reflexivity].
  destruct e; [exact I|]. destruct (h2_max_1xx <? S (i_num1xx t)); [exact I|].
  destruct (c =? 100)%Z; [|apply IH; reflexivity].
  unfold chan_send. destruct (i_on100 s <? on100_cap), (i_on100 t <? on100_cap); apply IH; reflexivity.
Qed.

(* when (and whether) the writer takes its notification never changes what the caller gets: the
   outcome is independent of that interleaving *)
Theorem h2_info_writer_irrelevant evs s :
  match h2_info_run false s evs, h2_info_run false s (no_writer_events evs) with
  | RFinal c n, RFinal c' n' => c = c' /\ n = n'
  | RErr, RErr => True
  | ROpen a, ROpen b => i_num1xx a = i_num1xx b
  | _, _ => False
  end.
Proof. exact (writer_irrelevant_gen evs s s eq_refl). Qed.

(* an interim (1xx) header block that carries END_STREAM ends the call with an error at once,
   whatever came before: nothing is left to wait for *)
Theorem h2_interim_end_stream_is_error b s code :
  (100 <= code <= 199)%Z -> h2_info_step b s code true = IErrEndStream.
Proof.
  intros H. unfold h2_info_step.
  replace ((100 <=? code) && (code <=? 199))%Z with true by lia. reflexivity.
Qed.
