(* Proofs/CharsetFindProofs.v - C15: what the byte-order-mark layer of charsets.FindEncoding
   (Model/CharsetFind.v, table regenerated from the source) means for the delivered body. *)
From Coq Require Import Lia PeanoNat.
From ReqV Require Import Lib.Bytes Lib.BytesFacts Model.Charset Model.CharsetFind
     Proofs.CharsetProofs Gen.CharsetBoms.

Lemma charset_boms_are :
  charset_boms = [([xfe; xff], bs "utf-16be"); ([xff; xfe], bs "utf-16le"); ([xef; xbb; xbf], bs "utf-8")].
Proof. reflexivity. Qed.

Section FindProofs.
  Variable enc : Type.
  Variable dec_all : enc -> bytes -> bytes.
  Variable dec_stream : enc -> list bytes -> bytes.
  Variable dec_partial : enc -> list bytes -> bytes.
  Variable parse_ct : bytes -> ct_parse.
  Variable lookup_charset : bytes -> option enc.
  Variable lookup_name : bytes -> option (enc * bytes).
  Variable prescan : bytes -> option (enc * bytes).
  Hypothesis dec_ok : decoder_ok dec_all dec_stream.
  (* the HTML prescan finds nothing in one or two bytes (it needs a "<meta ...>" tag) *)
  Hypothesis prescan_short : forall b, length b <= 2 -> prescan b = None.

  Notation fe := (find_encoding_m lookup_name prescan).
  Notation respond := (respond dec_stream dec_partial fe parse_ct lookup_charset).
  Notation decide := (decide parse_ct lookup_charset).

  (* ---------- UTF-8 BOM ---------- *)

  Lemma fe_utf8_bom b rest rest0 e8 n8 :
    b <> [] -> [xef; xbb; xbf] ++ rest0 = b ++ rest ->
    lookup_name (bs "utf-8") = Some (e8, n8) -> is_utf8_name n8 = true ->
    fe b = None.
  Proof.
    intros Hb E L U. unfold find_encoding_m. rewrite charset_boms_are.
    destruct b as [|b0 [|b1 [|b2 b']]]; [congruence| | |]; cbn [app] in E; inversion E; subst; clear E.
    - cbn. rewrite prescan_short by (cbn; lia). reflexivity.
    - cbn. rewrite prescan_short by (cbn; lia). reflexivity.
    - remember (bs "utf-8") as l8. remember (bs "utf-16le") as l16l. remember (bs "utf-16be") as l16b.
      cbn. rewrite L. cbn [drop_utf8]. rewrite U. reflexivity.
  Qed.

  (* a body that starts with the UTF-8 byte-order mark is never transcoded by the sniffing reader,
     however it is split and read (and whatever a meta tag in it says) *)
  Theorem bom_utf8_never_transcoded disable sel resp_ce ct chunks eof_last fail takes sizes o rest0 e8 n8 :
    lookup_name (bs "utf-8") = Some (e8, n8) -> is_utf8_name n8 = true ->
    decide disable sel resp_ce ct = ISniff ->
    concat chunks = [xef; xbb; xbf] ++ rest0 ->
    respond disable sel resp_ce ct chunks eof_last fail takes sizes = (o, EEOF) ->
    o = concat chunks.
  Proof.
    intros L U D B H. apply (respond_exact _ dec_all dec_stream dec_partial fe parse_ct lookup_charset dec_ok) in H.
    rewrite D in H. unfold sniffed in H.
    destruct (first_read sizes (fresh_net chunks eof_last fail)) as [b|] eqn:F; [|exact H].
    destruct (first_read_prefix _ _ _ F) as [Hb [rest Hr]]. cbn [fresh_net n_chunks] in Hr.
    rewrite (fe_utf8_bom b rest rest0 e8 n8 Hb) in H; auto. congruence.
  Qed.

  (* ---------- UTF-16 BOMs ---------- *)

  Lemma fe_utf16le_bom b rest rest0 e n :
    2 <= length b -> [xff; xfe] ++ rest0 = b ++ rest ->
    lookup_name (bs "utf-16le") = Some (e, n) -> is_utf8_name n = false ->
    fe b = Some e.
  Proof.
    intros Hb E L U. unfold find_encoding_m. rewrite charset_boms_are.
    destruct b as [|b0 [|b1 b']]; cbn [length] in Hb; try lia. cbn [app] in E; inversion E; subst; clear E.
    remember (bs "utf-8") as l8. remember (bs "utf-16le") as l16l. remember (bs "utf-16be") as l16b.
    cbn. rewrite L. cbn [drop_utf8]. rewrite U. reflexivity.
  Qed.

  Lemma fe_utf16be_bom b rest rest0 e n :
    2 <= length b -> [xfe; xff] ++ rest0 = b ++ rest ->
    lookup_name (bs "utf-16be") = Some (e, n) -> is_utf8_name n = false ->
    fe b = Some e.
  Proof.
    intros Hb E L U. unfold find_encoding_m. rewrite charset_boms_are.
    destruct b as [|b0 [|b1 b']]; cbn [length] in Hb; try lia. cbn [app] in E; inversion E; subst; clear E.
    remember (bs "utf-8") as l8. remember (bs "utf-16le") as l16l. remember (bs "utf-16be") as l16b.
    cbn. rewrite L. cbn [drop_utf8]. rewrite U. reflexivity.
  Qed.

  Lemma fe_one_byte x : fe [x] = None.
  Proof.
    unfold find_encoding_m. rewrite charset_boms_are. cbn [is_empty find_bom has_prefix].
    rewrite !andb_false_r. rewrite prescan_short by (cbn; lia). reflexivity.
  Qed.

  (* a body that starts with a UTF-16 byte-order mark: transcoded from that UTF-16 flavour when the
     first non-empty read holds at least the two bytes of the mark, left alone when it holds one byte;
     nothing else *)
  Theorem bom_utf16_decided_by_first_read disable sel resp_ce ct chunks eof_last fail takes sizes o
          mark label rest0 e n b :
    In (mark, label) [([xff; xfe], bs "utf-16le"); ([xfe; xff], bs "utf-16be")] ->
    lookup_name label = Some (e, n) -> is_utf8_name n = false ->
    decide disable sel resp_ce ct = ISniff ->
    concat chunks = mark ++ rest0 ->
    first_read sizes (fresh_net chunks eof_last fail) = Some b ->
    respond disable sel resp_ce ct chunks eof_last fail takes sizes = (o, EEOF) ->
    (2 <= length b -> o = dec_all e (concat chunks)) /\ (length b = 1 -> o = concat chunks).
  Proof.
    intros I L U D B F H. apply (respond_exact _ dec_all dec_stream dec_partial fe parse_ct lookup_charset dec_ok) in H.
    rewrite D in H. unfold sniffed in H. rewrite F in H.
    destruct (first_read_prefix _ _ _ F) as [Hb [rest Hr]]. cbn [fresh_net n_chunks] in Hr.
    split.
    - intros Len. destruct I as [I|[I|[]]]; inversion I; subst mark label.
      + rewrite (fe_utf16le_bom b rest rest0 e n Len) in H; auto. congruence.
      + rewrite (fe_utf16be_bom b rest rest0 e n Len) in H; auto. congruence.
    - intros Len. destruct b as [|x [|y b']]; cbn [length] in Len; try lia.
      rewrite fe_one_byte in H. exact H.
  Qed.

End FindProofs.
