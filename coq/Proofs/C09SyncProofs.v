(* Proofs/C09SyncProofs.v - the constants and the lock regions the C09 models assume are the
   ones the Go source has (coq/Gen/C09Sync.v is regenerated from /repo by `harness/c09 gosync`
   on every run; a changed constant or a dropped / weakened lock breaks these proofs). *)
From Coq Require Import List String Bool Arith.
From ReqV Require Import Model.Pool Model.H2Pool Gen.C09Sync.
Import ListNotations.
Open Scope string_scope.

(* every critical section the models treat as one atomic step: function, mutex, exclusive Lock *)
Definition required_lock_sites : list string := [
  (* Model/Pool.v *)
  "req.Transport.tryPutIdleConn|t.idleMu|Lock";
  "req.Transport.queueForIdleConn|t.idleMu|Lock";
  "req.Transport.removeIdleConn|t.idleMu|Lock";
  "req.Transport.CloseIdleConnections|t.idleMu|Lock";
  "req.Transport.queueForDial|t.connsPerHostMu|Lock";
  "req.Transport.decConnsPerHost|t.connsPerHostMu|Lock";
  "req.wantConn.tryDeliver|w.mu|Lock";
  "req.wantConn.cancel|w.mu|Lock";
  (* Model/H2Pool.v *)
  "http2.clientConnPool.GetClientConn|p.mu|Lock";
  "http2.clientConnPool.MarkDead|p.mu|Lock";
  "http2.clientConnPool.CloseIdleConnections|p.mu|Lock";
  "http2.clientConnPool.AddConnIfNeeded|p.mu|Lock";
  "http2.dialCall.dial|c.p.mu|Lock";
  "http2.ClientConn.ReserveNewRequest|cc.mu|Lock";
  "http2.ClientConn.forgetStreamID|cc.mu|Lock";
  "http2.ClientConn.closeIfIdle|cc.mu|Lock";
  "http2.clientStream.writeRequest|cc.mu|Lock";
  (* Model/H3Cache.v *)
  "http3.RoundTripper.getClient|r.mutex|Lock";
  "http3.RoundTripper.removeClient|r.mutex|Lock";
  "http3.RoundTripper.removeClientEntry|r.mutex|Lock";
  "http3.RoundTripper.CloseIdleConnections|r.mutex|Lock";
  (* shared bookkeeping repaired for C09 (race findings) *)
  "http3.RoundTripper.dial|r.transportMu|Lock";
  "req.Transport.checkAltSvc|t.pendingAltSvcsMu|Lock";
  "req.Transport.checkAltSvc|pas.Mu|Lock";
  "req.Transport.handleAltSvc|t.pendingAltSvcsMu|Lock";
  "req.Transport.handlePendingAltSvc|pas.Mu|Lock";
  "altsvc.AltSvcJar.GetAltSvc|j.mu|Lock";
  "altsvc.AltSvcJar.SetAltSvc|j.mu|Lock";
  "dump.Dumper.DumpTo|d.mu|Lock" ].

Definition site_present (r : string) : bool := existsb (String.eqb r) go_lock_sites.

Theorem lock_regions_present : forall r, In r required_lock_sites -> In r go_lock_sites.
Proof.
  assert (H : forallb site_present required_lock_sites = true) by (vm_compute; reflexivity).
  intros r Hr. rewrite forallb_forall in H. specialize (H r Hr). unfold site_present in H.
  apply existsb_exists in H. destruct H as [x [Hx E]]. apply String.eqb_eq in E. subst; auto.
Qed.

(* the guards the models' transitions mirror, as source text: closeIfIdle's "in use" test,
   idleStateLocked (can_take), forgetStreamID's close-on-idle, the reservation decrement, the
   HTTP/3 CloseIdleConnections test, the HTTP/1.1 limits *)
Definition required_guards : list string := [
  "http2.ClientConn.closeIfIdle|len(cc.streams) > 0 || cc.streamsReserved > 0";
  "http2.ClientConn.idleStateLocked|int64(len(cc.streams)+cc.streamsReserved+1) <= int64(cc.maxConcurrentStreams)";
  "http2.ClientConn.idleStateLocked|cc.goAway == nil && !cc.closed && !cc.closing && maxConcurrentOkay && !cc.doNotReuse && int64(cc.nextStreamID)+2*int64(cc.pendingRequests) < math.MaxInt32 && !cc.tooIdleLocked()";
  "http2.ClientConn.ReserveNewRequest|!st.canTakeNewRequest";
  "http2.ClientConn.decrStreamReservationsLocked|cc.streamsReserved > 0";
  "http2.ClientConn.forgetStreamID|closeOnIdle && cc.streamsReserved == 0 && len(cc.streams) == 0";
  "http2.ClientConn.forgetStreamID|cc.singleUse || cc.doNotReuse || cc.t.DisableKeepAlives || cc.goAway != nil";
  "http2.ClientConn.forgetStreamID|len(cc.streams) != slen-1";
  "http3.RoundTripper.CloseIdleConnections|cl.useCount.Load() == 0";
  "req.Transport.queueForDial|n < t.MaxConnsPerHost";
  "req.Transport.queueForDial|t.MaxConnsPerHost <= 0";
  "req.Transport.tryPutIdleConn|len(idles) >= t.maxIdleConnsPerHost()";
  "req.Transport.tryPutIdleConn|t.MaxIdleConns != 0 && t.idleLRU.len() > t.MaxIdleConns";
  "req.Transport.tryPutIdleConn|t.DisableKeepAlives || t.MaxIdleConnsPerHost < 0";
  "req.Transport.tryPutIdleConn|t.closeIdle";
  (* Model/Carried.v: cm_key, should_retry_dial *)
  "req.connectMethod.key|(cm.proxyURL.Scheme == ""http"" || cm.proxyURL.Scheme == ""https"") && cm.targetScheme == ""http""";
  "req.connectMethod.key|cm.proxyURL != nil";
  "http2.shouldRetryDial|call.err == nil";
  "http2.shouldRetryDial|call.ctx == req.Context()";
  "http2.shouldRetryDial|!errors.Is(call.err, context.Canceled) && !errors.Is(call.err, context.DeadlineExceeded)" ].

Theorem guards_present : forall g, In g required_guards -> In g go_guards.
Proof.
  assert (H : forallb (fun g => existsb (String.eqb g) go_guards) required_guards = true)
    by (vm_compute; reflexivity).
  intros g Hg. rewrite forallb_forall in H. specialize (H g Hg).
  apply existsb_exists in H. destruct H as [x [Hx E]]. apply String.eqb_eq in E. subst; auto.
Qed.

Theorem model_constants_agree :
  initial_max_concurrent = go_initialMaxConcurrentStreams /\
  default_max_idle_per_host = go_DefaultMaxIdleConnsPerHost /\
  c_next h2_init 0 = go_firstStreamID /\
  (forall s c, c_next (new_h2conn s c 0) c = go_firstStreamID) /\
  go_streamIDStep = 2.
Proof.
  repeat split; try reflexivity.
  intros s c. unfold new_h2conn. simpl. unfold upd. rewrite Nat.eqb_refl. reflexivity.
Qed.
