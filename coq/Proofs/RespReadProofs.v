(* Proofs/RespReadProofs.v - C03: (1) what the first read of a Response found is what every later
   ToBytes/ToString reports - an error stays an error, it never turns into the fragment with a
   nil error; (2) contradictory Content-Length lines are refused whatever the position of the
   odd one. *)
From ReqV Require Import Lib.Bytes Model.BodyFraming Model.RespRead Model.DupLength.
From Coq Require Import Lia.

Definition first_result (under : bytes * bool) : option bytes :=
  if snd under then Some (fst under) else None.

Lemma reads_settled : forall under n s,
  (snd under = true -> s = mkRs false (Some (fst under))) ->
  (snd under = false -> rs_err s = true) ->
  reads to_bytes under n s = repeat (first_result under) n.
Proof.
  intros [d ok] n. induction n as [|n IH]; intros s H1 H2; [reflexivity|].
  cbn [reads repeat]. unfold to_bytes at 1. cbn [fst snd] in *.
  destruct ok.
  - rewrite (H1 eq_refl). cbn [rs_err rs_body]. rewrite <- (H1 eq_refl).
    rewrite IH by assumption. reflexivity.
  - rewrite (H2 eq_refl). rewrite IH by assumption. reflexivity.
Qed.

(* any number of reads of a fresh Response: all of them report what the first one found *)
Theorem reads_sticky_thm : forall under n,
  reads to_bytes under n rs_init = repeat (first_result under) n.
Proof.
  intros [d ok] [|n]; [reflexivity|].
  cbn [reads repeat]. unfold to_bytes at 1, rs_init. cbn [rs_err rs_body].
  destruct ok; cbn [first_result fst snd].
  - f_equal. apply (reads_settled (d, true)); cbn; [reflexivity|discriminate].
  - f_equal. apply (reads_settled (d, false)); cbn; [discriminate|reflexivity].
Qed.

(* in particular: after a failed read no later read has a nil error *)
Corollary failed_read_stays_failed_thm : forall d n r,
  In r (reads to_bytes (d, false) n rs_init) -> r = None.
Proof.
  intros d n r H. rewrite reads_sticky_thm in H. apply repeat_spec in H. exact H.
Qed.

(* the cached-body check first: the second read of a failed body is the fragment, nil error *)
Lemma cache_first_refuted :
  reads to_bytes_cache_first (bs "hello", false) 3 rs_init = [None; Some (bs "hello"); Some (bs "hello")] /\
  reads to_bytes (bs "hello", false) 3 rs_init = [None; None; None].
Proof. split; reflexivity. Qed.

(* ---------- several Content-Length lines ---------- *)
Theorem cl_lines_contradiction_refused_thm : forall hlen v rest x wire,
  In x rest -> x <> v -> h1_read_cl_lines hlen (v :: rest) wire = CallError.
Proof.
  intros hlen v rest x wire Hin Hne. unfold h1_read_cl_lines, cl_lines_agree.
  destruct (forallb (N.eqb v) rest) eqn:E; [|reflexivity].
  exfalso. rewrite forallb_forall in E. specialize (E x Hin). apply N.eqb_eq in E. congruence.
Qed.

Theorem cl_lines_agreeing_thm : forall hlen v rest wire,
  Forall (eq v) rest -> h1_read_cl_lines hlen (v :: rest) wire = h1_read hlen (FrCL v) wire.
Proof.
  intros hlen v rest wire H. unfold h1_read_cl_lines, cl_lines_agree.
  replace (forallb (N.eqb v) rest) with true; [reflexivity|].
  symmetry. apply forallb_forall. intros x Hx. rewrite Forall_forall in H.
  apply N.eqb_eq. apply H. exact Hx.
Qed.

(* the loop that never looks at the last line accepts 5 then 11 *)
Lemma skip_last_refuted :
  cl_lines_agree_skip_last [5%N; 11%N] = true /\ cl_lines_agree [5%N; 11%N] = false /\
  cl_lines_agree_skip_last [5%N; 11%N; 5%N] = false.
Proof. repeat split. Qed.
